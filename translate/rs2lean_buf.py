#!/usr/bin/env python3
"""rs2lean_buf.py -- regenerate lean/Avt/Gen/{LineGen,BufferGen,VtGen}.lean from /repo/src (run by every check).

    python3 rs2lean_buf.py <repo> <outdir>

Sibling of rs2lean.py (whose lexer, parser, IR and expression compiler it imports and extends).
rs2lean.py ties terminal.rs & co. to the model; this script does the same for

    src/line.rs    ->  Avt/Gen/LineGen.lean    namespace Avt.GenL   (proved equal to the model in Lemmas/GenEqLine.lean)
    src/buffer.rs  ->  Avt/Gen/BufferGen.lean  namespace Avt.GenB   (Rust-shaped buffer, one `lines` vector; simulation with
                                                                     the model's `sb ++ view` in Lemmas/GenEqBuffer.lean)
    src/vt.rs, src/util.rs -> Avt/Gen/VtGen.lean  namespace Avt.GenV  (Lemmas/GenEqVt.lean)

Same rules as rs2lean.py: an explicitly listed subset of Rust plus explicit idiom tables (RS2LEAN_NOTES.md);
anything else makes THAT function untranslated (name + reason in `untranslated`, nothing is emitted, nothing
is guessed); problems that make the run meaningless exit with code 3.  stdlib only; deterministic; files are
written only when their content changed.
"""
import os
import re
import sys

import rs2lean as R
from rs2lean import (N, Val, Tok, unsup, fail, Unsupported, Mismatch, camel, lcfirst, latom, ATOM_RE,
                     is_nat, is_num, Yield, YieldOpt, LetP, BindO, IfIR, MatchIR, RawIR, wrap, bind, simplify,
                     Effects)

# =============================================================================================
# 1. tables

SOURCES = [
    ("src/line.rs", "gen"),
    ("src/buffer.rs", "gen"),
    ("src/vt.rs", "gen"),
    ("src/util.rs", "gen"),
    ("src/terminal.rs", "decl"),
    ("src/terminal/cursor.rs", "decl"),
    ("src/parser.rs", "decl"),
    ("src/charset.rs", "decl"),
    ("src/pen.rs", "decl"),
    ("src/cell.rs", "decl"),
]

# impl owners whose functions are translated here, with the Lean variable that plays `self`
OWNERS = {"Line": "l", "Buffer": "b", "Reflow": "s", "Chunks": "s", "Vt": "v", "TextUnwrapper": "u",
          "TextCollector": "tc"}

# owner -> (namespace, is the owner's name dropped from the Lean name?)
NAMESPACES = {"Line": ("Avt.GenL", True), "Chunks": ("Avt.GenL", False),
              "Buffer": ("Avt.GenB", True), "Reflow": ("Avt.GenB", False), None: ("Avt.GenB", True),
              "Vt": ("Avt.GenV", True), "TextUnwrapper": ("Avt.GenV", False), "TextCollector": ("Avt.GenV", False)}

FILES = [
    # (namespace, file, imports, source files it covers, one-line description)
    ("Avt.GenL", "LineGen.lean", ["Avt.Gen.TerminalGen"], ["src/line.rs"],
     "Avt/Lemmas/GenEqLine.lean proves each of them equal to the model (`Avt.Line.*`)."),
    ("Avt.GenB", "BufferGen.lean", ["Avt.Gen.LineGen"], ["src/buffer.rs"],
     "The buffer is Rust-shaped (ONE `lines` vector whose last `rows` entries are the view); "
     "Avt/Lemmas/GenEqBuffer.lean proves the simulation with the model's `sb ++ view`."),
    ("Avt.GenV", "VtGen.lean", ["Avt.Gen.LineGen", "Avt.Model.Vt"], ["src/vt.rs", "src/util.rs"],
     "Avt/Lemmas/GenEqVt.lean proves each of them equal to the model (`Avt.Vt.*`, `unwrap*`, `TextCollector.*`)."),
]

# structs whose Lean `structure` is EMITTED from the Rust declaration (the model has no structure of that shape)
EMIT_STRUCTS = {"Buffer": "Avt.GenB", "Reflow": "Avt.GenB", "TextUnwrapper": "Avt.GenV", "TextCollector": "Avt.GenV"}

# structs whose fields may be read/written (declaration read from the source; the Lean structure is the model's)
KNOWN_STRUCTS = {"Line", "Buffer", "ScrollbackLimit", "Reflow", "Vt", "Changes", "TextUnwrapper", "TextCollector",
                 "Terminal", "Cursor"}

# type parameters of generic structs / impls: what the parameter is in the model
TYPARAMS = {"Reflow": {"I": ("vec", ("named", "Line"))}}      # an iterator over lines = the list of remaining lines

LEAN_TYPES = dict(R.LEAN_TYPES)
LEAN_TYPES.update({
    "Buffer": "Avt.GenB.Buffer", "ScrollbackLimit": "Avt.Limit", "Reflow": "Avt.GenB.Reflow",
    "Vt": "Avt.Vt", "Changes": "Avt.Changes", "Parser": "Avt.Parser",
    "TextUnwrapper": "Avt.GenV.TextUnwrapper", "TextCollector": "Avt.GenV.TextCollector",
})

FIELD_RENAME = dict(R.FIELD_RENAME)

# calls into objects that are neither translated here nor by rs2lean.py: mapped to the hand-written model
EXT_METHODS = {
    ("Parser", "feed"): dict(lean="Avt.Parser.feed", mut=True, opt=True, args=["v"], ret=("opt", ("named", "Function"))),
    ("Parser", "dump"): dict(lean="Avt.Parser.dump", mut=False, opt=True, args=[], ret=("named", "String")),
    # string formatting, out of scope of both translators: hand-written model, tied by the correspondence check
    ("Terminal", "dump"): dict(lean="Avt.Terminal.dump", mut=False, opt=True, args=[], ret=("named", "String")),
}
EXT_STATICS = {}
EXT_SIGS = {
    ("Parser", "feed"): "&mutself,input:char",
    ("Parser", "dump"): "&self",
    ("Terminal", "dump"): "&self",
}

# type parameters of generic functions / impls, by owner (or free function name)
FN_TYPARAMS = {"Reflow": {"I": ("vec", ("named", "Line")), "Item": ("named", "Line")}, "reflow": {"I": ("vec", ("named", "Line"))}}

# iteration bounds for loops that are not structural (`while let`, `collect()` of a hand-written iterator).  The
# generated loop takes this much fuel and yields `none` when it runs out, so for these functions `none` reads
# "panics OR needs more iterations than the bound"; `some v` always means "the code returns v".  The bounds are
# Lean expressions over the variables in scope at the loop.
FUEL_HINTS = {
    ("Reflow", "next", "whilelet"): "s.iter.length + 1",          # every iteration that continues consumes a line
    ("reflow", "collect"): "Avt.Buffer.reflowFuel iter",           # the model's bound (Lemmas/Reflow.lean: sufficient)
}

# trait impls that are read: Iterator::next as an ordinary function, Index/IndexMut as PLACE functions (inlined)
INDEX_TRAITS = {"Index<usize>": ("usize", False), "Index<Range<usize>>": ("range", False),
                "Index<RangeFull>": ("full", False), "Index<VisualPosition>": ("pair", False),
                "IndexMut<usize>": ("usize", True), "IndexMut<Range<usize>>": ("range", True)}

# functions that return a reference into `self`: never emitted, inlined as places at every use
PLACE_FNS = {("Buffer", "view_mut")}

PRELUDE = '''/-! ### checked primitives for the slice / Vec idioms that the model's `Prim.lean` does not have -/

/-- `&v[a..b]` as a value (also the range check of `v.split_off(a)`, `v.drain(..b)`) -/
def slice {α} (l : List α) (a b : Nat) : Option (List α) :=
  if a ≤ b ∧ b ≤ l.length then some ((l.take b).drop a) else none

/-- `v.insert(i, x)` (`Vec::insert` asserts `i ≤ len`) -/
def insertAt {α} (l : List α) (i : Nat) (x : α) : Option (List α) :=
  if i ≤ l.length then some (l.take i ++ x :: l.drop i) else none

/-- idiom `while !v.is_empty() && p(v[v.len() - 1]) { v.truncate(v.len() - 1) }` -/
def popWhile {α} (p : α → Bool) (l : List α) : List α := (l.reverse.dropWhile p).reverse
'''


def my_lty(ty):
    """Lean type of a Rust type value (extends rs2lean.lty)"""
    if isinstance(ty, tuple):
        if ty[0] == "iter":
            return f"List {latom(my_lty(ty[1]))}"
        if ty == ("named", "str"):
            return "List Nat"
    return _base_lty(ty)


_base_lty = R.lty
TYPE_ALIASES = {}          # filled from `type X = T;` items


# =============================================================================================
# 2. scanner: generic impls of the listed owners, Index impls, `type` aliases

class Scanner2(R.Scanner):
    def __init__(self, toks, file):
        super().__init__(toks, file)
        self.trait_fns = {}        # (owner, trait) -> FnItem   (Index / IndexMut impls)
        self.aliases = {}

    def skip_generics(self, j):
        """j at `<`: index after the matching `>`"""
        t = self.t
        depth = 0
        while True:
            if t[j].kind == "eof":
                fail(self.file, "unbalanced <")
            if t[j].text == "<":
                depth += 1
            elif t[j].text == ">":
                depth -= 1
                if depth == 0:
                    return j + 1
            j += 1

    def items(self, i, end, owner, trait):
        # `type X = T;` at top level
        t = self.t
        if owner is None:
            j = i
            while j < end:
                if t[j].text == "type" and t[j + 1].kind == "ident" and t[j + 2].text == "=":
                    k = j + 3
                    toks = []
                    while t[k].text != ";":
                        toks.append(t[k])
                        k += 1
                    self.aliases[t[j + 1].text] = toks
                if t[j].text == "{" and t[j].kind == "punct":
                    j = self.matching(j)
                j += 1
        return super().items(i, end, owner, trait)

    def struct_item(self, i):
        t = self.t
        name = t[i + 1].text
        j = i + 2
        if t[j].text == "<" and (name in TYPARAMS or name == "Changes"):
            j = self.skip_generics(j)
            while t[j].text not in ("{", ";"):
                j += 1
            if t[j].text != "{":
                fail(self.file, f"struct {name}: unrecognised shape")
            # re-use the named-field reader by temporarily pretending the generics are not there
            saved = t[i + 2:j]
            del t[i + 2:j]
            try:
                r = super().struct_item(i)
            finally:
                t[i + 2:i + 2] = saved
            return r + len(saved)
        return super().struct_item(i)

    def fn_item(self, i, owner, trait, attrs):
        t = self.t
        j = i + 2
        if t[j].text == "<" and owner is None and t[i + 1].text == "reflow":
            # `fn reflow<I: Iterator<Item = Line>>(iter: I, cols: usize) -> Vec<Line>`: the bound is dropped,
            # `I` is the list of remaining lines (TYPARAMS)
            k = self.skip_generics(j)
            saved = t[j:k]
            del t[j:k]
            try:
                r = super().fn_item(i, owner, trait, attrs)
            finally:
                t[j:j] = saved
            return r + len(saved)
        return super().fn_item(i, owner, trait, attrs)

    def impl_item(self, i, attrs):
        t = self.t
        j = i + 1
        if t[j].text == "<":
            j = self.skip_generics(j)
        hdr = []
        while t[j].text != "{":
            hdr.append(t[j].text)
            j += 1
        k = self.matching(j)
        if "where" in hdr:
            hdr = hdr[:hdr.index("where")]
        trait = None
        if "for" in hdr:
            f = hdr.index("for")
            trait = "".join(hdr[:f])
            owner_toks = hdr[f + 1:]
        else:
            owner_toks = hdr
        owner = owner_toks[0] if owner_toks else ""
        if not re.fullmatch(r"\w+", owner) or (len(owner_toks) > 1 and owner_toks[1] != "<"):
            return k + 1
        if trait is None or trait == "Iterator":
            self.items(j + 1, k, owner, None if trait is None else trait)
            return k + 1
        if trait in INDEX_TRAITS and owner in OWNERS:
            sub = Scanner2(t[j + 1:k] + [Tok("eof", "<eof>", t[k].line)], self.file)
            sub.items(0, k - j - 1, owner, trait)
            fns = [f for f in sub.fns if f.name in ("index", "index_mut")]
            if len(fns) != 1:
                fail(self.file, f"impl {trait} for {owner}: expected exactly one index function")
            self.trait_fns[(owner, trait)] = fns[0]
            return k + 1
        return k + 1           # Debug, PartialEq, Default, ...: not translated, not counted


# =============================================================================================
# 3. parser extensions

_BaseParser = R.Parser


class Parser2(_BaseParser):
    typarams = {}

    def ty0(self):
        c = self.cur
        if c.kind == "ident" and c.text in ("impl", "dyn"):
            # `impl Iterator<Item = T> + '_`, `dyn Iterator<Item = T> + 'a`: the list of items
            self.i += 1
            if not (self.at("Iterator") and self.peek().text == "<" and self.peek(2).text == "Item"
                    and self.peek(3).text == "="):
                unsup(f"line {c.line}: unsupported `{c.text}` type")
            self.i += 4
            el = self.ty()
            self.expect(">")
            while self.eat("+"):
                if self.cur.kind != "lifetime":
                    unsup(f"line {c.line}: unsupported bound in `{c.text}` type")
                self.i += 1
            return ("vec", el)
        if c.kind == "ident" and c.text == "Box" and self.peek().text == "<" and self.peek(2).text == "dyn":
            self.i += 2
            el = self.ty()
            self.expect(">")
            return el
        r = _BaseParser.ty(self)
        if r == ("named", "str"):
            return ("named", "String")
        if isinstance(r, tuple) and r[0] == "named" and r[1] in TYPE_ALIASES:
            return TYPE_ALIASES[r[1]]
        return r

    def unary(self, ns):
        c = self.cur
        if c.kind == "punct" and c.text in ("&", "&&"):
            self.i += 1
            m = self.eat("mut")
            return N("un", c.line, op="&", e=self.unary(ns), mut=m)
        return super().unary(ns)

    def primary(self, ns):
        c = self.cur
        if c.kind == "ident" and c.text == "assert" and self.peek().text == "!" and self.peek(2).text == "(":
            self.i += 2
            args = self.args()
            if len(args) != 1:
                unsup(f"line {c.line}: assert! with a message")
            return N("assert", c.line, cond=args[0])
        return super().primary(ns)

    def ty(self):
        r = self.ty0()
        tp = Parser2.typarams
        if isinstance(r, tuple) and r[0] == "named" and r[1] in tp:
            return tp[r[1]]
        return r

    def loop_stmt(self):
        c = self.cur
        if not self.at("while"):
            unsup(f"line {c.line}: `{c.text}` loops are outside the subset")
        self.i += 1
        if self.at("let"):
            self.i += 1
            pat = self.pattern()
            self.expect("=")
            scrut = self.expr(no_struct=True)
            body = self.block()
            return N("whilelet", c.line, pat=pat, scrut=scrut, body=body)
        cond = self.expr(no_struct=True)
        body = self.block()
        return N("while", c.line, cond=cond, body=body)


# =============================================================================================
# 4. places

class Pl:
    """a place (lvalue).  kind:
         'self'   root `self` of the function, `.fields` path below it
         'local'  a local variable, `.name` (rust) and `.fields` path below it
         'elem'   element `.idx` (Lean text) of the list place `.base`, `.fields` path inside the element;
                  `.var` Lean variable holding the element once it has been read (the index is then known valid)
         'window' sub-slice `.lo .. .hi` (Lean texts, hi None = up to the end) of the list place `.base`
    """

    def __init__(self, kind, ty, **kw):
        self.kind = kind
        self.ty = ty
        self.fields = []
        self.var = None
        self.__dict__.update(kw)

    def sub(self, name, ty):
        p = Pl(self.kind, ty)
        p.__dict__.update({k: v for k, v in self.__dict__.items() if k not in ("ty", "fields")})
        p.fields = self.fields + [name]
        p.parent = self
        return p


class Ctx2(R.Ctx):
    def __init__(self, *a):
        super().__init__(*a)
        self.aliases = {}         # rust local -> Pl it was borrowed from (`let x = &mut place`)
        self.vals = {}            # rust local -> Val (keeps the components of tuple / range arguments of inlined fns)
        self.self_alias = None    # inside an inlined place function: the place that plays `self`
        self.vectypes = {}

    def child(self, eff=None):
        c = super().child(eff)
        c.__class__ = Ctx2
        c.aliases = dict(self.aliases)
        c.vals = dict(self.vals)
        c.self_alias = self.self_alias
        c.vectypes = self.vectypes
        if hasattr(self, "fn_finish"):
            c.fn_finish = self.fn_finish
        return c


def is_list_ty(ty):
    return (isinstance(ty, tuple) and ty[0] in ("vec", "iter")) or ty == ("named", "String") or ty == ("optiter",)


def elem_ty(ty):
    if ty == ("named", "String"):
        return "char"
    if ty == ("optiter",):
        return ("named", "Line")
    return ty[1]


def contains_return(node):
    """does the AST contain a `return` statement (outside closures)?"""
    if isinstance(node, N):
        if node.kind == "return":
            return True
        if node.kind == "closure":
            return False
        return any(contains_return(v) for k, v in node.__dict__.items() if k not in ("kind", "line"))
    if isinstance(node, (list, tuple)):
        return any(contains_return(x) for x in node)
    return False


def ast_eq(a, b):
    if isinstance(a, N) and isinstance(b, N):
        if a.kind != b.kind:
            return False
        ka = {k: v for k, v in a.__dict__.items() if k not in ("line",)}
        kb = {k: v for k, v in b.__dict__.items() if k not in ("line",)}
        return ka.keys() == kb.keys() and all(ast_eq(ka[k], kb[k]) for k in ka)
    if isinstance(a, (list, tuple)) and isinstance(b, (list, tuple)):
        return len(a) == len(b) and all(ast_eq(x, y) for x, y in zip(a, b))
    return a == b


def ast_subst(node, target, repl):
    """replace every sub-tree equal to `target` by `repl`; returns (new node, number of replacements)"""
    if isinstance(node, N):
        if ast_eq(node, target):
            return repl, 1
        cnt = 0
        new = N(node.kind, node.line)
        for k, v in node.__dict__.items():
            if k in ("kind", "line"):
                continue
            nv, c = ast_subst(v, target, repl)
            cnt += c
            setattr(new, k, nv)
        return new, cnt
    if isinstance(node, list):
        out, cnt = [], 0
        for x in node:
            nx, c = ast_subst(x, target, repl)
            out.append(nx)
            cnt += c
        return out, cnt
    if isinstance(node, tuple):
        out, cnt = [], 0
        for x in node:
            nx, c = ast_subst(x, target, repl)
            out.append(nx)
            cnt += c
        return tuple(out), cnt
    return node, 0


def strip_ref(e):
    while e.kind in ("paren",) or (e.kind == "un" and e.op in ("&", "*")):
        e = e.e
    return e


# =============================================================================================
# 5. compiler extensions

class Compiler2(R.Compiler):

    # ---------------------------------------------------------------- hooks
    def ret_type(self, item):
        toks = item.ret
        if not toks:
            return "unit"
        return Parser2(toks).ty()

    def lean_name_for(self, item):
        base = camel(R.FN_RENAME.get(item.name, item.name))
        if item.owner not in NAMESPACES:
            unsup(f"no namespace for owner {item.owner}")
        ns, drop = NAMESPACES[item.owner]
        return f"{ns}.{base}" if drop else f"{ns}.{item.owner}.{base}"

    def compile(self, item):
        if item.key in PLACE_FNS:
            unsup("place function (returns a reference into `self`): inlined at every use")
        self.aux = []
        self.cur_inlined = set()
        self.loop_count = 0
        Parser2.typarams = FN_TYPARAMS.get(item.owner if item.owner is not None else item.name, {})
        try:
            g = super().compile(item)
        finally:
            Parser2.typarams = {}
        g.aux = self.aux
        self.aux = []
        self.tr.inlined_used |= self.cur_inlined
        return g

    def check_ret(self, v, ret, item):
        def compat(a, b):
            """a: type of the value, b: declared type; unknown element types (`None`, `Vec::new()`) are wildcards"""
            if a is None:
                return True
            if a == "num" and is_num(b):
                return True
            if isinstance(a, tuple) and isinstance(b, tuple) and a and b:
                if a[0] == b[0] == "tuple":
                    return len(a[1]) == len(b[1]) and all(compat(x, y) for x, y in zip(a[1], b[1]))
                if a[0] in ("opt",) and b[0] == "opt":
                    return compat(a[1], b[1])
                if is_list_ty(a) and is_list_ty(b):
                    return compat(elem_ty(a), elem_ty(b))
            return R.lty_safe(a) is not None and R.lty_safe(a) == R.lty_safe(b)
        if not compat(v.ty, ret):
            unsup(f"result of type {v.ty!r} where the signature says {ret!r}")

    # ---------------------------------------------------------------- struct paths
    def with_path(self, base, ty, fields, value, line):
        """Lean text of the value `base : ty` with the path `fields` below it replaced by `value`"""
        if not fields:
            return value
        f = fields[0]
        if isinstance(ty, tuple) and ty[0] == "named":
            s = ty[1]
            if s in R.NEWTYPES and fields == ["0"]:
                return value
            ft = self.struct_fields(s)
            if ft is None or f not in ft:
                unsup(f"line {line}: cannot assign to field `{f}` of {ty!r}")
            lf = R.FIELD_RENAME.get((s, f), camel(f))
            inner = self.with_path(f"{latom(base)}.{lf}", ft[f], fields[1:], value, line)
            return f"{{ {base} with {lf} := {inner} }}"
        if isinstance(ty, tuple) and ty[0] == "tuple" and len(ty[1]) == 2 and f in ("0", "1"):
            i = int(f)
            inner = self.with_path(f"{latom(base)}.{i + 1}", ty[1][i], fields[1:], value, line)
            return f"({inner}, {latom(base)}.2)" if i == 0 else f"({latom(base)}.1, {inner})"
        unsup(f"line {line}: cannot assign to field `{f}` of {ty!r}")

    def apply_fields(self, v, fields, line):
        for f in fields:
            v = self.field(v, f, line)
        return v

    def field(self, v, name, line):
        if isinstance(v.ty, tuple) and v.ty[0] == "range" and name in ("start", "end"):
            return super().field(v, "0" if name == "start" else "1", line)
        return super().field(v, name, line)

    def resolve_variant(self, ctx, path, line, expected=None):
        if len(path) == 1 and path[0] in ("Less", "Equal", "Greater") and "Ordering" in ctx.uses:
            return "Ordering", path[0], []
        return super().resolve_variant(ctx, path, line, expected)

    # ---------------------------------------------------------------- places
    def place_of(self, e, ctx, pre, mutable=False):
        """the place denoted by e, or None when e is not a place expression of the supported forms"""
        line = R.line_of(e)
        if e.kind == "paren" or (e.kind == "un" and e.op in ("&", "*")):
            return self.place_of(e.e, ctx, pre, mutable or getattr(e, "mut", False))
        if e.kind == "path":
            if e.path == ["self"]:
                if ctx.self_alias is not None:
                    return ctx.self_alias
                if ctx.selfvar is None:
                    return None
                return Pl("self", ("named", ctx.owner))
            if len(e.path) == 1 and e.path[0] in ctx.env:
                return Pl("local", ctx.env[e.path[0]][1], name=e.path[0])
            return None
        if e.kind == "field":
            b = self.place_of(e.e, ctx, pre, mutable)
            if b is None or b.kind == "window":
                return None
            ty = b.ty
            if isinstance(ty, tuple) and ty[0] == "named":
                ft = self.struct_fields(ty[1])
                if ty[1] in R.NEWTYPES and e.name == "0":
                    return b.sub("0", R.NEWTYPES[ty[1]])
                if ft is None or e.name not in ft:
                    unsup(f"line {line}: struct {ty[1]} has no (readable) field `{e.name}`")
                return b.sub(e.name, ft[e.name])
            if isinstance(ty, tuple) and ty[0] == "tuple" and e.name in ("0", "1") and len(ty[1]) == 2:
                return b.sub(e.name, ty[1][int(e.name)])
            return None
        if e.kind == "index":
            b = self.place_of(e.e, ctx, pre, mutable)
            if b is None:
                return None
            return self.index_place(b, e.ix, ctx, pre, mutable, line)
        if e.kind == "mcall":
            # `v.last_mut().unwrap()`
            if e.name == "unwrap" and not e.args and e.recv.kind == "mcall" and e.recv.name in ("last_mut", "last") \
                    and not e.recv.args:
                b = self.place_of(e.recv.recv, ctx, pre, mutable)
                if b is None or not (isinstance(b.ty, tuple) and b.ty[0] == "vec"):
                    return None
                L = self.read(b, ctx, pre, line)
                x = ctx.fresh()
                pre.append(("bind", x, f"Avt.csub {self.len_text(L)} 1"))      # `None.unwrap()` on an empty vector
                return Pl("elem", b.ty[1], base=b, idx=x)
            # methods that return a reference into their receiver: inlined
            b = self.place_of(e.recv, ctx, pre, mutable)
            if b is None:
                return None
            if isinstance(b.ty, tuple) and b.ty[0] == "named":
                key = (b.ty[1], e.name)
                it = self.tr.all_items.get(key)
                if it is not None and it.ret and it.ret[0].text == "&":
                    return self.inline_place_fn(it, b, e.args, ctx, pre, mutable, line)
            return None
        return None

    def len_text(self, L):
        return f"{L.a}.length" if ATOM_RE.fullmatch(L.a) else f"List.length {L.a}"

    def index_place(self, b, ix, ctx, pre, mutable, line):
        ty = b.ty
        if isinstance(ty, tuple) and ty[0] == "named" and ty[1] in OWNERS:
            # Index / IndexMut impl of a translated type: inlined
            s = ty[1]
            iv = self.cexpr(ix, ctx, pre, "usize")
            if iv.ty in ("usize", "num"):
                kind = "usize"
            elif isinstance(iv.ty, tuple) and iv.ty[0] == "range":
                kind = "full" if iv.extra == "full" else "range"
            elif isinstance(iv.ty, tuple) and iv.ty[0] == "tuple" and len(iv.ty[1]) == 2:
                kind = "pair"
            else:
                unsup(f"line {line}: index of type {iv.ty!r} on {s}")
            cands = [(tr, it) for (o, tr), it in sorted(self.tr.trait_fns.items())
                     if o == s and INDEX_TRAITS[tr][0] == kind]
            pick = [c for c in cands if INDEX_TRAITS[c[0]][1] == mutable] or [c for c in cands if not INDEX_TRAITS[c[0]][1]]
            if mutable and pick and not INDEX_TRAITS[pick[0][0]][1]:
                unsup(f"line {line}: mutable index on {s} without an IndexMut impl")
            if not pick:
                unsup(f"line {line}: {s} has no Index impl for this index type")
            tr_name, it = pick[0]
            r = self.inline_place_fn(it, b, [iv], ctx, pre, mutable, line)
            self.cur_inlined.add(f"<{s} as {tr_name}>::{it.name}")
            return r
        if b.kind == "window":
            iv = self.cexpr(ix, ctx, pre, "usize")
            if isinstance(iv.ty, tuple) and iv.ty[0] == "range":
                if b.hi is not None:
                    unsup(f"line {line}: sub-slice of a bounded slice")
                if iv.extra == "full":
                    return b
                lo, hi = self.field(iv, "0", line), self.field(iv, "1", line)
                return Pl("window", b.ty, base=b.base, lo=self.plus(b.lo, lo.a), hi=self.plus(b.lo, hi.a))
            if iv.ty in ("usize", "num"):
                if b.hi is not None:
                    unsup(f"line {line}: element of a bounded slice")
                return Pl("elem", b.ty[1], base=b.base, idx=self.plus(b.lo, iv.a))
            unsup(f"line {line}: index of type {iv.ty!r} on a slice")
        if is_list_ty(ty):
            rng = ix
            if rng.kind == "range":
                lo = self.cexpr(rng.lo, ctx, pre, "usize").a if rng.lo is not None else "0"
                hi = self.cexpr(rng.hi, ctx, pre, "usize").a if rng.hi is not None else None
                return Pl("window", ("vec", elem_ty(ty)), base=b, lo=lo, hi=hi)
            iv = self.cexpr(ix, ctx, pre, "usize")
            if isinstance(iv.ty, tuple) and iv.ty[0] == "range":
                if iv.extra == "full":
                    return Pl("window", ("vec", elem_ty(ty)), base=b, lo="0", hi=None)
                lo, hi = self.field(iv, "0", line), self.field(iv, "1", line)
                return Pl("window", ("vec", elem_ty(ty)), base=b, lo=lo.a, hi=hi.a)
            if iv.ty in ("usize", "num"):
                return Pl("elem", elem_ty(ty), base=b, idx=iv.a)
            unsup(f"line {line}: index of type {iv.ty!r} on a vector")
        return None

    def plus(self, a, b):
        if a == "0":
            return b
        if b == "0":
            return a
        return f"{a} + {b}"

    def inline_place_fn(self, it, recv_pl, args, ctx, pre, mutable, line):
        """a function whose result is a reference into its receiver, expanded at the call site.
        Its body may only consist of `let`s and a tail expression that is a place."""
        self_mode, params = Parser2(it.params).params() if it.params else (None, [])
        if self_mode not in ("ref", "mut"):
            unsup(f"line {line}: {it.qname}: place function without `&self`")
        if len(params) != len(args):
            unsup(f"line {line}: {it.qname}: wrong number of arguments")
        c = ctx.child()
        c.env = {}
        c.vals = {}
        c.aliases = {}
        c.self_alias = recv_pl
        c.owner = it.owner
        c.inline_of = it.qname
        for (pat, pty), a in zip(params, args):
            v = a if isinstance(a, Val) else self.cexpr(a, ctx, pre, pty)
            if pat.kind == "ppath" and pat.args is None and len(pat.path) == 1:
                c.env[pat.path[0]] = (v.lean, v.ty)
                c.vals[pat.path[0]] = v
            elif pat.kind == "ptuple" and v.parts and len(v.parts) == len(pat.parts):
                for q, pv in zip(pat.parts, v.parts):
                    if not (q.kind == "ppath" and q.args is None and len(q.path) == 1):
                        unsup(f"line {line}: {it.qname}: unsupported parameter pattern")
                    c.env[q.path[0]] = (pv.lean, pv.ty)
                    c.vals[q.path[0]] = pv
            else:
                unsup(f"line {line}: {it.qname}: unsupported parameter pattern")
        body = Parser2(it.body).block_body(None)
        for s in body.stmts:
            if s.kind != "let" or not (s.pat.kind == "ppath" and s.pat.args is None and len(s.pat.path) == 1):
                unsup(f"line {s.line}: {it.qname}: only `let x = e;` is allowed in a place function")
            v = self.cexpr(s.init, c, pre, s.ty)
            nm = ctx.fresh(camel(s.pat.path[0]))
            pre.append(("let", nm, self.value_text(v)))
            c.env[s.pat.path[0]] = (nm, "usize" if v.ty == "num" else v.ty)
        if body.tail is None:
            unsup(f"line {line}: {it.qname}: place function without result")
        pl = self.place_of(body.tail, c, pre, mutable)
        if pl is None:
            unsup(f"line {line}: {it.qname}: the result is not a place expression")
        if it.trait is None:
            self.cur_inlined.add(it.qname)
        return pl

    def read(self, pl, ctx, pre, line):
        """value currently stored at the place"""
        if pl.kind == "self":
            v = Val(ctx.selfvar, ("named", ctx.gen.owner))
            return self.apply_fields(v, pl.fields, line)
        if pl.kind == "local":
            if pl.name in ctx.vals and not pl.fields:
                return ctx.vals[pl.name]
            lean, ty = ctx.env[pl.name]
            return self.apply_fields(Val(lean, ty, kind="bool" if ty == "bool" else None), pl.fields, line)
        if pl.kind == "elem":
            root = pl
            while getattr(root, "parent", None) is not None and root.fields:
                root = root.parent
            if root.var is None:
                L = self.read(root.base, ctx, pre, line)
                x = ctx.fresh()
                pre.append(("bind", x, f"{L.a}[{root.idx}]?"))
                root.var = x
                root.valid = True
            pl.var = root.var
            return self.apply_fields(Val(root.var, root.ty if not root.fields else None), pl.fields, line) \
                if not root.fields else unsup("internal: elem root with fields")
        if pl.kind == "window":
            L = self.read(pl.base, ctx, pre, line)
            if pl.lo == "0" and pl.hi is None:
                return Val(L.lean, pl.ty)
            y = ctx.fresh()
            hi = pl.hi if pl.hi is not None else self.len_text(L)
            pre.append(("bind", y, f"Avt.GenL.slice {L.a} {latom(pl.lo)} {latom(hi)}"))
            return Val(y, pl.ty)
        unsup(f"line {line}: internal: unknown place kind {pl.kind}")

    def elem_root(self, pl):
        root = pl
        while root.fields:
            root = root.parent
        return root

    def write(self, pl, ctx, pre, text, line):
        """store the Lean value `text` at the place"""
        if pl.kind == "self":
            if ctx.gen.self_mode != "mut":
                unsup("mutation of `self` in a function that does not take `&mut self`")
            ctx.eff.mut_self = True
            owner_ty = ("named", ctx.gen.owner)
            pre.append(("let", ctx.selfvar, self.with_path(ctx.selfvar, owner_ty, pl.fields, text, line)))
            return
        if pl.kind == "local":
            lean, ty = ctx.env[pl.name]
            if not re.fullmatch(r"[\w']+", lean):
                unsup(f"line {line}: assignment to `{pl.name}`")
            ctx.assign_local(pl.name)
            pre.append(("let", lean, self.with_path(lean, ty, pl.fields, text, line)))
            if pl.name in ctx.aliases:
                self.write(ctx.aliases[pl.name], ctx, pre, lean, line)
            return
        if pl.kind == "elem":
            root = self.elem_root(pl)
            L = self.read(root.base, ctx, pre, line)
            if pl.fields:
                cur = self.read(root, ctx, pre, line)
                L = self.read(root.base, ctx, pre, line)
                new = self.with_path(cur.lean, root.ty, pl.fields, text, line)
            else:
                new = text
            if getattr(root, "valid", False):
                # the index was valid when the element was read: the write cannot fail
                self.write(root.base, ctx, pre, f"List.set {L.a} {latom(root.idx)} {latom(new)}", line)
                root.var = None
            else:
                y = ctx.fresh()
                pre.append(("bind", y, f"Avt.setAt {L.a} {latom(root.idx)} {latom(new)}"))
                self.write(root.base, ctx, pre, y, line)
            return
        unsup(f"line {line}: cannot assign to a {pl.kind} place")

    # ---------------------------------------------------------------- expressions
    def e_path(self, e, ctx, pre, expect):
        p = e.path
        if p == ["self"] and ctx.self_alias is not None:
            return self.read(ctx.self_alias, ctx, pre, e.line)
        if len(p) == 1 and p[0] in ctx.vals:
            return ctx.vals[p[0]]
        return super().e_path(e, ctx, pre, expect)

    def e_un(self, e, ctx, pre, expect):
        if e.op == "&" and strip_ref(e).kind == "index":
            pl = self.place_of(e, ctx, pre)
            if pl is not None:
                return self.read(pl, ctx, pre, e.line)
        return super().e_un(e, ctx, pre, expect)

    def e_index(self, e, ctx, pre, expect):
        b = strip_ref(e.e)
        pre2 = []
        try:
            pl = self.place_of(e, ctx, pre2)
        except Unsupported:
            raise
        if pl is not None:
            pre.extend(pre2)
            return self.read(pl, ctx, pre, e.line)
        return super().e_index(e, ctx, pre, expect)

    def e_field(self, e, ctx, pre, expect):
        b = strip_ref(e.e)
        if b.kind in ("index", "mcall"):
            pre2 = []
            pl = self.place_of(e, ctx, pre2)
            if pl is not None:
                pre.extend(pre2)
                return self.read(pl, ctx, pre, e.line)
        return super().e_field(e, ctx, pre, expect)

    def e_closure(self, e, ctx, pre, expect):
        unsup(f"line {e.line}: closure outside the iterator / Option idioms")

    def e_call(self, e, ctx, pre, expect):
        p = e.path
        if p in (["Vec", "new"], ["String", "new"]) and not e.args:
            if p[0] == "String":
                return Val("[]", ("named", "String"))
            ety = expect[1] if isinstance(expect, tuple) and expect[0] == "vec" else None
            return Val("[]", ("vec", ety))
        if p[-2:] == ["iter", "repeat"] and len(e.args) == 1:
            x = self.cexpr(e.args[0], ctx, pre)
            return Val(latom(self.value_text(x)), ("repeat", x.ty))
        if p[-2:] == ["mem", "take"] and len(e.args) == 1:
            a = e.args[0]
            if not (a.kind == "un" and a.op == "&" and getattr(a, "mut", False)):
                unsup(f"line {e.line}: mem::take argument is not `&mut place`")
            pl = self.place_of(a.e, ctx, pre, True)
            if pl is None or not is_list_ty(pl.ty):
                unsup(f"line {e.line}: mem::take of something that is not a Vec / String place")
            cur = self.read(pl, ctx, pre, e.line)
            x = ctx.fresh()
            pre.append(("let", x, cur.lean))
            self.write(pl, ctx, pre, "[]", e.line)
            return Val(x, pl.ty)
        return super().e_call(e, ctx, pre, expect)

    def call_gen_pl(self, ctx, pre, g, pl, args, line):
        """call of a generated method whose receiver is a place"""
        if len(args) != len(g.shapes):
            unsup(f"line {line}: wrong number of arguments for {g.item.qname}")
        flat = []
        for a, n in zip(args, g.shapes):
            if n == 1:
                flat.append(a)
            else:
                while a.kind == "paren":
                    a = a.e
                if a.kind != "tuple" or len(a.parts) != n:
                    unsup(f"line {line}: tuple parameter of {g.item.qname} needs a tuple literal argument")
                flat += a.parts
        ptys = [p[2] for p in g.params][1:]
        vs = [self.cexpr(a, ctx, pre, pty) for a, pty in zip(flat, ptys)]
        for v, pty in zip(vs, ptys):
            if not (v.ty == pty or (is_num(v.ty) and is_num(pty) and (v.ty == "num" or R.lty(v.ty) == R.lty(pty)))
                    or R.lty_safe(v.ty) == R.lty_safe(pty)):
                unsup(f"line {line}: argument of type {v.ty!r} for parameter of type {pty!r} of {g.item.qname}")
        recv = self.read(pl, ctx, pre, line)
        text = g.lean_name + " " + recv.a + "".join(" " + latom(self.value_text(v)) for v in vs)
        kind = "bool" if g.ret == "bool" else None
        if g.self_mode == "mut":
            if g.ret == "unit":
                x = ctx.fresh()
                pre.append(("bind" if g.opt else "let", x, text))
                self.write(pl, ctx, pre, x, line)
                return Val("()", "unit")
            x, y = ctx.fresh(), ctx.fresh()
            pre.append(("bind" if g.opt else "let", f"({y}, {x})", text))
            self.write(pl, ctx, pre, y, line)
            return Val(x, g.ret, kind)
        if g.opt:
            x = ctx.fresh()
            pre.append(("bind", x, text))
            return Val(x, g.ret, kind)
        return Val(text, g.ret, kind)

    VEC_MUT_IDIOMS = ("push", "clear", "truncate", "extend", "split_off", "drain", "insert", "rotate_left",
                      "rotate_right", "fill", "push_str", "reserve", "take", "next")

    def e_mcall(self, e, ctx, pre, expect):
        name, line = e.name, e.line
        recv = strip_ref(e.recv)
        # ---- (1) idioms on list places (Vec / String / slices of them)
        if name in self.VEC_MUT_IDIOMS:
            pre2 = []
            pl = self.place_of(e.recv, ctx, pre2, True)
            if pl is not None and (pl.kind == "window" or is_list_ty(pl.ty)
                                   or (name == "take" and isinstance(pl.ty, tuple) and pl.ty[0] == "opt")):
                pre.extend(pre2)
                return self.list_idiom(pl, e, ctx, pre)
        # ---- (2) methods of translated types on places that the base compiler does not know
        pre2 = []
        pl = None
        if recv.kind in ("index", "path", "field", "mcall") and not (recv.kind == "path" and recv.path == ["self"]
                                                                       and ctx.self_alias is None):
            try:
                pl = self.place_of(e.recv, ctx, pre2, True)
            except Unsupported:
                pl = None
                pre2 = []
        if pl is not None and pl.kind != "window" and isinstance(pl.ty, tuple) and pl.ty[0] == "named":
            s = pl.ty[1]
            if (s, name) in self.tr.items and not (pl.kind == "self" and ctx.self_alias is None):
                g = self.tr.get(s, name)
                if g.self_mode is None:
                    unsup(f"line {line}: {s}::{name} is not a method")
                pre.extend(pre2)
                return self.call_gen_pl(ctx, pre, g, pl, e.args, line)
        # ---- (3) everything else
        return super().e_mcall(e, ctx, pre, expect)

    def list_idiom(self, pl, e, ctx, pre):
        name, line = e.name, e.line
        if name == "reserve" and len(e.args) == 1:
            pre2 = []
            v = self.cexpr(e.args[0], ctx, pre2)        # capacity is not modelled
            if pre2:
                unsup(f"line {line}: `reserve` with an argument that can panic")
            return Val("()", "unit", extra="noop")
        if name == "take" and not e.args:
            # Option::take
            cur = self.read(pl, ctx, pre, line)
            x = ctx.fresh()
            pre.append(("let", x, cur.lean))
            self.write(pl, ctx, pre, "none", line)
            return Val(x, pl.ty)
        if name == "next" and not e.args and isinstance(pl.ty, tuple) and pl.ty[0] == "vec":
            # `Iterator::next` on an iterator that is modelled as the list of its remaining items
            L = self.read(pl, ctx, pre, line)
            x = ctx.fresh()
            pre.append(("let", x, f"List.head? {L.a}"))
            self.write(pl, ctx, pre, f"List.tail {L.a}", line)
            return Val(x, ("opt", pl.ty[1]))
        if name == "next":
            unsup(f"line {line}: `.next()` on a place of type {pl.ty!r}")
        if pl.kind == "window":
            base = pl.base
            L = self.read(base, ctx, pre, line)
            hi = pl.hi if pl.hi is not None else self.len_text(L)
            if name == "fill" and len(e.args) == 1:
                x = latom(self.value_text(self.cexpr(e.args[0], ctx, pre)))
                L = self.read(base, ctx, pre, line)
                if pl.lo == "0" and pl.hi is None:
                    self.write(base, ctx, pre, f"List.map (fun _ => {x}) {L.a}", line)
                    return Val("()", "unit")
                y = ctx.fresh()
                pre.append(("bind", y, f"Avt.fillRange {L.a} {latom(pl.lo)} {latom(hi)} {x}"))
                self.write(base, ctx, pre, y, line)
                return Val("()", "unit")
            if name in ("rotate_left", "rotate_right") and len(e.args) == 1:
                n = self.cexpr(e.args[0], ctx, pre, "usize")
                L = self.read(base, ctx, pre, line)
                y = ctx.fresh()
                fn = "Avt.rotLRange" if name == "rotate_left" else "Avt.rotRRange"
                pre.append(("bind", y, f"{fn} {L.a} {latom(pl.lo)} {latom(hi)} {n.a}"))
                self.write(base, ctx, pre, y, line)
                return Val("()", "unit")
            unsup(f"line {line}: unsupported method `.{name}` on a slice")
        ety = elem_ty(pl.ty)
        if name in ("rotate_left", "rotate_right") and len(e.args) == 1:
            n = self.cexpr(e.args[0], ctx, pre, "usize")
            L = self.read(pl, ctx, pre, line)
            y = ctx.fresh()
            fn = "Avt.rotLRange" if name == "rotate_left" else "Avt.rotRRange"
            pre.append(("bind", y, f"{fn} {L.a} 0 {self.len_text(L)} {n.a}"))
            self.write(pl, ctx, pre, y, line)
            return Val("()", "unit")
        if name == "push" and len(e.args) == 1:
            v = self.cexpr(e.args[0], ctx, pre, ety)
            if ety is None and pl.kind == "local" and not pl.fields:
                lean, _ = ctx.env[pl.name]
                ctx.env[pl.name] = (lean, ("vec", v.ty))
                ctx.vectypes[pl.name] = ("vec", v.ty)
            L = self.read(pl, ctx, pre, line)
            self.write(pl, ctx, pre, f"{L.a} ++ [{self.value_text(v)}]", line)
            return Val("()", "unit")
        if name == "push_str" and len(e.args) == 1 and pl.ty == ("named", "String"):
            v = self.cexpr(e.args[0], ctx, pre)
            if not is_list_ty(v.ty):
                unsup(f"line {line}: push_str of {v.ty!r}")
            L = self.read(pl, ctx, pre, line)
            self.write(pl, ctx, pre, f"{L.a} ++ {v.a}", line)
            return Val("()", "unit")
        if name == "clear" and not e.args:
            self.write(pl, ctx, pre, "[]", line)
            return Val("()", "unit")
        if name == "truncate" and len(e.args) == 1:
            n = self.cexpr(e.args[0], ctx, pre, "usize")
            L = self.read(pl, ctx, pre, line)
            self.write(pl, ctx, pre, f"List.take {n.a} {L.a}", line)
            return Val("()", "unit")
        if name == "extend" and len(e.args) == 1:
            v = self.cexpr(e.args[0], ctx, pre)
            L = self.read(pl, ctx, pre, line)
            if is_list_ty(v.ty):
                self.write(pl, ctx, pre, f"{L.a} ++ {v.a}", line)
            elif isinstance(v.ty, tuple) and v.ty[0] == "opt":
                self.write(pl, ctx, pre, f"{L.a} ++ Option.toList {v.a}", line)
            else:
                unsup(f"line {line}: Vec::extend with an argument of type {v.ty!r}")
            return Val("()", "unit")
        if name == "split_off" and len(e.args) == 1:
            n = self.cexpr(e.args[0], ctx, pre, "usize")
            L = self.read(pl, ctx, pre, line)
            x = ctx.fresh()
            pre.append(("bind", x, f"Avt.GenL.slice {L.a} {n.a} {self.len_text(L)}"))   # asserts `at <= len`
            self.write(pl, ctx, pre, f"List.take {n.a} {L.a}", line)
            return Val(x, ("vec", ety))
        if name == "drain" and len(e.args) == 1 and e.args[0].kind == "range" and e.args[0].lo is None:
            L = self.read(pl, ctx, pre, line)
            if e.args[0].hi is None:
                x = ctx.fresh()
                pre.append(("let", x, L.lean))
                self.write(pl, ctx, pre, "[]", line)
                return Val(x, ("vec", ety))
            n = self.cexpr(e.args[0].hi, ctx, pre, "usize")
            L = self.read(pl, ctx, pre, line)
            x = ctx.fresh()
            pre.append(("bind", x, f"Avt.GenL.slice {L.a} 0 {n.a}"))      # asserts `end <= len`
            self.write(pl, ctx, pre, f"List.drop {n.a} {L.a}", line)
            return Val(x, ("vec", ety))
        if name == "insert" and len(e.args) == 2:
            i = self.cexpr(e.args[0], ctx, pre, "usize")
            v = self.cexpr(e.args[1], ctx, pre, ety)
            L = self.read(pl, ctx, pre, line)
            y = ctx.fresh()
            pre.append(("bind", y, f"Avt.GenL.insertAt {L.a} {i.a} {latom(self.value_text(v))}"))
            self.write(pl, ctx, pre, y, line)
            return Val("()", "unit")
        unsup(f"line {line}: unsupported method `.{name}` on a place of type {pl.ty!r}")

    def closure_pure(self, e, ctx, elem_ty_, line):
        """one-parameter closure without effects / panic sites -> (lean pattern, body Val)"""
        if e.kind == "path" and len(e.path) == 2 and (e.path[0], e.path[1]) in self.tr.items:
            g = self.tr.get(e.path[0], e.path[1])
            if g.self_mode != "ref" or len(g.params) != 1 or g.opt:
                unsup(f"line {line}: {'::'.join(e.path)} cannot be used as a pure function argument")
            return "x", Val(f"{g.lean_name} x", g.ret, kind="bool" if g.ret == "bool" else None)
        return self.closure(e, ctx, elem_ty_, line)

    def method_idiom(self, e, ctx, pre, expect):
        name, line = e.name, e.line
        rk = strip_ref(e.recv)
        # `std::iter::repeat(x).take(n)`
        r = None
        if name == "to_owned" and not e.args:
            return self.cexpr(e.recv, ctx, pre, expect)
        if name == "into" and not e.args:
            v = self.cexpr(e.recv, ctx, pre)
            if v.ty in ("u16", "u8") and (expect in (None, "usize")):
                return Val(v.lean, "usize")
            return super().method_idiom(e, ctx, pre, expect)
        r = self.cexpr(e.recv, ctx, pre)
        ty = r.ty
        tk = ty[0] if isinstance(ty, tuple) else ty
        if name == "collect" and not e.args and tk == "named" and (ty[1], "next") in self.tr.items \
                and self.tr.items[(ty[1], "next")].trait == "Iterator":
            return self.collect_iterator(r, ctx, pre, line)
        if tk == "repeat" and name == "take" and len(e.args) == 1:
            n = self.cexpr(e.args[0], ctx, pre, "usize")
            return Val(f"List.replicate {n.a} {r.a}", ("iter", ty[1]))
        if ty == ("named", "String"):
            if name == "trim_end" and not e.args:
                return Val(f"Avt.trimEnd {r.a}", ty)
            if name == "is_empty" and not e.args:
                return Val(f"{r.a}.isEmpty" if ATOM_RE.fullmatch(r.a) else f"List.isEmpty {r.a}", "bool", kind="bool")
            if name == "chars" and not e.args:
                return Val(r.lean, ("iter", "char"))
            if name == "len" and not e.args:
                unsup(f"line {line}: String::len (bytes) is not modelled")
        if tk in ("vec", "optiter"):
            if name == "is_empty" and not e.args:
                return Val(f"{r.a}.isEmpty" if ATOM_RE.fullmatch(r.a) else f"List.isEmpty {r.a}", "bool", kind="bool")
            if name == "collect" and not e.args:
                return r
            if name in ("filter_map", "map", "take", "all", "rev", "take_while", "count", "skip_while", "nth",
                        "enumerate", "copied"):
                r = Val(r.lean, ("iter", elem_ty(ty)))
                ty, tk = r.ty, "iter"
        if tk == "iter":
            el = ty[1]
            if name == "take_while" and len(e.args) == 1:
                pat, body = self.closure_pure(e.args[0], ctx, el, line)
                return Val(f"List.takeWhile (fun {pat} => {self.as_bool(body)}) {r.a}", ty)
            if name == "count" and not e.args:
                return Val(f"({r.lean}).length" if not ATOM_RE.fullmatch(r.a) else f"{r.a}.length", "usize")
            if name == "all" and len(e.args) == 1:
                pat, body = self.closure_pure(e.args[0], ctx, el, line)
                return Val(f"List.all {r.a} (fun {pat} => {self.as_bool(body)})", "bool", kind="bool")
            if name == "take" and len(e.args) == 1:
                n = self.cexpr(e.args[0], ctx, pre, "usize")
                return Val(f"List.take {n.a} {r.a}", ty)
            if name == "map" and len(e.args) == 1:
                pat, body = self.closure_pure(e.args[0], ctx, el, line)
                return Val(f"List.map (fun {pat} => {self.value_text(body)}) {r.a}", ("iter", body.ty))
            if name == "filter_map" and len(e.args) == 1:
                return self.filter_map(r, e.args[0], ctx, pre, line)
            if name == "collect" and not e.args:
                return Val(r.lean, ("vec", el))
        if tk == "opt":
            if name == "map" and len(e.args) == 1:
                pat, body = self.closure_pure(e.args[0], ctx, ty[1], line)
                return Val(f"Option.map (fun {pat} => {self.value_text(body)}) {r.a}", ("opt", body.ty))
        # fall back to the base table, re-using the compiled receiver
        return self.base_method_idiom(e, r, ctx, pre, expect)

    def base_method_idiom(self, e, r, ctx, pre, expect):
        # the base implementation compiles the receiver itself; give it one that is already a value
        tmp = f"__recv{id(e)}"
        ctx.env[tmp] = (r.lean, r.ty)
        ctx.vals[tmp] = r
        try:
            e2 = N("mcall", e.line, recv=N("path", e.line, path=[tmp]), name=e.name, args=e.args)
            return super().method_idiom(e2, ctx, pre, expect)
        finally:
            del ctx.env[tmp]
            del ctx.vals[tmp]

    def collect_iterator(self, r, ctx, pre, line):
        """`it.collect()` where `it` is a struct with a translated `Iterator::next`: `next` until `None`, with fuel"""
        sname = r.ty[1]
        g = self.tr.get(sname, "next")
        if g.self_mode != "mut" or not (isinstance(g.ret, tuple) and g.ret[0] == "opt"):
            unsup(f"line {line}: {sname}::next has an unexpected signature")
        key = (ctx.gen.name if ctx.gen.owner is None else f"{ctx.gen.owner}::{ctx.gen.name}", "collect")
        if key not in FUEL_HINTS:
            unsup(f"line {line}: `collect()` of the hand-written iterator {sname}: no iteration bound in FUEL_HINTS for {key}")
        ns, _ = NAMESPACES[sname]
        aux_name = f"{ns}.{sname}.collect"
        T = R.lty(g.ret[1])
        S = R.lty(("named", sname))
        L = [f"/-- `{sname} {{ .. }}.collect()`: `next` until it returns `None` (fuel: see FUEL_HINTS in rs2lean_buf.py) -/",
             f"def {sname}.collect : Nat → {latom(S)} → Option (List {latom(T)})",
             "  | 0, _ => none",
             "  | fuel + 1, s =>"]
        if g.opt:
            L += [f"    match {g.lean_name} s with",
                  "    | none => none",
                  "    | some (_, none) => some []",
                  "    | some (s, some x) =>",
                  f"      match {sname}.collect fuel s with",
                  "      | none => none",
                  "      | some xs => some (x :: xs)"]
        else:
            L += [f"    match {g.lean_name} s with",
                  "    | (_, none) => some []",
                  "    | (s, some x) =>",
                  f"      match {sname}.collect fuel s with",
                  "      | none => none",
                  "      | some xs => some (x :: xs)"]
        if not any(a[1].startswith(f"def {sname}.collect") for a in self.aux):
            self.aux.append(L)
        x = ctx.fresh()
        pre.append(("bind", x, f"{aux_name} ({FUEL_HINTS[key]}) {r.a}"))
        return Val(x, ("vec", g.ret[1]))

    def filter_map(self, src, cl, ctx, pre, line):
        """`iter.filter_map(closure)`; the closure may mutate `self` / locals (lazy iterators that are returned or
        collected are modelled as fully consumed, in order)"""
        el = src.ty[1]
        if cl.kind != "closure" or len(cl.params) != 1:
            unsup(f"line {line}: expected a one-parameter closure")
        p = cl.params[0]
        if not (p.kind == "ppath" and p.args is None and len(p.path) == 1):
            unsup(f"line {line}: unsupported closure parameter")
        holder = {}

        def build(child, k):
            x = child.declare(p.path[0], el)
            holder["x"] = x
            pre2 = []
            v = self.cexpr(cl.body, child, pre2)
            if not (isinstance(v.ty, tuple) and v.ty[0] == "opt"):
                unsup(f"line {line}: filter_map closure does not return an Option")
            holder["ty"] = v.ty[1]
            holder["v"] = v
            holder["pre"] = pre2
            out = child.env["__out"][0]
            o = child.fresh()
            child.assign_local("__out")
            return wrap(pre2, MatchIR(v.lean, [("none", k(None, child)),
                                                (f"some {o}", LetP(out, f"{out} ++ [{o}]", k(None, child)))]))

        outv = ctx.fresh("out")
        ctx.env["__out"] = (outv, ("vec", None))
        try:
            # first try: pure closure
            try:
                child = ctx.child(Effects())
                x = child.declare(p.path[0], el)
                pre2 = []
                v = self.cexpr(cl.body, child, pre2)
                if not pre2 and not child.eff.mut_self and not child.eff.assigned:
                    if not (isinstance(v.ty, tuple) and v.ty[0] == "opt"):
                        unsup(f"line {line}: filter_map closure does not return an Option")
                    return Val(f"List.filterMap (fun {x} => {v.lean}) {src.a}", ("iter", v.ty[1]))
            except Unsupported:
                pass
            pre.append(("let", outv, "[]"))
            ir, pat = self.joined(ctx, build)
        finally:
            del ctx.env["__out"]
        ir = simplify(ir)
        opt = ir.is_opt()
        body = self.R.render(ir, opt)
        x = holder["x"]
        if opt:
            lines = [f"Avt.Terminal.foldM' (fun {pat} {x} =>"] + ["    " + l for l in body] + [f"  ) {src.a} {pat}"]
        else:
            lines = [f"List.foldl (fun {pat} {x} =>"] + ["    " + l for l in body] + [f"  ) {pat} {src.a}"]
        pre.append(("bind" if opt else "let", pat, RawIR(lines, opt)))
        return Val(outv, ("iter", holder["ty"]))

    def expr_ir(self, e, ctx, k):
        # `opt.map(|mut x| { stmts; x })`: the closure body is a block that may update its parameter / panic
        if e.kind == "mcall" and e.name == "map" and len(e.args) == 1 and e.args[0].kind == "closure" \
                and e.args[0].body.kind == "blockexpr" and len(e.args[0].params) == 1:
            cl = e.args[0]
            pre = []
            o = self.cexpr(e.recv, ctx, pre)
            if isinstance(o.ty, tuple) and o.ty[0] == "opt":
                q = cl.params[0]
                if q.kind == "pbind":
                    rust = q.name
                elif q.kind == "ppath" and q.args is None and len(q.path) == 1:
                    rust = q.path[0]
                else:
                    unsup(f"line {e.line}: unsupported closure parameter")
                c2 = ctx.child()
                x = c2.declare(rust, o.ty[1])
                body = self.block_ir(cl.body.block, c2,
                                     lambda v, c: k(Val(f"some {latom(self.value_text(v))}", ("opt", v.ty)), c))
                return wrap(pre, MatchIR(o.lean, [("none", k(Val("none", o.ty), ctx)), (f"some {x}", body)]))
        return super().expr_ir(e, ctx, k)

    # ---------------------------------------------------------------- statements
    def stmt_ir(self, s, ctx, rest):
        if s.kind == "return":
            # `return e;` anywhere below the function body (not inside closures / loops): the function's result
            if getattr(ctx, "in_loop", False):
                unsup(f"line {s.line}: `return` inside a loop")
            if s.value is None:
                return ctx.fn_finish(Val("()", "unit"), ctx)
            return self.expr_ir(s.value, ctx, ctx.fn_finish)
        if s.kind == "while":
            return self.s_while(s, ctx, rest)
        if s.kind == "whilelet":
            return self.s_whilelet(s, ctx, rest)
        if s.kind == "expr" and s.e.kind == "assert":
            pre = []
            v = self.cexpr(s.e.cond, ctx, pre)
            return wrap(pre, IfIR(self.cond(v), rest(), YieldOpt("none")))      # a failed `assert!` panics
        if s.kind == "expr" and s.e.kind == "mcall" and s.e.name == "for_each":
            return self.s_for_each(s.e, ctx, rest)
        if s.kind == "expr" and s.e.kind in ("mcall", "call"):
            pre = []
            v = self.cexpr(s.e, ctx, pre)
            if not pre and v.extra != "noop":
                unsup(f"line {s.line}: expression statement without effect")
            return wrap(pre, rest())
        return super().stmt_ir(s, ctx, rest)

    def s_let(self, s, ctx, rest):
        p = s.pat
        init = s.init
        simple = p.kind == "pbind" or (p.kind == "ppath" and p.args is None and len(p.path) == 1
                                       and not p.path[0][0].isupper())
        # `let x = &mut place;` where the place is an element of a vector: x is an alias, written back on every change
        if simple and init.kind == "un" and init.op == "&" and strip_ref(init).kind in ("index", "mcall"):
            pre = []
            pl = self.place_of(init, ctx, pre, getattr(init, "mut", False))
            if pl is not None and pl.kind == "elem" and not pl.fields:
                v = self.read(pl, ctx, pre, s.line)
                rust = p.name if p.kind == "pbind" else p.path[0]
                nm = ctx.declare(rust, pl.ty)
                pre.append(("let", nm, v.lean))
                if getattr(init, "mut", False):
                    ctx.aliases[rust] = pl
                return wrap(pre, rest())
        if simple:
            rust = p.name if p.kind == "pbind" else p.path[0]
            ctx.aliases.pop(rust, None)
            ctx.vals.pop(rust, None)
        return super().s_let(s, ctx, rest)

    def s_assign(self, s, ctx, pre):
        lhs, op, line = s.lhs, s.op, s.line
        simple_self = self.self_place(lhs) is not None and ctx.self_alias is None
        if lhs.kind == "path" or lhs.kind == "tuple" or (simple_self and lhs.kind == "field"):
            if lhs.kind == "path" and len(lhs.path) == 1 and lhs.path[0] in ctx.aliases:
                unsup(f"line {line}: assignment to a borrowed local")
            return super().s_assign(s, ctx, pre)
        if lhs.kind == "index" and self.self_place(lhs.e) is not None and ctx.self_alias is None \
                and lhs.ix.kind != "range":
            sp = self.place_val(ctx, self.self_place(lhs.e), line)
            if isinstance(sp.ty, tuple) and sp.ty[0] in ("vec", "array"):
                return super().s_assign(s, ctx, pre)
        pl = self.place_of(lhs, ctx, pre, True)
        if pl is None or pl.kind == "window":
            unsup(f"line {line}: unsupported assignment target")
        v = self.cexpr(s.rhs, ctx, pre, pl.ty)
        if op == "=":
            if not (R.lty_safe(v.ty) == R.lty_safe(pl.ty) or (v.ty == "num" and is_num(pl.ty))
                    or (isinstance(v.ty, tuple) and v.ty[0] == "opt" and isinstance(pl.ty, tuple) and pl.ty[0] == "opt")):
                unsup(f"line {line}: assignment of {v.ty!r} to a place of type {pl.ty!r}")
            text = self.value_text(v)
        elif op == "+=" and pl.ty == "usize":
            cur = self.read(pl, ctx, pre, line)
            text = f"{cur.a} + {v.a}"
        elif op == "-=" and pl.ty == "usize":
            cur = self.read(pl, ctx, pre, line)
            x = ctx.fresh()
            pre.append(("bind", x, f"Avt.csub {cur.a} {v.a}"))
            text = x
        else:
            unsup(f"line {line}: `{op}` on a place of type {pl.ty!r}")
        self.write(pl, ctx, pre, text, line)

    def s_branch(self, e, ctx, rest):
        if contains_return(e):
            # a branch that may `return`: the continuation is compiled once per branch
            if getattr(ctx, "in_loop", False):
                unsup(f"line {e.line}: `return` inside a loop")
            return self.expr_ir(e, ctx, lambda v, c: rest())
        # statements without any effect (e.g. only `Vec::reserve`): dropped, provided they cannot panic
        try:
            return super().s_branch(e, ctx, rest)
        except Unsupported as ex:
            if str(ex) != "nested statement without effect":
                raise
        eff = Effects()
        child = ctx.child(eff)
        ir = simplify(self.expr_ir(e, child, lambda v, c: Yield(text="()")))
        if ir.is_opt() or eff.mut_self or eff.assigned:
            unsup(f"line {e.line}: statement without effect that can panic")
        return rest()

    def s_for(self, s, ctx, rest):
        # `for _ in a..b`, `for x in &v`, `for x in v.iter().take(n)`
        it = s.iter
        p = s.pat
        if p.kind == "pwild":
            s = N("for", s.line, pat=N("ppath", s.line, path=["_unused"], args=None), iter=s.iter, body=s.body)
        if it.kind == "mcall" or (it.kind == "un" and it.op == "&"):
            pre = []
            v = self.cexpr(it, ctx, pre)
            if isinstance(v.ty, tuple) and v.ty[0] in ("iter", "vec"):
                tmp = f"__iter{s.line}"
                ctx.env[tmp] = (v.lean, ("vec", v.ty[1]))
                try:
                    s2 = N("for", s.line, pat=s.pat, iter=N("path", s.line, path=[tmp]), body=s.body)
                    return wrap(pre, super().s_for(s2, ctx, rest))
                finally:
                    del ctx.env[tmp]
        return super().s_for(s, ctx, rest)

    # ---- `a.chars().filter_map(f).for_each(g)` : the lazy pipeline as one fold, element by element
    def s_for_each(self, e, ctx, rest):
        line = e.line
        if len(e.args) != 1 or e.args[0].kind != "closure" or len(e.args[0].params) != 1:
            unsup(f"line {line}: for_each without a one-parameter closure")
        sink = e.args[0]
        stages = []
        src = e.recv
        while src.kind == "mcall" and src.name == "filter_map" and len(src.args) == 1:
            stages.insert(0, src.args[0])
            src = src.recv
        if len(stages) != 1:
            unsup(f"line {line}: for_each pipeline: expected exactly `src.filter_map(f).for_each(g)`")
        pre = []
        sv = self.cexpr(src, ctx, pre)
        if not (isinstance(sv.ty, tuple) and sv.ty[0] in ("iter", "vec")):
            unsup(f"line {line}: for_each over a value of type {sv.ty!r}")
        el = sv.ty[1]
        f = stages[0]
        for cl in (f, sink):
            q = cl.params[0] if cl.kind == "closure" and len(cl.params) == 1 else None
            if q is None or not (q.kind == "ppath" and q.args is None and len(q.path) == 1):
                unsup(f"line {line}: unsupported closure parameter")
        holder = {}

        def build(child, k):
            holder["x"] = child.declare(f.params[0].path[0], el)
            pre1 = []
            v = self.cexpr(f.body, child, pre1)
            if not (isinstance(v.ty, tuple) and v.ty[0] == "opt"):
                unsup(f"line {line}: filter_map closure does not return an Option")
            c2 = child.child()
            o = c2.declare(sink.params[0].path[0], v.ty[1])
            pre2 = []
            w = self.cexpr(sink.body, c2, pre2)
            if not pre2:
                unsup(f"line {line}: for_each closure without effect")
            return wrap(pre1, MatchIR(v.lean, [("none", k(None, child)), (f"some {o}", wrap(pre2, k(None, c2)))]))

        ir, pat = self.joined(ctx, build)
        ir = simplify(ir)
        opt = ir.is_opt()
        body = self.R.render(ir, opt)
        x = holder["x"]
        if opt:
            lines = [f"Avt.Terminal.foldM' (fun {pat} {x} =>"] + ["    " + l for l in body] + [f"  ) {sv.a} {pat}"]
        else:
            lines = [f"List.foldl (fun {pat} {x} =>"] + ["    " + l for l in body] + [f"  ) {pat} {sv.a}"]
        return wrap(pre, bind(pat, RawIR(lines, opt), rest()))

    # ---- idiom: `while !v.is_empty() && p(v[v.len() - 1]) { v.truncate(v.len() - 1); }`
    def s_while(self, s, ctx, rest):
        line = s.line
        c = s.cond
        ok = (c.kind == "bin" and c.op == "&&" and c.a.kind == "un" and c.a.op == "!" and c.a.e.kind == "mcall"
              and c.a.e.name == "is_empty" and not c.a.e.args and c.a.e.recv.kind == "path"
              and len(c.a.e.recv.path) == 1)
        if ok:
            vname = c.a.e.recv.path[0]
            vpath = N("path", line, path=[vname])
            lenm1 = N("bin", line, op="-", a=N("mcall", line, recv=vpath, name="len", args=[]), b=N("int", line, value=1))
            last = N("index", line, e=vpath, ix=lenm1)
            body_ok = (len(s.body.stmts) == 1 and s.body.tail is None and s.body.stmts[0].kind == "expr"
                       and ast_eq(s.body.stmts[0].e, N("mcall", line, recv=vpath, name="truncate", args=[lenm1])))
            if body_ok and vname in ctx.env and isinstance(ctx.env[vname][1], tuple) and ctx.env[vname][1][0] == "vec":
                hole = N("path", line, path=["__last"])
                pbody, cnt = ast_subst(c.b, last, hole)
                if cnt == 1:
                    lean, ty = ctx.env[vname]
                    child = ctx.child(Effects())
                    x = child.declare("__last", ty[1], "x")
                    pre2 = []
                    v = self.cexpr(pbody, child, pre2)
                    if pre2 or child.eff.mut_self or child.eff.assigned or v.ty != "bool":
                        unsup(f"line {line}: pop-while idiom: the condition on the last element is not a pure bool")
                    ctx.assign_local(vname)
                    return wrap([("let", lean, f"Avt.GenL.popWhile (fun {x} => {self.as_bool(v)}) {lean}")], rest())
        return self.s_scan_while(s, ctx, rest)

    # ---- idiom "index scan":  `while c1 && .. && ck { body; i += 1; }`  where the loop reads the vector V only as V[i]
    def s_scan_while(self, s, ctx, rest):
        line = s.line
        if getattr(ctx, "in_loop", False):
            unsup(f"line {line}: nested loops")
        body = s.body
        if body.tail is not None or not body.stmts or contains_return(body) or ast_has_kind(body, ("while", "whilelet", "for")):
            unsup(f"line {line}: `while` loop outside the recognised idioms (body shape)")
        last = body.stmts[-1]
        if not (last.kind == "assign" and last.op == "+=" and last.lhs.kind == "path" and len(last.lhs.path) == 1
                and last.rhs.kind == "int" and last.rhs.value == 1):
            unsup(f"line {line}: `while` loop outside the recognised idioms (the body does not end with `i += 1`)")
        iv = last.lhs.path[0]
        if iv not in ctx.env or ctx.env[iv][1] != "usize":
            unsup(f"line {line}: scan loop: `{iv}` is not a usize local")
        # conjuncts of the condition
        conjs = []

        def flat(c):
            while c.kind == "paren":
                c = c.e
            if c.kind == "bin" and c.op == "&&":
                flat(c.a)
                flat(c.b)
            else:
                conjs.append(c)
        flat(s.cond)
        # the scanned vector: the unique V with an occurrence `V[i]`
        found = []

        def scan(n):
            if isinstance(n, N):
                if n.kind == "index" and n.ix.kind == "path" and n.ix.path == [iv]:
                    if not any(ast_eq(n.e, f) for f in found):
                        found.append(n.e)
                for k2, v2 in n.__dict__.items():
                    if k2 not in ("kind", "line"):
                        scan(v2)
            elif isinstance(n, (list, tuple)):
                for x in n:
                    scan(x)
        scan(conjs)
        scan(body.stmts)
        if len(found) != 1:
            unsup(f"line {line}: scan loop: expected exactly one vector indexed by `{iv}`")
        V = found[0]
        prev = []
        vpl = self.place_of(V, ctx, prev)
        if vpl is None or prev or vpl.kind not in ("self", "local") or not (isinstance(vpl.ty, tuple) and vpl.ty[0] == "vec"):
            unsup(f"line {line}: scan loop: the indexed expression is not a vector place")
        ety = vpl.ty[1]
        hole = N("path", line, path=["__elem"])
        target = N("index", line, e=V, ix=N("path", line, path=[iv]))
        conjs2, _ = ast_subst(conjs, target, hole)
        stmts2, _ = ast_subst(body.stmts, target, hole)
        if ast_contains(conjs2, V) or ast_contains(stmts2, V):
            unsup(f"line {line}: scan loop: the vector is used other than as `v[{iv}]`")
        # the index may only change through the final `i += 1`
        assigned = []
        collect_assigned(stmts2[:-1], assigned)
        if iv in assigned:
            unsup(f"line {line}: scan loop: `{iv}` is assigned inside the body")
        state = [v for v in assigned if v in ctx.env]
        for v in assigned:
            if v not in ctx.env and v not in declared_in(stmts2):
                unsup(f"line {line}: scan loop: assignment to `{v}`")
        state.append(iv)
        if vpl.kind == "local" and vpl.name in state:
            unsup(f"line {line}: scan loop: the vector is modified in the loop")
        used = []
        collect_used(conjs2, used)
        collect_used(stmts2, used)
        uses_self = "self" in used
        captured = [v for v in used if v in ctx.env and v not in state and v != "__elem"]
        # progress: on every iteration V[i] is evaluated (so that running off the end of the vector is a panic,
        # never a silent continuation)
        jpos = next((k for k, c in enumerate(conjs2) if ast_contains(c, hole)), None)
        if jpos is not None:
            if not definitely_evaluates(conjs2[jpos], hole):
                unsup(f"line {line}: scan loop: `v[{iv}]` is not evaluated unconditionally in the condition")
        else:
            if not any(stmt_definitely_evaluates(st, hole) for st in stmts2):
                unsup(f"line {line}: scan loop: `v[{iv}]` is not evaluated on every iteration")
        self.loop_count += 1
        short = ctx.gen.lean_name[len(NAMESPACES[ctx.gen.owner][0]) + 1:]
        aux_short = f"{short}.loop{self.loop_count}"
        aux_full = f"{NAMESPACES[ctx.gen.owner][0]}.{aux_short}"
        st_lean = [ctx.env[v][0] for v in state]
        st_tys = [ctx.env[v][1] for v in state]
        cap_lean = [ctx.env[v][0] for v in captured]
        if uses_self:
            cap_lean = [ctx.selfvar] + cap_lean
        st_pat = st_lean[0] if len(st_lean) == 1 else "(" + ", ".join(st_lean) + ")"
        hd, tl = f"hd{self.loop_count}", f"tl{self.loop_count}"
        exit_ir = lambda: Yield(text=st_pat)
        call_text = aux_full + "".join(" " + c for c in cap_lean) + f" {tl}" + "".join(" " + c for c in st_lean)

        def cond_chain(child, cs, k_true):
            if not cs:
                return k_true()
            pre = []
            v = self.cexpr(cs[0], child, pre)
            return wrap(pre, IfIR(self.cond(v), cond_chain(child, cs[1:], k_true), exit_ir()))

        saved = ctx.counter[0]
        # x :: xs
        eff = Effects()
        child = ctx.child(eff)
        child.in_loop = True
        child.declare("__elem", ety, hd)
        cons_ir = cond_chain(child, conjs2, lambda: self.seq(stmts2, 0, child, lambda c: YieldOpt(call_text)))
        if eff.mut_self:
            unsup(f"line {line}: scan loop: `self` is modified in the loop")
        # []
        eff2 = Effects()
        child2 = ctx.child(eff2)
        child2.in_loop = True
        nil_conjs = conjs2 if jpos is None else conjs2[:jpos]
        nil_ir = cond_chain(child2, nil_conjs, lambda: YieldOpt("none"))
        ctx.counter[0] = saved
        cons_lines = self.R.render(simplify(cons_ir), True)
        nil_lines = self.R.render(simplify(nil_ir), True)
        res_ty = " × ".join(latom(R.lty(t)) for t in st_tys)
        params = "".join(f" ({ctx.env[v][0]} : {R.lty(ctx.env[v][1])})" for v in captured)
        if uses_self:
            params = f" ({ctx.selfvar} : {R.lty(('named', ctx.gen.owner))})" + params
        sig = " → ".join([f"List {latom(R.lty(ety))}"] + [latom(R.lty(t)) for t in st_tys])
        A = [f"/-- the `while` loop at line {line} of `{ctx.gen.item.qname}`: it reads `{render_ast(V)}` only as "
             f"`{render_ast(V)}[{iv}]` and ends with `{iv} += 1`, so it is a scan of `{render_ast(V)}[{iv}..]`; "
             f"running off the end is the index panic -/",
             f"def {aux_short}{params} : {sig} → Option {latom(res_ty)}",
             "  | []" + "".join(", " + x for x in st_lean) + " =>"]
        A += ["    " + x for x in nil_lines]
        A.append(f"  | {hd} :: {tl}" + "".join(", " + x for x in st_lean) + " =>")
        A += ["    " + x for x in cons_lines]
        self.aux.append(A)
        for v in state:
            ctx.assign_local(v)
        Vv = self.read(vpl, ctx, [], line)
        start = ctx.env[iv][0]
        call = aux_full + "".join(" " + c for c in cap_lean) + f" (List.drop {start} {Vv.a})" + "".join(" " + c for c in st_lean)
        return BindO(st_pat, call, rest())

    # ---- `while let PAT = SCRUT { BODY }` with `return`s: a loop on fuel (FUEL_HINTS)
    def s_whilelet(self, s, ctx, rest):
        line = s.line
        key = (ctx.gen.owner, ctx.gen.name, "whilelet")
        if key not in FUEL_HINTS:
            unsup(f"line {line}: `while let` loop: no iteration bound in FUEL_HINTS for {key}")
        if getattr(ctx, "in_loop", False) or not ctx.top:
            unsup(f"line {line}: `while let` loop that is not at function level")
        self.loop_count += 1
        ns = NAMESPACES[ctx.gen.owner][0]
        short = ctx.gen.lean_name[len(ns) + 1:]
        aux_short = f"{short}.loop{self.loop_count}"
        aux_full = f"{ns}.{aux_short}"
        ret = ctx.gen.ret
        # scrutinee `a.or_else(|| b)`  ==>  `let mut w = a; if w.is_none() { w = b; }` and scrutinee `w`
        pre_stmts = []
        scrut = s.scrut
        if scrut.kind == "mcall" and scrut.name == "or_else" and len(scrut.args) == 1 \
                and scrut.args[0].kind == "closure" and not scrut.args[0].params:
            w = N("path", line, path=["__w"])
            pre_stmts.append(N("let", line, pat=N("pbind", line, name="__w"), ty=None, init=scrut.recv))
            asg = N("assign", line, lhs=w, op="=", rhs=scrut.args[0].body)
            cond = N("mcall", line, recv=w, name="is_none", args=[])
            pre_stmts.append(N("expr", line, e=N("if", line, cond=cond,
                                                 then=N("block", line, stmts=[asg], tail=None), els=None)))
            scrut = w

        def compile_body(names):
            """-> IR of one iteration, given the Lean names of the loop state"""
            st = names[0] if len(names) == 1 else "(" + ", ".join(names) + ")"
            eff = Effects()
            child = ctx.child(eff)
            child.top = False
            child.fn_finish = lambda v, c: Yield(text=f"({st}, some {latom(self.value_text(v))})")
            fall = lambda v, c: YieldOpt(f"{aux_full} fuel" + "".join(" " + n for n in names))

            def after(c):
                pre = []
                v = self.cexpr(scrut, c, pre)
                pt, binds = self.pattern(s.pat, v.ty, c, line)
                c2 = c.child()
                for rust, lean, ty in binds:
                    c2.declare(rust, ty, lean)
                body_ir = self.block_ir(s.body, c2, fall)
                return wrap(pre, MatchIR(self.value_text(v), [(pt, body_ir), ("_", Yield(text=f"({st}, none)"))]))

            ir = self.seq(pre_stmts, 0, child, after)
            return ir, eff

        saved = ctx.counter[0]
        _, eff = compile_body(["_"])
        names = []
        if eff.mut_self:
            names.append(ctx.selfvar)
        for r in eff.assigned:
            if r in ctx.env:
                names.append(ctx.env[r][0])
        if not names:
            unsup(f"line {line}: `while let` loop without effect")
        ctx.counter[0] = saved
        ir, eff = compile_body(names)
        ctx.counter[0] = saved
        if eff.mut_self:
            ctx.mutate_self()
        tys = []
        if eff.mut_self:
            tys.append(("named", ctx.gen.owner))
        for r in eff.assigned:
            if r in ctx.env:
                tys.append(ctx.env[r][1])
                ctx.assign_local(r)
        body_lines = self.R.render(simplify(ir), True)
        st_ty = " × ".join(latom(R.lty(t)) for t in tys)
        sig = " → ".join(["Nat"] + [latom(R.lty(t)) for t in tys])
        A = [f"/-- the `while let` loop at line {line} of `{ctx.gen.item.qname}`, on fuel (`none` also when the fuel runs "
             f"out; bound at the call: `{FUEL_HINTS[key]}`).  Result: the loop state and `some v` if the body executed "
             f"`return v` -/",
             f"def {aux_short} : {sig} → Option ({latom(st_ty)} × Option {latom(R.lty(ret))})",
             "  | 0" + "".join(", _" for _ in names) + " => none",
             "  | fuel + 1" + "".join(", " + n for n in names) + " =>"]
        A += ["    " + x for x in body_lines]
        self.aux.append(A)
        st = names[0] if len(names) == 1 else "(" + ", ".join(names) + ")"
        rv = ctx.fresh()
        call = f"{aux_full} ({FUEL_HINTS[key]})" + "".join(" " + n for n in names)
        returned = ctx.fn_finish(Val(rv, ret), ctx)
        return BindO("r" + rv, call, MatchIR("r" + rv, [(f"({st}, some {rv})", returned), (f"({st}, none)", rest())]))


def ast_has_kind(node, kinds):
    if isinstance(node, N):
        if node.kind in kinds:
            return True
        return any(ast_has_kind(v, kinds) for k, v in node.__dict__.items() if k not in ("kind", "line"))
    if isinstance(node, (list, tuple)):
        return any(ast_has_kind(x, kinds) for x in node)
    return False


def ast_contains(node, target):
    if isinstance(node, N):
        if ast_eq(node, target):
            return True
        return any(ast_contains(v, target) for k, v in node.__dict__.items() if k not in ("kind", "line"))
    if isinstance(node, (list, tuple)):
        return any(ast_contains(x, target) for x in node)
    return False


def collect_assigned(node, out):
    """names of locals assigned (`x = e`, `x op= e`) below node, in order of first occurrence"""
    if isinstance(node, N):
        if node.kind == "assign":
            l = node.lhs
            while l.kind in ("field", "index", "paren"):
                l = l.e
            if l.kind == "path" and len(l.path) == 1 and l.path[0] not in out:
                out.append(l.path[0])
        for k, v in node.__dict__.items():
            if k not in ("kind", "line"):
                collect_assigned(v, out)
    elif isinstance(node, (list, tuple)):
        for x in node:
            collect_assigned(x, out)


def declared_in(node):
    out = []

    def go(n):
        if isinstance(n, N):
            if n.kind == "let":
                def pat(p):
                    if p.kind == "pbind":
                        out.append(p.name)
                    elif p.kind == "ppath" and p.args is None and len(p.path) == 1:
                        out.append(p.path[0])
                    elif p.kind == "ptuple":
                        for q in p.parts:
                            pat(q)
                pat(n.pat)
            for k, v in n.__dict__.items():
                if k not in ("kind", "line"):
                    go(v)
        elif isinstance(n, (list, tuple)):
            for x in n:
                go(x)
    go(node)
    return out


def collect_used(node, out):
    """single-identifier paths (and `self`) read or written below node, in order of first occurrence"""
    if isinstance(node, N):
        if node.kind == "path" and len(node.path) == 1 and node.path[0] not in out:
            out.append(node.path[0])
        for k, v in node.__dict__.items():
            if k not in ("kind", "line"):
                collect_used(v, out)
    elif isinstance(node, (list, tuple)):
        for x in node:
            collect_used(x, out)


def definitely_evaluates(e, hole):
    """is `hole` evaluated whenever e is evaluated? (only the left operand of `&&` / `||` counts)"""
    if not isinstance(e, N):
        return False
    if ast_eq(e, hole):
        return True
    k = e.kind
    if k in ("paren", "un", "cast", "field"):
        return definitely_evaluates(e.e, hole)
    if k == "mcall":
        return definitely_evaluates(e.recv, hole) or any(definitely_evaluates(a, hole) for a in e.args)
    if k == "call":
        return any(definitely_evaluates(a, hole) for a in e.args)
    if k == "bin":
        if e.op in ("&&", "||"):
            return definitely_evaluates(e.a, hole)
        return definitely_evaluates(e.a, hole) or definitely_evaluates(e.b, hole)
    if k == "index":
        return definitely_evaluates(e.e, hole) or definitely_evaluates(e.ix, hole)
    if k == "if":
        return definitely_evaluates(e.cond, hole)
    if k in ("tuple", "array"):
        return any(definitely_evaluates(a, hole) for a in e.parts)
    return False


def stmt_definitely_evaluates(st, hole):
    if st.kind == "let":
        return definitely_evaluates(st.init, hole)
    if st.kind == "assign":
        return definitely_evaluates(st.rhs, hole) or definitely_evaluates(st.lhs, hole)
    if st.kind == "expr":
        return definitely_evaluates(st.e, hole)
    return False


def render_ast(e):
    """source-like text of simple expressions (for comments only)"""
    if e.kind == "path":
        return "::".join(e.path)
    if e.kind == "field":
        return f"{render_ast(e.e)}.{e.name}"
    if e.kind in ("paren", "un"):
        return render_ast(e.e)
    return "<expr>"


# =============================================================================================
# 6. driver

class Translator2(R.Translator):
    scanner_cls = Scanner2
    compiler_cls = Compiler2
    require_execute = False

    def __init__(self, repo, term):
        self.term = term
        self.trait_fns = {}
        self.inlined_used = set()
        super().__init__(repo)
        for rel, sc in self.scanners.items():
            for k, v in sc.trait_fns.items():
                self.trait_fns[k] = v
        # every function of the scanned files by (owner, name) (place functions are looked up here)
        self.all_items = dict(self.items)
        # functions generated by rs2lean.py (terminal.rs, pen.rs, cell.rs ...) can be called
        for k, it in term.items.items():
            if k not in self.items:
                self.items[k] = it
        for k, g in term.done.items():
            self.done.setdefault(k, g)
        for k, why in term.failed.items():
            if k not in self.order:
                self.failed.setdefault(k, why)

    def struct_fields(self, sname):
        if sname in self._fields:
            return self._fields[sname]
        out = None
        if sname in KNOWN_STRUCTS and sname in self.structs:
            decl = self.structs[sname]
            out = {}
            if decl and decl[0] == "tuple":
                items = [(str(i), toks) for i, toks in enumerate(decl[1])]
            else:
                items = decl
            for fname, toks in items:
                try:
                    ty = Parser2(toks).ty()
                except Unsupported:
                    continue
                tp = TYPARAMS.get(sname, {})
                if isinstance(ty, tuple) and ty[0] == "named" and ty[1] in tp:
                    ty = tp[ty[1]]
                out[fname] = ty
        elif sname in self.term.structs and sname in R.OWNERS:
            out = self.term.struct_fields(sname)
        self._fields[sname] = out
        return out

    # ---------------------------------------------------------------- output
    def struct_decl(self, sname):
        fields = self.struct_fields(sname)
        L = [f"/-- `struct {sname}` ({self.struct_file[sname]}) -/", f"structure {sname} where"]
        for f, ty in fields.items():
            L.append(f"  {R.FIELD_RENAME.get((sname, f), camel(f))} : {R.lty(ty)}")
        L.append("  deriving DecidableEq, Repr")
        L.append("")
        return L

    def output(self, ns, fname, imports, srcs, descr):
        L = []
        L.append(f"/- GENERATED by translate/rs2lean_buf.py from {', '.join('/repo/' + s for s in srcs)} on every run — do not edit.")
        L.append("   One definition per translated Rust function, in the checked style of the hand-written model")
        L.append(f"   (`none` = the Rust code panics).  {descr} -/")
        for imp in imports:
            L.append(f"import {imp}")
        L.append("set_option linter.unusedVariables false")
        L.append(f"namespace {ns}")
        L.append("")
        if ns == "Avt.GenL":
            L += PRELUDE.split("\n")
        for sname, sns in EMIT_STRUCTS.items():
            if sns == ns:
                if self.struct_fields(sname) is None:
                    fail("src", f"struct {sname} not found")
                L += self.struct_decl(sname)
        mine = [g for g in self.emitted if g.item.file in srcs]
        for g in mine:
            it = g.item
            for a in getattr(g, "aux", []):
                L += a
                L.append("")
            L.append(f"/-- `{it.qname}` ({it.file}) -/")
            short = g.lean_name[len(ns) + 1:]
            params = "".join(f" ({n} : {t})" for n, t, _ in g.params)
            L.append(f"def {short}{params} : {g.res_type} :=")
            L += ["  " + x for x in g.lines]
            L.append("")
        q = lambda s: '"' + s.replace("\\", "\\\\").replace('"', '\\"') + '"'
        keys = [k for k in self.order if self.items[k].file in srcs]
        names = [self.items[k].qname for k in keys if k in self.done]
        L.append("/-- Rust functions translated above (in source order) -/")
        L.append("def translated : List String := [" + ", ".join(q(n) for n in names) + "]")
        L.append("")
        inl = sorted(n for n in self.inlined_used if self.inlined_file.get(n) in srcs)
        L.append("/-- functions returning a reference into `self` (`view_mut`, `Index`/`IndexMut` impls): expanded at every use -/")
        L.append("def inlined : List String := [" + ", ".join(q(n) for n in inl) + "]")
        L.append("")
        L.append("/-- Rust functions of the scanned `impl` blocks that are NOT translated, with the reason -/")
        un = [f"{self.items[k].qname}: {self.failed[k]}" for k in keys if k in self.failed and k not in PLACE_FNS]
        L.append("def untranslated : List String := [")
        L += ["  " + q(u) + ("," if i + 1 < len(un) else "") for i, u in enumerate(un)]
        L.append("]")
        L.append("")
        L.append(f"end {ns}")
        return "\n".join(L) + "\n"


def install():
    """switch the tables / classes of rs2lean to this script's configuration"""
    R.SOURCES = SOURCES
    R.OWNERS = OWNERS
    R.LEAN_TYPES = LEAN_TYPES
    R.FIELD_RENAME = FIELD_RENAME
    R.EXT_METHODS = EXT_METHODS
    R.EXT_STATICS = EXT_STATICS
    R.EXT_SIGS = EXT_SIGS
    R.FOREIGN_FIELDS = {}
    R.Parser = Parser2
    R.Ctx = Ctx2
    R.lty = my_lty


def main():
    if len(sys.argv) != 3:
        print("usage: rs2lean_buf.py <repo> <outdir>")
        sys.exit(2)
    repo, outdir = sys.argv[1], sys.argv[2]
    sys.setrecursionlimit(10000)
    term = R.Translator(repo)        # terminal.rs & co. exactly as rs2lean.py translates them (not written here)
    term.run_all()
    install()
    # type aliases first (needed by the type parser)
    for rel, role in SOURCES:
        path = os.path.join(repo, rel)
        if not os.path.exists(path):
            fail(rel, "file not found")
        with open(path, encoding="utf-8") as f:
            sc = Scanner2(R.lex(f.read(), rel), rel)
        sc.scan()
        for k, toks in sc.aliases.items():
            try:
                TYPE_ALIASES[k] = Parser2(toks).ty()
            except Unsupported:
                pass
    tr = Translator2(repo, term)
    tr.struct_file = {}
    tr.inlined_file = {}
    for rel, sc in tr.scanners.items():
        for sname in sc.structs:
            tr.struct_file.setdefault(sname, rel)
        for (o, trn), it in sc.trait_fns.items():
            tr.inlined_file[f"<{o} as {trn}>::{it.name}"] = rel
        for it in sc.fns:
            tr.inlined_file.setdefault(it.qname, rel)
    tr.run_all()
    os.makedirs(outdir, exist_ok=True)
    for ns, fname, imports, srcs, descr in FILES:
        text = tr.output(ns, fname, imports, srcs, descr)
        path = os.path.join(outdir, fname)
        old = None
        if os.path.exists(path):
            with open(path, encoding="utf-8") as f:
                old = f.read()
        if old != text:
            with open(path, "w", encoding="utf-8") as f:
                f.write(text)
            print(f"rs2lean_buf: wrote {path} (changed)")
        else:
            print(f"rs2lean_buf: {path} unchanged")
        keys = [k for k in tr.order if tr.items[k].file in srcs]
        print(f"rs2lean_buf: {fname}: translated={sum(1 for k in keys if k in tr.done)} "
              f"untranslated={sum(1 for k in keys if k in tr.failed and k not in PLACE_FNS)} total={len(keys)}")
        for k in keys:
            if k in tr.failed and k not in PLACE_FNS:
                print(f"rs2lean_buf: untranslated {tr.items[k].qname}: {tr.failed[k]}")


if __name__ == "__main__":
    try:
        main()
    except Mismatch as e:
        print(str(e))
        sys.exit(3)
