#!/usr/bin/env python3
"""avt2lean.py — regenerate lean/Avt/Gen/*.lean from /repo/src (run by every check).

Understands a small, explicitly listed subset of Rust (the shapes that occur in the table-like
parts of the crate) and fails loudly (exit 3, "translator-mismatch: <file>: <what>") on anything
else.  It never guesses.  stdlib only.

Tables produced (see DESIGN.md section 4.1):
  T1 Parser::feed      -> Gen.premapFrom / premapTo / feedArms
  T2 Parser::execute   -> Gen.execTable
  T3 esc_dispatch / csi_dispatch -> Gen.escArms / csiArms
  T4 constants: PARAMS_LEN, MAX_PARAM_LEN, ansi_mode, dec_mode, SPECIAL_GFX_CHARS (+ range),
     pen masks, Color::sgr_params thresholds, scrollback hard-limit formula
  T5 struct Terminal field list, fields assigned in hard_reset / soft_reset / Terminal::new,
     save_cursor / restore_cursor field lists, assignments to xtwinops
"""
import re
import sys
import os


class Mismatch(Exception):
    pass


def fail(file, what):
    raise Mismatch(f"translator-mismatch: {file}: {what}")


def strip_comments(src):
    out = []
    for line in src.split("\n"):
        # no string literal in the translated regions contains "//"
        i = line.find("//")
        if i >= 0:
            line = line[:i]
        out.append(line)
    return "\n".join(out)


def find_block(src, header_re, file):
    """Return the text between the braces that follow the first match of header_re."""
    m = re.search(header_re, src)
    if not m:
        fail(file, f"cannot find /{header_re}/")
    i = src.index("{", m.end() - 1)
    depth = 0
    j = i
    in_char = False
    while j < len(src):
        c = src[j]
        if c == "'" and not in_char:
            # char literal or lifetime: treat '{' '}' inside '...' as literal
            m2 = re.match(r"'(\\u\{[0-9a-fA-F]+\}|\\x[0-9a-fA-F]{2}|\\.|[^'\\])'", src[j:])
            if m2:
                j += m2.end()
                continue
        if c == '"':
            k = j + 1
            while src[k] != '"':
                if src[k] == "\\":
                    k += 1
                k += 1
            j = k + 1
            continue
        if c == "{":
            depth += 1
        elif c == "}":
            depth -= 1
            if depth == 0:
                return src[i + 1 : j]
        j += 1
    fail(file, f"unbalanced braces after /{header_re}/")


CHAR_RE = r"'(?:\\u\{[0-9a-fA-F]+\}|\\x[0-9a-fA-F]{2}|\\.|[^'\\])'"


def char_val(lit, file):
    assert lit[0] == "'" and lit[-1] == "'"
    s = lit[1:-1]
    m = re.fullmatch(r"\\u\{([0-9a-fA-F]+)\}", s)
    if m:
        return int(m.group(1), 16)
    m = re.fullmatch(r"\\x([0-9a-fA-F]{2})", s)
    if m:
        return int(m.group(1), 16)
    if len(s) == 2 and s[0] == "\\":
        esc = {"n": 10, "r": 13, "t": 9, "\\": 92, "'": 39, "0": 0}
        if s[1] in esc:
            return esc[s[1]]
        fail(file, f"unknown escape {lit}")
    if len(s) == 1:
        return ord(s)
    fail(file, f"bad char literal {lit}")


def split_top(s, sep):
    """Split s at top-level occurrences of sep (not inside () [] {} or char literals)."""
    parts = []
    depth = 0
    cur = []
    i = 0
    while i < len(s):
        m = re.match(CHAR_RE, s[i:])
        if m:
            cur.append(m.group(0))
            i += m.end()
            continue
        c = s[i]
        if c in "([{":
            depth += 1
        elif c in ")]}":
            depth -= 1
        if depth == 0 and s.startswith(sep, i):
            parts.append("".join(cur))
            cur = []
            i += len(sep)
            continue
        cur.append(c)
        i += 1
    parts.append("".join(cur))
    return parts


def split_arms(body, file):
    """Split a match body into (pattern, rhs) pairs.  rhs is either `{ ... }` contents or an
    expression up to the top-level comma."""
    arms = []
    i = 0
    n = len(body)
    while True:
        while i < n and body[i] in " \t\r\n,":
            i += 1
        if i >= n:
            break
        # pattern up to top-level "=>"
        depth = 0
        j = i
        while j < n:
            m = re.match(CHAR_RE, body[j:])
            if m:
                j += m.end()
                continue
            c = body[j]
            if c in "([{":
                depth += 1
            elif c in ")]}":
                depth -= 1
            if depth == 0 and body.startswith("=>", j):
                break
            j += 1
        if j >= n:
            fail(file, f"arm without => near {body[i:i+60]!r}")
        pat = body[i:j].strip()
        j += 2
        while body[j] in " \t\r\n":
            j += 1
        if body[j] == "{":
            depth = 0
            k = j
            while k < n:
                m = re.match(CHAR_RE, body[k:])
                if m:
                    k += m.end()
                    continue
                if body[k] == "{":
                    depth += 1
                elif body[k] == "}":
                    depth -= 1
                    if depth == 0:
                        break
                k += 1
            rhs = ("block", body[j + 1 : k].strip())
            i = k + 1
        else:
            depth = 0
            k = j
            while k < n:
                m = re.match(CHAR_RE, body[k:])
                if m:
                    k += m.end()
                    continue
                c = body[k]
                if c in "([{":
                    depth += 1
                elif c in ")]}":
                    depth -= 1
                if depth == 0 and c == ",":
                    break
                k += 1
            rhs = ("expr", body[j:k].strip())
            i = k + 1
        arms.append((pat, rhs))
    return arms


STATES = ["Ground", "Escape", "EscapeIntermediate", "CsiEntry", "CsiParam", "CsiIntermediate",
          "CsiIgnore", "DcsEntry", "DcsParam", "DcsIntermediate", "DcsPassthrough", "DcsIgnore",
          "OscString", "SosPmApcString"]


def lc(s):
    return s[0].lower() + s[1:]


# ---------------------------------------------------------------------------------------------
# Function-value expressions:  Bs / Ed(EdScope::Below) / Gzd4(Charset::Drawing) -> Lean term

ENUM_ARGS = {"EdScope", "ElScope", "CtcOp", "TbcScope", "Charset"}
NULLARY = {"Bs", "Cr", "Decaln", "Decrc", "Decsc", "Decstr", "Ht", "Hts", "Lf", "Nel", "Ri", "Ris",
           "Scorc", "Scosc", "Si", "So"}
UNARY_NUM = {"Cbt", "Cha", "Cht", "Cnl", "Cpl", "Cub", "Cud", "Cuf", "Cuu", "Dch", "Dl", "Ech", "Ich",
             "Il", "Rep", "Sd", "Su", "Vpa", "Vpr"}
BINARY_NUM = {"Cup", "Decstbm"}
ENUM_FUNS = {"Ed": "EdScope", "El": "ElScope", "Ctc": "CtcOp", "Tbc": "TbcScope", "G1d4": "Charset",
             "Gzd4": "Charset"}


def fun_const(expr, file):
    """`Bs` or `Ed(EdScope::Below)` -> Lean term of type Function."""
    expr = expr.strip()
    expr = re.sub(r"^Function::", "", expr)
    if expr in NULLARY:
        return f"Function.{lc(expr)}"
    m = re.fullmatch(r"(\w+)\((\w+)::(\w+)\)", expr)
    if m and m.group(1) in ENUM_FUNS and ENUM_FUNS[m.group(1)] == m.group(2):
        return f"(Function.{lc(m.group(1))} {m.group(2)}.{lc(m.group(3))})"
    fail(file, f"unrecognised function constant {expr!r}")


def some_fun_const(expr, file):
    m = re.fullmatch(r"Some\((.*)\)", expr.strip(), re.S)
    if not m:
        fail(file, f"expected Some(..), got {expr!r}")
    return fun_const(m.group(1), file)


# ---------------------------------------------------------------------------------------------
# T1

ACTS = {
    "self.clear();": "Act.clear",
    "self.collect(input);": "Act.collect",
    "self.param(input);": "Act.param",
    "self.put(input);": "Act.put",
    "self.osc_put(input);": "Act.oscPut",
    "return self.execute(input);": "Act.retExecute",
    "return self.csi_dispatch(input);": "Act.retCsiDispatch",
    "return self.esc_dispatch(input);": "Act.retEscDispatch",
    "return Some(Function::Print(input));": "Act.retPrint",
}


def t1_feed(src, file):
    body = find_block(src, r"pub fn feed\(&mut self, input: char\) -> Option<Function> \{", file)
    m = re.search(r"let input2 = if input >= (%s) \{ (%s) \} else \{ input \};" % (CHAR_RE, CHAR_RE), body)
    if not m:
        fail(file, "Parser::feed: premap line `let input2 = if input >= 'X' { 'Y' } else { input };` not found")
    premap_from = char_val(m.group(1), file)
    premap_to = char_val(m.group(2), file)
    # nothing but `use State::*;` and the premap before the match
    head = body[: body.index("match")].replace(m.group(0), "").replace("use State::*;", "").strip()
    if head:
        fail(file, f"Parser::feed: unexpected statements before match: {head!r}")
    mbody = find_block(body, r"match \(&self\.state, input2\) \{", file)
    tail = body[body.index(mbody) + len(mbody) + 1 :].strip()
    if tail != "None":
        fail(file, f"Parser::feed: expected the function to end with `None`, got {tail!r}")
    arms = split_arms(mbody, file)
    out = []
    seen_default = False
    for pat, (kind, rhs) in arms:
        if seen_default:
            fail(file, "Parser::feed: arm after the `_` arm")
        if pat == "_":
            if kind != "block" or rhs.strip() != "":
                fail(file, f"Parser::feed: default arm is not empty: {rhs!r}")
            seen_default = True
            continue
        pats = []
        for alt in split_top(pat, "|"):
            alt = alt.strip()
            mm = re.fullmatch(r"\((\w+|_), (%s)(?:\.\.=(%s))?\)" % (CHAR_RE, CHAR_RE), alt)
            if not mm:
                fail(file, f"Parser::feed: unrecognised pattern {alt!r}")
            st = mm.group(1)
            if st != "_" and st not in STATES:
                fail(file, f"Parser::feed: unknown state {st!r}")
            lo = char_val(mm.group(2), file)
            hi = char_val(mm.group(3), file) if mm.group(3) else lo
            if lo > hi:
                fail(file, f"Parser::feed: empty range {alt!r}")
            pats.append((st, lo, hi))
        if kind != "block":
            fail(file, f"Parser::feed: arm body is not a block: {rhs!r}")
        acts = []
        stmts = [s.strip() for s in re.split(r"(?<=;)\s*", rhs) if s.strip()]
        for s in stmts:
            mm = re.fullmatch(r"self\.state = (\w+);", s)
            if mm:
                if mm.group(1) not in STATES:
                    fail(file, f"Parser::feed: unknown state in {s!r}")
                acts.append(f"Act.setState PState.{mm.group(1)}")
            elif s in ACTS:
                acts.append(ACTS[s])
            else:
                fail(file, f"Parser::feed: unrecognised statement {s!r}")
        # a `return` must be last
        for a in acts[:-1]:
            if a.startswith("Act.ret"):
                fail(file, f"Parser::feed: statement after return in arm {pat!r}")
        out.append((pats, acts))
    if not seen_default:
        fail(file, "Parser::feed: no `_ => {}` arm")
    return premap_from, premap_to, out


# ---------------------------------------------------------------------------------------------
# T2

def t2_execute(src, file):
    body = find_block(src, r"fn execute\(&mut self, input: char\) -> Option<Function> \{", file)
    if body.replace("use Function::*;", "").strip()[:5] != "match":
        fail(file, "Parser::execute: unexpected prelude")
    mbody = find_block(body, r"match input \{", file)
    table = []
    seen_default = False
    for pat, (kind, rhs) in split_arms(mbody, file):
        if pat == "_":
            if rhs.strip() != "None":
                fail(file, "Parser::execute: default is not None")
            seen_default = True
            continue
        if seen_default:
            fail(file, "Parser::execute: arm after default")
        if not re.fullmatch(CHAR_RE, pat):
            fail(file, f"Parser::execute: unrecognised pattern {pat!r}")
        table.append((char_val(pat, file), some_fun_const(rhs, file)))
    if not seen_default:
        fail(file, "Parser::execute: no default arm")
    return table


# ---------------------------------------------------------------------------------------------
# T3

def interm_pat(s, file):
    s = s.strip()
    if s == "None":
        return "none"
    m = re.fullmatch(r"Some\((%s)\)" % CHAR_RE, s)
    if m:
        return f"(some {char_val(m.group(1), file)})"
    fail(file, f"unrecognised intermediate pattern {s!r}")


def t3_esc(src, file):
    body = find_block(src, r"fn esc_dispatch\(&mut self, input: char\) -> Option<Function> \{", file)
    if body.replace("use Function::*;", "").strip()[:5] != "match":
        fail(file, "esc_dispatch: unexpected prelude")
    mbody = find_block(body, r"match \(self\.intermediate, input\) \{", file)
    arms = []
    seen_default = False
    for pat, (kind, rhs) in split_arms(mbody, file):
        if pat == "_":
            if rhs.strip() != "None":
                fail(file, "esc_dispatch: default is not None")
            seen_default = True
            continue
        if seen_default:
            fail(file, "esc_dispatch: arm after default")
        # (None, c) if ('@'..='_').contains(&c)
        m = re.fullmatch(r"\((.+?), c\) if \((%s)\.\.=(%s)\)\.contains\(&c\)" % (CHAR_RE, CHAR_RE), pat)
        if m:
            ip = interm_pat(m.group(1), file)
            lo, hi = char_val(m.group(2), file), char_val(m.group(3), file)
            mm = re.fullmatch(r"self\.execute\(\(\(input as u8\) \+ (0x[0-9a-fA-F]+|\d+)\) as char\)", rhs.strip())
            if not mm:
                fail(file, f"esc_dispatch: unrecognised rhs {rhs!r}")
            k = int(mm.group(1), 0)
            if hi + k > 255 or hi > 255:
                fail(file, "esc_dispatch: `(input as u8) + k` could overflow u8")
            arms.append((ip, lo, hi, f"EscRhs.execPlus {k}"))
            continue
        m = re.fullmatch(r"\((.+?), (%s|_)\)" % CHAR_RE, pat)
        if not m:
            fail(file, f"esc_dispatch: unrecognised pattern {pat!r}")
        ip = interm_pat(m.group(1), file)
        if m.group(2) == "_":
            lo, hi = 0, 0x10FFFF
        else:
            lo = hi = char_val(m.group(2), file)
        if kind == "block":
            mm = re.fullmatch(r"self\.state = State::Ground;\s*(Some\(.*\))", rhs.strip(), re.S)
            if not mm:
                fail(file, f"esc_dispatch: unrecognised block rhs {rhs!r}")
            arms.append((ip, lo, hi, f"EscRhs.fnGround {some_fun_const(mm.group(1), file)}"))
        else:
            arms.append((ip, lo, hi, f"EscRhs.fn {some_fun_const(rhs, file)}"))
    if not seen_default:
        fail(file, "esc_dispatch: no default arm")
    return arms


def sel_cases(rhs, file):
    m = re.fullmatch(r"match ps\[0\]\.as_u16\(\) \{(.*)\}", rhs.strip(), re.S)
    if not m:
        return None
    cases = []
    seen_default = False
    for pat, (kind, r) in split_arms(m.group(1), file):
        if pat == "_":
            if r.strip() != "None":
                fail(file, "csi_dispatch: selector default is not None")
            seen_default = True
            continue
        if seen_default or not re.fullmatch(r"\d+", pat):
            fail(file, f"csi_dispatch: bad selector pattern {pat!r}")
        cases.append((int(pat), some_fun_const(r, file)))
    if not seen_default:
        fail(file, "csi_dispatch: selector without default")
    return cases


def t3_csi(src, file):
    body = find_block(src, r"fn csi_dispatch\(&mut self, input: char\) -> Option<Function> \{", file)
    pre = body[: body.index("match")].replace("use Function::*;", "").strip()
    if pre != "let ps = &self.params;":
        fail(file, f"csi_dispatch: unexpected prelude {pre!r}")
    mbody = find_block(body, r"match \(self\.intermediate, input\) \{", file)
    arms = []
    seen_default = False
    ws = lambda s: re.sub(r"\s+", "", s)
    for pat, (kind, rhs) in split_arms(mbody, file):
        if pat == "_":
            if rhs.strip() != "None":
                fail(file, "csi_dispatch: default is not None")
            seen_default = True
            continue
        if seen_default:
            fail(file, "csi_dispatch: arm after default")
        m = re.fullmatch(r"\((.+?), (%s)\)" % CHAR_RE, pat)
        if not m:
            fail(file, f"csi_dispatch: unrecognised pattern {pat!r}")
        ip = interm_pat(m.group(1), file)
        fin = char_val(m.group(2), file)
        r = rhs.strip()
        rw = ws(r)
        mm = re.fullmatch(r"Some\((\w+)\(ps\[0\]\.as_u16\(\)\)\)", r)
        if mm and mm.group(1) in UNARY_NUM:
            arms.append((ip, fin, f"CsiRhs.f1 Function.{lc(mm.group(1))}"))
            continue
        mm = re.fullmatch(r"Some\((\w+)\(ps\[0\]\.as_u16\(\), ps\[1\]\.as_u16\(\)\)\)", r)
        if mm and mm.group(1) in BINARY_NUM:
            arms.append((ip, fin, f"CsiRhs.f2 Function.{lc(mm.group(1))}"))
            continue
        cases = sel_cases(r, file)
        if cases is not None:
            inner = ", ".join(f"({k}, {f})" for k, f in cases)
            arms.append((ip, fin, f"CsiRhs.sel [{inner}]"))
            continue
        if kind == "expr" and re.fullmatch(r"Some\(\w+\)", r):
            arms.append((ip, fin, f"CsiRhs.const {some_fun_const(r, file)}"))
            continue
        coll = {
            "Some(Sm(ps[..=self.cur_param].iter().filter_map(ansi_mode).collect()))": "CsiRhs.sm",
            "Some(Rm(ps[..=self.cur_param].iter().filter_map(ansi_mode).collect()))": "CsiRhs.rm",
            "Some(Sgr(SgrOps{ps:&ps[..=self.cur_param],}.collect()))": "CsiRhs.sgr",
            "Some(Decset(ps[..=self.cur_param].iter().filter_map(dec_mode).collect(),))": "CsiRhs.decset",
            "Some(Decrst(ps[..=self.cur_param].iter().filter_map(dec_mode).collect(),))": "CsiRhs.decrst",
        }
        if rw in coll:
            arms.append((ip, fin, coll[rw]))
            continue
        mm = re.fullmatch(
            r"ifps\[0\]\.as_u16\(\)==(\d+)\{letrows=ps\[1\]\.as_u16\(\);letcols=ps\[2\]\.as_u16\(\);"
            r"Some\(Xtwinops\(XtwinopsOp::Resize\(cols,rows\)\)\)\}else\{None\}", rw)
        if mm:
            arms.append((ip, fin, f"CsiRhs.xtwinops {mm.group(1)}"))
            continue
        fail(file, f"csi_dispatch: unrecognised rhs for {pat}: {r!r}")
    if not seen_default:
        fail(file, "csi_dispatch: no default arm")
    return arms


# ---------------------------------------------------------------------------------------------
# T4

def t4_modes(src, name, enum, file):
    body = find_block(src, r"fn %s\(param: &Param\) -> Option<%s> \{" % (name, enum), file)
    mbody = find_block(body, r"match param\.as_u16\(\) \{", file)
    out = []
    seen_default = False
    for pat, (kind, rhs) in split_arms(mbody, file):
        if pat == "_":
            if rhs.strip() != "None":
                fail(file, f"{name}: default is not None")
            seen_default = True
            continue
        m = re.fullmatch(r"Some\((\w+)\)", rhs.strip())
        if seen_default or not re.fullmatch(r"\d+", pat) or not m:
            fail(file, f"{name}: bad arm {pat!r} => {rhs!r}")
        out.append((int(pat), f"{enum}.{lc(m.group(1))}"))
    if not seen_default:
        fail(file, f"{name}: no default")
    return out


def const_usize(src, name, file):
    m = re.search(r"const %s: usize = (\d+);" % name, src)
    if not m:
        fail(file, f"const {name} not found")
    return int(m.group(1))


def t4_charset(src, file):
    m = re.search(r"const SPECIAL_GFX_CHARS: \[char; (\d+)\] = \[(.*?)\];", src, re.S)
    if not m:
        fail(file, "SPECIAL_GFX_CHARS not found")
    n = int(m.group(1))
    chars = [char_val(c, file) for c in re.findall(CHAR_RE, m.group(2))]
    if len(chars) != n:
        fail(file, "SPECIAL_GFX_CHARS length mismatch")
    body = find_block(src, r"pub fn translate\(&self, input: char\) -> char \{", file)
    w = re.sub(r"\s+", "", body)
    mm = re.fullmatch(
        r"matchself\{Charset::Ascii=>input,Charset::Drawing=>\{if\((%s)\.\.(=?)(%s)\)\.contains\(&input\)"
        r"\{SPECIAL_GFX_CHARS\[\(inputasusize\)-(0x[0-9a-fA-F]+|\d+)\]\}else\{input\}\}\}" % (CHAR_RE, CHAR_RE), w)
    if not mm:
        fail(file, f"Charset::translate: unrecognised body {w!r}")
    lo = char_val(mm.group(1), file)
    hi = char_val(mm.group(3), file)
    if mm.group(2) != "=":
        hi -= 1
    base = int(mm.group(4), 0)
    return chars, lo, hi, base


def t4_pen(src, file):
    masks = {}
    for name in ["ITALIC", "UNDERLINE", "STRIKETHROUGH", "BLINK", "INVERSE"]:
        m = re.search(r"const %s_MASK: u8 = (\d+)(?: << (\d+))?;" % name, src)
        if not m:
            fail(file, f"{name}_MASK not found")
        masks[name] = int(m.group(1)) << int(m.group(2) or 0)
    # accessors and setters use the mask of their own name
    for lname, name in [("italic", "ITALIC"), ("underline", "UNDERLINE"), ("strikethrough", "STRIKETHROUGH"),
                        ("blink", "BLINK"), ("inverse", "INVERSE")]:
        for pat in [r"pub fn is_%s\(&self\) -> bool \{\s*\(self\.attrs & %s_MASK\) != 0\s*\}",
                    r"pub fn set_%s\(&mut self\) \{\s*self\.attrs \|= %s_MASK;\s*\}",
                    r"pub fn unset_%s\(&mut self\) \{\s*self\.attrs &= !%s_MASK;\s*\}"]:
            if not re.search(pat % (lname, name), src):
                fail(file, f"Pen accessor/setter for {lname} has an unexpected shape")
    return masks


def t4_color(src, file):
    body = find_block(src, r"pub\(crate\) fn sgr_params\(&self, base: u8\) -> String \{", file)
    w = re.sub(r"\s+", "", body)
    mm = re.fullmatch(
        r"matchself\{Indexed\(c\)if\*c<(\d+)=>\(base\+c\)\.to_string\(\),"
        r"Indexed\(c\)if\*c<(\d+)=>\(base\+(\d+)\+c\)\.to_string\(\),"
        r'Indexed\(c\)=>format!\("\{\}:5:\{\}",base\+(\d+),c\),'
        r'RGB\(c\)=>format!\("\{\}:2:\{\}:\{\}:\{\}",base\+(\d+),c\.r,c\.g,c\.b\),\}', w)
    if not mm:
        fail(file, f"Color::sgr_params: unrecognised body {w!r}")
    return [int(x) for x in mm.groups()]


def t4_hard(src, file):
    m = re.search(r"hard: l \+ l / (\d+),", src)
    if not m:
        fail(file, "Buffer::new: `hard: l + l / N` not found")
    return int(m.group(1))


# ---------------------------------------------------------------------------------------------
# T5

def t5_fields(src, file):
    body = find_block(src, r"pub\(crate\) struct Terminal \{", file)
    fields = []
    for part in split_top(body, ","):
        part = part.strip()
        if not part:
            continue
        m = re.fullmatch(r"(?:pub )?(\w+): (.+)", part, re.S)
        if not m:
            fail(file, f"struct Terminal: unrecognised field {part!r}")
        fields.append(m.group(1))

    def assigned(fn_header):
        b = find_block(src, fn_header, file)
        return sorted(set(re.findall(r"self\.(\w+)(?:\.\w+)* = ", b)))

    hard = assigned(r"fn hard_reset\(&mut self\) \{")
    soft = assigned(r"fn soft_reset\(&mut self\) \{")
    save_b = find_block(src, r"fn save_cursor\(&mut self\) \{", file)
    rest_b = find_block(src, r"fn restore_cursor\(&mut self\) \{", file)
    saved = re.findall(r"self\.saved_ctx\.(\w+) = ", save_b)
    restored = re.findall(r" = self\.saved_ctx\.(\w+);", rest_b)
    xtw = len(re.findall(r"self\.xtwinops\s*=[^=]", src)) + len(re.findall(r"xtwinops: true", src))
    ctor = find_block(src, r"pub fn new\(\(cols, rows\): \(usize, usize\), scrollback_limit: Option<usize>\) -> Self \{", file)
    alt0 = bool(re.search(r"let alternate_buffer = Buffer::new\(cols, rows, Some\(0\), None\);", ctor))
    sw = find_block(src, r"fn switch_to_alternate_buffer\(&mut self\) \{", file)
    alt1 = bool(re.search(r"self\.buffer = Buffer::new\(self\.cols, self\.rows, Some\(0\), Some\(&self\.pen\)\);", sw))
    hr = find_block(src, r"fn hard_reset\(&mut self\) \{", file)
    alt2 = bool(re.search(r"let alternate_buffer = Buffer::new\(self\.cols, self\.rows, Some\(0\), None\);", hr))
    return fields, hard, soft, saved, restored, xtw, (alt0 and alt1 and alt2)


# ---------------------------------------------------------------------------------------------

def lean_list(items, indent="  "):
    if not items:
        return "[]"
    return "[\n" + ",\n".join(indent + "  " + it for it in items) + "\n" + indent + "]"


def main():
    repo = sys.argv[1] if len(sys.argv) > 1 else "/repo"
    outdir = sys.argv[2] if len(sys.argv) > 2 else "/verif/lean/Avt/Gen"
    os.makedirs(outdir, exist_ok=True)

    def rd(p):
        with open(os.path.join(repo, p), encoding="utf-8") as f:
            return strip_comments(f.read())

    psrc = rd("src/parser.rs")
    pf, pt, arms = t1_feed(psrc, "src/parser.rs")
    ex = t2_execute(psrc, "src/parser.rs")
    esc = t3_esc(psrc, "src/parser.rs")
    csi = t3_csi(psrc, "src/parser.rs")
    ansi = t4_modes(psrc, "ansi_mode", "AnsiMode", "src/parser.rs")
    dec = t4_modes(psrc, "dec_mode", "DecMode", "src/parser.rs")
    params_len = const_usize(psrc, "PARAMS_LEN", "src/parser.rs")
    max_param_len = const_usize(psrc, "MAX_PARAM_LEN", "src/parser.rs")
    gfx, glo, ghi, gbase = t4_charset(rd("src/charset.rs"), "src/charset.rs")
    masks = t4_pen(rd("src/pen.rs"), "src/pen.rs")
    col = t4_color(rd("src/color.rs"), "src/color.rs")
    hard_div = t4_hard(rd("src/buffer.rs"), "src/buffer.rs")
    tsrc = rd("src/terminal.rs")
    fields, hard, soft, saved, restored, xtw, alt_zero = t5_fields(tsrc, "src/terminal.rs")

    L = []
    L.append("/- GENERATED by translate/avt2lean.py from /repo/src on every run — do not edit. -/")
    L.append("import Avt.Model.Types")
    L.append("namespace Avt.Gen")
    L.append("open Avt")
    L.append("")
    L.append(f"def premapFrom : Nat := {pf}")
    L.append(f"def premapTo : Nat := {pt}")
    L.append(f"def paramsLen : Nat := {params_len}")
    L.append(f"def maxParamLen : Nat := {max_param_len}")
    L.append("")
    L.append("/-- the arms of `match (&self.state, input2)` in `Parser::feed`, in source order -/")
    items = []
    for pats, acts in arms:
        ps = ", ".join("⟨%s, %d, %d⟩" % ("none" if st == "_" else f"some PState.{st}", lo, hi) for st, lo, hi in pats)
        items.append(f"⟨[{ps}], [{', '.join(acts)}]⟩")
    L.append("def feedArms : List Arm := " + lean_list(items))
    L.append("")
    L.append("def execTable : List (Nat × Function) := " + lean_list([f"({c}, {f})" for c, f in ex]))
    L.append("")
    L.append("def escArms : List EscArm := " + lean_list([f"⟨{ip}, {lo}, {hi}, {r}⟩" for ip, lo, hi, r in esc]))
    L.append("")
    L.append("def csiArms : List CsiArm := " + lean_list([f"⟨{ip}, {fin}, {r}⟩" for ip, fin, r in csi]))
    L.append("")
    L.append("def ansiModes : List (Nat × AnsiMode) := [" + ", ".join(f"({k}, {v})" for k, v in ansi) + "]")
    L.append("def decModes : List (Nat × DecMode) := [" + ", ".join(f"({k}, {v})" for k, v in dec) + "]")
    L.append("")
    L.append("def gfxChars : List Nat := [" + ", ".join(str(c) for c in gfx) + "]")
    L.append(f"def gfxLo : Nat := {glo}")
    L.append(f"def gfxHi : Nat := {ghi}")
    L.append(f"def gfxBase : Nat := {gbase}")
    L.append("")
    for name in ["ITALIC", "UNDERLINE", "STRIKETHROUGH", "BLINK", "INVERSE"]:
        L.append(f"def {name.lower()}Mask : Nat := {masks[name]}")
    L.append("")
    L.append(f"def colorLt1 : Nat := {col[0]}")
    L.append(f"def colorLt2 : Nat := {col[1]}")
    L.append(f"def colorBrightAdd : Nat := {col[2]}")
    L.append(f"def colorIdxAdd : Nat := {col[3]}")
    L.append(f"def colorRgbAdd : Nat := {col[4]}")
    L.append(f"def hardDiv : Nat := {hard_div}")
    L.append("")
    q = lambda xs: "[" + ", ".join('"%s"' % x for x in xs) + "]"
    L.append(f"def terminalFields : List String := {q(fields)}")
    L.append(f"def hardResetAssigned : List String := {q(hard)}")
    L.append(f"def softResetAssigned : List String := {q(soft)}")
    L.append(f"def saveCursorFields : List String := {q(saved)}")
    L.append(f"def restoreCursorFields : List String := {q(restored)}")
    L.append(f"def xtwinopsAssignments : Nat := {xtw}")
    L.append(f"def alternateBuffersBuiltWithLimitZero : Bool := {'true' if alt_zero else 'false'}")
    L.append("")
    L.append("end Avt.Gen")
    text = "\n".join(L) + "\n"
    path = os.path.join(outdir, "Tables.lean")
    old = None
    if os.path.exists(path):
        with open(path, encoding="utf-8") as f:
            old = f.read()
    if old != text:
        with open(path, "w", encoding="utf-8") as f:
            f.write(text)
        print(f"translator: wrote {path} (changed)")
    else:
        print(f"translator: {path} unchanged")
    print(f"translator: feedArms={len(arms)} execTable={len(ex)} escArms={len(esc)} csiArms={len(csi)} "
          f"ansiModes={len(ansi)} decModes={len(dec)} gfx={len(gfx)} terminalFields={len(fields)}")


if __name__ == "__main__":
    try:
        main()
    except Mismatch as e:
        print(str(e))
        sys.exit(3)
