#!/usr/bin/env python3
"""rs2lean.py -- regenerate lean/Avt/Gen/TerminalGen.lean from /repo/src (run by every check).

    python3 rs2lean.py <repo> <outdir>

Second translator of the avt verification stage (the first one, avt2lean.py, regenerates the
table-like parts of the parser).  This one translates *function bodies* of src/terminal.rs,
src/tabs.rs, src/terminal/dirty_lines.rs, src/terminal/cursor.rs, src/pen.rs and src/cell.rs into
Lean definitions written in the same checked style as the hand-written model (`Option`-valued,
`none` = the Rust code panics, the primitives `csub`, `setAt`, `fillRange`, and the model's
`Buffer.*`, `Tabs.*`, `Dirty.*` functions for calls into those objects).  `Avt/Lemmas/GenEq.lean`
then proves, for every input, that each generated definition equals the hand-written model
function; a change in the Rust body of a translated function changes the generated definition and
the equality theorem stops checking.

Style: a small recursive-descent parser for an explicitly listed subset of Rust (see
RS2LEAN_NOTES.md).  Anything outside the subset makes THAT function untranslated: it is not
emitted, its name and the reason go into `GenT.untranslated`, and nothing is guessed.  Problems
that make the whole run meaningless (file missing, token that cannot be lexed, struct/enum
declarations not in the expected shape) exit with code 3 and
"translator-mismatch: <file>: <what>".  stdlib only; the output file is written only when its
content changed.
"""
import os
import re
import sys


class Mismatch(Exception):
    """whole-run failure (exit code 3)"""


class Unsupported(Exception):
    """per-function failure: the function is listed in `untranslated`"""


def fail(file, what):
    raise Mismatch(f"translator-mismatch: {file}: {what}")


def unsup(what):
    raise Unsupported(what)


# =============================================================================================
# 1. lexer

TOKEN_RE = re.compile(r"""
  (?P<ws>\s+)
 |(?P<comment>//[^\n]*|/\*.*?\*/)
 |(?P<str>"(?:\\.|[^"\\])*")
 |(?P<char>'(?:\\u\{[0-9a-fA-F]+\}|\\x[0-9a-fA-F]{2}|\\.|[^'\\])')
 |(?P<lifetime>'[A-Za-z_]\w*)
 |(?P<int>0x[0-9a-fA-F_]+|\d[\d_]*)
 |(?P<ident>[A-Za-z_]\w*)
 |(?P<punct>::|->|=>|==|!=|<=|>=|&&|\|\||\+=|-=|\*=|\|=|&=|<<|\.\.=|\.\.|[-+*/%<>=!&|.,;:(){}\[\]\#?@^])
""", re.X | re.S)


class Tok:
    __slots__ = ("kind", "text", "line")

    def __init__(self, kind, text, line):
        self.kind, self.text, self.line = kind, text, line

    def __repr__(self):
        return f"{self.text!r}@{self.line}"


def lex(src, file):
    toks = []
    pos = 0
    line = 1
    n = len(src)
    while pos < n:
        m = TOKEN_RE.match(src, pos)
        if not m:
            fail(file, f"line {line}: cannot tokenise {src[pos:pos+20]!r}")
        kind = m.lastgroup
        text = m.group(0)
        if kind not in ("ws", "comment"):
            toks.append(Tok(kind, text, line))
        line += text.count("\n")
        pos = m.end()
    toks.append(Tok("eof", "<eof>", line))
    return toks


def char_val(lit):
    s = lit[1:-1]
    m = re.fullmatch(r"\\u\{([0-9a-fA-F]+)\}", s)
    if m:
        return int(m.group(1), 16)
    m = re.fullmatch(r"\\x([0-9a-fA-F]{2})", s)
    if m:
        return int(m.group(1), 16)
    if len(s) == 2 and s[0] == "\\":
        esc = {"n": 10, "r": 13, "t": 9, "\\": 92, "'": 39, "0": 0}
        if s[1] in esc:
            return esc[s[1]]
        unsup(f"unknown char escape {lit}")
    if len(s) == 1:
        return ord(s)
    unsup(f"bad char literal {lit}")


# =============================================================================================
# 2. item scanner: structs, enums, impl blocks, fns (bodies kept as token ranges)

class FnItem:
    def __init__(self, file, owner, trait, name, attrs, params, ret, body, line):
        self.file = file          # source file (relative)
        self.owner = owner        # impl type name or None for a free fn
        self.trait = trait        # trait name for `impl Trait for Type`, else None
        self.name = name
        self.attrs = attrs        # list of attribute strings
        self.params = params      # token list between the parentheses
        self.ret = ret            # token list after `->` (may be empty)
        self.body = body          # token list between the braces of the body
        self.line = line

    @property
    def key(self):
        return (self.owner, self.name)

    @property
    def qname(self):
        return f"{self.owner}::{self.name}" if self.owner else self.name


class Scanner:
    def __init__(self, toks, file):
        self.t = toks
        self.file = file
        self.structs = {}     # name -> list of (field, type-tokens)   (named)   or ("tuple", [type-tokens])
        self.enums = {}       # name -> list of (variant, [payload type-tokens])
        self.fns = []
        self.skipped = []     # (qualified name, reason) for cfg(test) items

    def matching(self, i):
        """index of the bracket matching the one at i"""
        op = self.t[i].text
        cl = {"(": ")", "[": "]", "{": "}"}[op]
        depth = 0
        j = i
        while True:
            tx = self.t[j]
            if tx.kind == "eof":
                fail(self.file, f"line {self.t[i].line}: unbalanced {op}")
            if tx.kind == "punct":
                if tx.text == op:
                    depth += 1
                elif tx.text == cl:
                    depth -= 1
                    if depth == 0:
                        return j
            j += 1

    def scan(self):
        self.items(0, len(self.t) - 1, None, None)

    def attrs_at(self, i):
        attrs = []
        while self.t[i].text == "#":
            j = i + 1
            if self.t[j].text == "!":
                j += 1
            if self.t[j].text != "[":
                fail(self.file, f"line {self.t[i].line}: bad attribute")
            k = self.matching(j)
            attrs.append("".join(x.text for x in self.t[j + 1:k]))
            i = k + 1
        return attrs, i

    def items(self, i, end, owner, trait):
        t = self.t
        while i < end:
            attrs, i = self.attrs_at(i)
            if i >= end:
                break
            # visibility
            if t[i].text == "pub":
                i += 1
                if t[i].text == "(":
                    i = self.matching(i) + 1
            tx = t[i]
            if tx.text == "fn":
                i = self.fn_item(i, owner, trait, attrs)
            elif tx.text == "struct":
                i = self.struct_item(i)
            elif tx.text == "enum":
                i = self.enum_item(i)
            elif tx.text == "impl":
                i = self.impl_item(i, attrs)
            elif tx.text == "mod":
                # `mod x;` or `mod x { ... }` (tests): skipped
                j = i + 2
                if t[j].text == "{":
                    i = self.matching(j) + 1
                elif t[j].text == ";":
                    i = j + 1
                else:
                    fail(self.file, f"line {tx.line}: bad mod item")
            elif tx.text in ("use", "const", "type", "static"):
                while t[i].text != ";":
                    if t[i].text in "([{" and t[i].kind == "punct":
                        i = self.matching(i)
                    i += 1
                i += 1
            else:
                fail(self.file, f"line {tx.line}: unrecognised item starting with {tx.text!r}")

    def fn_item(self, i, owner, trait, attrs):
        t = self.t
        line = t[i].line
        name = t[i + 1].text
        j = i + 2
        if t[j].text == "<":
            # generic fn: not translated (skipped as a whole)
            while t[j].text != "{":
                j += 1
            self.skipped.append((name, "generic fn"))
            return self.matching(j) + 1
        if t[j].text != "(":
            fail(self.file, f"line {line}: fn {name}: expected (")
        k = self.matching(j)
        params = t[j + 1:k]
        j = k + 1
        ret = []
        if t[j].text == "->":
            j += 1
            while t[j].text != "{":
                ret.append(t[j])
                j += 1
        if t[j].text != "{":
            fail(self.file, f"line {line}: fn {name}: expected body")
        k = self.matching(j)
        item = FnItem(self.file, owner, trait, name, attrs, params, ret, t[j + 1:k], line)
        if any(a.startswith("cfg(test)") for a in attrs):
            self.skipped.append((item.qname, "#[cfg(test)]"))
        else:
            self.fns.append(item)
        return k + 1

    def struct_item(self, i):
        t = self.t
        name = t[i + 1].text
        j = i + 2
        if t[j].text == "<":
            # generic struct: declaration not read
            while t[j].text not in ("{", ";"):
                j += 1
            return (self.matching(j) if t[j].text == "{" else j) + 1
        if t[j].text == "{":
            k = self.matching(j)
            fields = []
            p = j + 1
            while p < k:
                _, p = self.attrs_at(p)
                if t[p].text == "pub":
                    p += 1
                    if t[p].text == "(":
                        p = self.matching(p) + 1
                fname = t[p].text
                if t[p + 1].text != ":":
                    fail(self.file, f"line {t[p].line}: struct {name}: bad field")
                q = p + 2
                ty = []
                depth = 0
                while q < k and not (t[q].text == "," and depth == 0):
                    if t[q].text in ("<", "(", "["):
                        depth += 1
                    elif t[q].text in (">", ")", "]"):
                        depth -= 1
                    ty.append(t[q])
                    q += 1
                fields.append((fname, ty))
                p = q + 1
            self.structs[name] = fields
            return k + 1
        if t[j].text == "(":
            k = self.matching(j)
            parts = []
            cur = []
            depth = 0
            for x in t[j + 1:k]:
                if x.text in ("<", "(", "["):
                    depth += 1
                elif x.text in (">", ")", "]"):
                    depth -= 1
                if x.text == "," and depth == 0:
                    parts.append(cur)
                    cur = []
                else:
                    cur.append(x)
            if cur:
                parts.append(cur)
            parts = [[x for x in p if x.text != "pub"] for p in parts]
            self.structs[name] = ("tuple", parts)
            if t[k + 1].text != ";":
                fail(self.file, f"line {t[i].line}: tuple struct {name}: expected ;")
            return k + 2
        fail(self.file, f"line {t[i].line}: struct {name}: unrecognised shape")

    def enum_item(self, i):
        t = self.t
        name = t[i + 1].text
        j = i + 2
        if t[j].text != "{":
            fail(self.file, f"line {t[i].line}: enum {name}: unrecognised shape")
        k = self.matching(j)
        variants = []
        p = j + 1
        while p < k:
            _, p = self.attrs_at(p)
            if p >= k:
                break
            vname = t[p].text
            payload = []
            p += 1
            if t[p].text == "(":
                q = self.matching(p)
                cur = []
                depth = 0
                for x in t[p + 1:q]:
                    if x.text in ("<", "(", "["):
                        depth += 1
                    elif x.text in (">", ")", "]"):
                        depth -= 1
                    if x.text == "," and depth == 0:
                        payload.append(cur)
                        cur = []
                    else:
                        cur.append(x)
                if cur:
                    payload.append(cur)
                p = q + 1
            elif t[p].text == "{":
                fail(self.file, f"line {t[p].line}: enum {name}: struct variant")
            if t[p].text == "=":
                p += 2
            if t[p].text == ",":
                p += 1
            variants.append((vname, payload))
        self.enums[name] = variants
        return k + 1

    def impl_item(self, i, attrs):
        t = self.t
        j = i + 1
        if t[j].text == "<":
            # generic impl (IntoIterator for &'a Tabs): skipped as a whole
            while t[j].text != "{":
                j += 1
            return self.matching(j) + 1
        hdr = []
        while t[j].text != "{":
            hdr.append(t[j].text)
            j += 1
        k = self.matching(j)
        trait = None
        if "for" in hdr:
            f = hdr.index("for")
            trait = "".join(hdr[:f])
            owner = "".join(hdr[f + 1:])
        else:
            owner = "".join(hdr)
        if not re.fullmatch(r"\w+", owner):
            return k + 1           # e.g. `impl From<Cursor> for Option<(usize, usize)>`
        if trait is not None and trait not in ("Default", "From<char>"):
            return k + 1           # PartialEq etc.: not translated, not counted
        self.items(j + 1, k, owner, trait)
        return k + 1


# =============================================================================================
# 3. AST + recursive-descent parser for function bodies

class N:
    """AST node: kind + attributes"""

    def __init__(self, kind, line, **kw):
        self.kind = kind
        self.line = line
        self.__dict__.update(kw)

    def __repr__(self):
        d = {k: v for k, v in self.__dict__.items() if k not in ("kind", "line")}
        return f"{self.kind}{d}"


BINOPS = [
    # (precedence, operators)  higher binds tighter
    (1, ("||",)),
    (2, ("&&",)),
    (3, ("==", "!=", "<", ">", "<=", ">=")),
    (4, ("|",)),
    (5, ("^",)),
    (6, ("&",)),
    (7, ("<<",)),
    (8, ("+", "-")),
    (9, ("*", "/", "%")),
]
PREC = {op: p for p, ops in BINOPS for op in ops}
ASSIGN_OPS = ("=", "+=", "-=", "|=", "&=", "*=")


class Parser:
    def __init__(self, toks):
        self.t = list(toks) + [Tok("eof", "<eof>", toks[-1].line if toks else 0)]
        self.i = 0

    # -- helpers
    @property
    def cur(self):
        return self.t[self.i]

    def peek(self, k=1):
        return self.t[min(self.i + k, len(self.t) - 1)]

    def at(self, text):
        return self.cur.kind in ("punct", "ident") and self.cur.text == text

    def eat(self, text):
        if self.at(text):
            self.i += 1
            return True
        return False

    def expect(self, text):
        if not self.at(text):
            unsup(f"line {self.cur.line}: expected {text!r}, found {self.cur.text!r}")
        self.i += 1

    def ident(self):
        if self.cur.kind != "ident":
            unsup(f"line {self.cur.line}: expected identifier, found {self.cur.text!r}")
        self.i += 1
        return self.t[self.i - 1].text

    # -- types
    def ty(self):
        """parse a type, return a type value (see section 4)"""
        c = self.cur
        if self.eat("&"):
            if self.cur.kind == "lifetime":
                self.i += 1
            self.eat("mut")
            return self.ty()
        if self.eat("("):
            parts = []
            while not self.at(")"):
                parts.append(self.ty())
                if not self.eat(","):
                    break
            self.expect(")")
            if not parts:
                return "unit"
            return ("tuple", tuple(parts))
        if self.eat("["):
            el = self.ty()
            if self.eat(";"):
                n = self.cur.text
                self.i += 1
                self.expect("]")
                return ("array", el, int(n))
            self.expect("]")
            return ("vec", el)            # slice
        if c.kind != "ident":
            unsup(f"line {c.line}: unsupported type starting with {c.text!r}")
        name = self.ident()
        while self.eat("::"):
            name = self.ident()
        args = []
        if self.eat("<"):
            while not self.at(">"):
                args.append(self.ty())
                if not self.eat(","):
                    break
            self.expect(">")
        if name in ("usize", "isize", "u16", "u8", "bool", "char"):
            return name
        if name == "Vec" and len(args) == 1:
            return ("vec", args[0])
        if name == "Option" and len(args) == 1:
            return ("opt", args[0])
        if name == "Range" and len(args) == 1:
            return ("range", args[0])
        if name == "Self":
            return ("self",)
        if name == "String" and not args:
            return ("named", "String")
        if args:
            unsup(f"line {c.line}: unsupported generic type {name}")
        return ("named", name)

    # -- patterns
    def pattern(self):
        c = self.cur
        if self.eat("_"):
            return N("pwild", c.line)
        if self.eat("&"):
            return self.pattern()
        if self.eat("mut"):
            return N("pbind", c.line, name=self.ident())
        if self.eat("("):
            parts = []
            while not self.at(")"):
                parts.append(self.pattern())
                if not self.eat(","):
                    break
            self.expect(")")
            return N("ptuple", c.line, parts=parts)
        if c.kind == "int":
            self.i += 1
            return N("plit", c.line, value=int(c.text.replace("_", ""), 0), ty="int")
        if c.kind == "ident" and c.text in ("true", "false"):
            self.i += 1
            return N("plit", c.line, value=(c.text == "true"), ty="bool")
        if c.kind == "ident":
            path = [self.ident()]
            while self.eat("::"):
                path.append(self.ident())
            args = None
            if self.eat("("):
                args = []
                while not self.at(")"):
                    args.append(self.pattern())
                    if not self.eat(","):
                        break
                self.expect(")")
            return N("ppath", c.line, path=path, args=args)
        unsup(f"line {c.line}: unsupported pattern starting with {c.text!r}")

    # -- blocks and statements
    def block(self):
        self.expect("{")
        b = self.block_body("}")
        self.expect("}")
        return b

    def block_body(self, closer):
        """statements up to `closer` (not consumed); returns N('block', stmts, tail)"""
        line = self.cur.line
        stmts = []
        tail = None
        while not (self.at(closer) if closer else self.cur.kind == "eof"):
            c = self.cur
            if self.eat(";"):
                continue
            if self.at("use"):
                self.i += 1
                path = [self.ident()]
                glob = False
                while self.eat("::"):
                    if self.eat("*"):
                        glob = True
                        break
                    path.append(self.ident())
                self.expect(";")
                if not glob:
                    unsup(f"line {c.line}: `use` without glob inside a body")
                stmts.append(N("use", c.line, path=path))
                continue
            if self.at("let"):
                self.i += 1
                pat = self.pattern()
                ty = None
                if self.eat(":"):
                    ty = self.ty()
                self.expect("=")
                init = self.expr()
                self.expect(";")
                stmts.append(N("let", c.line, pat=pat, ty=ty, init=init))
                continue
            if self.at("for"):
                self.i += 1
                pat = self.pattern()
                self.expect("in")
                it = self.expr(no_struct=True)
                body = self.block()
                stmts.append(N("for", c.line, pat=pat, iter=it, body=body))
                continue
            if self.at("return"):
                self.i += 1
                e = None if self.at(";") else self.expr()
                self.expect(";")
                stmts.append(N("return", c.line, value=e))
                continue
            if self.at("while") or self.at("loop"):
                stmts.append(self.loop_stmt())
                continue
            e = self.expr()
            if self.cur.kind == "punct" and self.cur.text in ASSIGN_OPS:
                op = self.cur.text
                self.i += 1
                rhs = self.expr()
                self.expect(";")
                stmts.append(N("assign", c.line, lhs=e, op=op, rhs=rhs))
                continue
            if self.eat(";"):
                stmts.append(N("expr", c.line, e=e))
                continue
            if self.at(closer) if closer else self.cur.kind == "eof":
                tail = e
                break
            if e.kind in ("if", "iflet", "match", "blockexpr"):
                stmts.append(N("expr", c.line, e=e))
                continue
            unsup(f"line {self.cur.line}: expected `;` or end of block, found {self.cur.text!r}")
        return N("block", line, stmts=stmts, tail=tail)

    def loop_stmt(self):
        """hook: `while` / `loop` statements (outside the subset of this translator; see rs2lean_buf.py)"""
        c = self.cur
        unsup(f"line {c.line}: `{c.text}` loops are outside the subset")

    # -- expressions
    def expr(self, no_struct=False):
        return self.range_expr(no_struct)

    def range_expr(self, ns):
        c = self.cur
        if self.at(".."):
            self.i += 1
            hi = None
            if not (self.at("]") or self.at(")") or self.at(";") or self.at(",")):
                hi = self.binary(1, ns)
            return N("range", c.line, lo=None, hi=hi)
        lo = self.binary(1, ns)
        if self.at(".."):
            self.i += 1
            hi = None
            if not (self.at("]") or self.at(")") or self.at(";") or self.at(",") or self.at("{")):
                hi = self.binary(1, ns)
            return N("range", c.line, lo=lo, hi=hi)
        if self.at("..="):
            unsup(f"line {c.line}: inclusive range")
        return lo

    def binary(self, minp, ns):
        lhs = self.cast(ns)
        while self.cur.kind == "punct" and self.cur.text in PREC and PREC[self.cur.text] >= minp:
            op = self.cur.text
            line = self.cur.line
            p = PREC[op]
            self.i += 1
            rhs = self.binary(p + 1, ns)
            if p == 3 and self.cur.kind == "punct" and self.cur.text in PREC and PREC[self.cur.text] == 3:
                unsup(f"line {line}: chained comparison")
            lhs = N("bin", line, op=op, a=lhs, b=rhs)
        return lhs

    def cast(self, ns):
        e = self.unary(ns)
        while self.at("as"):
            line = self.cur.line
            self.i += 1
            e = N("cast", line, e=e, ty=self.ty())
        return e

    def unary(self, ns):
        c = self.cur
        if c.kind == "punct" and c.text in ("-", "!", "*"):
            self.i += 1
            return N("un", c.line, op=c.text, e=self.unary(ns))
        if c.kind == "punct" and c.text in ("&", "&&"):
            self.i += 1
            self.eat("mut")
            return N("un", c.line, op="&", e=self.unary(ns))
        return self.postfix(ns)

    def args(self):
        self.expect("(")
        out = []
        while not self.at(")"):
            out.append(self.expr())
            if not self.eat(","):
                break
        self.expect(")")
        return out

    def postfix(self, ns):
        e = self.primary(ns)
        while True:
            c = self.cur
            if self.at("."):
                nx = self.peek()
                if nx.kind == "int":
                    self.i += 2
                    e = N("field", c.line, e=e, name=nx.text)
                elif nx.kind == "ident":
                    self.i += 2
                    if self.at("("):
                        e = N("mcall", c.line, recv=e, name=nx.text, args=self.args())
                    elif self.at("::"):
                        unsup(f"line {c.line}: turbofish")
                    else:
                        e = N("field", c.line, e=e, name=nx.text)
                else:
                    unsup(f"line {c.line}: unexpected token after `.`")
            elif self.at("["):
                self.i += 1
                ix = self.expr()
                self.expect("]")
                e = N("index", c.line, e=e, ix=ix)
            elif self.at("(") and e.kind == "path":
                e = N("call", c.line, path=e.path, args=self.args())
            elif self.at("?"):
                unsup(f"line {c.line}: `?` operator")
            else:
                return e

    def primary(self, ns):
        c = self.cur
        if c.kind == "int":
            self.i += 1
            return N("int", c.line, value=int(c.text.replace("_", ""), 0))
        if c.kind == "char":
            self.i += 1
            return N("char", c.line, value=char_val(c.text))
        if c.kind == "str":
            unsup(f"line {c.line}: string literal")
        if c.kind == "punct" and c.text == "(":
            self.i += 1
            parts = []
            trailing = False
            while not self.at(")"):
                parts.append(self.expr())
                trailing = False
                if not self.eat(","):
                    break
                trailing = True
            self.expect(")")
            if len(parts) == 1 and not trailing:
                return N("paren", c.line, e=parts[0])
            return N("tuple", c.line, parts=parts)
        if c.kind == "punct" and c.text == "[":
            self.i += 1
            parts = []
            while not self.at("]"):
                parts.append(self.expr())
                if self.at(";"):
                    unsup(f"line {c.line}: array repeat expression")
                if not self.eat(","):
                    break
            self.expect("]")
            return N("array", c.line, parts=parts)
        if c.kind == "punct" and c.text in ("|", "||"):
            self.i += 1
            params = []
            if c.text == "|":
                while not self.at("|"):
                    params.append(self.pattern())
                    if not self.eat(","):
                        break
                self.expect("|")
            body = self.expr()
            return N("closure", c.line, params=params, body=body)
        if c.kind == "punct" and c.text == "{":
            return N("blockexpr", c.line, block=self.block())
        if c.kind != "ident":
            unsup(f"line {c.line}: unexpected token {c.text!r}")
        if c.text in ("true", "false"):
            self.i += 1
            return N("bool", c.line, value=(c.text == "true"))
        if c.text == "if":
            return self.if_expr()
        if c.text == "match":
            self.i += 1
            scrut = self.expr(no_struct=True)
            self.expect("{")
            arms = []
            while not self.at("}"):
                pats = [self.pattern()]
                while self.eat("|"):
                    pats.append(self.pattern())
                if self.at("if"):
                    unsup(f"line {self.cur.line}: match guard")
                self.expect("=>")
                if self.at("{"):
                    body = N("blockexpr", self.cur.line, block=self.block())
                    self.eat(",")
                else:
                    body = self.expr()
                    if not self.at("}"):
                        self.expect(",")
                arms.append((pats, body))
            self.expect("}")
            return N("match", c.line, scrut=scrut, arms=arms)
        if c.text in ("while", "loop", "unsafe", "move", "break", "continue"):
            unsup(f"line {c.line}: `{c.text}` is outside the subset")
        if c.text == "return":
            unsup(f"line {c.line}: `return` in expression position")
        # path, macro call, struct literal
        path = [self.ident()]
        while self.eat("::"):
            if self.at("<"):
                unsup(f"line {c.line}: turbofish")
            path.append(self.ident())
        if self.at("!"):
            nx = self.peek()
            if nx.kind == "punct" and nx.text in ("[", "("):
                self.i += 1
                opener = self.cur.text
                closer = {"[": "]", "(": ")"}[opener]
                self.i += 1
                if path != ["vec"]:
                    unsup(f"line {c.line}: macro {'::'.join(path)}!")
                if self.eat(closer):
                    return N("vecmac", c.line, elems=[], rep=None)
                first = self.expr()
                if self.eat(";"):
                    cnt = self.expr()
                    self.expect(closer)
                    return N("vecmac", c.line, elems=None, rep=(first, cnt))
                elems = [first]
                while self.eat(","):
                    if self.at(closer):
                        break
                    elems.append(self.expr())
                self.expect(closer)
                return N("vecmac", c.line, elems=elems, rep=None)
        if self.at("{") and not ns and path[-1][0].isupper():
            self.i += 1
            fields = []
            while not self.at("}"):
                fl = self.cur.line
                fname = self.ident()
                if self.eat(":"):
                    fv = self.expr()
                else:
                    fv = N("path", fl, path=[fname])
                fields.append((fname, fv))
                if self.at(".."):
                    unsup(f"line {fl}: struct update syntax")
                if not self.eat(","):
                    break
            self.expect("}")
            return N("structlit", c.line, path=path, fields=fields)
        return N("path", c.line, path=path)

    def if_expr(self):
        c = self.cur
        self.expect("if")
        if self.at("let"):
            self.i += 1
            pat = self.pattern()
            self.expect("=")
            scrut = self.expr(no_struct=True)
            then = self.block()
            els = None
            if self.eat("else"):
                els = self.if_expr() if self.at("if") else N("blockexpr", self.cur.line, block=self.block())
            return N("iflet", c.line, pat=pat, scrut=scrut, then=then, els=els)
        cond = self.expr(no_struct=True)
        then = self.block()
        els = None
        if self.eat("else"):
            els = self.if_expr() if self.at("if") else N("blockexpr", self.cur.line, block=self.block())
        return N("if", c.line, cond=cond, then=then, els=els)

    def params(self):
        """parameter list of a fn: returns (self_mode, [(pattern, type)])"""
        self_mode = None
        out = []
        while self.cur.kind != "eof":
            if self.at("&") and (self.peek().text == "self" or (self.peek().text == "mut" and self.peek(2).text == "self")):
                self.i += 1
                if self.eat("mut"):
                    self_mode = "mut"
                else:
                    self_mode = "ref"
                self.expect("self")
            elif self.at("self"):
                self.i += 1
                self_mode = "val"
            else:
                pat = self.pattern()
                self.expect(":")
                out.append((pat, self.ty()))
            if not self.eat(","):
                break
        if self.cur.kind != "eof":
            unsup(f"line {self.cur.line}: cannot parse parameter list at {self.cur.text!r}")
        return self_mode, out


# =============================================================================================
# 4. tables (explicit; everything the translator "knows" about names is listed here)

SOURCES = [
    # (file, role)  role "gen": functions are translated; "decl": only struct/enum declarations are read
    ("src/terminal.rs", "gen"),
    ("src/terminal/cursor.rs", "gen"),
    ("src/terminal/dirty_lines.rs", "gen"),
    ("src/tabs.rs", "gen"),
    ("src/pen.rs", "gen"),
    ("src/cell.rs", "gen"),
    ("src/parser.rs", "decl"),
    ("src/buffer.rs", "decl"),
    ("src/charset.rs", "decl"),
]

# impl owners whose functions are translated, with the name of the Lean variable that plays `self`
OWNERS = {"Terminal": "t", "SavedCtx": "c", "Cursor": "c", "Pen": "p", "Cell": "c", "Tabs": "l",
          "DirtyLines": "d"}

# Rust type name -> Lean type
LEAN_TYPES = {
    "Terminal": "Avt.Terminal", "Pen": "Avt.Pen", "Cell": "Avt.Cell", "Cursor": "Avt.Cursor",
    "SavedCtx": "Avt.SavedCtx", "Buffer": "Avt.Buffer", "Line": "Avt.Line", "Charset": "Avt.Charset",
    "Color": "Avt.Color", "Intensity": "Avt.Intensity", "BufferType": "Avt.BufferType",
    "CursorKeysMode": "Avt.CursorKeysMode", "Function": "Avt.Function", "AnsiMode": "Avt.AnsiMode",
    "DecMode": "Avt.DecMode", "CtcOp": "Avt.CtcOp", "EdScope": "Avt.EdScope", "ElScope": "Avt.ElScope",
    "TbcScope": "Avt.TbcScope", "SgrOp": "Avt.SgrOp", "EraseMode": "Avt.Buffer.EraseMode",
    "Tabs": "List Nat", "DirtyLines": "List Bool", "XtwinopsOp": "Nat × Nat",
}

# newtypes over a Vec: `self.0` is the value itself
NEWTYPES = {"Tabs": ("vec", "usize"), "DirtyLines": ("vec", "bool")}

# (struct, rust field) -> Lean field, where it is not just camelCase
FIELD_RENAME = {("Pen", "foreground"): "fg", ("Pen", "background"): "bg",
                ("Cell", "0"): "ch", ("Cell", "1"): "pen"}

# (enum, rust variant) -> Lean constructor, where it is not just lower-case-first
VARIANT_RENAME = {
    ("SgrOp", "SetBoldIntensity"): "setBold", ("SgrOp", "SetFaintIntensity"): "setFaint",
    ("SgrOp", "SetForegroundColor"): "setFg", ("SgrOp", "ResetForegroundColor"): "resetFg",
    ("SgrOp", "SetBackgroundColor"): "setBg", ("SgrOp", "ResetBackgroundColor"): "resetBg",
}

# constants of pen.rs: their values are regenerated by avt2lean.py into Gen.Tables
CONSTS = {"ITALIC_MASK": ("Avt.Gen.italicMask", "u8"), "UNDERLINE_MASK": ("Avt.Gen.underlineMask", "u8"),
          "STRIKETHROUGH_MASK": ("Avt.Gen.strikethroughMask", "u8"), "BLINK_MASK": ("Avt.Gen.blinkMask", "u8"),
          "INVERSE_MASK": ("Avt.Gen.inverseMask", "u8")}

# calls into objects that are NOT translated by this tool: mapped to the hand-written model.
# args: "v" plain value, "t2" a 2-tuple flattened into two arguments, "r" a range flattened into two
EXT_METHODS = {
    ("Buffer", "scroll_up"): dict(lean="Avt.Buffer.scrollUp", mut=True, opt=True, args=["r", "v", "v"], ret="unit"),
    ("Buffer", "scroll_down"): dict(lean="Avt.Buffer.scrollDown", mut=True, opt=True, args=["r", "v", "v"], ret="unit"),
    ("Buffer", "print"): dict(lean="Avt.Buffer.print", mut=True, opt=True, args=["t2", "v"], ret="unit"),
    ("Buffer", "wrap"): dict(lean="Avt.Buffer.wrap", mut=True, opt=True, args=["v"], ret="unit"),
    ("Buffer", "insert"): dict(lean="Avt.Buffer.insert", mut=True, opt=True, args=["t2", "v", "v"], ret="unit"),
    ("Buffer", "delete"): dict(lean="Avt.Buffer.delete", mut=True, opt=True, args=["t2", "v", "v"], ret="unit"),
    ("Buffer", "erase"): dict(lean="Avt.Buffer.erase", mut=True, opt=True, args=["t2", "v", "v"], ret="unit"),
    ("Buffer", "resize"): dict(lean="Avt.Buffer.resize", mut=True, opt=True, args=["v", "v", "v"],
                               ret=("tuple", ("usize", "usize"))),
    ("Buffer", "gc"): dict(lean="Avt.Buffer.gc", mut=True, opt=False, args=[], ret=("optiter",)),
    ("Buffer", "view"): dict(lean="Avt.Buffer.view", mut=False, opt=False, args=[], ret=("vec", ("named", "Line"))),
    ("Buffer", "lines"): dict(lean="Avt.Buffer.lines", mut=False, opt=False, args=[], ret=("vec", ("named", "Line"))),
    ("Buffer", "text"): dict(lean="Avt.Buffer.text", mut=False, opt=False, args=[], ret=("vec", ("named", "String"))),
    ("Tabs", "set"): dict(lean="Avt.Tabs.set", mut=True, opt=False, args=["v"], ret="unit"),
    ("Tabs", "unset"): dict(lean="Avt.Tabs.unset", mut=True, opt=False, args=["v"], ret="unit"),
    ("Tabs", "expand"): dict(lean="Avt.Tabs.expand", mut=True, opt=False, args=["v", "v"], ret="unit"),
    ("Tabs", "contract"): dict(lean="Avt.Tabs.contract", mut=True, opt=False, args=["v"], ret="unit"),
    ("Tabs", "clear"): dict(lean=None, const="[]", mut=True, opt=False, args=[], ret="unit"),
    ("Tabs", "before"): dict(lean="Avt.Tabs.before", mut=False, opt=True, args=["v", "v"], ret=("opt", "usize")),
    ("Tabs", "after"): dict(lean="Avt.Tabs.after", mut=False, opt=True, args=["v", "v"], ret=("opt", "usize")),
    ("DirtyLines", "add"): dict(lean="Avt.Dirty.add", mut=True, opt=True, args=["v"], ret="unit"),
    ("DirtyLines", "extend"): dict(lean="Avt.Dirty.extend", mut=True, opt=True, args=["r"], ret="unit"),
    ("DirtyLines", "resize"): dict(lean="Avt.Dirty.resize", mut=True, opt=False, args=["v"], ret="unit"),
    ("DirtyLines", "clear"): dict(lean="Avt.Dirty.clear", mut=True, opt=False, args=[], ret="unit"),
    ("DirtyLines", "to_vec"): dict(lean="Avt.Dirty.toVec", mut=False, opt=False, args=[], ret=("vec", "usize")),
    ("Charset", "translate"): dict(lean="Avt.Charset.translate", mut=False, opt=True, args=["v"], ret="char"),
}
EXT_STATICS = {
    ("Buffer", "new"): dict(lean="Avt.Buffer.new", nargs=4, ret=("named", "Buffer")),
    ("Tabs", "new"): dict(lean="Avt.Tabs.new", nargs=1, ret=("named", "Tabs")),
    ("DirtyLines", "new"): dict(lean="Avt.Dirty.new", nargs=1, ret=("named", "DirtyLines")),
}

# parameter lists (tokens joined without blanks) the tables above were written against; a different
# signature in the source is a translator-mismatch (exit 3): the mapping would have to be re-read
EXT_SIGS = {
    ("Buffer", "new"): "cols:usize,rows:usize,scrollback_limit:Option<usize>,pen:Option<&Pen>,",
    ("Buffer", "print"): "&mutself,(col,row):VisualPosition,cell:Cell",
    ("Buffer", "wrap"): "&mutself,row:usize",
    ("Buffer", "insert"): "&mutself,(col,row):VisualPosition,mutn:usize,cell:Cell",
    ("Buffer", "delete"): "&mutself,(col,row):VisualPosition,mutn:usize,pen:&Pen",
    ("Buffer", "erase"): "&mutself,(col,row):VisualPosition,mode:EraseMode,pen:&Pen",
    ("Buffer", "scroll_up"): "&mutself,range:Range<usize>,mutn:usize,pen:&Pen",
    ("Buffer", "scroll_down"): "&mutself,range:Range<usize>,mutn:usize,pen:&Pen",
    ("Buffer", "resize"): "&mutself,new_cols:usize,new_rows:usize,mutcursor:VisualPosition,",
    ("Buffer", "gc"): "&mutself",
    ("Buffer", "view"): "&self",
    ("Buffer", "lines"): "&self",
    ("Buffer", "text"): "&self",
    ("Tabs", "new"): "cols:usize",
    ("Tabs", "set"): "&mutself,pos:usize",
    ("Tabs", "unset"): "&mutself,pos:usize",
    ("Tabs", "expand"): "&mutself,mutstart:usize,end:usize",
    ("Tabs", "contract"): "&mutself,pos:usize",
    ("Tabs", "clear"): "&mutself",
    ("Tabs", "before"): "&self,pos:usize,n:usize",
    ("Tabs", "after"): "&self,pos:usize,n:usize",
    ("DirtyLines", "new"): "len:usize",
    ("DirtyLines", "add"): "&mutself,n:usize",
    ("DirtyLines", "extend"): "&mutself,range:Range<usize>",
    ("DirtyLines", "resize"): "&mutself,len:usize",
    ("DirtyLines", "clear"): "&mutself",
    ("DirtyLines", "to_vec"): "&self",
    ("Charset", "translate"): "&self,input:char",
}

LEAN_KEYWORDS = {"fun", "at", "from", "end", "open", "in", "if", "then", "else", "match", "with", "do", "let",
                 "have", "show", "by", "def", "theorem", "where", "import", "namespace", "section", "local",
                 "instance", "structure", "class", "inductive", "deriving", "mutual", "prefix", "infix",
                 "notation", "macro", "syntax", "universe", "variable", "example", "abbrev", "private",
                 "protected", "partial", "unsafe", "noncomputable", "return", "for", "unless", "try", "catch",
                 "finally", "then", "using", "calc", "nomatch", "nofun", "Type", "Sort", "Prop", "set_option",
                 "attribute", "export", "extends", "mut", "break", "continue", "from", "obtain", "suffices"}

FN_RENAME = {"from": "fromChar"}


def camel(s):
    lead = len(s) - len(s.lstrip("_"))
    parts = s[lead:].split("_")
    out = parts[0] + "".join(p[:1].upper() + p[1:] for p in parts[1:])
    return "_" * lead + out


def lcfirst(s):
    return s[0].lower() + s[1:]


NUM_NAT = ("usize", "u16", "u8", "char")


def is_nat(ty):
    return ty in NUM_NAT


def is_num(ty):
    return ty in NUM_NAT or ty == "isize" or ty == "num"


def lty(ty):
    """Lean type of a Rust type value"""
    if ty in NUM_NAT or ty == "num":
        return "Nat"
    if ty == "isize":
        return "Int"
    if ty == "bool":
        return "Bool"
    if ty == "unit":
        return "Unit"
    if isinstance(ty, tuple):
        k = ty[0]
        if k == "vec":
            return f"List {latom(lty(ty[1]))}"
        if k == "opt":
            return f"Option {latom(lty(ty[1]))}"
        if k == "tuple":
            return " × ".join(latom(lty(x)) for x in ty[1])
        if k == "range":
            return "Nat × Nat"
        if k == "array" and ty[2] == 2:
            return f"{latom(lty(ty[1]))} × {latom(lty(ty[1]))}"
        if k == "optiter":
            return "List Avt.Line"
        if k == "named":
            if ty[1] == "String":
                return "List Nat"
            if ty[1] in LEAN_TYPES:
                return LEAN_TYPES[ty[1]]
    unsup(f"no Lean type for {ty!r}")


ATOM_RE = re.compile(r"[A-Za-z_][\w.']*|\d+|0x[0-9a-fA-F]+")


def balanced_group(s):
    """is s one bracketed group  ( ... ) / { ... } / [ ... ] / ⟨ ... ⟩ ?"""
    pairs = {"(": ")", "{": "}", "[": "]", "⟨": "⟩"}
    if not s or s[0] not in pairs or s[-1] != pairs[s[0]]:
        return False
    depth = 0
    for i, ch in enumerate(s):
        if ch in pairs:
            depth += 1
        elif ch in pairs.values():
            depth -= 1
            if depth == 0 and i != len(s) - 1:
                return False
    return depth == 0


def latom(s):
    s = s.strip()
    if ATOM_RE.fullmatch(s) or balanced_group(s):
        return s
    return f"({s})"


class Val:
    """a compiled expression: Lean text + Rust type.  kind: for bool 'bool' | 'prop'."""

    def __init__(self, lean, ty, kind=None, parts=None, extra=None):
        self.lean = lean
        self.ty = ty
        self.kind = kind
        self.parts = parts      # component Vals of a tuple / range literal
        self.extra = extra      # idiom-specific marker

    @property
    def a(self):
        return latom(self.lean)


# =============================================================================================
# 5. IR of the generated code (Option monad made explicit) and its rendering

class Yield:
    def __init__(self, text=None, outs=None):
        self.text = text        # fixed text, or
        self.outs = outs        # shared list of Lean names resolved at render time

    def is_opt(self):
        return False

    def get(self):
        if self.text is not None:
            return self.text
        if len(self.outs) == 1:
            return self.outs[0]
        return "(" + ", ".join(self.outs) + ")"


class YieldOpt:
    def __init__(self, text):
        self.text = text

    def is_opt(self):
        return True


class LetP:
    def __init__(self, pat, rhs, body):
        self.pat, self.rhs, self.body = pat, rhs, body

    def is_opt(self):
        return self.body.is_opt()


class BindO:
    def __init__(self, pat, rhs, body):
        self.pat, self.rhs, self.body = pat, rhs, body

    def is_opt(self):
        return True


class IfIR:
    def __init__(self, cond, a, b):
        self.cond, self.a, self.b = cond, a, b

    def is_opt(self):
        return self.a.is_opt() or self.b.is_opt()


class MatchIR:
    def __init__(self, scrut, arms):
        self.scrut, self.arms = scrut, arms

    def is_opt(self):
        return any(b.is_opt() for _, b in self.arms)


def pat_text(p):
    return p() if callable(p) else p


def bind(pat, rhs, body):
    """bind the value of rhs (text, or IR) to pat; Option-bind iff rhs can fail"""
    if isinstance(rhs, tuple):       # ("opt", text) / ("pure", text)
        return BindO(pat, rhs[1], body) if rhs[0] == "opt" else LetP(pat, rhs[1], body)
    return BindO(pat, rhs, body) if rhs.is_opt() else LetP(pat, rhs, body)


def wrap(pre, body):
    for kind, pat, rhs in reversed(pre):
        if kind == "bind":
            body = BindO(pat, rhs, body)
        elif kind == "let":
            body = LetP(pat, rhs, body)
        else:
            body = bind(pat, rhs, body)
    return body


def simplify(ir):
    """peephole: `match e with | none => none | some x => some x`  ==>  e   (and the `let` analogue)"""
    if isinstance(ir, (Yield, YieldOpt)) or hasattr(ir, "lines"):
        return ir
    if isinstance(ir, IfIR):
        return IfIR(ir.cond, simplify(ir.a), simplify(ir.b))
    if isinstance(ir, MatchIR):
        return MatchIR(ir.scrut, [(p, simplify(b)) for p, b in ir.arms])
    rhs = ir.rhs if isinstance(ir.rhs, str) else simplify(ir.rhs)
    body = simplify(ir.body)
    pat = pat_text(ir.pat)
    if isinstance(body, Yield) and body.get() == pat:
        if isinstance(ir, BindO):
            return YieldOpt(rhs) if isinstance(rhs, str) else rhs
        return Yield(text=rhs) if isinstance(rhs, str) else rhs
    return type(ir)(pat, rhs, body)


class Renderer:
    def __init__(self):
        self.k = 0

    def ind(self, lines):
        return ["  " + x for x in lines]

    def render(self, ir, opt):
        if hasattr(ir, "lines"):
            lines = list(ir.lines)
            if opt and not ir.opt:
                lines[0] = "some (" + lines[0]
                lines[-1] += ")"
            elif ir.opt and not opt:
                unsup("internal: fold rendered in the wrong mode")
            return lines
        if isinstance(ir, Yield):
            e = ir.get()
            return [f"some {latom(e)}" if opt else e]
        if isinstance(ir, YieldOpt):
            assert opt
            return [ir.text]
        if isinstance(ir, LetP):
            pat = pat_text(ir.pat)
            if isinstance(ir.rhs, str):
                head = [f"let {pat} := {ir.rhs}"]
            else:
                r = self.render(ir.rhs, False)
                head = [f"let {pat} := {r[0]}"] if len(r) == 1 else [f"let {pat} :="] + self.ind(r)
            return head + self.render(ir.body, opt)
        if isinstance(ir, BindO):
            assert opt
            pat = pat_text(ir.pat)
            if isinstance(ir.rhs, str):
                head = [f"match {ir.rhs} with"]
            else:
                r = self.render(ir.rhs, True)
                self.k += 1
                v = f"r{self.k}"
                head = ([f"let {v} := {r[0]}"] if len(r) == 1 else [f"let {v} :="] + self.ind(r)) + [f"match {v} with"]
            return head + ["| none => none", f"| some {pat} =>"] + self.ind(self.render(ir.body, True))
        if isinstance(ir, IfIR):
            a = self.render(ir.a, opt)
            b = self.render(ir.b, opt)
            if len(a) == 1 and len(b) == 1 and len(a[0]) + len(b[0]) + len(ir.cond) < 90:
                return [f"if {ir.cond} then {a[0]} else {b[0]}"]
            return [f"if {ir.cond} then"] + self.ind(a) + ["else"] + self.ind(b)
        if isinstance(ir, MatchIR):
            out = [f"match {ir.scrut} with"]
            for p, b in ir.arms:
                r = self.render(b, opt)
                if len(r) == 1 and len(r[0]) + len(p) < 90:
                    out.append(f"| {p} => {r[0]}")
                else:
                    out.append(f"| {p} =>")
                    out += self.ind(r)
            return out
        raise AssertionError(ir)

    def inline(self, ir, opt):
        """single-line rendering when possible, else None"""
        r = self.render(ir, opt)
        return r[0] if len(r) == 1 else None


# =============================================================================================
# 6. compilation of one function body

class RawIR:
    """pre-rendered lines (used for folds)"""

    def __init__(self, lines, opt):
        self.lines, self.opt = lines, opt

    def is_opt(self):
        return self.opt


class Effects:
    def __init__(self):
        self.mut_self = False
        self.assigned = []

    def assign(self, name):
        if name not in self.assigned:
            self.assigned.append(name)


class GenFn:
    def __init__(self, item):
        self.item = item
        self.owner = item.owner
        self.name = item.name
        self.lean_name = None
        self.params = []          # (lean name, lean type, rust type)
        self.shapes = []          # per Rust parameter: number of Lean parameters (tuple patterns are flattened)
        self.self_mode = None
        self.ret = "unit"
        self.opt = False
        self.lines = []
        self.res_type = None


class Ctx:
    def __init__(self, tr, gen, selfvar, env, uses, eff, counter, top):
        self.tr = tr
        self.gen = gen
        self.owner = gen.owner
        self.selfvar = selfvar
        self.env = env            # rust local -> (lean text, type)
        self.uses = uses          # enums glob-imported with `use E::*;`
        self.eff = eff
        self.counter = counter
        self.top = top            # still in the function's top-level block?
        self.declared = set()     # locals declared in this (child) context

    def child(self, eff=None):
        c = Ctx(self.tr, self.gen, self.selfvar, dict(self.env), list(self.uses),
                eff if eff is not None else self.eff, self.counter, False)
        if eff is None:
            c.declared = set(self.declared)
        return c

    def fresh(self, base="x"):
        self.counter[0] += 1
        return f"{base}{self.counter[0]}"

    def local(self, rust):
        nm = camel(rust)
        if nm in LEAN_KEYWORDS or nm == self.selfvar or re.fullmatch(r"[xr]\d+", nm):
            nm += "'"
        return nm

    def declare(self, rust, ty, lean=None):
        lean = lean or self.local(rust)
        self.env[rust] = (lean, ty)
        self.declared.add(rust)
        return lean

    def assign_local(self, rust):
        if rust not in self.declared:
            self.eff.assign(rust)

    def mutate_self(self):
        if self.gen.self_mode != "mut":
            unsup("mutation of `self` in a function that does not take `&mut self`")
        self.eff.mut_self = True


def line_of(e):
    return getattr(e, "line", 0)


class Compiler:
    def __init__(self, tr):
        self.tr = tr
        self.R = Renderer()

    # ---------------------------------------------------------------- types of declarations
    def struct_fields(self, sname):
        return self.tr.struct_fields(sname)

    def field(self, v, name, line):
        """field access on a compiled value"""
        ty = v.ty
        if isinstance(ty, tuple) and ty[0] == "named":
            s = ty[1]
            if s in NEWTYPES and name == "0":
                return Val(v.lean, NEWTYPES[s])
            fields = self.struct_fields(s)
            if fields is None:
                unsup(f"line {line}: field `{name}` of undeclared struct {s}")
            if name not in fields:
                unsup(f"line {line}: struct {s} has no field `{name}`")
            lf = FIELD_RENAME.get((s, name), camel(name))
            fty = fields[name]
            return Val(f"{v.a}.{lf}", fty, kind="bool" if fty == "bool" else None)
        if isinstance(ty, tuple) and ty[0] in ("tuple", "range") and name in ("0", "1"):
            if v.parts:
                return v.parts[int(name)]
            ety = ty[1][int(name)] if ty[0] == "tuple" else ty[1]
            if ty[0] == "tuple" and len(ty[1]) != 2:
                unsup(f"line {line}: projection from a tuple of length {len(ty[1])}")
            return Val(f"{v.a}.{int(name) + 1}", ety, kind="bool" if ety == "bool" else None)
        unsup(f"line {line}: field `{name}` on a value of type {ty!r}")

    # ---------------------------------------------------------------- places
    def self_place(self, e):
        """`self.a.b` -> ['a','b'];  `self` -> [];  else None"""
        chain = []
        while e.kind == "field":
            chain.append(e.name)
            e = e.e
        if e.kind == "path" and e.path == ["self"]:
            return list(reversed(chain))
        return None

    def place_val(self, ctx, fields, line):
        v = Val(ctx.selfvar, ("named", ctx.owner))
        for f in fields:
            v = self.field(v, f, line)
        return v

    def with_text(self, ctx, fields, value, line):
        """Lean text of `self` with the field path `fields` replaced by `value`"""
        if not fields:
            return value
        owner_ty = ("named", ctx.owner)
        if ctx.owner in NEWTYPES:
            if fields == ["0"]:
                return value
            unsup(f"line {line}: unexpected place in newtype {ctx.owner}")

        def go(base, ty, fs):
            if isinstance(ty, tuple) and ty[0] == "named" and ty[1] in NEWTYPES and fs == ["0"]:
                return value
            s = ty[1] if isinstance(ty, tuple) and ty[0] == "named" else None
            fields_t = self.struct_fields(s) if s else None
            if fields_t is None or fs[0] not in fields_t:
                unsup(f"line {line}: cannot assign to field `{fs[0]}` of {ty!r}")
            lf = FIELD_RENAME.get((s, fs[0]), camel(fs[0]))
            if len(fs) == 1:
                inner = value
            else:
                inner = go(f"{base}.{lf}", fields_t[fs[0]], fs[1:])
            return f"{{ {base} with {lf} := {inner} }}"

        return go(ctx.selfvar, owner_ty, fields)

    def store(self, ctx, pre, fields, value, line):
        ctx.mutate_self()
        pre.append(("let", ctx.selfvar, self.with_text(ctx, fields, value, line)))

    # ---------------------------------------------------------------- bool helpers
    def as_bool(self, v):
        if v.ty != "bool":
            unsup(f"expected a bool, got {v.ty!r}")
        return v.lean if v.kind != "prop" else f"decide ({v.lean})"

    def as_prop(self, v):
        if v.ty != "bool":
            unsup(f"expected a bool, got {v.ty!r}")
        return v.lean if v.kind == "prop" else f"{v.a} = true"

    def cond(self, v):
        if v.ty != "bool":
            unsup(f"condition is not a bool: {v.ty!r}")
        return v.lean

    def value_text(self, v):
        """text of a value when stored / passed: props become Bool"""
        if v.ty == "bool" and v.kind == "prop":
            return f"decide ({v.lean})"
        return v.lean

    # ---------------------------------------------------------------- enum resolution
    def resolve_variant(self, ctx, path, line, expected=None):
        """path of an enum variant -> (enum, variant, payload types) or None"""
        enums = self.tr.enums
        if len(path) >= 2 and path[-2] in enums:
            e = path[-2]
            for v, pay in enums[e]:
                if v == path[-1]:
                    return e, v, pay
            unsup(f"line {line}: enum {e} has no variant {path[-1]}")
        if len(path) >= 2 and path[-2] == "Ordering":
            return "Ordering", path[-1], []
        if len(path) == 1:
            cands = []
            for e in ctx.uses:
                for v, pay in enums.get(e, []):
                    if v == path[0]:
                        cands.append((e, v, pay))
            if len(cands) > 1:
                unsup(f"line {line}: ambiguous variant {path[0]}")
            if cands:
                return cands[0]
        return None

    def variant_lean(self, e, v):
        return f"{LEAN_TYPES[e]}.{VARIANT_RENAME.get((e, v), lcfirst(v))}"

    # ---------------------------------------------------------------- expressions
    def cexpr(self, e, ctx, pre, expect=None):
        m = getattr(self, "e_" + e.kind, None)
        if m is None:
            unsup(f"line {line_of(e)}: unsupported expression form `{e.kind}`")
        return m(e, ctx, pre, expect)

    def e_int(self, e, ctx, pre, expect):
        ty = expect if expect in NUM_NAT or expect == "isize" else "num"
        return Val(str(e.value), ty)

    def e_char(self, e, ctx, pre, expect):
        return Val(hex(e.value), "char")

    def e_bool(self, e, ctx, pre, expect):
        return Val("true" if e.value else "false", "bool", kind="bool")

    def e_paren(self, e, ctx, pre, expect):
        v = self.cexpr(e.e, ctx, pre, expect)
        return Val(v.a, v.ty, v.kind, v.parts, v.extra)

    def e_tuple(self, e, ctx, pre, expect):
        if not e.parts:
            return Val("()", "unit")
        vs = [self.cexpr(p, ctx, pre) for p in e.parts]
        return Val("(" + ", ".join(self.value_text(v) for v in vs) + ")", ("tuple", tuple(v.ty for v in vs)), parts=vs)

    def e_array(self, e, ctx, pre, expect):
        vs = [self.cexpr(p, ctx, pre) for p in e.parts]
        if len(vs) != 2:
            unsup(f"line {e.line}: array literal of length {len(vs)} (only pairs are modelled)")
        return Val("(" + ", ".join(v.lean for v in vs) + ")", ("array", vs[0].ty, 2), parts=vs)

    def e_vecmac(self, e, ctx, pre, expect):
        if e.rep is not None:
            x = self.cexpr(e.rep[0], ctx, pre)
            n = self.cexpr(e.rep[1], ctx, pre)
            return Val(f"List.replicate {n.a} {latom(self.value_text(x))}", ("vec", x.ty))
        vs = [self.cexpr(p, ctx, pre) for p in e.elems]
        ety = vs[0].ty if vs else (expect[1] if isinstance(expect, tuple) and expect[0] == "vec" else "num")
        return Val("[" + ", ".join(v.lean for v in vs) + "]", ("vec", ety))

    def e_path(self, e, ctx, pre, expect):
        p = e.path
        if p == ["self"]:
            if ctx.selfvar is None:
                unsup(f"line {e.line}: `self` in a function without receiver")
            return Val(ctx.selfvar, ("named", ctx.owner))
        if len(p) == 1 and p[0] in ctx.env:
            lean, ty = ctx.env[p[0]]
            return Val(lean, ty, kind="bool" if ty == "bool" else None)
        if len(p) == 1 and p[0] in CONSTS:
            return Val(*CONSTS[p[0]])
        if p == ["None"]:
            return Val("none", ("opt", expect[1] if isinstance(expect, tuple) and expect[0] == "opt" else None))
        r = self.resolve_variant(ctx, p, e.line)
        if r:
            en, v, pay = r
            if pay:
                unsup(f"line {e.line}: variant {v} used without arguments")
            if en == "Ordering":
                unsup(f"line {e.line}: Ordering value outside a `match x.cmp(&y)`")
            return Val(self.variant_lean(en, v), ("named", en))
        unsup(f"line {e.line}: unknown name `{'::'.join(p)}`")

    def e_field(self, e, ctx, pre, expect):
        v = self.cexpr(e.e, ctx, pre)
        return self.field(v, e.name, e.line)

    def e_un(self, e, ctx, pre, expect):
        if e.op in ("&", "*"):
            return self.cexpr(e.e, ctx, pre, expect)
        v = self.cexpr(e.e, ctx, pre, expect)
        if e.op == "-":
            if v.ty == "num":
                return Val(f"-{v.a}", "isize")
            if v.ty != "isize":
                unsup(f"line {e.line}: unary minus on {v.ty!r}")
            return Val(f"-{v.a}", "isize")
        if e.op == "!":
            if v.ty == "bool":
                if v.kind == "prop":
                    return Val(f"¬ {v.a}", "bool", kind="prop")
                return Val(f"!{v.a}", "bool", kind="bool")
            if v.ty == "u8":
                return Val(f"255 - {v.a} % 256", "u8")
            unsup(f"line {e.line}: `!` on {v.ty!r}")
        unsup(f"line {e.line}: unary {e.op}")

    def unify_num(self, a, b, line):
        if a.ty == "num":
            return b.ty
        if b.ty == "num" or a.ty == b.ty:
            return a.ty
        unsup(f"line {line}: operands of different numeric types {a.ty!r} / {b.ty!r}")

    def e_bin(self, e, ctx, pre, expect):
        op = e.op
        if op in ("&&", "||"):
            a = self.cexpr(e.a, ctx, pre)
            pre2 = []
            b = self.cexpr(e.b, ctx, pre2)
            if pre2:
                unsup(f"line {e.line}: panic site / call on the right of a short-circuit `{op}`")
            if a.ty != "bool" or b.ty != "bool":
                unsup(f"line {e.line}: `{op}` on non-bool")
            if a.kind == "bool" and b.kind == "bool":
                return Val(f"{a.a} {op} {b.a}", "bool", kind="bool")
            sym = "∧" if op == "&&" else "∨"
            return Val(f"{latom(self.as_prop(a))} {sym} {latom(self.as_prop(b))}", "bool", kind="prop")
        a = self.cexpr(e.a, ctx, pre)
        b = self.cexpr(e.b, ctx, pre, a.ty if is_num(a.ty) else None)
        if op in ("==", "!=", "<", ">", "<=", ">="):
            sym = {"==": "=", "!=": "≠", "<": "<", ">": ">", "<=": "≤", ">=": "≥"}[op]
            if is_num(a.ty) or is_num(b.ty):
                self.unify_num(a, b, e.line)
            elif op in ("==", "!="):
                if a.ty != b.ty:
                    unsup(f"line {e.line}: `{op}` between {a.ty!r} and {b.ty!r}")
            else:
                unsup(f"line {e.line}: ordering comparison on {a.ty!r}")
            return Val(f"{latom(self.value_text(a))} {sym} {latom(self.value_text(b))}", "bool", kind="prop")
        if not (is_num(a.ty) and is_num(b.ty)):
            unsup(f"line {e.line}: arithmetic `{op}` on {a.ty!r} / {b.ty!r}")
        ty = self.unify_num(a, b, e.line)
        if op == "+":
            if ty in ("u8", "u16", "char"):
                unsup(f"line {e.line}: {ty} addition (overflow not modelled)")
            return Val(f"{a.a} + {b.a}", ty)
        if op == "*":
            if ty in ("u8", "u16", "char"):
                unsup(f"line {e.line}: {ty} multiplication (overflow not modelled)")
            return Val(f"{a.a} * {b.a}", ty)
        if op in ("%", "/"):
            if not (e.b.kind == "int" and e.b.value > 0) or ty == "isize":
                unsup(f"line {e.line}: `{op}` with a divisor that is not a positive literal")
            return Val(f"{a.a} {op} {b.a}", ty)
        if op == "-":
            if ty == "isize":
                return Val(f"{a.a} - {b.a}", ty)
            if ty in ("usize", "num"):
                x = ctx.fresh()
                pre.append(("bind", x, f"Avt.csub {a.a} {b.a}"))
                return Val(x, "usize")
            unsup(f"line {e.line}: subtraction on {ty!r}")
        if op in ("|", "&") and ty == "u8":
            return Val(f"{a.a} {'|||' if op == '|' else '&&&'} {b.a}", "u8")
        unsup(f"line {e.line}: operator `{op}` on {ty!r}")

    def e_cast(self, e, ctx, pre, expect):
        v = self.cexpr(e.e, ctx, pre)
        to = e.ty
        if v.ty in ("usize", "u16", "num") and to == "isize":
            return Val(f"({v.lean} : Int)" if v.ty != "num" else f"({v.lean} : Int)", "isize")
        if v.ty == "isize" and to == "usize":
            # agrees with Rust for non-negative values only (see RS2LEAN_NOTES.md)
            return Val(f"{v.a}.toNat" if ATOM_RE.fullmatch(v.a) else f"Int.toNat {v.a}", "usize")
        if v.ty in ("u16", "u8", "char") and to == "usize":
            return Val(v.lean, "usize")
        if v.ty == to:
            return v
        unsup(f"line {e.line}: cast from {v.ty!r} to {to!r}")

    def e_range(self, e, ctx, pre, expect):
        if e.lo is None and e.hi is None:
            return Val("..", ("range", "usize"), extra="full")
        if e.lo is None or e.hi is None:
            unsup(f"line {e.line}: half-open range without both ends")
        lo = self.cexpr(e.lo, ctx, pre, "usize")
        hi = self.cexpr(e.hi, ctx, pre, "usize")
        return Val(f"({lo.lean}, {hi.lean})", ("range", "usize"), parts=[lo, hi])

    def e_structlit(self, e, ctx, pre, expect):
        name = e.path[-1]
        if name == "Self":
            name = ctx.owner
        fields = self.struct_fields(name)
        if fields is None or name not in LEAN_TYPES:
            unsup(f"line {e.line}: struct literal of unknown struct {name}")
        given = [f for f, _ in e.fields]
        if sorted(given) != sorted(fields.keys()):
            unsup(f"line {e.line}: struct literal {name}: fields differ from the declaration")
        parts = []
        for f, fe in e.fields:
            v = self.cexpr(fe, ctx, pre, fields[f])
            parts.append(f"{FIELD_RENAME.get((name, f), camel(f))} := {self.value_text(v)}")
        return Val("({ " + ", ".join(parts) + " } : " + LEAN_TYPES[name] + ")", ("named", name))

    def e_blockexpr(self, e, ctx, pre, expect):
        return self.branching_value(e, ctx, pre)

    def e_if(self, e, ctx, pre, expect):
        return self.branching_value(e, ctx, pre)

    def e_iflet(self, e, ctx, pre, expect):
        return self.branching_value(e, ctx, pre)

    def e_match(self, e, ctx, pre, expect):
        return self.branching_value(e, ctx, pre)

    def branching_value(self, e, ctx, pre):
        """if / match / block used as a value (not in tail position): no side effects allowed"""
        eff = Effects()
        child = ctx.child(eff)
        tys = []

        def k(v, c):
            tys.append(v)
            return Yield(text=self.value_text(v))

        ir = simplify(self.expr_ir(e, child, k))
        if eff.mut_self or [r for r in eff.assigned if r in ctx.env]:
            unsup(f"line {e.line}: side effect inside an `{e.kind}` used as a value")
        if not tys:
            unsup(f"line {e.line}: `{e.kind}` expression without value")
        ty = tys[0].ty
        for v in tys[1:]:
            if v.ty != ty and not (is_num(v.ty) and is_num(ty)):
                if isinstance(ty, tuple) and ty[0] == "opt" and isinstance(v.ty, tuple) and v.ty[0] == "opt":
                    if ty[1] is None:
                        ty = v.ty
                    continue
                unsup(f"line {e.line}: branches of different types {ty!r} / {v.ty!r}")
            if ty == "num":
                ty = v.ty
        kind = None
        if ty == "bool":
            kind = "bool"
        if ir.is_opt():
            x = ctx.fresh()
            pre.append(("bind", x, ir))
            return Val(x, ty, kind)
        s = self.R.inline(ir, False)
        if s is not None:
            return Val(s, ty, kind)
        x = ctx.fresh()
        pre.append(("let", x, ir))
        return Val(x, ty, kind)

    # -- index
    def e_index(self, e, ctx, pre, expect):
        r = self.cexpr(e.e, ctx, pre)
        if isinstance(r.ty, tuple) and r.ty[0] == "array" and r.ty[2] == 2:
            if e.ix.kind == "int" and e.ix.value in (0, 1):
                return Val(f"{r.a}.{e.ix.value + 1}", r.ty[1])
            i = self.cexpr(e.ix, ctx, pre, "usize")
            x = ctx.fresh()
            pre.append(("bind", x, MatchIR(i.lean, [("0", Yield(text=f"{r.a}.1")), ("1", Yield(text=f"{r.a}.2")),
                                                    ("_", YieldOpt("none"))])))
            return Val(x, r.ty[1])
        if r.ty == ("named", "Buffer"):
            i = self.cexpr(e.ix, ctx, pre)
            if isinstance(i.ty, tuple) and i.ty[0] == "tuple" and i.parts and len(i.parts) == 2:
                ln = ctx.fresh("line")
                pre.append(("bind", ln, f"{r.a}.view[{i.parts[1].lean}]?"))
                c = ctx.fresh("cell")
                pre.append(("bind", c, f"{ln}.cells[{i.parts[0].lean}]?"))
                return Val(c, ("named", "Cell"))
            if i.ty in ("usize", "num"):
                ln = ctx.fresh("line")
                pre.append(("bind", ln, f"{r.a}.view[{i.lean}]?"))
                return Val(ln, ("named", "Line"))
        unsup(f"line {e.line}: unsupported index expression")

    # -- calls through a path
    def e_call(self, e, ctx, pre, expect):
        p = e.path
        name = p[-1]
        if p == ["Some"] and len(e.args) == 1:
            v = self.cexpr(e.args[0], ctx, pre, expect[1] if isinstance(expect, tuple) and expect[0] == "opt" else None)
            return Val(f"some {latom(self.value_text(v))}", ("opt", v.ty))
        if p == ["Box", "new"] and len(e.args) == 1:
            v = self.cexpr(e.args[0], ctx, pre)
            if v.ty != ("optiter",) and v.ty != ("vec", ("named", "Line")):
                unsup(f"line {e.line}: Box::new of {v.ty!r}")
            return Val(v.lean, ("optiter",))
        if p[-2:] == ["iter", "empty"] and not e.args:
            return Val("[]", ("optiter",))
        if len(p) == 1 and (None, name) in self.tr.items:
            g = self.tr.get(None, name)
            return self.call_gen(ctx, pre, g, None, e.args, e.line)
        if len(p) == 2:
            ty = ctx.owner if p[0] == "Self" else p[0]
            if (ty, name) in EXT_STATICS:
                d = EXT_STATICS[(ty, name)]
                if len(e.args) != d["nargs"]:
                    unsup(f"line {e.line}: {ty}::{name} with {len(e.args)} arguments")
                vs = [self.cexpr(a, ctx, pre) for a in e.args]
                return Val(d["lean"] + "".join(" " + latom(self.value_text(v)) for v in vs), d["ret"])
            if (ty, name) in self.tr.items:
                g = self.tr.get(ty, name)
                if g.self_mode is not None:
                    unsup(f"line {e.line}: {ty}::{name} called as a static function")
                return self.call_gen(ctx, pre, g, None, e.args, e.line)
        # tuple-struct constructors and enum constructors with payload
        if len(p) == 1 and p[0] in self.tr.structs and self.tr.structs[p[0]][0] == "tuple":
            s = p[0]
            vs = [self.cexpr(a, ctx, pre) for a in e.args]
            if s in NEWTYPES and len(vs) == 1:
                return Val(vs[0].lean, ("named", s))
            if s == "Cell" and len(vs) == 2:
                return Val(f"(⟨{vs[0].lean}, {vs[1].lean}⟩ : Avt.Cell)", ("named", "Cell"))
            unsup(f"line {e.line}: constructor {s}(..)")
        r = self.resolve_variant(ctx, p, e.line)
        if r:
            en, v, pay = r
            if len(pay) != len(e.args):
                unsup(f"line {e.line}: {en}::{v} with {len(e.args)} arguments")
            vs = [self.cexpr(a, ctx, pre) for a in e.args]
            if en == "XtwinopsOp":
                return Val("(" + ", ".join(x.lean for x in vs) + ")", ("named", en))
            return Val(self.variant_lean(en, v) + "".join(" " + x.a for x in vs), ("named", en))
        unsup(f"line {e.line}: unknown function `{'::'.join(p)}`")

    def call_gen(self, ctx, pre, g, recv, args, line, store_to=None):
        """call of a generated function.  recv: Lean text of the receiver (or None).  store_to: field
        path of `self` the (mutated) receiver is written back to ([] = self itself)."""
        if len(args) != len(g.shapes):
            unsup(f"line {line}: wrong number of arguments for {g.item.qname}")
        flat = []
        for a, n in zip(args, g.shapes):
            if n == 1:
                flat.append(a)
            else:
                while a.kind == "paren":
                    a = a.e
                if a.kind != "tuple" or len(a.parts) != n:
                    unsup(f"line {line}: tuple parameter of {g.item.qname} needs a tuple literal argument")
                flat += a.parts
        args = flat
        ptys = [p[2] for p in g.params][(1 if g.self_mode else 0):]
        vs = [self.cexpr(a, ctx, pre, pty) for a, pty in zip(args, ptys)]
        for v, pty in zip(vs, ptys):
            if not (v.ty == pty or (is_num(v.ty) and is_num(pty) and (v.ty == "num" or lty(v.ty) == lty(pty)))
                    or lty_safe(v.ty) == lty_safe(pty)):
                unsup(f"line {line}: argument of type {v.ty!r} for parameter of type {pty!r} of {g.item.qname}")
        text = g.lean_name + ("" if recv is None else " " + latom(recv)) + "".join(" " + latom(self.value_text(v)) for v in vs)
        kind = "bool" if g.ret == "bool" else None
        if g.self_mode == "mut":
            if store_to is None:
                unsup(f"line {line}: `&mut self` method {g.item.qname} called on something that is not a place")
            ctx.mutate_self()
            if g.ret == "unit":
                if store_to == []:
                    pre.append(("bind" if g.opt else "let", ctx.selfvar, text))
                else:
                    x = ctx.fresh()
                    pre.append(("bind" if g.opt else "let", x, text))
                    self.store(ctx, pre, store_to, x, line)
                return Val("()", "unit")
            x = ctx.fresh()
            if store_to == []:
                pre.append(("bind" if g.opt else "let", f"({ctx.selfvar}, {x})", text))
            else:
                y = ctx.fresh()
                pre.append(("bind" if g.opt else "let", f"({y}, {x})", text))
                self.store(ctx, pre, store_to, y, line)
            return Val(x, g.ret, kind)
        if g.opt:
            x = ctx.fresh()
            pre.append(("bind", x, text))
            return Val(x, g.ret, kind)
        return Val(text, g.ret, kind)

    # -- method calls
    def e_mcall(self, e, ctx, pre, expect):
        name = e.name
        # (a) own methods:  self.foo(..)
        place = self.self_place(e.recv)
        if place is not None:
            rty = self.place_val(ctx, place, e.line).ty if ctx.selfvar else None
            if isinstance(rty, tuple) and rty[0] == "named":
                s = rty[1]
                if (s, name) in EXT_METHODS and not (s == ctx.owner):
                    return self.call_ext(ctx, pre, s, name, place, e.args, e.line)
                if (s, name) in self.tr.items:
                    g = self.tr.get(s, name)
                    if g.self_mode is None:
                        unsup(f"line {e.line}: {s}::{name} is not a method")
                    recv = self.place_val(ctx, place, e.line).lean
                    return self.call_gen(ctx, pre, g, recv, e.args, e.line, store_to=place)
        # (b) idioms on values
        return self.method_idiom(e, ctx, pre, expect)

    def call_ext(self, ctx, pre, s, name, place, args, line):
        d = EXT_METHODS[(s, name)]
        recv = self.place_val(ctx, place, line)
        if len(args) != len(d["args"]):
            unsup(f"line {line}: {s}::{name} with {len(args)} arguments")
        texts = []
        for a, shape in zip(args, d["args"]):
            v = self.cexpr(a, ctx, pre)
            if shape == "v":
                texts.append(latom(self.value_text(v)))
            elif shape == "t2":
                if not (isinstance(v.ty, tuple) and v.ty[0] == "tuple" and len(v.ty[1]) == 2):
                    unsup(f"line {line}: {s}::{name}: expected a pair argument")
                texts += [self.field(v, "0", line).a, self.field(v, "1", line).a]
            elif shape == "r":
                if not (isinstance(v.ty, tuple) and v.ty[0] == "range") or v.extra == "full":
                    unsup(f"line {line}: {s}::{name}: expected a range argument")
                texts += [self.field(v, "0", line).a, self.field(v, "1", line).a]
        if d["lean"] is None:
            text = d["const"]
        else:
            text = d["lean"] + " " + recv.a + "".join(" " + x for x in texts)
        ret = d["ret"]
        if d["mut"]:
            if ret == "unit":
                if d["lean"] is None:
                    self.store(ctx, pre, place, text, line)
                    return Val("()", "unit")
                x = ctx.fresh({"Buffer": "b", "DirtyLines": "d", "Tabs": "tabs"}.get(s, "x"))
                pre.append(("bind" if d["opt"] else "let", x, text))
                self.store(ctx, pre, place, x, line)
                return Val("()", "unit")
            x = ctx.fresh("b")
            y = ctx.fresh()
            pre.append(("bind" if d["opt"] else "let", f"({x}, {y})", text))
            self.store(ctx, pre, place, x, line)
            return Val(y, ret)
        if d["opt"]:
            x = ctx.fresh()
            pre.append(("bind", x, text))
            return Val(x, ret)
        return Val(text, ret)

    # -- closures (only as arguments of the iterator idioms below)
    def closure(self, e, ctx, elem_ty, line):
        if e.kind != "closure" or len(e.params) != 1:
            unsup(f"line {line}: expected a one-parameter closure")
        child = ctx.child(Effects())
        p = e.params[0]
        if p.kind == "ppath" and p.args is None and len(p.path) == 1:
            nm = child.declare(p.path[0], elem_ty)
            pat = nm
        elif p.kind == "ptuple" and isinstance(elem_ty, tuple) and elem_ty[0] == "enum" and len(p.parts) == 2 \
                and all(q.kind == "ppath" and q.args is None and len(q.path) == 1 for q in p.parts):
            i = child.declare(p.parts[0].path[0], "usize")
            x = child.declare(p.parts[1].path[0], elem_ty[1])
            pat = f"({x}, {i})"          # Lean's zipIdx yields (element, index)
        else:
            unsup(f"line {line}: unsupported closure parameter")
        pre2 = []
        body = self.cexpr(e.body, child, pre2)
        if pre2 or child.eff.mut_self or child.eff.assigned:
            unsup(f"line {line}: panic site or side effect inside a closure")
        return pat, body

    def vec_place(self, e, ctx):
        fields = self.self_place(e)
        if fields is not None and ctx.selfvar:
            v = self.place_val(ctx, fields, e.line)
            if isinstance(v.ty, tuple) and v.ty[0] == "vec":
                return ("self", fields, v)
        if e.kind == "path" and len(e.path) == 1 and e.path[0] in ctx.env:
            lean, ty = ctx.env[e.path[0]]
            if isinstance(ty, tuple) and ty[0] == "vec":
                return ("local", e.path[0], Val(lean, ty))
        return None

    def set_vec(self, ctx, pre, vp, text, line):
        if vp[0] == "self":
            self.store(ctx, pre, vp[1], text, line)
        else:
            ctx.assign_local(vp[1])
            pre.append(("let", ctx.env[vp[1]][0], text))

    def method_idiom(self, e, ctx, pre, expect):
        name = e.name
        line = e.line
        # mutating Vec idioms on places
        vp = self.vec_place(e.recv, ctx)
        if vp is not None and name in ("push", "clear", "truncate", "resize"):
            v = vp[2]
            args = [self.cexpr(a, ctx, pre) for a in e.args]
            if name == "push" and len(args) == 1:
                self.set_vec(ctx, pre, vp, f"{v.a} ++ [{self.value_text(args[0])}]", line)
            elif name == "clear" and not args:
                self.set_vec(ctx, pre, vp, "[]", line)
            elif name == "truncate" and len(args) == 1:
                self.set_vec(ctx, pre, vp, f"List.take {args[0].a} {v.a}", line)
            elif name == "resize" and len(args) == 2:
                n, x = args[0].a, latom(self.value_text(args[1]))
                self.set_vec(ctx, pre, vp,
                             f"if {n} ≤ {v.a}.length then List.take {n} {v.a} else {v.a} ++ List.replicate ({n} - {v.a}.length) {x}",
                             line)
            else:
                unsup(f"line {line}: Vec::{name} with {len(args)} arguments")
            return Val("()", "unit")
        if name == "fill" and e.recv.kind == "index" and len(e.args) == 1:
            vp = self.vec_place(e.recv.e, ctx)
            if vp is None:
                unsup(f"line {line}: `.fill` on something that is not a Vec place")
            v = vp[2]
            x = latom(self.value_text(self.cexpr(e.args[0], ctx, pre)))
            r = self.cexpr(e.recv.ix, ctx, pre)
            if not (isinstance(r.ty, tuple) and r.ty[0] == "range"):
                unsup(f"line {line}: `[..].fill` with a non-range index")
            if r.extra == "full":
                self.set_vec(ctx, pre, vp, f"List.map (fun _ => {x}) {v.a}", line)
            else:
                y = ctx.fresh()
                pre.append(("bind", y, f"Avt.fillRange {v.a} {self.field(r, '0', line).a} {self.field(r, '1', line).a} {x}"))
                self.set_vec(ctx, pre, vp, y, line)
            return Val("()", "unit")
        r = self.cexpr(e.recv, ctx, pre)
        ty = r.ty
        tk = ty[0] if isinstance(ty, tuple) else ty
        if name in ("min", "max") and is_num(ty) and len(e.args) == 1:
            b = self.cexpr(e.args[0], ctx, pre, ty)
            t2 = self.unify_num(r, b, line)
            return Val(f"{name} {r.a} {b.a}", t2)
        if name == "clone" and not e.args:
            return r
        if tk == "opt":
            if name == "unwrap_or" and len(e.args) == 1:
                d = self.cexpr(e.args[0], ctx, pre, ty[1])
                return Val(f"{r.a}.getD {d.a}" if ATOM_RE.fullmatch(r.a) else f"Option.getD {r.a} {d.a}", ty[1])
            if name == "is_none" and not e.args:
                return Val(f"{r.a}.isNone" if ATOM_RE.fullmatch(r.a) else f"Option.isNone {r.a}", "bool", kind="bool")
            if name == "copied" and not e.args:
                return r
        if ty == "char" and name == "into" and not e.args:
            cands = [k for k, it in self.tr.items.items() if it.trait == "From<char>"]
            if len(cands) != 1:
                unsup(f"line {line}: `.into()` on a char: no unique `impl From<char>`")
            g = self.tr.get(*cands[0])
            text = f"{g.lean_name} {r.a}"
            if g.opt:
                x = ctx.fresh()
                pre.append(("bind", x, text))
                text = x
            return Val(text, g.ret)
        if tk == "named":
            s = ty[1]
            if (s, name) in EXT_METHODS and not EXT_METHODS[(s, name)]["mut"]:
                d = EXT_METHODS[(s, name)]
                if any(sh != "v" for sh in d["args"]) or len(e.args) != len(d["args"]):
                    unsup(f"line {line}: {s}::{name}: unsupported argument shape")
                vs = [self.cexpr(a, ctx, pre) for a in e.args]
                text = d["lean"] + " " + r.a + "".join(" " + latom(self.value_text(v)) for v in vs)
                if d["opt"]:
                    x = ctx.fresh()
                    pre.append(("bind", x, text))
                    return Val(x, d["ret"])
                return Val(text, d["ret"])
            if (s, name) in self.tr.items:
                g = self.tr.get(s, name)
                if g.self_mode == "ref":
                    return self.call_gen(ctx, pre, g, r.lean, e.args, line)
                unsup(f"line {line}: `&mut self` method {s}::{name} on a value that is not a place of `self`")
        if tk == "vec":
            if name == "iter" and not e.args:
                return Val(r.lean, ("iter", ty[1]))
            if name == "len" and not e.args:
                return Val(f"{r.a}.length" if ATOM_RE.fullmatch(r.a) else f"List.length {r.a}", "usize")
            if name == "partition_point" and len(e.args) == 1:
                pat, body = self.closure(e.args[0], ctx, ty[1], line)
                # std fact assumed: on a partitioned slice this is the length of the longest prefix satisfying p
                return Val(f"(List.takeWhile (fun {pat} => {self.as_bool(body)}) {r.a}).length", "usize")
        if tk == "iter":
            el = ty[1]
            if name == "rev" and not e.args:
                return Val(f"List.reverse {r.a}", ty)
            if name == "copied" and not e.args:
                return r
            if name == "skip_while" and len(e.args) == 1:
                pat, body = self.closure(e.args[0], ctx, el, line)
                return Val(f"List.dropWhile (fun {pat} => {self.as_bool(body)}) {r.a}", ty)
            if name == "nth" and len(e.args) == 1:
                k = self.cexpr(e.args[0], ctx, pre, "usize")
                return Val(f"{r.a}[{k.lean}]?", ("opt", el))
            if name == "enumerate" and not e.args:
                return Val(f"List.zipIdx {r.a}", ("iter", ("enum", el)))
            if name == "filter_map" and len(e.args) == 1:
                pat, body = self.closure(e.args[0], ctx, el, line)
                if not (isinstance(body.ty, tuple) and body.ty[0] == "opt"):
                    unsup(f"line {line}: filter_map closure does not return an Option")
                return Val(f"List.filterMap (fun {pat} => {body.lean}) {r.a}", ("iter", body.ty[1]))
            if name == "collect" and not e.args:
                if isinstance(el, tuple) and el[0] == "enum":
                    unsup(f"line {line}: collect of an enumerate iterator")
                return Val(r.lean, ("vec", el))
        unsup(f"line {line}: unsupported method `.{name}` on {ty!r}")

    # ---------------------------------------------------------------- expression in tail position
    def expr_ir(self, e, ctx, k):
        """IR computing e and continuing with k(val, ctx); branches continue separately"""
        if e.kind == "paren":
            return self.expr_ir(e.e, ctx, k)
        if e.kind == "blockexpr":
            c = ctx.child()
            return self.block_ir(e.block, c, k)
        if e.kind == "if":
            pre = []
            cv = self.cexpr(e.cond, ctx, pre)
            a = self.block_ir(e.then, ctx.child(), k)
            b = self.expr_ir(e.els, ctx.child(), k) if e.els is not None else k(Val("()", "unit"), ctx)
            return wrap(pre, IfIR(self.cond(cv), a, b))
        if e.kind == "match" and self.optiter_idiom(e, ctx):
            pre = []
            v = self.cexpr(e.scrut, ctx, pre)
            return wrap(pre, k(Val(v.lean, ("optiter",)), ctx))
        if e.kind in ("match", "iflet"):
            pre = []
            scrut, arms = self.match_arms(e, ctx, pre)
            out = []
            for pat, binds, body in arms:
                c = ctx.child()
                for rust, lean, ty in binds:
                    c.declare(rust, ty, lean)
                out.append((pat, self.expr_ir(body, c, k) if body is not None else k(Val("()", "unit"), c)))
            return wrap(pre, self.mk_match(scrut, out))
        pre = []
        v = self.cexpr(e, ctx, pre)
        return wrap(pre, k(v, ctx))

    def optiter_idiom(self, e, ctx):
        """`match x { Some(i) => Box::new(i), None => Box::new(std::iter::empty()) }` where x is the
        result of Buffer::gc (an Option<iterator>, a plain list in the model)  ==>  x"""
        sc = e.scrut
        if not (sc.kind == "path" and len(sc.path) == 1 and sc.path[0] in ctx.env
                and ctx.env[sc.path[0]][1] == ("optiter",)):
            return False
        if len(e.arms) != 2:
            unsup(f"line {e.line}: unexpected match on the result of Buffer::gc")
        (p1, b1), (p2, b2) = e.arms
        ok = (len(p1) == 1 and p1[0].kind == "ppath" and p1[0].path == ["Some"] and p1[0].args
              and len(p1[0].args) == 1 and p1[0].args[0].kind == "ppath" and p1[0].args[0].args is None
              and b1.kind == "call" and b1.path == ["Box", "new"] and len(b1.args) == 1
              and b1.args[0].kind == "path" and b1.args[0].path == p1[0].args[0].path
              and len(p2) == 1 and p2[0].kind == "ppath" and p2[0].path == ["None"] and p2[0].args is None
              and b2.kind == "call" and b2.path == ["Box", "new"] and len(b2.args) == 1
              and b2.args[0].kind == "call" and b2.args[0].path[-2:] == ["iter", "empty"] and not b2.args[0].args)
        if not ok:
            unsup(f"line {e.line}: unexpected match on the result of Buffer::gc")
        return True

    def mk_match(self, scrut, arms):
        if isinstance(scrut, tuple) and scrut[0] == "cmp":
            # match a.cmp(&b) { Less => .., Equal => .., Greater => .. }  ==>  if-chain in source order
            _, a, b = scrut
            rel = {"Less": "<", "Equal": "=", "Greater": ">"}
            if sorted(p for p, _ in arms) != ["Equal", "Greater", "Less"]:
                unsup("match on Ordering must have exactly the arms Less, Equal, Greater")
            (p1, b1), (p2, b2), (_, b3) = arms
            return IfIR(f"{a} {rel[p1]} {b}", b1, IfIR(f"{a} {rel[p2]} {b}", b2, b3))
        return MatchIR(scrut, arms)

    def match_arms(self, e, ctx, pre):
        """-> (scrutinee text, [(lean pattern, [(rust, lean, type)], body expr or None)])"""
        if e.kind == "iflet":
            arms_src = [([e.pat], N("blockexpr", e.line, block=e.then)), ([N("pwild", e.line)], e.els)]
        else:
            arms_src = e.arms
        sc = e.scrut
        if sc.kind == "mcall" and sc.name == "cmp" and len(sc.args) == 1:
            a = self.cexpr(sc.recv, ctx, pre)
            b = self.cexpr(sc.args[0], ctx, pre)
            if not (is_nat(a.ty) and is_nat(b.ty)):
                unsup(f"line {e.line}: cmp on non-usize values")
            arms = []
            for pats, body in arms_src:
                if len(pats) != 1 or pats[0].kind != "ppath" or pats[0].args is not None:
                    unsup(f"line {e.line}: unsupported Ordering pattern")
                r = self.resolve_variant(ctx, pats[0].path, e.line)
                if not r or r[0] != "Ordering":
                    unsup(f"line {e.line}: unsupported Ordering pattern")
                arms.append((r[1], [], body))
            return ("cmp", a.a, b.a), arms
        s = self.cexpr(sc, ctx, pre)
        arms = []
        for pats, body in arms_src:
            if len(pats) != 1:
                unsup(f"line {e.line}: or-patterns")
            pt, binds = self.pattern(pats[0], s.ty, ctx, e.line)
            arms.append((pt, binds, body))
        return self.value_text(s), arms

    def pattern(self, p, ty, ctx, line):
        """-> (lean pattern text, bindings)"""
        if p.kind == "pwild":
            return "_", []
        if p.kind == "plit":
            if p.ty == "bool" and ty == "bool":
                return ("true" if p.value else "false"), []
            if p.ty == "int" and is_num(ty):
                return str(p.value), []
            unsup(f"line {line}: literal pattern on {ty!r}")
        if p.kind == "pbind":
            return ctx.local(p.name), [(p.name, ctx.local(p.name), ty)]
        if p.kind == "ptuple":
            if not (isinstance(ty, tuple) and ty[0] == "tuple" and len(ty[1]) == len(p.parts)):
                unsup(f"line {line}: tuple pattern on {ty!r}")
            texts, binds = [], []
            for q, qt in zip(p.parts, ty[1]):
                t, b = self.pattern(q, qt, ctx, line)
                texts.append(t)
                binds += b
            return "(" + ", ".join(texts) + ")", binds
        if p.kind == "ppath":
            tk = ty[0] if isinstance(ty, tuple) else ty
            if tk == "opt":
                if p.path == ["None"] and p.args is None:
                    return "none", []
                if p.path == ["Some"] and p.args is not None and len(p.args) == 1:
                    t, b = self.pattern(p.args[0], ty[1], ctx, line)
                    return f"some {t}", b
            if tk == "named" and ty[1] in self.tr.enums:
                r = self.resolve_variant(ctx, p.path, line)
                if r and r[0] == ty[1]:
                    en, v, pay = r
                    args = p.args or []
                    if len(args) != len(pay):
                        unsup(f"line {line}: pattern {v} with {len(args)} arguments")
                    ptys = [Parser(x).ty() for x in pay]
                    if en == "Function" and v == "Xtwinops":
                        # Lean's Function.xtwinops carries the two numbers of XtwinopsOp::Resize directly
                        q = args[0]
                        if not (q.kind == "ppath" and q.args is None and len(q.path) == 1):
                            unsup(f"line {line}: unsupported Xtwinops pattern")
                        a, b = ctx.local(q.path[0]) + "1", ctx.local(q.path[0]) + "2"
                        return f".xtwinops {a} {b}", [(q.path[0], f"({a}, {b})", ("named", "XtwinopsOp"))]
                    if en == "XtwinopsOp":
                        t1, b1 = self.pattern(args[0], ptys[0], ctx, line)
                        t2, b2 = self.pattern(args[1], ptys[1], ctx, line)
                        return f"({t1}, {t2})", b1 + b2
                    texts, binds = [], []
                    for q, qt in zip(args, ptys):
                        t, b = self.pattern(q, qt, ctx, line)
                        texts.append(t)
                        binds += b
                    return "." + VARIANT_RENAME.get((en, v), lcfirst(v)) + "".join(" " + t for t in texts), binds
                if r:
                    unsup(f"line {line}: pattern of enum {r[0]} on a value of type {ty!r}")
            if p.args is None and len(p.path) == 1:
                if p.path[0][0].isupper():
                    unsup(f"line {line}: unknown variant `{p.path[0]}` in pattern")
                nm = ctx.local(p.path[0])
                return nm, [(p.path[0], nm, ty)]
        unsup(f"line {line}: unsupported pattern")

    # ---------------------------------------------------------------- statements
    def block_ir(self, block, ctx, k):
        stmts = block.stmts

        def fin(c):
            if block.tail is None:
                return k(Val("()", "unit"), c)
            idi = self.tabs_idiom(block.tail, c)
            if idi is not None:
                return wrap(idi, k(Val("()", "unit"), c))
            return self.expr_ir(block.tail, c, k)

        return self.seq(stmts, 0, ctx, fin)

    def seq(self, stmts, i, ctx, fin):
        if i == len(stmts):
            return fin(ctx)
        return self.stmt_ir(stmts[i], ctx, lambda: self.seq(stmts, i + 1, ctx, fin))

    def stmt_ir(self, s, ctx, rest):
        if s.kind == "use":
            ctx.uses.append(s.path[-1])
            return rest()
        if s.kind == "let":
            return self.s_let(s, ctx, rest)
        if s.kind == "assign":
            pre = []
            self.s_assign(s, ctx, pre)
            return wrap(pre, rest())
        if s.kind == "for":
            return self.s_for(s, ctx, rest)
        if s.kind == "return":
            unsup(f"line {s.line}: `return` outside the pattern `if c {{ ...; return e; }}` at function level")
        if s.kind == "expr":
            e = s.e
            if e.kind == "tuple" and not e.parts:
                return rest()
            if e.kind in ("if", "iflet", "match", "blockexpr"):
                return self.s_branch(e, ctx, rest)
            if e.kind == "call" and e.path[-2:] == ["mem", "swap"]:
                pre = []
                self.s_swap(e, ctx, pre)
                return wrap(pre, rest())
            if e.kind in ("mcall", "call"):
                pre = []
                v = self.cexpr(e, ctx, pre)
                if not pre:
                    unsup(f"line {s.line}: expression statement without effect")
                return wrap(pre, rest())
            unsup(f"line {s.line}: unsupported expression statement `{e.kind}`")
        unsup(f"line {s.line}: unsupported statement `{s.kind}`")

    def s_let(self, s, ctx, rest):
        pre = []
        v = self.cexpr(s.init, ctx, pre, s.ty)
        ty = s.ty if s.ty is not None else v.ty
        if ty == "num":
            ty = "usize"
        p = s.pat
        if p.kind == "pbind" or (p.kind == "ppath" and p.args is None and len(p.path) == 1
                                  and not p.path[0][0].isupper()):
            rust = p.name if p.kind == "pbind" else p.path[0]
            nm = ctx.declare(rust, ty)
            text = self.value_text(v)
            if s.ty == "isize" or (s.ty is None and ty == "isize" and s.init.kind in ("bin", "un", "cast", "paren")):
                pre.append(("let", f"{nm} : Int", text))
            else:
                pre.append(("let", nm, text))
            return wrap(pre, rest())
        pt, binds = self.pattern(p, ty, ctx, s.line)
        for rust, lean, bty in binds:
            ctx.declare(rust, bty, lean)
        pre.append(("let", pt, self.value_text(v)))
        return wrap(pre, rest())

    def s_assign(self, s, ctx, pre):
        lhs, op = s.lhs, s.op
        line = s.line
        if lhs.kind == "path" and len(lhs.path) == 1 and lhs.path[0] in ctx.env:
            rust = lhs.path[0]
            lean, ty = ctx.env[rust]
            v = self.cexpr(s.rhs, ctx, pre, ty)
            if not re.fullmatch(r"[\w']+", lean):
                unsup(f"line {line}: assignment to `{rust}`")
            if op == "=":
                text = self.value_text(v)
            elif op == "+=" and is_num(ty):
                text = f"{lean} + {v.a}"
            elif op == "-=" and ty == "isize":
                text = f"{lean} - {v.a}"
            elif op == "-=" and is_nat(ty):
                x = ctx.fresh()
                pre.append(("bind", x, f"Avt.csub {lean} {v.a}"))
                text = x
            else:
                unsup(f"line {line}: `{op}` on a local of type {ty!r}")
            ctx.assign_local(rust)
            pre.append(("let", lean, text))
            return
        if lhs.kind == "tuple":
            v = self.cexpr(s.rhs, ctx, pre)
            if op != "=" or not (isinstance(v.ty, tuple) and v.ty[0] == "tuple" and len(v.ty[1]) == len(lhs.parts) == 2):
                unsup(f"line {line}: unsupported destructuring assignment")
            for idx, part in enumerate(lhs.parts):
                fields = self.self_place(part)
                if not fields:
                    unsup(f"line {line}: destructuring assignment to something that is not a field of `self`")
                self.store(ctx, pre, fields, self.field(v, str(idx), line).lean, line)
            return
        if lhs.kind == "index":
            fields = self.self_place(lhs.e)
            if fields is not None and ctx.selfvar:
                cur = self.place_val(ctx, fields, line)
                if op != "=":
                    unsup(f"line {line}: compound assignment to an indexed place")
                if isinstance(cur.ty, tuple) and cur.ty[0] == "array" and cur.ty[2] == 2 \
                        and lhs.ix.kind == "int" and lhs.ix.value in (0, 1):
                    v = self.cexpr(s.rhs, ctx, pre, cur.ty[1])
                    pair = f"({v.lean}, {cur.a}.2)" if lhs.ix.value == 0 else f"({cur.a}.1, {v.lean})"
                    self.store(ctx, pre, fields, pair, line)
                    return
                if isinstance(cur.ty, tuple) and cur.ty[0] == "vec":
                    i = self.cexpr(lhs.ix, ctx, pre, "usize")
                    v = self.cexpr(s.rhs, ctx, pre, cur.ty[1])
                    y = ctx.fresh()
                    pre.append(("bind", y, f"Avt.setAt {cur.a} {i.a} {latom(self.value_text(v))}"))
                    self.store(ctx, pre, fields, y, line)
                    return
            unsup(f"line {line}: unsupported indexed assignment")
        fields = self.self_place(lhs)
        if fields:
            cur = self.place_val(ctx, fields, line)
            v = self.cexpr(s.rhs, ctx, pre, cur.ty)
            if op == "=":
                if not (lty_safe(v.ty) == lty_safe(cur.ty) or (v.ty == "num" and is_num(cur.ty))
                        or (isinstance(v.ty, tuple) and v.ty[0] == "opt" and isinstance(cur.ty, tuple) and cur.ty[0] == "opt")):
                    unsup(f"line {line}: assignment of {v.ty!r} to a field of type {cur.ty!r}")
                text = self.value_text(v)
            elif op == "|=" and cur.ty == "u8":
                text = f"{cur.a} ||| {v.a}"
            elif op == "&=" and cur.ty == "u8":
                text = f"{cur.a} &&& {v.a}"
            elif op == "+=" and cur.ty == "usize":
                text = f"{cur.a} + {v.a}"
            elif op == "-=" and cur.ty == "usize":
                x = ctx.fresh()
                pre.append(("bind", x, f"Avt.csub {cur.a} {v.a}"))
                text = x
            else:
                unsup(f"line {line}: `{op}` on a field of type {cur.ty!r}")
            self.store(ctx, pre, fields, text, line)
            return
        unsup(f"line {line}: unsupported assignment target")

    def s_swap(self, e, ctx, pre):
        if len(e.args) != 2:
            unsup(f"line {e.line}: mem::swap with {len(e.args)} arguments")
        places = []
        for a in e.args:
            if a.kind != "un" or a.op != "&":
                unsup(f"line {e.line}: mem::swap argument is not `&mut place`")
            f = self.self_place(a.e)
            if not f or len(f) != 1:
                unsup(f"line {e.line}: mem::swap on something that is not a direct field of `self`")
            places.append(f[0])
        a, b = places
        va, vb = self.place_val(ctx, [a], e.line), self.place_val(ctx, [b], e.line)
        if a == b or lty(va.ty) != lty(vb.ty):
            unsup(f"line {e.line}: mem::swap of fields of different types")
        ctx.mutate_self()
        t = ctx.selfvar
        pre.append(("let", t, f"{{ {t} with {camel(a)} := {vb.lean}, {camel(b)} := {va.lean} }}"))

    def joined(self, ctx, build):
        """compile a nested statement whose effects are joined afterwards: returns (ir, pattern)"""
        eff = Effects()
        outs = []
        child = ctx.child(eff)
        ir = build(child, lambda v, c: Yield(outs=outs))
        names = []
        if eff.mut_self:
            ctx.mutate_self()
            names.append(ctx.selfvar)
        for r in eff.assigned:
            if r in ctx.env:
                names.append(ctx.env[r][0])
                ctx.assign_local(r)
        if not names:
            unsup("nested statement without effect")
        outs.extend(names)
        pat = names[0] if len(names) == 1 else "(" + ", ".join(names) + ")"
        return ir, pat

    def s_branch(self, e, ctx, rest):
        # (1) early return at function level:  if c { ...; return e; }
        if e.kind == "if" and e.els is None and e.then.stmts and e.then.stmts[-1].kind == "return" and ctx.top \
                and e.then.tail is None:
            pre = []
            cv = self.cexpr(e.cond, ctx, pre)
            c = ctx.child()
            rv = e.then.stmts[-1].value

            def fin(cc):
                if rv is None:
                    return ctx.fn_finish(Val("()", "unit"), cc)
                return self.expr_ir(rv, cc, ctx.fn_finish)

            a = self.seq(e.then.stmts[:-1], 0, c, fin)
            return wrap(pre, IfIR(self.cond(cv), a, rest()))
        # (2) the two binary_search idioms of tabs.rs (sorted insert / remove): meaning given by the model
        idi = self.tabs_idiom(e, ctx)
        if idi is not None:
            return wrap(idi, rest())
        # (3) general case: join
        ir, pat = self.joined(ctx, lambda child, k: self.expr_ir(e, child, k))
        return bind(pat, ir, rest())

    def tabs_idiom(self, e, ctx):
        if e.kind != "iflet" or e.els is not None:
            return None
        p, sc = e.pat, e.scrut
        if not (p.kind == "ppath" and p.path in (["Err"], ["Ok"]) and p.args and len(p.args) == 1
                and p.args[0].kind == "ppath" and p.args[0].args is None and len(p.args[0].path) == 1):
            return None
        idx = p.args[0].path[0]
        if not (sc.kind == "mcall" and sc.name == "binary_search" and len(sc.args) == 1
                and sc.args[0].kind == "un" and sc.args[0].op == "&"):
            return None
        vp = self.vec_place(sc.recv, ctx)
        if vp is None or vp[2].ty != ("vec", "usize"):
            return None
        pre = []
        x = self.cexpr(sc.args[0].e, ctx, pre)
        if pre or x.ty != "usize":
            return None
        st = e.then.stmts
        if len(st) != 1 or e.then.tail is not None or st[0].kind != "expr" or st[0].e.kind != "mcall":
            unsup(f"line {e.line}: binary_search idiom: unexpected body")
        m = st[0].e
        vp2 = self.vec_place(m.recv, ctx)
        if vp2 is None or vp2[:2] != vp[:2]:
            unsup(f"line {e.line}: binary_search idiom: body acts on a different vector")

        def is_var(a, nm):
            return a.kind == "path" and a.path == [nm]

        def same_as_x(a):
            pre3 = []
            y = self.cexpr(a, ctx, pre3)
            return not pre3 and y.lean == x.lean

        if p.path == ["Err"] and m.name == "insert" and len(m.args) == 2 and is_var(m.args[0], idx) and same_as_x(m.args[1]):
            # `if let Err(i) = v.binary_search(&x) { v.insert(i, x); }`  on a sorted v  ==  Tabs.set
            self.set_vec(ctx, pre, vp, f"Avt.Tabs.set {vp[2].a} {x.a}", e.line)
            return pre
        if p.path == ["Ok"] and m.name == "remove" and len(m.args) == 1 and is_var(m.args[0], idx):
            # `if let Ok(i) = v.binary_search(&x) { v.remove(i); }`  on a sorted duplicate-free v  ==  Tabs.unset
            self.set_vec(ctx, pre, vp, f"Avt.Tabs.unset {vp[2].a} {x.a}", e.line)
            return pre
        unsup(f"line {e.line}: binary_search idiom: unexpected body")

    def s_for(self, s, ctx, rest):
        pre = []
        it = s.iter
        # iterable
        if it.kind == "mcall" and it.name == "step_by" and len(it.args) == 1 and it.recv.kind == "paren" \
                and it.recv.e.kind == "range":
            if not (it.args[0].kind == "int" and it.args[0].value == 8):
                unsup(f"line {s.line}: step_by with a step other than the literal 8 (model: Tabs.stepFrom)")
            r = self.cexpr(it.recv.e, ctx, pre)
            lst = f"Avt.Tabs.stepFrom {r.parts[0].a} {r.parts[1].a}"
            ety = "usize"
        elif it.kind == "range":
            r = self.cexpr(it, ctx, pre)
            if not r.parts:
                unsup(f"line {s.line}: `for` over an open range")
            lo, hi = r.parts
            lst = f"List.range' {lo.a} {hi.a}" if lo.lean == "0" else f"List.range' {lo.a} ({hi.a} - {lo.a})"
            ety = "usize"
        else:
            v = self.cexpr(it, ctx, pre)
            if not (isinstance(v.ty, tuple) and v.ty[0] == "vec"):
                unsup(f"line {s.line}: `for` over a value of type {v.ty!r}")
            lst = v.a
            ety = v.ty[1]
        p = s.pat
        if p.kind == "ppath" and p.args is None and len(p.path) == 1:
            rust = p.path[0]
        else:
            unsup(f"line {s.line}: unsupported loop pattern")
        holder = {}

        def build(child, k):
            holder["x"] = child.declare(rust, ety)
            return self.block_ir(s.body, child, k)

        ir, pat = self.joined(ctx, build)
        ir = simplify(ir)
        opt = ir.is_opt()
        body = self.R.render(ir, opt)
        x = holder["x"]
        if opt:
            lines = [f"Avt.Terminal.foldM' (fun {pat} {x} =>"] + ["    " + l for l in body] + [f"  ) {latom(lst)} {pat}"]
        else:
            lines = [f"List.foldl (fun {pat} {x} =>"] + ["    " + l for l in body] + [f"  ) {pat} {latom(lst)}"]
        return wrap(pre, bind(pat, RawIR(lines, opt), rest()))

    # ---------------------------------------------------------------- one function
    def compile(self, item):
        g = GenFn(item)
        self_mode, params = Parser(item.params).params() if item.params else (None, [])
        g.self_mode = "ref" if self_mode == "val" else self_mode
        owner = item.owner
        ret = self.ret_type(item)
        if ret == ("self",):
            ret = ("named", owner)
        g.ret = ret
        g.lean_name = self.lean_name_for(item)
        selfvar = OWNERS[owner] if g.self_mode else None
        ctx = Ctx(self.tr, g, selfvar, {}, [], Effects(), [0], True)
        if g.self_mode:
            g.params.append((selfvar, lty(("named", owner)), ("named", owner)))
        for pat, ty in params:
            if pat.kind in ("pbind",) or (pat.kind == "ppath" and pat.args is None and len(pat.path) == 1):
                rust = pat.name if pat.kind == "pbind" else pat.path[0]
                nm = ctx.declare(rust, ty)
                g.params.append((nm, lty(ty), ty))
                g.shapes.append(1)
            elif pat.kind == "ptuple" and isinstance(ty, tuple) and ty[0] == "tuple" and len(ty[1]) == len(pat.parts):
                for q, qt in zip(pat.parts, ty[1]):
                    if not (q.kind == "ppath" and q.args is None and len(q.path) == 1):
                        unsup(f"line {item.line}: unsupported parameter pattern")
                    nm = ctx.declare(q.path[0], qt)
                    g.params.append((nm, lty(qt), qt))
                g.shapes.append(len(pat.parts))
            else:
                unsup(f"line {item.line}: unsupported parameter pattern")
        ctx.declared = set()      # parameters are not "declared in a child": assignments to `mut` params are local anyway
        body = Parser(item.body).block_body(None)

        def fn_finish(v, c):
            if g.self_mode == "mut":
                if ret == "unit":
                    return Yield(text=selfvar)
                self.check_ret(v, ret, item)
                return Yield(text=f"({selfvar}, {self.value_text(v)})")
            if ret == "unit":
                unsup("function without receiver mutation and without result")
            self.check_ret(v, ret, item)
            return Yield(text=self.value_text(v))

        ctx.fn_finish = fn_finish
        ir = simplify(self.block_ir(body, ctx, fn_finish))
        g.opt = ir.is_opt()
        if g.self_mode == "mut":
            inner = lty(("named", owner)) if ret == "unit" else f"{latom(lty(('named', owner)))} × {latom(lty(ret))}"
        else:
            inner = lty(ret)
        g.res_type = f"Option {latom(inner)}" if g.opt else inner
        self.R.k = 0
        g.lines = self.R.render(ir, g.opt)
        return g

    def ret_type(self, item):
        """hook: Rust result type of a function item"""
        if "".join(x.text for x in item.ret) == "Box<dynIterator<Item=Line>+'_>":
            return ("optiter",)         # the model hands the drained lines out as a list
        return Parser(item.ret).ty() if item.ret else "unit"

    def lean_name_for(self, item):
        """hook: fully qualified Lean name of the definition generated for a function item"""
        base = camel(FN_RENAME.get(item.name, item.name))
        return "Avt.GenT." + (base if item.owner in (None, "Terminal") else f"{item.owner}.{base}")

    def check_ret(self, v, ret, item):
        if ret == ("named", "Box"):
            return
        a, b = lty_safe(v.ty), lty_safe(ret)
        if v.ty == "num" and is_num(ret):
            return
        if isinstance(v.ty, tuple) and v.ty[0] == "opt" and v.ty[1] is None and isinstance(ret, tuple) and ret[0] == "opt":
            return
        if a is None or a != b:
            unsup(f"result of type {v.ty!r} where the signature says {ret!r}")


def lty_safe(ty):
    try:
        return lty(ty)
    except Unsupported:
        return None


# =============================================================================================
# 7. driver

# struct fields of objects that are not translated here but may be read
FOREIGN_FIELDS = {"Buffer": {"cols": "usize", "rows": "usize"}}


class Translator:
    scanner_cls = Scanner          # hooks for rs2lean_buf.py
    compiler_cls = None
    require_execute = True

    def __init__(self, repo):
        self.repo = repo
        self.structs = {}
        self.enums = {}
        self.items = {}        # (owner, name) -> FnItem      (functions of "gen" files)
        self.order = []        # keys in source order
        self.skipped = []
        self.done = {}         # key -> GenFn
        self.failed = {}       # key -> reason
        self.in_progress = []
        self.emitted = []      # GenFn in dependency order
        self.comp = (self.compiler_cls or Compiler)(self)
        self._fields = {}
        self.decl_fns = {}
        self.scanners = {}
        for rel, role in SOURCES:
            path = os.path.join(repo, rel)
            if not os.path.exists(path):
                fail(rel, "file not found")
            with open(path, encoding="utf-8") as f:
                src = f.read()
            sc = self.scanner_cls(lex(src, rel), rel)
            sc.scan()
            self.scanners[rel] = sc
            for k, v in sc.structs.items():
                if k in self.structs and role == "gen":
                    fail(rel, f"struct {k} declared twice")
                self.structs.setdefault(k, v)
            for k, v in sc.enums.items():
                self.enums.setdefault(k, v)
            for it in sc.fns:
                if it.trait is None and it.key not in self.decl_fns:
                    self.decl_fns[it.key] = (rel, it)
            if role == "gen":
                for it in sc.fns:
                    if it.owner is not None and it.owner not in OWNERS:
                        continue
                    if it.key in self.items:
                        fail(rel, f"function {it.qname} defined twice")
                    self.items[it.key] = it
                    self.order.append(it.key)
                self.skipped += [(rel, q, why) for q, why in sc.skipped]
        if self.require_execute and ("Terminal", "execute") not in self.items:
            fail("src/terminal.rs", "Terminal::execute not found")
        for key in list(EXT_METHODS) + list(EXT_STATICS):
            if key not in EXT_SIGS:
                fail("rs2lean.py", f"no signature recorded for {key[0]}::{key[1]}")
            if key not in self.decl_fns:
                fail("src", f"{key[0]}::{key[1]} (mapped to the model by a table) not found")
            rel, it = self.decl_fns[key]
            sig = "".join(x.text for x in it.params)
            if sig != EXT_SIGS[key]:
                fail(rel, f"{key[0]}::{key[1]}: parameter list `{sig}` differs from the one the call table was "
                          f"written against (`{EXT_SIGS[key]}`)")

    def struct_fields(self, sname):
        if sname in self._fields:
            return self._fields[sname]
        out = None
        if sname in FOREIGN_FIELDS:
            out = dict(FOREIGN_FIELDS[sname])
        elif sname in self.structs and sname in OWNERS:
            decl = self.structs[sname]
            if decl and decl[0] == "tuple":
                out = {}
                for i, toks in enumerate(decl[1]):
                    out[str(i)] = Parser(toks).ty()
            else:
                out = {}
                for fname, toks in decl:
                    out[fname] = Parser(toks).ty()
        self._fields[sname] = out
        return out

    def get(self, owner, name):
        key = (owner, name)
        if key in self.done:
            return self.done[key]
        if key in self.failed:
            unsup(f"calls untranslated {self.items[key].qname}")
        if key in self.in_progress:
            unsup(f"recursion through {self.items[key].qname}")
        self.run(key)
        if key in self.failed:
            unsup(f"calls untranslated {self.items[key].qname}")
        return self.done[key]

    def run(self, key):
        item = self.items[key]
        self.in_progress.append(key)
        try:
            g = self.comp.compile(item)
            self.done[key] = g
            self.emitted.append(g)
        except Unsupported as ex:
            self.failed[key] = str(ex)
        except RecursionError:
            self.failed[key] = "expression nested too deeply"
        finally:
            self.in_progress.pop()

    def run_all(self):
        for key in self.order:
            if key not in self.done and key not in self.failed:
                self.run(key)

    def output(self):
        L = []
        L.append("/- GENERATED by translate/rs2lean.py from /repo/src on every run — do not edit.")
        L.append("   One definition per translated Rust function, in the checked style of the hand-written model")
        L.append("   (`none` = the Rust code panics).  Avt/Lemmas/GenEq.lean proves each of them equal to the model. -/")
        L.append("import Avt.Model.Terminal")
        L.append("set_option linter.unusedVariables false")
        L.append("namespace Avt.GenT")
        L.append("")
        for g in self.emitted:
            it = g.item
            L.append(f"/-- `{it.qname}` ({it.file}) -/")
            short = g.lean_name[len("Avt.GenT."):]
            params = "".join(f" ({n} : {t})" for n, t, _ in g.params)
            L.append(f"def {short}{params} : {g.res_type} :=")
            L += ["  " + x for x in g.lines]
            L.append("")
        q = lambda s: '"' + s.replace("\\", "\\\\").replace('"', '\\"') + '"'
        names = [self.items[k].qname for k in self.order if k in self.done]      # source order
        L.append("/-- Rust functions translated above (in source order) -/")
        L.append("def translated : List String := [" + ", ".join(q(n) for n in names) + "]")
        L.append("")
        L.append("/-- Rust functions of the scanned `impl` blocks that are NOT translated, with the reason -/")
        un = [f"{self.items[k].qname}: {self.failed[k]}" for k in self.order if k in self.failed]
        L.append("def untranslated : List String := [")
        L += ["  " + q(u) + ("," if i + 1 < len(un) else "") for i, u in enumerate(un)]
        L.append("]")
        L.append("")
        L.append("end Avt.GenT")
        return "\n".join(L) + "\n"


def main():
    if len(sys.argv) != 3:
        print("usage: rs2lean.py <repo> <outdir>")
        sys.exit(2)
    repo, outdir = sys.argv[1], sys.argv[2]
    sys.setrecursionlimit(10000)
    tr = Translator(repo)
    tr.run_all()
    text = tr.output()
    os.makedirs(outdir, exist_ok=True)
    path = os.path.join(outdir, "TerminalGen.lean")
    old = None
    if os.path.exists(path):
        with open(path, encoding="utf-8") as f:
            old = f.read()
    if old != text:
        with open(path, "w", encoding="utf-8") as f:
            f.write(text)
        print(f"rs2lean: wrote {path} (changed)")
    else:
        print(f"rs2lean: {path} unchanged")
    print(f"rs2lean: translated={len(tr.emitted)} untranslated={len(tr.failed)} "
          f"total={len(tr.order)} skipped(cfg(test))={len(tr.skipped)}")
    for k in tr.order:
        if k in tr.failed:
            print(f"rs2lean: untranslated {tr.items[k].qname}: {tr.failed[k]}")


if __name__ == "__main__":
    try:
        main()
    except Mismatch as e:
        print(str(e))
        sys.exit(3)
