#!/usr/bin/env python3
"""rs2lean_p5.py -- regenerate lean/Avt/Gen/{ParserGen,DumpGen,CtorGen}.lean from /repo/src (run by every check).

    python3 rs2lean_p5.py <repo> <outdir>

Fourth translator of the avt verification stage; sibling of rs2lean.py / rs2lean_buf.py (it imports the lexer, the
item scanner, the AST, the recursive-descent parser, the IR and the renderer of rs2lean.py and extends them).

    src/parser.rs (Param, Parser::{new,clear,collect,param,put,osc_put}, SgrOps::next), Color::rgb
                                  ->  Avt/Gen/ParserGen.lean  namespace Avt.GenP   (Lemmas/GenEqParser.lean)
    the dump/format functions (Color::sgr_params, Pen::dump, Chunks, Line::chunks, Buffer::dump,
    Buffer::rep_encode_cell_text, Display for Param, Parser::dump, Terminal::dump)
                                  ->  Avt/Gen/DumpGen.lean    namespace Avt.GenD   (Lemmas/GenEqDump.lean)
    constructors and leftovers (Vt::builder/new, Builder::*, TextUnwrapper::new, TextCollector::new, Charset::translate)
                                  ->  Avt/Gen/CtorGen.lean    namespace Avt.GenC   (Lemmas/GenEqCtor.lean)

Same rules as the siblings: an explicitly listed subset of Rust plus explicit idiom tables (RS2LEAN_NOTES.md 4.5);
anything else makes THAT function untranslated (name + reason in `untranslated`, nothing is emitted, nothing is
guessed); problems that make the run meaningless exit with code 3.  stdlib only; deterministic; files are written
only when their content changed.
"""
import os
import re
import sys

import rs2lean as R
from rs2lean import (N, Val, Tok, lex, char_val, unsup, fail, Unsupported, Mismatch, camel, lcfirst, latom, ATOM_RE,
                     Yield, YieldOpt, LetP, BindO, IfIR, MatchIR, RawIR, wrap, bind, simplify, Renderer, FnItem,
                     LEAN_KEYWORDS)

# =============================================================================================
# 1. tables (everything the translator "knows" about names is listed here)

SOURCES = ["src/parser.rs", "src/color.rs", "src/pen.rs", "src/cell.rs", "src/line.rs", "src/buffer.rs",
           "src/terminal.rs", "src/terminal/cursor.rs", "src/tabs.rs", "src/vt.rs", "src/util.rs", "src/charset.rs"]

# module key -> (namespace, file, imports, description)
MODULES = {
    "P": ("Avt.GenP", "ParserGen.lean", ["Avt.Model.Parser"],
          "src/parser.rs (Param, the Parser helpers, SgrOps::next), Color::rgb",
          "Avt/Lemmas/GenEqParser.lean proves each of them equal to the model (`Avt.Param.*`, `Avt.Parser.*`, `Parser.sgrOps`)."),
    "D": ("Avt.GenD", "DumpGen.lean", ["Avt.Gen.ParserGen", "Avt.Gen.BufferGen"],
          "the dump / format functions of color.rs, pen.rs, line.rs, buffer.rs, parser.rs, terminal.rs",
          "Strings are `List Nat` (code points).  Avt/Lemmas/GenEqDump.lean proves each of them equal to the model."),
    "C": ("Avt.GenC", "CtorGen.lean", ["Avt.Gen.DumpGen", "Avt.Gen.VtGen"],
          "constructors of vt.rs / util.rs and Charset::translate",
          "Avt/Lemmas/GenEqCtor.lean proves each of them equal to the model."),
}
MODULE_ORDER = ["P", "D", "C"]

# which functions are in scope, per impl owner: (module, "all" | set of names, excluded names).  "all": every
# function of the owner's inherent impls and of its `Default` / `Display` / `Iterator` impls.
SCOPE = {
    "Param": ("P", "all", {"fmt"}),
    "Parser": ("P", "all", {"feed", "execute", "esc_dispatch", "csi_dispatch", "dump"}),      # the four are avt2lean's tables
    "SgrOps": ("P", "all", set()),
    "Color": ("P", "all", {"sgr_params"}),
    "Chunks": ("D", "all", set()),
    "Builder": ("C", "all", set()),
}
EXTRA = {
    # (owner, name) -> module, for owners shared with the other translators
    ("Param", "fmt"): "D", ("Parser", "dump"): "D", ("Color", "sgr_params"): "D", ("Pen", "dump"): "D",
    ("Line", "chunks"): "D", ("Buffer", "rep_encode_cell_text"): "D", ("Buffer", "dump"): "D",
    ("Terminal", "dump"): "D",
    ("Vt", "builder"): "C", ("Vt", "new"): "C", ("TextUnwrapper", "new"): "C", ("TextCollector", "new"): "C",
    ("Charset", "translate"): "C",
}
TRAITS = ("Default", "Display", "Iterator")

# impl owner -> Lean variable that plays `self`
SELFVAR = {"Param": "p", "Parser": "p", "SgrOps": "s", "Color": "c", "Pen": "p", "Chunks": "s", "Line": "l",
           "Buffer": "b", "Terminal": "t", "Vt": "v", "Builder": "b", "TextUnwrapper": "u", "TextCollector": "tc",
           "Charset": "cs"}
# owners whose name is dropped from the Lean name (as GenT drops `Terminal`)
DROP_OWNER = {"Parser"}

LEAN_TYPES = {
    "Param": "Avt.Param", "Parser": "Avt.Parser", "State": "Avt.PState", "SgrOp": "Avt.SgrOp", "Color": "Avt.Color",
    "Pen": "Avt.Pen", "Intensity": "Avt.Intensity", "Cell": "Avt.Cell", "Line": "Avt.Line",
    "Buffer": "Avt.GenB.Buffer", "MBuffer": "Avt.Buffer", "Terminal": "Avt.Terminal", "SavedCtx": "Avt.SavedCtx",
    "Cursor": "Avt.Cursor", "Charset": "Avt.Charset", "BufferType": "Avt.BufferType",
    "CursorKeysMode": "Avt.CursorKeysMode", "Tabs": "List Nat", "DirtyLines": "List Bool", "Vt": "Avt.Vt",
    "TextUnwrapper": "Avt.GenV.TextUnwrapper", "TextCollector": "Avt.GenV.TextCollector",
    "SgrOps": "Avt.GenP.SgrOps", "Chunks": "Avt.GenD.Chunks", "Builder": "Avt.GenC.Builder",
    "RGB8": "Nat × Nat × Nat",
}
# structs whose Lean `structure` is EMITTED from the Rust declaration: name -> module
EMIT_STRUCTS = {"SgrOps": "P", "Chunks": "D", "Builder": "C"}
NEWTYPES = {"Tabs": ("vec", "usize"), "DirtyLines": ("vec", "bool")}
# type parameters of generic structs: what the parameter is in the model
TYPARAMS = {
    "Chunks": {"I": ("iter", ("named", "Cell")), "F": ("fn", (("named", "Cell"), ("named", "Cell")), "bool")},
}
FIELD_RENAME = {("Pen", "foreground"): "fg", ("Pen", "background"): "bg", ("Cell", "0"): "ch", ("Cell", "1"): "pen"}
# fields whose Rust type names a struct that the model represents differently
FIELD_TYPE = {("Terminal", "buffer"): ("named", "MBuffer"), ("Terminal", "other_buffer"): ("named", "MBuffer")}
FOREIGN_FIELDS = {"RGB8": {"r": "u8", "g": "u8", "b": "u8"}}
VARIANT_RENAME = dict(R.VARIANT_RENAME)
# enums whose Lean constructors keep the Rust spelling
VARIANT_KEEP = {"State"}

# calls into functions translated by the sibling translators (or, for MBuffer::dump, into the hand-written model):
# (owner, name) -> lean name, receiver?, Option-valued?, result type, flattened parameter shapes
CALLS = {
    ("Pen", "is_italic"): dict(lean="Avt.GenT.Pen.isItalic", recv=True, opt=False, ret="bool", args=[]),
    ("Pen", "is_underline"): dict(lean="Avt.GenT.Pen.isUnderline", recv=True, opt=False, ret="bool", args=[]),
    ("Pen", "is_strikethrough"): dict(lean="Avt.GenT.Pen.isStrikethrough", recv=True, opt=False, ret="bool", args=[]),
    ("Pen", "is_blink"): dict(lean="Avt.GenT.Pen.isBlink", recv=True, opt=False, ret="bool", args=[]),
    ("Pen", "is_inverse"): dict(lean="Avt.GenT.Pen.isInverse", recv=True, opt=False, ret="bool", args=[]),
    ("Pen", "default"): dict(lean="Avt.GenT.Pen.default", recv=False, opt=False, ret=("named", "Pen"), args=[]),
    ("Cell", "pen"): dict(lean="Avt.GenT.Cell.pen", recv=True, opt=False, ret=("named", "Pen"), args=[]),
    ("Cell", "char"): dict(lean="Avt.GenT.Cell.char", recv=True, opt=False, ret="char", args=[]),
    ("Line", "is_blank"): dict(lean="Avt.GenL.isBlank", recv=True, opt=False, ret="bool", args=[]),
    ("Buffer", "view"): dict(lean="Avt.GenB.view", recv=True, opt=True, ret=("vec", ("named", "Line")), args=[]),
    ("SavedCtx", "is_default"): dict(lean="Avt.GenT.SavedCtx.isDefault", recv=True, opt=False, ret="bool", args=[]),
    ("Terminal", "primary_buffer"): dict(lean="Avt.GenT.primaryBuffer", recv=True, opt=False, ret=("named", "MBuffer"), args=[]),
    ("Terminal", "alternate_buffer"): dict(lean="Avt.GenT.alternateBuffer", recv=True, opt=False, ret=("named", "MBuffer"), args=[]),
    ("Terminal", "new"): dict(lean="Avt.GenT.new", recv=False, opt=True, ret=("named", "Terminal"), args=["t2", "v"]),
    ("Tabs", "new"): dict(lean="Avt.GenT.Tabs.new", recv=False, opt=False, ret=("named", "Tabs"), args=["v"]),
    # the model's Buffer::dump on the model's split buffer; GenEqDump.dump_sim proves it simulated by GenD.Buffer.dump
    ("MBuffer", "dump"): dict(lean="Avt.Buffer.dump", recv=True, opt=True, ret="string", args=[], src=("Buffer", "dump")),
}
# parameter lists (tokens joined without blanks) the table above was written against (a difference is exit 3)
CALL_SIGS = {
    ("Pen", "is_italic"): "&self", ("Pen", "is_underline"): "&self", ("Pen", "is_strikethrough"): "&self",
    ("Pen", "is_blink"): "&self", ("Pen", "is_inverse"): "&self", ("Pen", "default"): "",
    ("Cell", "pen"): "&self", ("Cell", "char"): "&self", ("Line", "is_blank"): "&self", ("Buffer", "view"): "&self",
    ("SavedCtx", "is_default"): "&self", ("Terminal", "primary_buffer"): "&self",
    ("Terminal", "alternate_buffer"): "&self",
    ("Terminal", "new"): "(cols,rows):(usize,usize),scrollback_limit:Option<usize>", ("Tabs", "new"): "cols:usize",
    ("Buffer", "dump"): "&self",
}

# iteration bounds for loops that are not structural (`while let`, `collect()` of a hand-written iterator): the
# generated loop takes this much fuel and yields `none` when it runs out (`{s}` = the struct value).  The equality
# theorems with the fuel-free model show that the bounds suffice.
FUEL = {
    ("SgrOps", "next", "whilelet"): "{s}.ps.length + 1",
    ("SgrOps", "collect"): "{s}.ps.length + 1",
    ("Chunks", "collect"): "{s}.iter.length + 2",
}

W = {"u8": 256, "u16": 65536, "u32": 4294967296}
NAT_TYS = ("usize", "u8", "u16", "u32", "char")

PRELUDE = {
    "P": '''/-! ### checked primitives for fixed-width arithmetic and slices (`none` = the Rust code panics) -/

/-- `a + b` on an unsigned type with `w` values, overflow checks on -/
def ckAdd (w a b : Nat) : Option Nat := if a + b < w then some (a + b) else none

/-- `a * b` on an unsigned type with `w` values, overflow checks on -/
def ckMul (w a b : Nat) : Option Nat := if a * b < w then some (a * b) else none

/-- `&v[a..b]` as a value -/
def slice {α} (l : List α) (a b : Nat) : Option (List α) :=
  if a ≤ b ∧ b ≤ l.length then some ((l.take b).drop a) else none

/-- `&v[a..]` as a value -/
def sliceFrom {α} (l : List α) (a : Nat) : Option (List α) :=
  if a ≤ l.length then some (l.drop a) else none
''',
    "D": "",
    "C": "",
}


# =============================================================================================
# 2. scanner: generic impls / structs / fns, consts, file-level `use E::*`, derive(Default), #[default]

class Scanner5(R.Scanner):
    def __init__(self, toks, file):
        super().__init__(toks, file)
        self.consts = {}          # name -> (type tokens, value tokens)
        self.file_uses = []       # enums glob-imported at file level
        self.derives = {}         # struct / enum name -> set of derived traits
        self.enum_default = {}    # enum -> variant marked #[default]
        self.struct_line = {}
        self.all_fns = []         # every fn incl. those of skipped trait impls: (owner, trait, item)

    def skip_generics(self, j):
        t = self.t
        depth = 0
        while True:
            if t[j].kind == "eof":
                fail(self.file, "unbalanced <")
            if t[j].text == "<":
                depth += 1
            elif t[j].text == ">":
                depth -= 1
                if depth == 0:
                    return j + 1
            j += 1

    @staticmethod
    def derive_set(attrs):
        out = set()
        for a in attrs:
            m = re.fullmatch(r"derive\((.*)\)", a)
            if m:
                out |= set(x for x in m.group(1).split(",") if x)
        return out

    def items(self, i, end, owner, trait):
        t = self.t
        while i < end:
            attrs, i = self.attrs_at(i)
            if i >= end:
                break
            if t[i].text == "pub":
                i += 1
                if t[i].text == "(":
                    i = self.matching(i) + 1
            tx = t[i]
            if tx.text == "fn":
                i = self.fn_item(i, owner, trait, attrs)
            elif tx.text == "struct":
                self.derives[t[i + 1].text] = self.derive_set(attrs)
                self.struct_line[t[i + 1].text] = tx.line
                i = self.struct_item(i)
            elif tx.text == "enum":
                self.derives[t[i + 1].text] = self.derive_set(attrs)
                j = i + 2
                if t[j].text == "{":
                    k = self.matching(j)
                    for p in range(j, k - 3):
                        if t[p].text == "#" and t[p + 1].text == "[" and t[p + 2].text == "default" and t[p + 3].text == "]":
                            self.enum_default[t[i + 1].text] = t[p + 4].text
                i = self.enum_item(i)
            elif tx.text == "impl":
                i = self.impl_item(i, attrs)
            elif tx.text == "mod":
                j = i + 2
                if t[j].text == "{":
                    i = self.matching(j) + 1
                elif t[j].text == ";":
                    i = j + 1
                else:
                    fail(self.file, f"line {tx.line}: bad mod item")
            elif tx.text == "const" and t[i + 2].text == ":":
                name = t[i + 1].text
                j = i + 3
                ty = []
                while t[j].text != "=":
                    ty.append(t[j])
                    j += 1
                j += 1
                val = []
                while t[j].text != ";":
                    val.append(t[j])
                    j += 1
                self.consts[name] = (ty, val)
                i = j + 1
            elif tx.text in ("use", "const", "type", "static"):
                j = i
                while t[j].text != ";":
                    if t[j].text in "([{" and t[j].kind == "punct":
                        j = self.matching(j)
                    j += 1
                if tx.text == "use" and j - i == 4 and t[i + 2].text == "::" and t[i + 3].text == "*":
                    self.file_uses.append(t[i + 1].text)
                i = j + 1
            else:
                fail(self.file, f"line {tx.line}: unrecognised item starting with {tx.text!r}")

    def fn_item(self, i, owner, trait, attrs):
        t = self.t
        line = t[i].line
        name = t[i + 1].text
        j = i + 2
        if t[j].text == "<":
            j = self.skip_generics(j)       # lifetimes / bounds are dropped; type parameters: see TYPARAMS
        if t[j].text != "(":
            fail(self.file, f"line {line}: fn {name}: expected (")
        k = self.matching(j)
        params = t[j + 1:k]
        j = k + 1
        ret = []
        if t[j].text == "->":
            j += 1
            while t[j].text not in ("{", "where"):
                ret.append(t[j])
                j += 1
        while t[j].text != "{":
            j += 1
        k = self.matching(j)
        item = FnItem(self.file, owner, trait, name, attrs, params, ret, t[j + 1:k], line)
        if any(a.startswith("cfg(test)") for a in attrs):
            self.skipped.append((item.qname, "#[cfg(test)]"))
        else:
            self.all_fns.append(item)
            if trait is None or trait in TRAITS:
                self.fns.append(item)
        return k + 1

    def struct_item(self, i):
        t = self.t
        name = t[i + 1].text
        j = i + 2
        if t[j].text == "<":
            j = self.skip_generics(j)
        if t[j].text == "where":
            while t[j].text != "{":
                if t[j].text == "(":
                    j = self.matching(j)
                j += 1
        if t[j].text == ";":
            self.structs[name] = []
            return j + 1
        saved = t[i + 2:j]
        del t[i + 2:j]
        try:
            r = super().struct_item(i)
        finally:
            t[i + 2:i + 2] = saved
        return r + len(saved)

    def impl_item(self, i, attrs):
        t = self.t
        j = i + 1
        if t[j].text == "<":
            j = self.skip_generics(j)
        hdr = []
        while t[j].text != "{":
            hdr.append(t[j].text)
            j += 1
        k = self.matching(j)
        if "where" in hdr:
            hdr = hdr[:hdr.index("where")]
        trait = None
        if "for" in hdr:
            f = hdr.index("for")
            tr = hdr[:f]
            if "<" in tr:
                trait = "".join(tr)                      # From<u16>, Index<usize>, PartialEq<u16>: kept verbatim
            else:
                trait = tr[-1]                           # std::fmt::Debug -> Debug
            owner_toks = hdr[f + 1:]
        else:
            owner_toks = hdr
        owner = owner_toks[0] if owner_toks else ""
        if not re.fullmatch(r"[A-Za-z_]\w*", owner) or (len(owner_toks) > 1 and owner_toks[1] != "<"):
            return k + 1
        self.items(j + 1, k, owner, trait)
        return k + 1


# =============================================================================================
# 3. parser extensions

def str_val(lit, line):
    """code points of a Rust string literal token"""
    s = lit[1:-1]
    out = []
    i = 0
    while i < len(s):
        ch = s[i]
        if ch != "\\":
            out.append(ord(ch))
            i += 1
            continue
        m = re.match(r"\\u\{([0-9a-fA-F]+)\}", s[i:])
        if m:
            out.append(int(m.group(1), 16))
            i += len(m.group(0))
            continue
        m = re.match(r"\\x([0-9a-fA-F]{2})", s[i:])
        if m:
            out.append(int(m.group(1), 16))
            i += 4
            continue
        esc = {"n": 10, "r": 13, "t": 9, "\\": 92, "'": 39, '"': 34, "0": 0}
        if i + 1 < len(s) and s[i + 1] in esc:
            out.append(esc[s[i + 1]])
            i += 2
            continue
        unsup(f"line {line}: unknown escape in string literal {lit}")
    return out


def fmt_pieces(cps, line):
    """format! template (code points) -> list of ('lit', [cps]) | ('pos',) | ('name', ident)"""
    out = []
    cur = []
    i = 0
    n = len(cps)
    while i < n:
        c = cps[i]
        if c == 0x7b:            # {
            if i + 1 < n and cps[i + 1] == 0x7b:
                cur.append(0x7b)
                i += 2
                continue
            j = i + 1
            while j < n and cps[j] != 0x7d:
                j += 1
            if j >= n:
                unsup(f"line {line}: unbalanced `{{` in format string")
            inner = "".join(chr(x) for x in cps[i + 1:j])
            if cur:
                out.append(("lit", cur))
                cur = []
            if inner == "":
                out.append(("pos",))
            elif re.fullmatch(r"[A-Za-z_]\w*", inner):
                out.append(("name", inner))
            else:
                unsup(f"line {line}: format specification `{{{inner}}}` is outside the subset")
            i = j + 1
            continue
        if c == 0x7d:            # }
            if i + 1 < n and cps[i + 1] == 0x7d:
                cur.append(0x7d)
                i += 2
                continue
            unsup(f"line {line}: unbalanced `}}` in format string")
        cur.append(c)
        i += 1
    if cur:
        out.append(("lit", cur))
    return out


class Parser5(R.Parser):
    typarams = {}

    # -- types
    def ty(self):
        c = self.cur
        if self.eat("&"):
            if self.cur.kind == "lifetime":
                self.i += 1
            m = self.eat("mut")
            inner = self.ty()
            return ("mutref", inner) if m else inner
        if c.kind == "ident" and c.text in ("impl", "dyn"):
            self.i += 1
            if self.at("Iterator"):
                if not (self.peek().text == "<" and self.peek(2).text == "Item" and self.peek(3).text == "="):
                    unsup(f"line {c.line}: unsupported `{c.text} Iterator` type")
                self.i += 4
                el = self.ty()
                self.expect(">")
                r = ("iter", el)
            elif self.at("Fn"):
                self.i += 1
                self.expect("(")
                args = []
                while not self.at(")"):
                    args.append(self.ty())
                    if not self.eat(","):
                        break
                self.expect(")")
                self.expect("->")
                r = ("fn", tuple(args), self.ty())
            else:
                unsup(f"line {c.line}: unsupported `{c.text}` type")
            while self.eat("+"):
                if self.cur.kind != "lifetime":
                    unsup(f"line {c.line}: unsupported bound in `{c.text}` type")
                self.i += 1
            return r
        if self.eat("("):
            parts = []
            while not self.at(")"):
                parts.append(self.ty())
                if not self.eat(","):
                    break
            self.expect(")")
            return ("tuple", tuple(parts)) if parts else "unit"
        if self.eat("["):
            el = self.ty()
            if self.eat(";"):
                n = self.cur
                self.i += 1
                self.expect("]")
                return ("array", el, int(n.text) if n.text.isdigit() else n.text)
            self.expect("]")
            return ("vec", el)
        if c.kind != "ident" and not self.at("_"):
            unsup(f"line {c.line}: unsupported type starting with {c.text!r}")
        if self.eat("_"):
            return None
        name = self.ident()
        while self.eat("::"):
            name = self.ident()
        args = []
        if self.eat("<"):
            while not self.at(">"):
                if self.cur.kind == "lifetime":
                    self.i += 1
                else:
                    args.append(self.ty())
                if not self.eat(","):
                    break
            self.expect(">")
        if name in ("usize", "isize", "u32", "u16", "u8", "bool", "char"):
            return name
        if name in ("String", "str", "Formatter"):
            return "string"            # a Formatter is the String it writes to
        if name == "Vec" and len(args) == 1:
            return ("vec", args[0])
        if name == "Option" and len(args) == 1:
            return ("opt", args[0])
        if name == "Self":
            return ("self",)
        if name in Parser5.typarams:
            return Parser5.typarams[name]
        if name == "Result" and not args:
            return "fmtresult"
        return ("named", name)

    # -- patterns
    def pattern(self):
        c = self.cur
        if self.eat("["):
            parts = []
            rest = None
            while not self.at("]"):
                if self.at(".."):
                    self.i += 1
                    rest = "_"
                elif self.cur.kind == "ident" and self.peek().text == "@" and self.peek(2).text == "..":
                    rest = self.ident()
                    self.i += 2
                else:
                    if rest is not None:
                        unsup(f"line {c.line}: slice pattern with elements after `..`")
                    parts.append(self.pattern())
                if not self.eat(","):
                    break
            self.expect("]")
            return N("pslice", c.line, parts=parts, rest=rest)
        if c.kind == "char":
            self.i += 1
            return N("plit", c.line, value=char_val(c.text), ty="char")
        return super().pattern()

    # -- statements
    def loop_stmt(self):
        c = self.cur
        if not self.at("while"):
            unsup(f"line {c.line}: `{c.text}` loops are outside the subset")
        self.i += 1
        if self.at("let"):
            self.i += 1
            pat = self.pattern()
            self.expect("=")
            scrut = self.expr(no_struct=True)
            body = self.block()
            return N("whilelet", c.line, pat=pat, scrut=scrut, body=body)
        unsup(f"line {c.line}: `while` loops other than `while let` are outside the subset")

    # -- expressions
    def range_expr(self, ns):
        c = self.cur
        if self.at("..") or self.at("..="):
            incl = self.at("..=")
            self.i += 1
            hi = None
            if not (self.at("]") or self.at(")") or self.at(";") or self.at(",")):
                hi = self.binary(1, ns)
            return N("range", c.line, lo=None, hi=hi, incl=incl)
        lo = self.binary(1, ns)
        if self.at("..") or self.at("..="):
            incl = self.at("..=")
            self.i += 1
            hi = None
            if not (self.at("]") or self.at(")") or self.at(";") or self.at(",") or self.at("{")):
                hi = self.binary(1, ns)
            return N("range", c.line, lo=lo, hi=hi, incl=incl)
        return lo

    def unary(self, ns):
        c = self.cur
        if c.kind == "punct" and c.text in ("&", "&&"):
            self.i += 1
            m = self.eat("mut")
            return N("un", c.line, op="&", e=self.unary(ns), mut=m)
        return super().unary(ns)

    def postfix(self, ns):
        e = self.primary(ns)
        while True:
            c = self.cur
            if self.at("."):
                nx = self.peek()
                if nx.kind == "int":
                    self.i += 2
                    e = N("field", c.line, e=e, name=nx.text)
                elif nx.kind == "ident":
                    self.i += 2
                    turbo = None
                    if self.at("::") and self.peek().text == "<":
                        self.i += 2
                        turbo = self.ty()
                        self.expect(">")
                    if self.at("("):
                        e = N("mcall", c.line, recv=e, name=nx.text, args=self.args(), turbo=turbo)
                    elif turbo is not None:
                        unsup(f"line {c.line}: turbofish without call")
                    else:
                        e = N("field", c.line, e=e, name=nx.text)
                else:
                    unsup(f"line {c.line}: unexpected token after `.`")
            elif self.at("["):
                self.i += 1
                ix = self.expr()
                self.expect("]")
                e = N("index", c.line, e=e, ix=ix)
            elif self.at("(") and e.kind == "path":
                e = N("call", c.line, path=e.path, args=self.args())
            elif self.at("(") and e.kind == "paren":
                e = N("callv", c.line, f=e.e, args=self.args())
            elif self.at("?"):
                self.i += 1
                e = N("try", c.line, e=e)
            else:
                return e

    def macro_args(self):
        opener = self.cur.text
        closer = {"[": "]", "(": ")", "{": "}"}[opener]
        self.i += 1
        out = []
        while not self.at(closer):
            if self.cur.kind == "str":
                out.append(N("str", self.cur.line, value=str_val(self.cur.text, self.cur.line)))
                self.i += 1
            else:
                out.append(self.expr())
            if not self.eat(","):
                break
        self.expect(closer)
        return out

    def primary(self, ns):
        c = self.cur
        if c.kind == "str":
            self.i += 1
            return N("str", c.line, value=str_val(c.text, c.line))
        if c.kind == "ident" and c.text == "continue":
            self.i += 1
            return N("continue", c.line)
        if c.kind == "ident" and c.text in ("format", "write", "unreachable") and self.peek().text == "!" \
                and self.peek(2).text in ("(", "["):
            self.i += 2
            args = self.macro_args()
            if c.text == "unreachable":
                if args:
                    unsup(f"line {c.line}: unreachable! with a message")
                return N("unreachable", c.line)
            dest = None
            if c.text == "write":
                if not args:
                    unsup(f"line {c.line}: write! without destination")
                dest, args = args[0], args[1:]
            if not args or args[0].kind != "str":
                unsup(f"line {c.line}: {c.text}! without a literal template")
            return N("format", c.line, dest=dest, pieces=fmt_pieces(args[0].value, c.line), args=args[1:])
        if c.kind == "ident" and c.text == "match":
            self.i += 1
            scrut = self.expr(no_struct=True)
            self.expect("{")
            arms = []
            while not self.at("}"):
                pats = [self.pattern()]
                while self.eat("|"):
                    pats.append(self.pattern())
                guard = None
                if self.eat("if"):
                    guard = self.expr(no_struct=True)
                self.expect("=>")
                if self.at("{"):
                    body = N("blockexpr", self.cur.line, block=self.block())
                    self.eat(",")
                else:
                    body = self.expr()
                    if not self.at("}"):
                        self.expect(",")
                arms.append((pats, body, guard))
            self.expect("}")
            return N("match", c.line, scrut=scrut, arms=arms)
        return super().primary(ns)

    def params(self):
        self_mode = None
        out = []
        while self.cur.kind != "eof":
            if self.at("&"):
                k = 1
                if self.peek(k).kind == "lifetime":
                    k += 1
                m = self.peek(k).text == "mut"
                if m:
                    k += 1
                if self.peek(k).text == "self":
                    self.i += k + 1
                    self_mode = "mut" if m else "ref"
                    if not self.eat(","):
                        break
                    continue
            if self.at("self"):
                self.i += 1
                self_mode = "val"
            else:
                pat = self.pattern()
                self.expect(":")
                out.append((pat, self.ty()))
            if not self.eat(","):
                break
        if self.cur.kind != "eof":
            unsup(f"line {self.cur.line}: cannot parse parameter list at {self.cur.text!r}")
        return self_mode, out


# =============================================================================================
# 4. types, contexts, places

def is_int(ty):
    return ty in NAT_TYS or ty == "num"


def is_list(ty):
    return ty == "string" or (isinstance(ty, tuple) and (ty[0] in ("vec", "iter") or (ty[0] == "array" and ty[2] != 2)))


def elem_ty(ty):
    return "char" if ty == "string" else ty[1]


def strip_ref(ty):
    while isinstance(ty, tuple) and ty[0] == "mutref":
        ty = ty[1]
    return ty


def lty(ty):
    """Lean type of a Rust type value"""
    ty = strip_ref(ty)
    if ty in NAT_TYS or ty == "num":
        return "Nat"
    if ty == "bool":
        return "Bool"
    if ty == "unit" or ty == "fmtresult":
        return "Unit"
    if ty == "string":
        return "List Nat"
    if isinstance(ty, tuple):
        k = ty[0]
        if k in ("vec", "iter") or (k == "array" and ty[2] != 2):
            return f"List {latom(lty(ty[1]))}"
        if k == "array":
            return f"{latom(lty(ty[1]))} × {latom(lty(ty[1]))}"
        if k == "opt":
            return f"Option {latom(lty(ty[1]))}"
        if k == "tuple":
            return " × ".join(latom(lty(x)) for x in ty[1])
        if k == "fn":
            return " → ".join([latom(lty(x)) for x in ty[1]] + [latom(lty(ty[2]))])
        if k == "named" and ty[1] in LEAN_TYPES:
            return LEAN_TYPES[ty[1]]
    unsup(f"no Lean type for {ty!r}")


def same_lty(a, b):
    try:
        return lty(a) == lty(b)
    except Unsupported:
        return False


def compat(a, b):
    """a: type of a value, b: declared type (None = unknown element type, a wildcard)"""
    a, b = strip_ref(a), strip_ref(b)
    if a is None or b is None:
        return True
    if a == "num" and is_int(b) or b == "num" and is_int(a):
        return True
    if isinstance(a, tuple) and isinstance(b, tuple):
        if a[0] == b[0] == "tuple":
            return len(a[1]) == len(b[1]) and all(compat(x, y) for x, y in zip(a[1], b[1]))
        if a[0] == b[0] == "opt":
            return compat(a[1], b[1])
        if is_list(a) and is_list(b):
            return compat(elem_ty(a), elem_ty(b))
    if is_list(a) and is_list(b):
        return compat(elem_ty(a), elem_ty(b))
    return same_lty(a, b)


def lits(cps):
    return "[" + ", ".join(f"0x{c:02x}" for c in cps) + "]"


class Pl:
    """a place (lvalue): kind 'self' | 'local' (name) | 'elem' (base Pl, idx text, var = Lean variable holding the
    element, which has been read, so the index is known to be valid); `fields` = path below the root"""

    def __init__(self, kind, ty, **kw):
        self.kind = kind
        self.ty = ty
        self.fields = []
        self.root_ty = ty
        self.__dict__.update(kw)

    def sub(self, name, ty):
        p = Pl(self.kind, ty)
        p.__dict__.update({k: v for k, v in self.__dict__.items() if k not in ("ty", "fields")})
        p.fields = self.fields + [name]
        return p


class Var:
    def __init__(self, lean, ty, alias=None, inout=False):
        self.lean, self.ty, self.alias, self.inout = lean, ty, alias, inout


class Effects:
    def __init__(self):
        self.mut_self = False
        self.assigned = []

    def assign(self, name):
        if name not in self.assigned:
            self.assigned.append(name)


class YieldT(Yield):
    """deferred tuple `(outs..., extra)`; the names in `outs` are filled in after the enclosing statement is compiled"""

    def __init__(self, outs, extra=None, opt=False):
        self.text = None
        self.outs = outs
        self.extra = extra
        self.opt = opt

    def is_opt(self):
        return False

    def get(self):
        parts = list(self.outs) + ([self.extra] if self.extra is not None else [])
        return parts[0] if len(parts) == 1 else "(" + ", ".join(parts) + ")"


class Ctx:
    def __init__(self, comp, fn, env, uses, eff, counter):
        self.comp, self.fn = comp, fn
        self.env = env              # rust local -> Var
        self.uses = uses
        self.eff = eff
        self.counter = counter
        self.declared = set()
        self.ret_k = None           # continuation of `return v`
        self.cont_k = None          # continuation of `continue` / falling off the end of a loop body
        self.tail = None            # Lean type of what the final yields of this CPS region produce (None inside a join)
        self.selfvar = fn.selfvar
        self.owner = fn.owner

    def child(self, eff=None):
        c = Ctx(self.comp, self.fn, dict(self.env), list(self.uses), eff if eff is not None else self.eff, self.counter)
        c.declared = set(self.declared) if eff is None else set()
        c.ret_k, c.cont_k, c.tail = self.ret_k, self.cont_k, (self.tail if eff is None else None)
        return c

    def fresh(self, base="x"):
        self.counter[0] += 1
        return f"{base}{self.counter[0]}"

    def visible(self):
        s = {v.lean for v in self.env.values()}
        if self.selfvar:
            s.add(self.selfvar)
        return s

    def declare(self, rust, ty, lean=None, **kw):
        if lean is None:
            lean = camel(rust)
            if lean in LEAN_KEYWORDS or re.fullmatch(r"[xr]\d+", lean) or lean in ("fuel",):
                lean += "'"
            vis = self.visible()
            while lean in vis:
                lean += "'"
        self.env[rust] = Var(lean, ty, **kw)
        self.declared.add(rust)
        return lean

    def assign_local(self, rust):
        if rust not in self.declared:
            self.eff.assign(rust)

    def mutate_self(self):
        if self.fn.self_mode != "mut":
            unsup("mutation of `self` in a function that does not take `&mut self`")
        self.eff.mut_self = True


class GenFn:
    def __init__(self, item):
        self.item = item
        self.owner, self.name = item.owner, item.name
        self.lean_name = None
        self.params = []          # (lean name, lean type, rust type)
        self.self_mode = None
        self.selfvar = None
        self.inouts = []          # rust names of `&mut T` parameters (their new values are part of the result)
        self.ret = "unit"
        self.selfref = False      # `&mut self -> &mut Self` returning `self`: the result is the updated receiver
        self.opt = False
        self.lines = []
        self.res_type = None
        self.aux = []             # auxiliary definitions emitted before the function (lists of lines)
        self.module = None

    def result_parts(self):
        """rust types of the components of the result"""
        parts = []
        if self.self_mode == "mut":
            parts.append(("named", self.owner))
        for nm in self.inouts:
            parts.append(dict((p[3], p[2]) for p in self.params if len(p) > 3)[nm])
        if self.ret != "unit" and not self.selfref:
            parts.append(self.ret)
        return parts


def contains_jump(node):
    """does the AST contain `return` / `continue` (outside closures)?"""
    if isinstance(node, N):
        if node.kind in ("return", "continue"):
            return True
        if node.kind == "closure":
            return False
        return any(contains_jump(v) for k, v in node.__dict__.items() if k not in ("kind", "line"))
    if isinstance(node, (list, tuple)):
        return any(contains_jump(x) for x in node)
    return False


def mentions_self_field(node, field):
    if isinstance(node, N):
        if node.kind == "field" and node.name == field and node.e.kind == "path" and node.e.path == ["self"]:
            return True
        return any(mentions_self_field(v, field) for k, v in node.__dict__.items() if k not in ("kind", "line"))
    if isinstance(node, (list, tuple)):
        return any(mentions_self_field(x, field) for x in node)
    return False


def unref(e):
    while e.kind == "paren" or (e.kind == "un" and e.op in ("&", "*")):
        e = e.e
    return e


# =============================================================================================
# 5. compilation of expressions

class Compiler:
    def __init__(self, tr):
        self.tr = tr
        self.R = Renderer()

    # ---------------------------------------------------------------- declarations
    def struct_fields(self, s):
        return self.tr.struct_fields(s)

    def field_ty(self, ty, name, line):
        ty = strip_ref(ty)
        if isinstance(ty, tuple) and ty[0] == "named":
            s = ty[1]
            if s in NEWTYPES and name == "0":
                return NEWTYPES[s], None
            fields = self.struct_fields(s)
            if fields is None:
                unsup(f"line {line}: field `{name}` of undeclared struct {s}")
            if name not in fields:
                unsup(f"line {line}: struct {s} has no field `{name}`")
            return fields[name], FIELD_RENAME.get((s, name), camel(name))
        if isinstance(ty, tuple) and ty[0] == "tuple" and name.isdigit() and int(name) < len(ty[1]):
            if len(ty[1]) != 2:
                unsup(f"line {line}: projection from a tuple of length {len(ty[1])}")
            return ty[1][int(name)], str(int(name) + 1)
        unsup(f"line {line}: field `{name}` on a value of type {ty!r}")

    def field(self, v, name, line):
        if v.parts and name.isdigit():
            return v.parts[int(name)]
        if strip_ref(v.ty) == ("named", "RGB8") and name in ("r", "g", "b"):
            # RGB8 is the triple of its components
            m = re.fullmatch(r"\(([\w']+), ([\w']+), ([\w']+)\)", v.lean)
            k = "rgb".index(name)
            return Val(m.group(k + 1) if m else f"{v.a}.{['1', '2.1', '2.2'][k]}", "u8")
        fty, lf = self.field_ty(v.ty, name, line)
        if lf is None:
            return Val(v.lean, fty)
        return Val(f"{v.a}.{lf}", fty, kind="bool" if fty == "bool" else None)

    def with_path(self, base, ty, fields, value, line):
        """Lean text of the value `base : ty` with the path `fields` below it replaced by `value`"""
        if not fields:
            return value
        f = fields[0]
        fty, lf = self.field_ty(ty, f, line)
        if lf is None:
            return self.with_path(base, fty, fields[1:], value, line)
        inner = self.with_path(f"{base}.{lf}", fty, fields[1:], value, line)
        ty = strip_ref(ty)
        if ty[0] == "tuple":
            return f"({inner}, {base}.2)" if lf == "1" else f"({base}.1, {inner})"
        return f"{{ {base} with {lf} := {inner} }}"

    # ---------------------------------------------------------------- places
    def is_place_expr(self, e, ctx):
        e0 = e
        while True:
            if e.kind == "paren" or (e.kind == "un" and e.op in ("&", "*")):
                e = e.e
            elif e.kind == "field":
                e = e.e
            elif e.kind == "index" and e.ix.kind != "range":
                e = e.e
            else:
                break
        if e.kind == "path" and e.path == ["self"]:
            return ctx.selfvar is not None
        return e.kind == "path" and len(e.path) == 1 and e.path[0] in ctx.env

    def place_of(self, e, ctx, pre):
        if e.kind == "paren" or (e.kind == "un" and e.op in ("&", "*")):
            return self.place_of(e.e, ctx, pre)
        if e.kind == "path":
            if e.path == ["self"]:
                return Pl("self", ("named", ctx.owner))
            v = ctx.env[e.path[0]]
            if v.alias is not None:
                return v.alias
            return Pl("local", strip_ref(v.ty), name=e.path[0])
        if e.kind == "field":
            b = self.place_of(e.e, ctx, pre)
            fty, _ = self.field_ty(b.ty, e.name, e.line)
            return b.sub(e.name, fty)
        if e.kind == "index":
            b = self.place_of(e.e, ctx, pre)
            bv = self.read(b, ctx)
            if isinstance(b.ty, tuple) and b.ty[0] == "array" and b.ty[2] == 2:
                if e.ix.kind == "int" and e.ix.value in (0, 1):
                    return b.sub(str(e.ix.value), b.ty[1])
                unsup(f"line {e.line}: index into a pair that is not the literal 0 or 1")
            if bv.ty == ("named", "MBuffer"):
                return None
            if not is_list(b.ty):
                unsup(f"line {e.line}: index into a value of type {b.ty!r}")
            i = self.cexpr(e.ix, ctx, pre, "usize")
            x = ctx.fresh()
            pre.append(("bind", x, f"{bv.a}[{i.lean}]?"))
            return Pl("elem", elem_ty(b.ty), base=b, idx=i.lean, var=x)
        unsup(f"line {e.line}: not a place")

    def read(self, pl, ctx):
        if pl.kind == "self":
            base, ty = ctx.selfvar, ("named", ctx.owner)
        elif pl.kind == "local":
            v = ctx.env[pl.name]
            base, ty = v.lean, strip_ref(v.ty)
        else:
            base, ty = pl.var, pl.root_ty if not pl.fields else None
            ty = self.elem_root_ty(pl)
        v = Val(base, ty, kind="bool" if ty == "bool" else None)
        for f in pl.fields:
            v = self.field(v, f, 0)
        return v

    def elem_root_ty(self, pl):
        return elem_ty(pl.base.ty)

    def write(self, pl, ctx, pre, text, line):
        if pl.kind == "self":
            ctx.mutate_self()
            pre.append(("let", ctx.selfvar, self.with_path(ctx.selfvar, ("named", ctx.owner), pl.fields, text, line)))
        elif pl.kind == "local":
            v = ctx.env[pl.name]
            if not re.fullmatch(r"[\w']+", v.lean):
                unsup(f"line {line}: assignment to `{pl.name}`")
            ctx.assign_local(pl.name)
            pre.append(("let", v.lean, self.with_path(v.lean, strip_ref(v.ty), pl.fields, text, line)))
        else:
            new = self.with_path(pl.var, self.elem_root_ty(pl), pl.fields, text, line)
            pre.append(("let", pl.var, new))
            bv = self.read(pl.base, ctx)
            # `List.set` cannot fail: the element has been read at this index (Rust: the borrow is exclusive)
            self.write(pl.base, ctx, pre, f"List.set {bv.a} {latom(pl.idx)} {pl.var}", line)

    # ---------------------------------------------------------------- bool helpers
    def as_bool(self, v):
        if v.ty != "bool":
            unsup(f"expected a bool, got {v.ty!r}")
        return v.lean if v.kind != "prop" else f"decide ({v.lean})"

    def as_prop(self, v):
        if v.ty != "bool":
            unsup(f"expected a bool, got {v.ty!r}")
        return v.lean if v.kind == "prop" else f"{v.a} = true"

    def value_text(self, v):
        if v.ty == "bool" and v.kind == "prop":
            return f"decide ({v.lean})"
        return v.lean

    # ---------------------------------------------------------------- enum resolution
    def resolve_variant(self, ctx, path, line):
        enums = self.tr.enums
        if len(path) >= 2 and path[-2] in enums:
            e = path[-2]
            for v, pay in enums[e]:
                if v == path[-1]:
                    return e, v, pay
            unsup(f"line {line}: enum {e} has no variant {path[-1]}")
        if len(path) >= 2 and path[-2] == "Self" and ctx.owner in enums:
            return self.resolve_variant(ctx, [ctx.owner, path[-1]], line)
        if len(path) >= 2 and path[-2] == "Ordering":
            return "Ordering", path[-1], []
        if len(path) == 1:
            cands = []
            for e in ctx.uses:
                for v, pay in enums.get(e, []):
                    if v == path[0]:
                        cands.append((e, v, pay))
            if len(cands) > 1:
                unsup(f"line {line}: ambiguous variant {path[0]}")
            if cands:
                return cands[0]
        return None

    def variant_lean(self, e, v):
        if e not in LEAN_TYPES:
            unsup(f"enum {e} has no Lean type")
        name = v if e in VARIANT_KEEP else VARIANT_RENAME.get((e, v), lcfirst(v))
        return f"{LEAN_TYPES[e]}.{name}"

    # ---------------------------------------------------------------- expressions
    def cexpr(self, e, ctx, pre, expect=None):
        m = getattr(self, "e_" + e.kind, None)
        if m is None:
            unsup(f"line {getattr(e, 'line', 0)}: unsupported expression form `{e.kind}`")
        return m(e, ctx, pre, expect)

    def e_int(self, e, ctx, pre, expect):
        expect = strip_ref(expect)
        return Val(str(e.value), expect if expect in NAT_TYS else "num")

    def e_char(self, e, ctx, pre, expect):
        return Val(f"0x{e.value:02x}", "char")

    def e_bool(self, e, ctx, pre, expect):
        return Val("true" if e.value else "false", "bool", kind="bool")

    def e_str(self, e, ctx, pre, expect):
        return Val(lits(e.value), "string")

    def e_paren(self, e, ctx, pre, expect):
        v = self.cexpr(e.e, ctx, pre, expect)
        return Val(v.a, v.ty, v.kind, v.parts, v.extra)

    def e_tuple(self, e, ctx, pre, expect):
        if not e.parts:
            return Val("()", "unit")
        exp = strip_ref(expect)
        exps = exp[1] if isinstance(exp, tuple) and exp[0] == "tuple" and len(exp[1]) == len(e.parts) else [None] * len(e.parts)
        vs = [self.cexpr(p, ctx, pre, x) for p, x in zip(e.parts, exps)]
        return Val("(" + ", ".join(self.value_text(v) for v in vs) + ")", ("tuple", tuple(v.ty for v in vs)), parts=vs)

    def e_array(self, e, ctx, pre, expect):
        exp = strip_ref(expect)
        ety = exp[1] if isinstance(exp, tuple) and exp[0] in ("array", "vec") else None
        vs = [self.cexpr(p, ctx, pre, ety) for p in e.parts]
        if len(vs) == 2:
            unsup(f"line {e.line}: array literal of length 2 (pairs are the model of `[T; 2]`)")
        t = ety
        for v in vs:
            if v.ty != "num":
                t = t or v.ty
        return Val("[" + ", ".join(self.value_text(v) for v in vs) + "]", ("array", t or "num", len(vs)))

    def e_path(self, e, ctx, pre, expect):
        p = e.path
        if p == ["self"]:
            if ctx.selfvar is None:
                unsup(f"line {e.line}: `self` in a function without receiver")
            return Val(ctx.selfvar, ("named", ctx.owner))
        if len(p) == 1 and p[0] in ctx.env:
            v = ctx.env[p[0]]
            if v.alias is not None:
                return self.read(v.alias, ctx)
            ty = strip_ref(v.ty)
            return Val(v.lean, ty, kind="bool" if ty == "bool" else None)
        if len(p) == 1 and p[0] in self.tr.consts:
            return self.tr.const_val(p[0], e.line)
        if p == ["None"]:
            exp = strip_ref(expect)
            return Val("none", ("opt", exp[1] if isinstance(exp, tuple) and exp[0] == "opt" else None))
        r = self.resolve_variant(ctx, p, e.line)
        if r:
            en, v, pay = r
            if pay:
                unsup(f"line {e.line}: variant {v} used without arguments")
            if en == "Ordering":
                unsup(f"line {e.line}: Ordering value outside a `match x.cmp(&y)`")
            return Val(self.variant_lean(en, v), ("named", en))
        unsup(f"line {e.line}: unknown name `{'::'.join(p)}`")

    def e_field(self, e, ctx, pre, expect):
        v = self.cexpr(e.e, ctx, pre)
        return self.field(v, e.name, e.line)

    def e_un(self, e, ctx, pre, expect):
        if e.op in ("&", "*"):
            return self.cexpr(e.e, ctx, pre, expect)
        v = self.cexpr(e.e, ctx, pre, expect)
        if e.op == "!" and v.ty == "bool":
            if v.kind == "prop":
                return Val(f"¬ {v.a}", "bool", kind="prop")
            return Val(f"!{v.a}", "bool", kind="bool")
        unsup(f"line {e.line}: unary `{e.op}` on {v.ty!r}")

    def unify_num(self, a, b, line):
        if a.ty == "num":
            return b.ty
        if b.ty == "num" or a.ty == b.ty:
            return a.ty
        unsup(f"line {line}: operands of different numeric types {a.ty!r} / {b.ty!r}")

    def e_bin(self, e, ctx, pre, expect):
        op = e.op
        if op in ("&&", "||"):
            a = self.cexpr(e.a, ctx, pre)
            pre2 = []
            b = self.cexpr(e.b, ctx, pre2)
            if a.ty != "bool" or b.ty != "bool":
                unsup(f"line {e.line}: `{op}` on non-bool")
            if pre2:
                # the right operand can panic, and is evaluated only when the left one does not decide
                x = ctx.fresh()
                rhs = wrap(pre2, Yield(text=self.as_bool(b)))
                short = Yield(text="true" if op == "||" else "false")
                pre.append(("bind", x, IfIR(self.as_prop(a) if a.kind == "prop" else a.lean,
                                            short if op == "||" else rhs, rhs if op == "||" else short)))
                return Val(x, "bool", kind="bool")
            if a.kind == "bool" and b.kind == "bool":
                return Val(f"{a.a} {op} {b.a}", "bool", kind="bool")
            sym = "∧" if op == "&&" else "∨"
            return Val(f"{latom(self.as_prop(a))} {sym} {latom(self.as_prop(b))}", "bool", kind="prop")
        a = self.cexpr(e.a, ctx, pre, expect if op in ("+", "-", "*") else None)
        b = self.cexpr(e.b, ctx, pre, a.ty if is_int(a.ty) and a.ty != "num" else None)
        if op in ("==", "!=", "<", ">", "<=", ">="):
            sym = {"==": "=", "!=": "≠", "<": "<", ">": ">", "<=": "≤", ">=": "≥"}[op]
            if is_int(a.ty) or is_int(b.ty):
                if not (is_int(a.ty) and is_int(b.ty)):
                    unsup(f"line {e.line}: comparison between {a.ty!r} and {b.ty!r}")
                self.unify_num(a, b, e.line)
            elif op in ("==", "!="):
                if not same_lty(a.ty, b.ty):
                    unsup(f"line {e.line}: `{op}` between {a.ty!r} and {b.ty!r}")
            else:
                unsup(f"line {e.line}: ordering comparison on {a.ty!r}")
            return Val(f"{latom(self.value_text(a))} {sym} {latom(self.value_text(b))}", "bool", kind="prop")
        if not (is_int(a.ty) and is_int(b.ty)):
            unsup(f"line {e.line}: arithmetic `{op}` on {a.ty!r} / {b.ty!r}")
        ty = self.unify_num(a, b, e.line)
        if ty == "char":
            unsup(f"line {e.line}: arithmetic on `char`")
        if op in ("+", "*"):
            if ty in W:
                x = ctx.fresh()
                pre.append(("bind", x, f"Avt.GenP.{'ckAdd' if op == '+' else 'ckMul'} {W[ty]} {a.a} {b.a}"))
                return Val(x, ty)
            return Val(f"{a.a} {op} {b.a}", ty)       # usize: assumed not to overflow (as the siblings)
        if op == "-":
            if a.lean.isdigit() and b.lean.isdigit() and int(a.lean) >= int(b.lean):
                return Val(str(int(a.lean) - int(b.lean)), ty)      # literal / const folding: cannot underflow
            x = ctx.fresh()
            pre.append(("bind", x, f"Avt.csub {a.a} {b.a}"))
            return Val(x, "usize" if ty == "num" else ty)
        unsup(f"line {e.line}: operator `{op}` on {ty!r}")

    def e_cast(self, e, ctx, pre, expect):
        v = self.cexpr(e.e, ctx, pre)
        to = e.ty
        src = strip_ref(v.ty)
        width = {"u8": 8, "u16": 16, "char": 21, "u32": 32, "usize": 64}
        if not (is_int(src) and to in width):
            unsup(f"line {e.line}: cast from {src!r} to {to!r}")
        if to == "char" and src != "u8":
            unsup(f"line {e.line}: cast from {src!r} to char")
        if src == "num":
            if v.lean.isdigit() and (to not in W or int(v.lean) < W[to]):
                return Val(v.lean, to)
            unsup(f"line {e.line}: cast of an untyped integer expression")
        if width[src] <= width[to]:
            return Val(v.lean, to)                      # widening: the value is unchanged
        return Val(f"{v.a} % {W[to]}", to)              # truncating `as`

    def e_range(self, e, ctx, pre, expect):
        if e.lo is None and e.hi is None:
            return Val("..", ("range", "usize"), extra="full")
        lo = self.cexpr(e.lo, ctx, pre, "usize") if e.lo is not None else Val("0", "usize")
        if e.hi is None:
            return Val(f"({lo.lean}, ..)", ("range", "usize"), parts=[lo, None], extra="from")
        hi = self.cexpr(e.hi, ctx, pre, lo.ty if lo.ty != "num" else "usize")
        if e.incl:
            hi = Val(f"{hi.a} + 1", hi.ty)
        return Val(f"({lo.lean}, {hi.lean})", ("range", hi.ty), parts=[lo, hi])

    def e_structlit(self, e, ctx, pre, expect):
        name = e.path[-1]
        if name == "Self":
            name = ctx.owner
        fields = self.struct_fields(name)
        if fields is None or name not in LEAN_TYPES:
            unsup(f"line {e.line}: struct literal of unknown struct {name}")
        if sorted(f for f, _ in e.fields) != sorted(fields.keys()):
            unsup(f"line {e.line}: struct literal {name}: fields differ from the declaration")
        parts = []
        for f, fe in e.fields:
            v = self.cexpr(fe, ctx, pre, fields[f])
            if not compat(v.ty, fields[f]):
                unsup(f"line {e.line}: field `{f}` of {name}: value of type {v.ty!r}, declared {fields[f]!r}")
            parts.append(f"{FIELD_RENAME.get((name, f), camel(f))} := {self.value_text(v)}")
        return Val("({ " + ", ".join(parts) + " } : " + LEAN_TYPES[name] + ")", ("named", name))

    def e_closure(self, e, ctx, pre, expect):
        exp = strip_ref(expect)
        if not (isinstance(exp, tuple) and exp[0] == "fn" and len(exp[1]) == len(e.params)):
            unsup(f"line {e.line}: closure where no function type is expected")
        names, body = self.closure(e, ctx, list(exp[1]), e.line)
        if not compat(body.ty, exp[2]):
            unsup(f"line {e.line}: closure result {body.ty!r}, expected {exp[2]!r}")
        return Val("(fun " + " ".join(names) + " => " + self.value_text(body) + ")", exp)

    def closure(self, e, ctx, ptys, line, allow_pre=None):
        """-> (lean parameter names, body Val); the body must be pure unless `allow_pre` (a list) collects its binds"""
        if e.kind != "closure" or len(e.params) != len(ptys):
            unsup(f"line {line}: expected a {len(ptys)}-parameter closure")
        child = ctx.child(Effects())
        names = []
        for p, ty in zip(e.params, ptys):
            if p.kind == "pbind":
                names.append(child.declare(p.name, ty))
            elif p.kind == "ppath" and p.args is None and len(p.path) == 1:
                names.append(child.declare(p.path[0], ty))
            else:
                unsup(f"line {line}: unsupported closure parameter")
        pre2 = []
        body = self.cexpr(e.body, child, pre2)
        if child.eff.mut_self or child.eff.assigned:
            unsup(f"line {line}: side effect inside a closure")
        if pre2:
            if allow_pre is None:
                unsup(f"line {line}: panic site inside a closure")
            allow_pre.extend(pre2)
        return names, body

    def e_blockexpr(self, e, ctx, pre, expect):
        return self.branching_value(e, ctx, pre, expect)

    e_if = e_iflet = e_match = e_blockexpr

    def branching_value(self, e, ctx, pre, expect):
        """if / match / block used as a value: no side effects allowed"""
        eff = Effects()
        child = ctx.child(eff)
        tys = []

        def k(v, c):
            tys.append(v)
            return Yield(text=self.value_text(v))

        ir = simplify(self.expr_ir(e, child, k, expect))
        if eff.mut_self or [r for r in eff.assigned if r in ctx.env]:
            unsup(f"line {e.line}: side effect inside an `{e.kind}` used as a value")
        if not tys:
            unsup(f"line {e.line}: `{e.kind}` expression without value")
        ty = tys[0].ty
        for v in tys[1:]:
            if not compat(v.ty, ty):
                unsup(f"line {e.line}: branches of different types {ty!r} / {v.ty!r}")
            if ty == "num" or (isinstance(ty, tuple) and ty[0] == "opt" and ty[1] is None):
                ty = v.ty
        kind = "bool" if ty == "bool" else None
        x = ctx.fresh()
        if ir.is_opt():
            pre.append(("bind", x, ir))
            return Val(x, ty, kind)
        s = self.R.inline(ir, False)
        if s is not None and len(s) < 60:
            return Val(s, ty, kind)
        pre.append(("let", x, ir))
        return Val(x, ty, kind)

    def e_unreachable(self, e, ctx, pre, expect):
        unsup(f"line {e.line}: `unreachable!()` in a position that is not the tail of a branch")

    def e_try(self, e, ctx, pre, expect):
        v = self.cexpr(e.e, ctx, pre)
        if v.ty != "fmtresult":
            unsup(f"line {e.line}: `?` on a value of type {v.ty!r} (only `fmt::Result` of `write!`, which cannot fail on a String)")
        return Val("()", "unit")

    # -- format!
    def render_arg(self, v, ctx, pre, line):
        ty = strip_ref(v.ty)
        if ty in ("u8", "u16", "u32", "usize", "num"):
            return f"Avt.renderDec {v.a}"
        if ty == "char":
            return f"[{v.lean}]"
        if ty == "string":
            return v.lean
        if isinstance(ty, tuple) and ty[0] == "named" and (ty[1], "fmt") in self.tr.items:
            return self.call_fmt(ctx, pre, self.tr.get(ty[1], "fmt"), v)
        unsup(f"line {line}: `{{}}` of a value of type {ty!r}")

    def format_text(self, e, ctx, pre):
        args = [self.cexpr(a, ctx, pre) for a in e.args]
        k = 0
        out = []
        for p in e.pieces:
            if p[0] == "lit":
                out.append(lits(p[1]))
            elif p[0] == "pos":
                if k >= len(args):
                    unsup(f"line {e.line}: more `{{}}` than arguments")
                out.append(latom(self.render_arg(args[k], ctx, pre, e.line)))
                k += 1
            else:
                if p[1] not in ctx.env:
                    unsup(f"line {e.line}: `{{{p[1]}}}` does not name a local")
                out.append(latom(self.render_arg(self.e_path(N("path", e.line, path=[p[1]]), ctx, pre, None), ctx, pre, e.line)))
        if k != len(args):
            unsup(f"line {e.line}: fewer `{{}}` than arguments")
        return " ++ ".join(out) if out else "[]"

    def e_format(self, e, ctx, pre, expect):
        if e.dest is None:
            return Val(self.format_text(e, ctx, pre), "string")
        # write!(f, ..): appends to the String behind the formatter; its Result is always Ok
        if not self.is_place_expr(e.dest, ctx):
            unsup(f"line {e.line}: write! to something that is not a local")
        pl = self.place_of(e.dest, ctx, pre)
        if strip_ref(pl.ty) != "string":
            unsup(f"line {e.line}: write! to a value of type {pl.ty!r}")
        cur = self.read(pl, ctx)
        text = self.format_text(e, ctx, pre)
        self.write(pl, ctx, pre, f"{cur.a} ++ {text}", e.line)
        return Val("()", "fmtresult")

    # -- index
    def e_index(self, e, ctx, pre, expect):
        if e.ix.kind == "range":
            b = self.cexpr(e.e, ctx, pre)
            if not is_list(b.ty):
                unsup(f"line {e.line}: slice of a value of type {b.ty!r}")
            r = self.cexpr(e.ix, ctx, pre)
            x = ctx.fresh()
            if r.extra == "full":
                return b
            if r.extra == "from":
                pre.append(("bind", x, f"Avt.GenP.sliceFrom {b.a} {r.parts[0].a}"))
            else:
                pre.append(("bind", x, f"Avt.GenP.slice {b.a} {r.parts[0].a} {r.parts[1].a}"))
            return Val(x, ("vec", elem_ty(b.ty)) if b.ty != "string" else "string")
        b = self.cexpr(e.e, ctx, pre)
        if isinstance(b.ty, tuple) and b.ty[0] == "array" and b.ty[2] == 2:
            if e.ix.kind == "int" and e.ix.value in (0, 1):
                return Val(f"{b.a}.{e.ix.value + 1}", b.ty[1])
            unsup(f"line {e.line}: index into a pair that is not the literal 0 or 1")
        if b.ty == ("named", "MBuffer"):
            i = self.cexpr(e.ix, ctx, pre)
            if i.parts and len(i.parts) == 2:
                ln = ctx.fresh("line")
                pre.append(("bind", ln, f"{b.a}.view[{i.parts[1].lean}]?"))
                c = ctx.fresh("cell")
                pre.append(("bind", c, f"{ln}.cells[{i.parts[0].lean}]?"))
                return Val(c, ("named", "Cell"))
            unsup(f"line {e.line}: unsupported index into the model buffer")
        if is_list(b.ty):
            i = self.cexpr(e.ix, ctx, pre, "usize")
            x = ctx.fresh()
            pre.append(("bind", x, f"{b.a}[{i.lean}]?"))
            ety = elem_ty(b.ty)
            return Val(x, ety, kind="bool" if ety == "bool" else None)
        unsup(f"line {e.line}: unsupported index expression on {b.ty!r}")

    # ---------------------------------------------------------------- calls
    def derive_default(self, name, line):
        """value of the derived `Default` of struct `name` (field by field)"""
        if "Default" not in self.tr.derives.get(name, set()):
            unsup(f"line {line}: struct {name} does not derive Default")
        fields = self.struct_fields(name)
        if fields is None or name not in LEAN_TYPES:
            unsup(f"line {line}: derived Default of unknown struct {name}")
        parts = [f"{FIELD_RENAME.get((name, f), camel(f))} := {self.default_of(ty, line)}" for f, ty in fields.items()]
        return Val("({ " + ", ".join(parts) + " } : " + LEAN_TYPES[name] + ")", ("named", name))

    def default_of(self, ty, line):
        ty = strip_ref(ty)
        if ty in ("usize", "u8", "u16", "u32"):
            return "0"
        if ty == "bool":
            return "false"
        if ty == "string":
            return "[]"
        if isinstance(ty, tuple):
            if ty[0] == "opt":
                return "none"
            if ty[0] == "vec":
                return "[]"
            if ty[0] == "array" and ty[2] != 2:
                n = self.tr.array_len(ty[2], line)
                return f"List.replicate {n} {latom(self.default_of(ty[1], line))}"
            if ty[0] == "named":
                s = ty[1]
                if s in self.tr.enums:
                    if "Default" in self.tr.derives.get(s, set()) and s in self.tr.enum_default:
                        return self.variant_lean(s, self.tr.enum_default[s])
                elif (s, "default") in self.tr.items:
                    g = self.tr.get(s, "default")
                    if g.opt:
                        unsup(f"line {line}: {s}::default can panic")
                    return g.lean_name
                elif s in self.tr.structs:
                    return self.derive_default(s, line).lean
        unsup(f"line {line}: no Default known for {ty!r}")

    def e_call(self, e, ctx, pre, expect):
        p = e.path
        name = p[-1]
        if p == ["Some"] and len(e.args) == 1:
            exp = strip_ref(expect)
            v = self.cexpr(e.args[0], ctx, pre, exp[1] if isinstance(exp, tuple) and exp[0] == "opt" else None)
            return Val(f"some {latom(self.value_text(v))}", ("opt", v.ty))
        if p == ["Ok"] and len(e.args) == 1 and e.args[0].kind == "tuple" and not e.args[0].parts:
            return Val("()", "fmtresult")
        if p in (["String", "new"], ["Vec", "new"]) and not e.args:
            return Val("[]", "string" if p[0] == "String" else ("vec", None))
        if p[-2:] == ["mem", "take"] and len(e.args) == 1:
            a = e.args[0]
            if not (a.kind == "un" and a.op == "&" and getattr(a, "mut", False) and self.is_place_expr(a.e, ctx)):
                unsup(f"line {e.line}: mem::take of something that is not `&mut place`")
            pl = self.place_of(a.e, ctx, pre)
            if not is_list(pl.ty):
                unsup(f"line {e.line}: mem::take of a value of type {pl.ty!r}")
            x = ctx.fresh()
            pre.append(("let", x, self.read(pl, ctx).lean))
            self.write(pl, ctx, pre, "[]", e.line)
            return Val(x, pl.ty)
        if p[-2:] == ["Default", "default"] and not e.args:
            exp = strip_ref(expect)
            if exp == ("self",):
                exp = ("named", ctx.owner)
            if not (isinstance(exp, tuple) and exp[0] == "named"):
                unsup(f"line {e.line}: Default::default() where the type is not known")
            return self.static_call(ctx, pre, exp[1], "default", [], e.line)
        if p == ["RGB8", "new"] and len(e.args) == 3:
            vs = [self.cexpr(a, ctx, pre, "u8") for a in e.args]
            return Val("(" + ", ".join(v.lean for v in vs) + ")", ("named", "RGB8"), parts=vs)
        if len(p) == 2:
            ty = ctx.owner if p[0] == "Self" else p[0]
            if (ty, name) in CALLS or (ty, name) in self.tr.items or (name == "default" and ty in self.tr.structs):
                return self.static_call(ctx, pre, ty, name, e.args, e.line)
        if len(p) == 1 and p[0] in self.tr.structs and self.tr.structs[p[0]] and self.tr.structs[p[0]][0] == "tuple":
            unsup(f"line {e.line}: tuple-struct constructor {p[0]}(..)")
        r = self.resolve_variant(ctx, p, e.line)
        if r:
            en, v, pay = r
            if len(pay) != len(e.args):
                unsup(f"line {e.line}: {en}::{v} with {len(e.args)} arguments")
            ptys = [Parser5(x).ty() for x in pay]
            vs = [self.cexpr(a, ctx, pre, t) for a, t in zip(e.args, ptys)]
            for v_, t in zip(vs, ptys):
                if not compat(v_.ty, t):
                    unsup(f"line {e.line}: argument of type {v_.ty!r} for {en}::{v}({t!r})")
            if en == "Color" and v == "RGB":
                c = vs[0]
                comps = [x.a for x in c.parts] if c.parts else [f"{c.a}.1", f"{c.a}.2.1", f"{c.a}.2.2"]
                return Val("Avt.Color.rgb " + " ".join(comps), ("named", "Color"))
            return Val(self.variant_lean(en, v) + "".join(" " + latom(self.value_text(x)) for x in vs), ("named", en))
        unsup(f"line {e.line}: unknown function `{'::'.join(p)}`")

    def static_call(self, ctx, pre, ty, name, args, line):
        if (ty, name) in self.tr.items:
            g = self.tr.get(ty, name)
            if g.self_mode is not None:
                unsup(f"line {line}: {ty}::{name} called as a static function")
            vs = self.compile_args(ctx, pre, g, args, line)
            return self.call_gen(ctx, pre, g, None, vs, line)
        if (ty, name) in CALLS:
            d = CALLS[(ty, name)]
            if d["recv"]:
                unsup(f"line {line}: {ty}::{name} called as a static function")
            return self.call_ext(ctx, pre, d, None, args, line, f"{ty}::{name}")
        if name == "default" and not args:
            return self.derive_default(ty, line)
        unsup(f"line {line}: unknown function `{ty}::{name}`")

    def compile_args(self, ctx, pre, g, args, line):
        ps = [p for p in g.params if p[3] is not None]
        if len(args) != len(ps):
            unsup(f"line {line}: wrong number of arguments for {g.item.qname}")
        out = []
        for a, (_, _, pty, rust) in zip(args, ps):
            if isinstance(pty, tuple) and pty[0] == "mutref":
                if not (a.kind == "un" and a.op == "&" and getattr(a, "mut", False) and self.is_place_expr(a.e, ctx)):
                    # a `&mut T` local passed on
                    if not (a.kind == "path" and len(a.path) == 1 and a.path[0] in ctx.env and ctx.env[a.path[0]].inout):
                        unsup(f"line {line}: `&mut` parameter `{rust}` of {g.item.qname} needs a `&mut place` argument")
                    pl = self.place_of(a, ctx, pre)
                else:
                    pl = self.place_of(a.e, ctx, pre)
                v = self.read(pl, ctx)
                v.extra = ("place", pl)
                out.append(v)
            else:
                out.append(self.cexpr(a, ctx, pre, pty))
        for v, (_, _, pty, rust) in zip(out, ps):
            if not compat(v.ty, pty):
                unsup(f"line {line}: argument of type {v.ty!r} for parameter `{rust}` : {pty!r} of {g.item.qname}")
        return out

    def call_gen(self, ctx, pre, g, recv, vs, line, recv_place=None):
        """call of a generated function.  recv: Val of the receiver (or None); recv_place: where the updated
        receiver of a `&mut self` method is written back (None: the receiver is a temporary)"""
        text = g.lean_name + ("" if recv is None else " " + recv.a) + "".join(" " + latom(self.value_text(v)) for v in vs)
        parts = g.result_parts()
        kind = "bool" if g.ret == "bool" else None
        if g.self_mode == "mut" and recv_place is None and not g.selfref:
            unsup(f"line {line}: `&mut self` method {g.item.qname} called on a temporary")
        if len(parts) == 0 and g.selfref:
            parts = [("named", g.owner)]
        names = [ctx.fresh() for _ in parts]
        if not parts:
            unsup(f"line {line}: call of {g.item.qname}, which has no result")
        if len(parts) == 1 and not g.opt and g.self_mode != "mut" and not g.inouts:
            return Val(text, parts[0], kind)
        pat = names[0] if len(names) == 1 else "(" + ", ".join(names) + ")"
        pre.append(("bind" if g.opt else "let", pat, text))
        k = 0
        if g.self_mode == "mut":
            if recv_place is not None:
                self.write(recv_place, ctx, pre, names[0], line)
            elif g.selfref:
                return Val(names[0], ("named", g.owner))
            k = 1
        ps = [p for p in g.params if p[3] is not None]
        for nm in g.inouts:
            idx = [i for i, p in enumerate(ps) if p[3] == nm][0]
            self.write(vs[idx].extra[1], ctx, pre, names[k], line)
            k += 1
        if g.selfref:
            return Val("()", "selfref")
        if g.ret == "unit":
            return Val("()", "unit")
        return Val(names[k], g.ret, kind)

    def call_ext(self, ctx, pre, d, recv, args, line, qn):
        if len(args) != len(d["args"]):
            unsup(f"line {line}: {qn} with {len(args)} arguments")
        texts = []
        for a, shape in zip(args, d["args"]):
            v = self.cexpr(a, ctx, pre)
            if shape == "v":
                texts.append(latom(self.value_text(v)))
            elif shape == "t2":
                if not (isinstance(v.ty, tuple) and v.ty[0] == "tuple" and len(v.ty[1]) == 2):
                    unsup(f"line {line}: {qn}: expected a pair argument")
                texts += [self.field(v, "0", line).a, self.field(v, "1", line).a]
        text = d["lean"] + ("" if recv is None else " " + recv.a) + "".join(" " + x for x in texts)
        ret = d["ret"]
        kind = "bool" if ret == "bool" else None
        if d["opt"]:
            x = ctx.fresh()
            pre.append(("bind", x, text))
            return Val(x, ret, kind)
        return Val(text, ret, kind)

    def e_callv(self, e, ctx, pre, expect):
        f = self.cexpr(e.f, ctx, pre)
        if not (isinstance(f.ty, tuple) and f.ty[0] == "fn" and len(f.ty[1]) == len(e.args)):
            unsup(f"line {e.line}: call of a value of type {f.ty!r}")
        vs = [self.cexpr(a, ctx, pre, t) for a, t in zip(e.args, f.ty[1])]
        for v, t in zip(vs, f.ty[1]):
            if not compat(v.ty, t):
                unsup(f"line {e.line}: argument of type {v.ty!r} where the closure takes {t!r}")
        ret = f.ty[2]
        return Val(f"{f.a}" + "".join(" " + latom(self.value_text(v)) for v in vs), ret, kind="bool" if ret == "bool" else None)

    # ---------------------------------------------------------------- method calls
    def e_mcall(self, e, ctx, pre, expect):
        name, line = e.name, e.line
        if name == "fill" and len(e.args) == 1 and e.recv.kind == "index" and e.recv.ix.kind == "range" \
                and self.is_place_expr(e.recv.e, ctx):
            return self.fill_idiom(e, ctx, pre)
        # (a) the receiver as a place, when it is one
        pl = None
        if self.is_place_expr(e.recv, ctx):
            pl = self.place_of(e.recv, ctx, pre)
        if pl is not None:
            r = self.read(pl, ctx)
        else:
            r = self.cexpr(e.recv, ctx, pre)
        ty = strip_ref(r.ty)
        # (b) methods of translated / table-mapped types
        if isinstance(ty, tuple) and ty[0] == "named":
            s = ty[1]
            if (s, name) in self.tr.items:
                g = self.tr.get(s, name)
                if g.self_mode is None:
                    unsup(f"line {line}: {s}::{name} is not a method")
                vs = self.compile_args(ctx, pre, g, e.args, line)
                return self.call_gen(ctx, pre, g, r, vs, line, recv_place=pl if g.self_mode == "mut" else None)
            if (s, name) in CALLS:
                d = CALLS[(s, name)]
                if not d["recv"]:
                    unsup(f"line {line}: {s}::{name} is not a method")
                return self.call_ext(ctx, pre, d, r, e.args, line, f"{s}::{name}")
            if name == "to_string" and not e.args and (s, "fmt") in self.tr.items:
                return Val(self.render_arg(r, ctx, pre, line), "string")
        return self.method_idiom(e, r, pl, ctx, pre, expect)

    def method_idiom(self, e, r, pl, ctx, pre, expect):
        """idiom table for std methods; r: the receiver's value, pl: its place (or None)"""
        name, line, args = e.name, e.line, e.args
        ty = strip_ref(r.ty)
        tk = ty[0] if isinstance(ty, tuple) else ty
        n = len(args)
        # --- String / Vec mutation
        if is_list(ty) and tk != "iter" and name in ("push", "push_str", "clear") and pl is not None:
            if name == "push" and n == 1:
                v = self.cexpr(args[0], ctx, pre, elem_ty(ty))
                if not compat(v.ty, elem_ty(ty)):
                    unsup(f"line {line}: push of a {v.ty!r} onto {ty!r}")
                self.write(pl, ctx, pre, f"{self.read(pl, ctx).a} ++ [{self.value_text(v)}]", line)
            elif name == "push_str" and n == 1 and ty == "string":
                v = self.cexpr(args[0], ctx, pre, "string")
                if strip_ref(v.ty) != "string":
                    unsup(f"line {line}: push_str of a {v.ty!r}")
                self.write(pl, ctx, pre, f"{self.read(pl, ctx).a} ++ {v.a}", line)
            elif name == "clear" and n == 0:
                self.write(pl, ctx, pre, "[]", line)
            else:
                unsup(f"line {line}: `.{name}` with {n} arguments")
            return Val("()", "unit")
        # --- numbers
        if is_int(ty):
            if name in ("min", "max") and n == 1:
                b = self.cexpr(args[0], ctx, pre, ty)
                return Val(f"{name} {r.a} {b.a}", self.unify_num(r, b, line))
            if name == "to_string" and n == 0 and ty != "char":
                return Val(f"Avt.renderDec {r.a}", "string")
            if name == "cmp" and n == 1:
                unsup(f"line {line}: `.cmp` outside a `match`")
        if name == "clone" and n == 0:
            return r
        if name in ("to_owned", "to_string") and n == 0 and ty == "string":
            return r
        # --- Option
        if tk == "opt":
            if name == "unwrap" and n == 0:
                x = ctx.fresh()
                pre.append(("bind", x, r.lean))
                return Val(x, ty[1], kind="bool" if ty[1] == "bool" else None)
            if name == "is_none" and n == 0:
                return Val(f"Option.isNone {r.a}", "bool", kind="bool")
            if name == "iter" and n == 0:
                return Val(f"Option.toList {r.a}", ("iter", ty[1]))
            if name in ("copied", "cloned") and n == 0:
                return r
            if name == "map" and n == 1:
                binds = []
                names, body = self.closure(args[0], ctx, [ty[1]], line, allow_pre=binds)
                if not binds:
                    return Val(f"Option.map (fun {names[0]} => {self.value_text(body)}) {r.a}", ("opt", body.ty))
                # the closure can panic: `none` of the outer Option is the panic, the inner Option is the value
                x = ctx.fresh()
                inner = wrap(binds, Yield(text=f"some {latom(self.value_text(body))}"))
                pre.append(("bind", x, MatchIR(r.lean, [(f"some {names[0]}", inner), ("none", Yield(text="none"))])))
                return Val(x, ("opt", body.ty))
        # --- slices / vectors / iterators (iterators are the list of the remaining items)
        if is_list(ty):
            el = elem_ty(ty)
            if name in ("iter", "chars", "into_iter", "by_ref") and n == 0:
                return Val(r.lean, ("iter", el))
            if name == "len" and n == 0:
                return Val(f"List.length {r.a}", "usize")
            if name == "is_empty" and n == 0:
                return Val(f"List.isEmpty {r.a}", "bool", kind="bool")
            if name == "first" and n == 0:
                return Val(f"List.head? {r.a}", ("opt", el))
            if name == "last" and n == 0:
                return Val(f"List.getLast? {r.a}", ("opt", el))
            if name == "get" and n == 1:
                i = self.cexpr(args[0], ctx, pre, "usize")
                return Val(f"{r.a}[{i.lean}]?", ("opt", el))
            if name in ("copied", "cloned") and n == 0 and tk == "iter":
                return r
            if name == "take" and n == 1 and tk == "iter":
                k = self.cexpr(args[0], ctx, pre, "usize")
                return Val(f"List.take {k.a} {r.a}", ty)
            if name == "enumerate" and n == 0 and tk == "iter":
                return Val(f"List.zipIdx {r.a}", ("iter", ("tuple", (el, "usize"))), extra="enum")
            if name == "next" and n == 0 and tk == "iter" and pl is not None:
                x = ctx.fresh()
                pre.append(("let", x, f"List.head? {r.a}"))
                self.write(pl, ctx, pre, f"List.tail {self.read(pl, ctx).a}", line)
                return Val(x, ("opt", el))
            if name == "map" and n == 1 and tk == "iter":
                binds = []
                names, body = self.closure(args[0], ctx, [el], line, allow_pre=binds)
                if not binds:
                    return Val(f"List.map (fun {names[0]} => {self.value_text(body)}) {r.a}", ("iter", body.ty))
                x = ctx.fresh()
                inner = simplify(wrap(binds, Yield(text=self.value_text(body))))
                lam = self.R.render(inner, True)
                lines = [f"List.mapM (fun {names[0]} =>"] + ["    " + l for l in lam] + [f"  ) {r.a}"]
                pre.append(("bind", x, RawIR(lines, True)))
                return Val(x, ("iter", body.ty))
            if name == "collect" and n == 0 and tk == "iter":
                t = e.turbo if getattr(e, "turbo", None) is not None else strip_ref(expect)
                if t == "string":
                    if el != "char":
                        unsup(f"line {line}: collect::<String>() of {el!r}")
                    return Val(r.lean, "string")
                if isinstance(t, tuple) and t[0] == "vec":
                    if r.extra == "enum":
                        unsup(f"line {line}: collect of an enumerate iterator")
                    return Val(r.lean, ("vec", el))
                unsup(f"line {line}: collect() into an unknown type")
            if name == "join" and n == 1 and el == "string":
                sep = self.cexpr(args[0], ctx, pre, "string")
                if sep.ty != "string":
                    unsup(f"line {line}: join with a separator of type {sep.ty!r}")
                return Val(f"List.intercalate {sep.a} {r.a}", "string")
        if tk == "range" and name == "contains" and n == 1 and r.parts and r.parts[1] is not None:
            x = self.cexpr(args[0], ctx, pre)
            return Val(f"{r.parts[0].a} ≤ {x.a} ∧ {x.a} < {r.parts[1].a}", "bool", kind="prop")
        unsup(f"line {line}: unsupported method `.{name}` on {ty!r}")

    def call_fmt(self, ctx, pre, g, v):
        """`x.to_string()` / `{}` of a value with a translated `Display::fmt`: run `fmt` on an empty String"""
        text = f"{g.lean_name} {v.a} []"
        if g.opt:
            x = ctx.fresh()
            pre.append(("bind", x, text))
            return x
        return text

    def fill_idiom(self, e, ctx, pre):
        """`place[range].fill(x)`  ==>  fillRange"""
        pl = self.place_of(e.recv.e, ctx, pre)
        if not is_list(pl.ty):
            unsup(f"line {e.line}: `.fill` on a value of type {pl.ty!r}")
        x = self.cexpr(e.args[0], ctx, pre, elem_ty(pl.ty))
        r = self.cexpr(e.recv.ix, ctx, pre)
        cur = self.read(pl, ctx)
        if r.extra == "full":
            self.write(pl, ctx, pre, f"List.map (fun _ => {self.value_text(x)}) {cur.a}", e.line)
            return Val("()", "unit")
        hi = r.parts[1].a if r.parts[1] is not None else f"{cur.a}.length"
        y = ctx.fresh()
        pre.append(("bind", y, f"Avt.fillRange {cur.a} {r.parts[0].a} {hi} {latom(self.value_text(x))}"))
        self.write(pl, ctx, pre, y, e.line)
        return Val("()", "unit")

    # ---------------------------------------------------------------- expression in tail position
    def expr_ir(self, e, ctx, k, expect=None):
        """IR computing e and continuing with k(val, ctx); branches continue separately"""
        if e.kind == "paren":
            return self.expr_ir(e.e, ctx, k, expect)
        if e.kind == "unreachable":
            return YieldOpt("none")
        if e.kind == "blockexpr":
            return self.block_ir(e.block, ctx.child(), k, expect)
        if e.kind == "if":
            pre = []
            cv = self.cexpr(e.cond, ctx, pre)
            if cv.ty != "bool":
                unsup(f"line {e.line}: condition of type {cv.ty!r}")
            a = self.block_ir(e.then, ctx.child(), k, expect)
            b = self.expr_ir(e.els, ctx.child(), k, expect) if e.els is not None else k(Val("()", "unit"), ctx)
            return wrap(pre, IfIR(cv.lean, a, b))
        if e.kind == "iflet":
            arms = [([e.pat], N("blockexpr", e.line, block=e.then), None),
                    ([N("pwild", e.line)], e.els, None)]
            return self.match_ir(N("match", e.line, scrut=e.scrut, arms=arms), ctx, k, expect)
        if e.kind == "match":
            return self.match_ir(e, ctx, k, expect)
        if e.kind == "return":
            return self.do_return(e, ctx)
        if e.kind == "continue":
            if ctx.cont_k is None:
                unsup(f"line {e.line}: `continue` outside a translated loop")
            return ctx.cont_k(ctx)
        pre = []
        v = self.cexpr(e, ctx, pre, expect)
        return wrap(pre, k(v, ctx))

    def do_return(self, s, ctx):
        if ctx.ret_k is None:
            unsup(f"line {s.line}: `return` here is outside the subset")
        if s.value is None:
            return ctx.ret_k(Val("()", "unit"), ctx)
        return self.expr_ir(s.value, ctx, ctx.ret_k, ctx.fn.ret)

    def match_ir(self, e, ctx, k, expect):
        pre = []
        sc = e.scrut
        # match a.cmp(&b) { Less | Equal | Greater }  ==>  if-chain in source order
        if sc.kind == "mcall" and sc.name == "cmp" and len(sc.args) == 1:
            a = self.cexpr(sc.recv, ctx, pre)
            b = self.cexpr(sc.args[0], ctx, pre)
            if not (is_int(a.ty) and is_int(b.ty)):
                unsup(f"line {e.line}: cmp on non-integers")
            arms = []
            for pats, body, guard in e.arms:
                if len(pats) != 1 or pats[0].kind != "ppath" or pats[0].args is not None or guard is not None:
                    unsup(f"line {e.line}: unsupported Ordering pattern")
                r = self.resolve_variant(ctx, pats[0].path, e.line)
                if not r or r[0] != "Ordering":
                    unsup(f"line {e.line}: unsupported Ordering pattern")
                arms.append((r[1], self.expr_ir(body, ctx.child(), k, expect)))
            if sorted(p for p, _ in arms) != ["Equal", "Greater", "Less"]:
                unsup(f"line {e.line}: match on Ordering must have exactly the arms Less, Equal, Greater")
            rel = {"Less": "<", "Equal": "=", "Greater": ">"}
            (p1, b1), (p2, b2), (_, b3) = arms
            return wrap(pre, IfIR(f"{a.a} {rel[p1]} {b.a}", b1, IfIR(f"{a.a} {rel[p2]} {b.a}", b2, b3)))
        s = self.cexpr(sc, ctx, pre)
        sty = strip_ref(s.ty)
        stext = self.value_text(s)
        # expand or-patterns, cut the arm list after every guarded arm
        flat = []
        for pats, body, guard in e.arms:
            for p in pats:
                flat.append((p, body, guard))
        segs = [[]]
        for a in flat:
            segs[-1].append(a)
            if a[2] is not None:
                segs.append([])
        if not segs[-1]:
            segs.pop()
        g = ctx.fn
        if len(segs) > 1:
            if not re.fullmatch(r"[\w'.]+", stext):
                x = ctx.fresh()
                pre.append(("let", x, stext))
                stext = x
            if ctx.tail is None:
                unsup(f"line {e.line}: `match` with guards in a position that is not the tail of the function / loop body")
        first_no = getattr(g, "arms_count", 0)
        g.arms_count = first_no + len(segs) - 1

        def irrefutable(p):
            return p.kind == "pwild" or (p.kind == "ppath" and p.args is None and len(p.path) == 1
                                         and not p.path[0][0].isupper())

        def build(i, c):
            """IR of the arms of segments i.., compiled under context c"""
            nxt = build_aux(i + 1, c) if i + 1 < len(segs) else None
            arms = []
            exhaustive = False
            for p, body, guard in segs[i]:
                cc = c.child()
                pt, binds = self.pattern(p, sty, cc, e.line)
                for rust, lean, ty in binds:
                    cc.declare(rust, ty, lean)
                b = self.expr_ir(body, cc, k, expect) if body is not None else k(Val("()", "unit"), cc)
                if guard is not None:
                    gpre = []
                    gv = self.cexpr(guard, cc, gpre)
                    if gpre or gv.ty != "bool":
                        unsup(f"line {e.line}: match guard with a panic site / call")
                    if nxt is None:
                        unsup(f"line {e.line}: guarded arm without a following arm")
                    b = IfIR(gv.lean, b, nxt())
                elif irrefutable(p):
                    exhaustive = True
                arms.append((pt, b))
                if exhaustive:
                    break
            if not exhaustive and nxt is not None:
                arms.append(("_", nxt()))
            return MatchIR(stext, arms)

        def build_aux(i, c):
            """the arms of segments i.. as an auxiliary definition; returns a thunk giving the IR of its call"""
            cc = c.child()
            ir = simplify(build(i, cc))
            opt = ir.is_opt()
            nm = f"{g.lean_name}.arms{first_no + i}"
            vars_ = []
            if c.selfvar:
                vars_.append((c.selfvar, lty(("named", c.owner))))
            for rust, v in c.env.items():
                if v.alias is None and re.fullmatch(r"[\w']+", v.lean) and v.lean not in [n for n, _ in vars_]:
                    vars_.append((v.lean, lty(v.ty)))
            if stext not in [n for n, _ in vars_] and re.fullmatch(r"[\w']+", stext):
                vars_.append((stext, lty(sty)))
            res = f"Option {latom(c.tail)}" if opt else c.tail
            body = self.R.render(ir, opt)
            lines = [f"/-- the arms of the `match` at line {e.line} of `{g.item.qname}` that follow the guarded arm at "
                     f"line {segs[i - 1][-1][0].line} (a failed guard falls through to them) -/",
                     f"def {self.tr.short(nm, g)}" + "".join(f" ({n} : {t})" for n, t in vars_) + f" : {res} :="]
            lines += ["  " + x for x in body]
            g.aux.append(lines)
            call = nm + "".join(" " + n for n, _ in vars_)
            return lambda: (YieldOpt(call) if opt else Yield(text=call))

        return wrap(pre, build(0, ctx))

    def pattern(self, p, ty, ctx, line):
        """-> (lean pattern text, [(rust, lean, type)])"""
        ty = strip_ref(ty)
        if p.kind == "pwild":
            return "_", []
        if p.kind == "plit":
            if p.ty == "bool" and ty == "bool":
                return ("true" if p.value else "false"), []
            if p.ty in ("int", "char") and is_int(ty):
                return str(p.value), []
            unsup(f"line {line}: literal pattern on {ty!r}")
        if p.kind == "pbind":
            nm = self.pat_name(ctx, p.name)
            return nm, [(p.name, nm, ty)]
        if p.kind == "ptuple":
            if not (isinstance(ty, tuple) and ty[0] == "tuple" and len(ty[1]) == len(p.parts)):
                unsup(f"line {line}: tuple pattern on {ty!r}")
            texts, binds = [], []
            for q, qt in zip(p.parts, ty[1]):
                t, b = self.pattern(q, qt, ctx, line)
                texts.append(t)
                binds += b
            return "(" + ", ".join(texts) + ")", binds
        if p.kind == "pslice":
            if not is_list(ty):
                unsup(f"line {line}: slice pattern on {ty!r}")
            texts, binds = [], []
            for q in p.parts:
                t, b = self.pattern(q, elem_ty(ty), ctx, line)
                texts.append(t)
                binds += b
            if p.rest is None:
                return "[" + ", ".join(texts) + "]", binds
            if p.rest == "_":
                rest = "_"
            else:
                rest = self.pat_name(ctx, p.rest)
                binds.append((p.rest, rest, ("vec", elem_ty(ty))))
            return " :: ".join(texts + [rest]), binds
        if p.kind == "ppath":
            tk = ty[0] if isinstance(ty, tuple) else ty
            if tk == "opt":
                if p.path == ["None"] and p.args is None:
                    return "none", []
                if p.path == ["Some"] and p.args is not None and len(p.args) == 1:
                    t, b = self.pattern(p.args[0], ty[1], ctx, line)
                    return f"some {latom(t)}", b
            if tk == "named" and ty[1] in self.tr.enums:
                r = self.resolve_variant(ctx, p.path, line)
                if r and r[0] == ty[1]:
                    en, v, pay = r
                    args = p.args or []
                    if len(args) != len(pay):
                        unsup(f"line {line}: pattern {v} with {len(args)} arguments")
                    ptys = [Parser5(x).ty() for x in pay]
                    if en == "Color" and v == "RGB":
                        q = args[0]
                        if not (q.kind == "ppath" and q.args is None and len(q.path) == 1):
                            unsup(f"line {line}: unsupported RGB pattern")
                        base = self.pat_name(ctx, q.path[0])
                        a, b, c = base + "R", base + "G", base + "B"
                        return f".rgb {a} {b} {c}", [(q.path[0], f"({a}, {b}, {c})", ("named", "RGB8"))]
                    texts, binds = [], []
                    for q, qt in zip(args, ptys):
                        t, b = self.pattern(q, qt, ctx, line)
                        texts.append(latom(t))
                        binds += b
                    name = v if en in VARIANT_KEEP else VARIANT_RENAME.get((en, v), lcfirst(v))
                    return "." + name + "".join(" " + t for t in texts), binds
                if r:
                    unsup(f"line {line}: pattern of enum {r[0]} on a value of type {ty!r}")
            if p.args is None and len(p.path) == 1:
                if p.path[0][0].isupper():
                    unsup(f"line {line}: unknown variant `{p.path[0]}` in pattern")
                nm = self.pat_name(ctx, p.path[0])
                return nm, [(p.path[0], nm, ty)]
        unsup(f"line {line}: unsupported pattern")

    def pat_name(self, ctx, rust):
        lean = camel(rust)
        if lean in LEAN_KEYWORDS or re.fullmatch(r"[xr]\d+", lean) or lean == "fuel":
            lean += "'"
        vis = ctx.visible()
        while lean in vis:
            lean += "'"
        return lean

    # ---------------------------------------------------------------- statements
    def block_ir(self, block, ctx, k, expect=None):
        def fin(c):
            if block.tail is None:
                return k(Val("()", "unit"), c)
            return self.expr_ir(block.tail, c, k, expect)

        return self.seq(block.stmts, 0, ctx, fin)

    def seq(self, stmts, i, ctx, fin):
        if i == len(stmts):
            return fin(ctx)
        return self.stmt_ir(stmts[i], ctx, lambda c: self.seq(stmts, i + 1, c, fin))

    def stmt_ir(self, s, ctx, rest):
        if s.kind == "use":
            ctx.uses.append(s.path[-1])
            return rest(ctx)
        if s.kind == "let":
            return self.s_let(s, ctx, rest)
        if s.kind == "assign":
            pre = []
            self.s_assign(s, ctx, pre)
            return wrap(pre, rest(ctx))
        if s.kind == "for":
            return self.s_for(s, ctx, rest)
        if s.kind == "whilelet":
            return self.s_whilelet(s, ctx, rest)
        if s.kind == "return":
            return self.do_return(s, ctx)
        if s.kind == "expr":
            e = s.e
            if e.kind == "tuple" and not e.parts:
                return rest(ctx)
            if e.kind == "continue":
                if ctx.cont_k is None:
                    unsup(f"line {e.line}: `continue` outside a translated loop")
                return ctx.cont_k(ctx)
            if e.kind in ("if", "iflet", "match", "blockexpr"):
                return self.s_branch(e, ctx, rest)
            if e.kind in ("mcall", "call", "format", "try"):
                pre = []
                self.cexpr(e, ctx, pre)
                if not pre:
                    unsup(f"line {s.line}: expression statement without effect")
                return wrap(pre, rest(ctx))
            unsup(f"line {s.line}: unsupported expression statement `{e.kind}`")
        unsup(f"line {s.line}: unsupported statement `{s.kind}`")

    def s_let(self, s, ctx, rest):
        pre = []
        p = s.pat
        simple = p.kind == "pbind" or (p.kind == "ppath" and p.args is None and len(p.path) == 1 and not p.path[0][0].isupper())
        rust = (p.name if p.kind == "pbind" else p.path[0]) if simple else None
        init = s.init
        if simple and init.kind == "un" and init.op == "&" and getattr(init, "mut", False):
            # `let x = &mut place;`: x is an alias, every change of x is written back at once
            if not self.is_place_expr(init.e, ctx):
                unsup(f"line {s.line}: `&mut` of something that is not a place")
            pl = self.place_of(init.e, ctx, pre)
            if pl is None:
                unsup(f"line {s.line}: unsupported `&mut` borrow")
            nm = ctx.declare(rust, pl.ty)
            if pl.kind == "elem" and not pl.fields and pre and pre[-1][1] == pl.var:
                pre[-1] = (pre[-1][0], nm, pre[-1][2])
                pl.var = nm
            ctx.env[rust].alias = pl
            return wrap(pre, rest(ctx))
        v = self.cexpr(init, ctx, pre, s.ty)
        ty = s.ty if s.ty is not None else v.ty
        if s.ty is not None and not compat(v.ty, s.ty):
            unsup(f"line {s.line}: value of type {v.ty!r} for a `let` of type {s.ty!r}")
        if ty == "num":
            ty = "usize"
        if simple:
            nm = ctx.declare(rust, ty)
            pre.append(("let", nm, self.value_text(v)))
            return wrap(pre, rest(ctx))
        pt, binds = self.pattern(p, ty, ctx, s.line)
        for r_, lean, bty in binds:
            ctx.declare(r_, bty, lean)
        pre.append(("let", pt, self.value_text(v)))
        return wrap(pre, rest(ctx))

    def s_assign(self, s, ctx, pre):
        lhs, op, line = s.lhs, s.op, s.line
        if not self.is_place_expr(lhs, ctx):
            unsup(f"line {line}: unsupported assignment target")
        pl = self.place_of(lhs, ctx, pre)
        if pl is None:
            unsup(f"line {line}: unsupported assignment target")
        cur = self.read(pl, ctx)
        ty = strip_ref(cur.ty)
        v = self.cexpr(s.rhs, ctx, pre, ty)
        if op == "=":
            if not compat(v.ty, ty):
                unsup(f"line {line}: assignment of {v.ty!r} to a place of type {ty!r}")
            text = self.value_text(v)
        elif op in ("+=", "-=") and is_int(ty) and ty != "char" and is_int(v.ty):
            cur = self.read(pl, ctx)
            if op == "+=" and ty not in W:
                text = f"{cur.a} + {v.a}"
            else:
                x = ctx.fresh()
                pre.append(("bind", x, f"Avt.GenP.ckAdd {W[ty]} {cur.a} {v.a}" if op == "+=" else f"Avt.csub {cur.a} {v.a}"))
                text = x
        else:
            unsup(f"line {line}: `{op}` on a place of type {ty!r}")
        self.write(pl, ctx, pre, text, line)

    def joined(self, ctx, build):
        """compile a nested statement whose effects are joined afterwards: returns (ir, pattern or None)"""
        eff = Effects()
        outs = []
        child = ctx.child(eff)
        child.ret_k = child.cont_k = None
        ir = build(child, lambda v, c: Yield(outs=outs))
        names = []
        if eff.mut_self:
            ctx.mutate_self()
            names.append(ctx.selfvar)
        for r in eff.assigned:
            if r in ctx.env:
                names.append(ctx.env[r].lean)
                ctx.assign_local(r)
        if not names:
            unsup("nested statement without effect")
        outs.extend(names)
        pat = names[0] if len(names) == 1 else "(" + ", ".join(names) + ")"
        return ir, pat

    def s_branch(self, e, ctx, rest):
        if contains_jump(e):
            # a branch leaves through `return` / `continue`: the continuation is compiled in every branch
            return self.expr_ir(e, ctx, lambda v, c: rest(ctx.child()))
        ir, pat = self.joined(ctx, lambda child, k: self.expr_ir(e, child, k))
        return bind(pat, simplify(ir), rest(ctx))

    # ---------------------------------------------------------------- loops
    def free_vars(self, ctx, exclude):
        out = []
        for rust, v in ctx.env.items():
            if v.alias is None and re.fullmatch(r"[\w']+", v.lean) and v.lean not in exclude \
                    and v.lean not in [n for n, _ in out]:
                out.append((v.lean, lty(v.ty)))
        return out

    def s_for(self, s, ctx, rest):
        it = s.iter
        core = unref(it)
        if core.kind == "mcall" and core.name == "by_ref" and not core.args:
            return self.s_for_byref(s, core, ctx, rest)
        if contains_jump(s.body):
            unsup(f"line {s.line}: `return` / `continue` inside this `for` loop")
        if it.kind == "un" and it.op == "&" and getattr(it, "mut", False) and it.e.kind == "index" \
                and it.e.ix.kind == "range" and self.is_place_expr(it.e.e, ctx):
            return self.s_for_window(s, it.e, ctx, rest)
        pre = []
        if core.kind == "range":
            r = self.cexpr(core, ctx, pre)
            if not r.parts or r.parts[1] is None:
                unsup(f"line {s.line}: `for` over an open range")
            lo, hi = r.parts
            lst = f"List.range' {lo.a} {hi.a}" if lo.lean == "0" else f"List.range' {lo.a} ({hi.a} - {lo.a})"
            ety = "usize"
        else:
            v = self.cexpr(core, ctx, pre)
            vty = strip_ref(v.ty)
            if isinstance(vty, tuple) and vty[0] == "named" and vty[1] in NEWTYPES:
                vty = NEWTYPES[vty[1]]           # `for t in &self.tabs`: IntoIterator for &Tabs iterates the vector
            if not is_list(vty):
                unsup(f"line {s.line}: `for` over a value of type {v.ty!r}")
            lst = v.a
            ety = elem_ty(vty)
        p = s.pat
        holder = {}

        def build(child, k):
            if p.kind == "pwild":
                holder["x"] = "_"
            else:
                pt, binds = self.pattern(p, ety, child, s.line)
                for r_, lean, bty in binds:
                    child.declare(r_, bty, lean)
                holder["x"] = pt
            return self.block_ir(s.body, child, k)

        if isinstance(ety, tuple) and ety[0] == "tuple" and p.kind == "ptuple" and len(p.parts) == 2:
            # Rust's enumerate yields (index, element); List.zipIdx yields (element, index)
            p = N("ptuple", p.line, parts=[p.parts[1], p.parts[0]])
        ir, pat = self.joined(ctx, build)
        ir = simplify(ir)
        opt = ir.is_opt()
        body = self.R.render(ir, opt)
        x = holder["x"]
        if opt:
            lines = [f"Avt.Terminal.foldM' (fun {pat} {x} =>"] + ["    " + l for l in body] + [f"  ) {latom(lst)} {pat}"]
        else:
            lines = [f"List.foldl (fun {pat} {x} =>"] + ["    " + l for l in body] + [f"  ) {pat} {latom(lst)}"]
        return wrap(pre, bind(pat, RawIR(lines, opt), rest(ctx)))

    def s_for_window(self, s, ix, ctx, rest):
        """`for p in &mut place[a..b] { ..only p is changed.. }`  ==>  mapM over the window"""
        pre = []
        pl = self.place_of(ix.e, ctx, pre)
        if pl is None or not is_list(pl.ty):
            unsup(f"line {s.line}: `for` over a mutable slice of something that is not a vector place")
        r = self.cexpr(ix.ix, ctx, pre)
        cur = self.read(pl, ctx)
        if r.extra == "full":
            lo, hi = "0", f"{cur.a}.length"
        else:
            lo = r.parts[0].a
            hi = r.parts[1].a if r.parts[1] is not None else f"{cur.a}.length"
        p = s.pat
        if not (p.kind == "ppath" and p.args is None and len(p.path) == 1):
            unsup(f"line {s.line}: unsupported loop pattern")
        rust = p.path[0]
        eff = Effects()
        child = ctx.child(eff)
        child.ret_k = child.cont_k = None
        nm = child.declare(rust, elem_ty(pl.ty))
        child.declared.discard(rust)
        ir = simplify(self.block_ir(s.body, child, lambda v, c: Yield(text=c.env[rust].lean)))
        if eff.mut_self or eff.assigned != [rust]:
            unsup(f"line {s.line}: the body of a `for` over a mutable slice may only change the loop variable")
        opt = ir.is_opt()
        body = self.R.render(ir, opt)
        w = ctx.fresh("w")
        pre.append(("bind", w, f"Avt.GenP.slice {cur.a} {lo} {hi}"))
        w2 = ctx.fresh("w")
        fn = "List.mapM" if opt else "List.map"
        pre.append(("bind" if opt else "let", w2, RawIR([f"{fn} (fun {nm} =>"] + ["    " + l for l in body] + [f"  ) {w}"], opt)))
        self.write(pl, ctx, pre, f"List.take {lo} {cur.a} ++ {w2} ++ List.drop {hi} {cur.a}", s.line)
        return wrap(pre, rest(ctx))

    def loop_passes(self, ctx, compile_body):
        """compile a loop body twice: once to find the loop state (the variables it changes), once for real.
        compile_body(child, outs, tail, opt) -> ir.  Returns (ir, state names, state rust names, tail type, opt)"""
        g = ctx.fn
        save = (ctx.counter[0], len(g.aux), getattr(g, "arms_count", 0), getattr(g, "loop_count", 0))
        eff = Effects()
        ir1 = simplify(compile_body(ctx.child(eff), [], "_", True, eff))
        ctx.counter[0], g.arms_count, g.loop_count = save[0], save[2], save[3]
        del g.aux[save[1]:]
        names, tys, rusts = [], [], []
        if eff.mut_self:
            ctx.mutate_self()
            names.append(ctx.selfvar)
            tys.append(lty(("named", ctx.owner)))
        for r in eff.assigned:
            if r in ctx.env:
                names.append(ctx.env[r].lean)
                tys.append(lty(ctx.env[r].ty))
                rusts.append(r)
                ctx.assign_local(r)
        if not names:
            unsup("loop without effect")
        st_ty = " × ".join(latom(t) for t in tys)
        tail = f"{latom(st_ty) if len(tys) > 1 else st_ty} × Option {latom(lty(g.ret))}"
        opt = ir1.is_opt()
        eff2 = Effects()
        ir2 = simplify(compile_body(ctx.child(eff2), names, tail, opt, eff2))
        return ir2, names, tys, tail, opt

    def after_loop(self, ctx, pre, call, names, opt, rest):
        """bind the loop result; `some v` = the body executed `return v`"""
        st = names[0] if len(names) == 1 else "(" + ", ".join(names) + ")"
        rx = ctx.fresh("rx")
        pre.append(("bind" if opt else "let", rx, call))
        x = ctx.fresh()
        if ctx.ret_k is None:
            unsup("loop with `return` in a position where the function cannot return")
        g = ctx.fn
        ret_ir = ctx.ret_k(Val(x, g.ret, kind="bool" if g.ret == "bool" else None), ctx.child())
        return wrap(pre, MatchIR(rx, [(f"({st}, some {x})", ret_ir), (f"({st}, none)", rest(ctx))]))

    def body_def(self, ctx, g, name, fv, names, tys, extra, ir, tail, what):
        """emit the body of a loop as an auxiliary definition; returns (call text, Option-valued?)"""
        opt = ir.is_opt()
        body = self.R.render(ir, opt)
        res = f"Option {latom(tail)}" if opt else tail
        params = list(fv) + list(zip(names, tys)) + list(extra)
        lines = [f"/-- {what}: the new loop state and `some v` if it executed `return v` (`none`: go on with the loop) -/",
                 f"def {self.tr.short(name, g)}" + "".join(f" ({n} : {t})" for n, t in params) + f" : {res} :="]
        lines += ["  " + x for x in body]
        g.aux.append(lines)
        return name + "".join(" " + n for n, _ in params), opt

    def s_for_byref(self, s, core, ctx, rest):
        """`for x in self.f.by_ref() { .. return .. continue .. }`: structural recursion over the list of remaining
        items; the iterator field is advanced before the body runs, the body must not touch it"""
        g = ctx.fn
        pre = []
        if not self.is_place_expr(core.recv, ctx):
            unsup(f"line {s.line}: by_ref() on something that is not a place")
        pl = self.place_of(core.recv, ctx, pre)
        if pl is None or pl.kind != "self" or len(pl.fields) != 1 or not (isinstance(pl.ty, tuple) and pl.ty[0] == "iter"):
            unsup(f"line {s.line}: `for .. in X.by_ref()` where X is not an iterator field of `self`")
        if mentions_self_field(s.body, pl.fields[0]):
            unsup(f"line {s.line}: the loop body uses the iterator it is iterating over")
        p = s.pat
        if not (p.kind == "ppath" and p.args is None and len(p.path) == 1):
            unsup(f"line {s.line}: unsupported loop pattern")
        g.loop_count = getattr(g, "loop_count", 0) + 1
        name = f"{g.lean_name}.loop{g.loop_count}"
        ety = elem_ty(pl.ty)
        info = {}

        def compile_body(child, outs, tail, opt, eff):
            eff.mut_self = True                     # the iterator field of `self` is advanced
            child.tail = tail
            info["x"] = child.declare(p.path[0], ety)
            info["fv"] = self.free_vars(ctx, set(outs) | {info["x"]})
            child.cont_k = lambda c: YieldT(outs, "none")
            child.ret_k = lambda v, c: YieldT(outs, f"some {latom(self.value_text(v))}")
            return self.block_ir(s.body, child, lambda v, c: c.cont_k(c))

        ir, names, tys, tail, _ = self.loop_passes(ctx, compile_body)
        st = names[0] if len(names) == 1 else "(" + ", ".join(names) + ")"
        fv, x = info["fv"], info["x"]
        bcall, opt = self.body_def(ctx, g, name + ".body", fv, names, tys, [(x, lty(ety))], ir, tail,
                                   f"the body of the `for` loop at line {s.line} of `{g.item.qname}`")
        rl = "rest'"
        c2 = ctx.child(Effects())
        pre2 = []
        self.write(pl, c2, pre2, rl, s.line)
        rec = name + "".join(" " + n for n, _ in fv) + f" {rl}" + "".join(" " + n for n in names)
        inner = MatchIR("rb", [(f"({st}, some v)", Yield(text=f"({st}, some v)")),
                               (f"({st}, none)", YieldOpt(rec) if opt else Yield(text=rec))])
        loop_ir = wrap(pre2, bind("rb", ("opt" if opt else "pure", bcall), inner))
        body = self.R.render(loop_ir, opt)
        res = f"Option {latom(tail)}" if opt else tail
        lines = [f"/-- the `for` loop at line {s.line} of `{g.item.qname}`: structural recursion over the remaining items of "
                 f"`self.{pl.fields[0]}` (the iterator is advanced, then the body runs).  Result: the loop state and `some v` "
                 f"if the body executed `return v` -/",
                 f"def {self.tr.short(name, g)}" + "".join(f" ({n} : {t})" for n, t in fv)
                 + f" : List {latom(lty(ety))} → " + " → ".join(latom(t) for t in tys) + f" → {res}",
                 "  | [], " + ", ".join(names) + " => " + (f"some ({st}, none)" if opt else f"({st}, none)"),
                 f"  | {x} :: {rl}, " + ", ".join(names) + " =>"]
        lines += ["    " + l for l in body]
        g.aux.append(lines)
        cur = self.read(pl, ctx)
        call = name + "".join(" " + n for n, _ in fv) + f" {cur.a}" + "".join(" " + n for n in names)
        return self.after_loop(ctx, pre, call, names, opt, rest)

    def s_whilelet(self, s, ctx, rest):
        """`while let PAT = e { .. }` on fuel (FUEL table); `none` also when the fuel runs out"""
        g = ctx.fn
        key = (g.owner, g.name, "whilelet")
        if key not in FUEL:
            unsup(f"line {s.line}: `while let` loop without an iteration bound in the FUEL table")
        g.loop_count = getattr(g, "loop_count", 0) + 1
        name = f"{g.lean_name}.loop{g.loop_count}"
        info = {}

        def compile_body(child, outs, tail, opt, eff):
            child.tail = tail
            child.cont_k = lambda c: YieldT(outs, "none")
            child.ret_k = lambda v, c: YieldT(outs, f"some {latom(self.value_text(v))}")
            pre2 = []
            sv = self.cexpr(s.scrut, child, pre2)
            cc = child.child()
            pt, binds = self.pattern(s.pat, sv.ty, cc, s.line)
            for r_, lean, bty in binds:
                cc.declare(r_, bty, lean)
            info.update(pre2=pre2, sv=sv, pt=pt, binds=binds, fv=self.free_vars(ctx, set(outs)))
            return self.block_ir(s.body, cc, lambda v, c: c.cont_k(c))

        ir, names, tys, tail, _ = self.loop_passes(ctx, compile_body)
        st = names[0] if len(names) == 1 else "(" + ", ".join(names) + ")"
        fv = info["fv"]
        bcall, opt = self.body_def(ctx, g, name + ".body", fv, names, tys, [(l, lty(t)) for _, l, t in info["binds"]], ir, tail,
                                   f"the body of the `while let` loop at line {s.line} of `{g.item.qname}`")
        rec = name + "".join(" " + n for n, _ in fv) + " fuel" + "".join(" " + n for n in names)
        inner = MatchIR("rb", [(f"({st}, some v)", Yield(text=f"({st}, some v)")), (f"({st}, none)", YieldOpt(rec))])
        arm = bind("rb", ("opt" if opt else "pure", bcall), inner)
        loop_ir = wrap(info["pre2"], MatchIR(self.value_text(info["sv"]), [(info["pt"], arm), ("_", Yield(text=f"({st}, none)"))]))
        body = self.R.render(loop_ir, True)
        fuel = FUEL[key].format(s=ctx.selfvar)
        lines = [f"/-- the `while let` loop at line {s.line} of `{g.item.qname}`, on fuel (`none` also when the fuel runs out; "
                 f"bound at the call: `{fuel}`).  Result: the loop state and `some v` if the body executed `return v` -/",
                 f"def {self.tr.short(name, g)}" + "".join(f" ({n} : {t})" for n, t in fv)
                 + " : Nat → " + " → ".join(latom(t) for t in tys) + f" → Option {latom(tail)}",
                 "  | 0, " + ", ".join("_" for _ in names) + " => none",
                 "  | fuel + 1, " + ", ".join(names) + " =>"]
        lines += ["    " + l for l in body]
        g.aux.append(lines)
        call = name + "".join(" " + n for n, _ in fv) + f" ({fuel})" + "".join(" " + n for n in names)
        return self.after_loop(ctx, [], call, names, True, rest)

    # ---------------------------------------------------------------- one function
    def compile(self, item, module):
        g = GenFn(item)
        g.module = module
        owner = item.owner
        tp = dict(TYPARAMS.get(owner, {}))
        for (o, nm), toks in self.tr.assoc.items():
            if o == owner:
                Parser5.typarams = tp
                tp[nm] = Parser5(toks).ty()
        Parser5.typarams = tp
        try:
            return self.compile_in(g, item, owner)
        finally:
            Parser5.typarams = {}

    def compile_in(self, g, item, owner):
        self_mode, params = Parser5(item.params).params() if item.params else (None, [])
        g.self_mode = "ref" if self_mode == "val" else self_mode
        ret = Parser5(item.ret).ty() if item.ret else "unit"
        if ret == ("mutref", ("self",)):
            if g.self_mode != "mut":
                unsup("`&mut Self` result of a function that does not take `&mut self`")
            g.selfref = True
            ret = ("named", owner)
        if ret == ("self",):
            ret = ("named", owner)
        if isinstance(ret, tuple) and ret[0] == "opt" and ret[1] == ("self",):
            ret = ("opt", ("named", owner))
        g.is_fmt = ret == "fmtresult"
        g.ret = "unit" if g.is_fmt else ret
        g.lean_name = self.tr.lean_name_for(item, g.module)
        if g.self_mode:
            if owner not in SELFVAR:
                unsup(f"no `self` variable for owner {owner}")
            g.selfvar = SELFVAR[owner]
            g.params.append((g.selfvar, lty(("named", owner)), ("named", owner), None))
        ctx = Ctx(self, g, {}, list(self.tr.file_uses.get(item.file, [])), Effects(), [0])
        for pat, ty in params:
            if pat.kind == "pbind" or (pat.kind == "ppath" and pat.args is None and len(pat.path) == 1):
                rust = pat.name if pat.kind == "pbind" else pat.path[0]
            else:
                unsup(f"line {item.line}: unsupported parameter pattern")
            inout = isinstance(ty, tuple) and ty[0] == "mutref"
            nm = ctx.declare(rust, ty, inout=inout)
            g.params.append((nm, lty(ty), ty, rust))
            if inout:
                g.inouts.append(rust)
        ctx.declared = set()
        body = Parser5(item.body).block_body(None)
        part_tys = [lty(t) for t in g.result_parts()]
        if g.selfref:
            part_tys = [lty(("named", owner))]
        if not part_tys:
            unsup("function without receiver mutation and without result")
        inner = " × ".join(latom(t) for t in part_tys) if len(part_tys) > 1 else part_tys[0]
        ctx.tail = inner

        def fn_finish(v, c):
            pre = []
            parts = []
            if g.self_mode == "mut":
                parts.append(g.selfvar)
            for nm in g.inouts:
                parts.append(c.env[nm].lean)
            if g.selfref:
                if v.lean != g.selfvar:
                    unsup("a function returning `&mut Self` must end with `self`")
            elif g.ret != "unit":
                v = self.coerce_ret(v, g.ret, c, pre, item)
                parts.append(latom(self.value_text(v)) if len(parts) else self.value_text(v))
            elif not (v.ty in ("unit", "fmtresult", "never")):
                unsup(f"result of type {v.ty!r} in a function without result")
            text = parts[0] if len(parts) == 1 else "(" + ", ".join(parts) + ")"
            return wrap(pre, Yield(text=text))

        ctx.ret_k = fn_finish
        ir = simplify(self.block_ir(body, ctx, fn_finish, g.ret))
        g.opt = ir.is_opt()
        g.res_type = f"Option {latom(inner)}" if g.opt else inner
        self.R.k = 0
        g.lines = self.R.render(ir, g.opt)
        if item.trait == "Iterator" and item.name == "next" and (owner, "collect") in FUEL:
            g.post = self.collect_def(g, owner)
        return g

    def coerce_ret(self, v, ret, ctx, pre, item):
        vty = strip_ref(v.ty)
        if vty == "never" or compat(vty, ret):
            return v
        if isinstance(vty, tuple) and vty[0] == "named" and (vty[1], "next") in self.tr.items and is_list(ret):
            # a hand-written iterator returned as `impl Iterator`: modelled as fully consumed, in order
            s = vty[1]
            n = self.tr.get(s, "next")
            if (s, "collect") not in FUEL:
                unsup(f"no iteration bound for {s}::collect in the FUEL table")
            if not (isinstance(n.ret, tuple) and n.ret[0] == "opt" and compat(n.ret[1], elem_ty(ret))):
                unsup(f"iterator {s} yields {n.ret!r}, the signature says {ret!r}")
            x = ctx.fresh("it")
            pre.append(("let", x, v.lean))
            y = ctx.fresh()
            pre.append(("bind", y, f"{self.tr.ns_of(n)}.{s}.collect ({FUEL[(s, 'collect')].format(s=x)}) {x}"))
            return Val(y, ret)
        unsup(f"result of type {v.ty!r} where the signature says {ret!r}")

    def collect_def(self, g, owner):
        item_ty = lty(g.ret[1]) if isinstance(g.ret, tuple) and g.ret[0] == "opt" else None
        if item_ty is None or g.self_mode != "mut":
            unsup("Iterator::next of an unexpected shape")
        st = lty(("named", owner))
        nm = f"{owner}.collect"
        L = [f"/-- `{owner} {{ .. }}.collect()`: `next` until it returns `None` (fuel: see FUEL in rs2lean_p5.py) -/",
             f"def {nm} : Nat → {st} → Option (List {latom(item_ty)})",
             "  | 0, _ => none",
             f"  | fuel + 1, {g.selfvar} =>",
             f"    match {g.lean_name} {g.selfvar} with"]
        if g.opt:
            L += ["    | none => none", "    | some (_, none) => some []", f"    | some ({g.selfvar}, some x) =>"]
        else:
            L += ["    | (_, none) => some []", f"    | ({g.selfvar}, some x) =>"]
        L += [f"      match {nm} fuel {g.selfvar} with", "      | none => none", "      | some xs => some (x :: xs)"]
        return L


# =============================================================================================
# 6. driver

class Translator:
    def __init__(self, repo):
        self.repo = repo
        self.structs, self.enums, self.consts = {}, {}, {}
        self.derives, self.enum_default, self.file_uses, self.assoc = {}, {}, {}, {}
        self.struct_file = {}
        self.items = {}        # (owner, name) -> FnItem       functions in scope
        self.module_of = {}    # key -> module
        self.order = []
        self.done, self.failed = {}, {}
        self.in_progress = []
        self.emitted = []
        self.all_fns = {}
        self.comp = Compiler(self)
        self._fields = {}
        for rel in SOURCES:
            path = os.path.join(repo, rel)
            if not os.path.exists(path):
                fail(rel, "file not found")
            with open(path, encoding="utf-8") as f:
                src = f.read()
            sc = Scanner5(lex(src, rel), rel)
            sc.assoc = {}
            self.scan_assoc(sc)
            sc.scan()
            for k, v in sc.structs.items():
                if k in self.structs:
                    fail(rel, f"struct {k} declared twice")
                self.structs[k] = v
                self.struct_file[k] = rel
            self.enums.update(sc.enums)
            for k, v in sc.consts.items():
                self.consts[k] = v
            self.derives.update(sc.derives)
            self.enum_default.update(sc.enum_default)
            self.file_uses[rel] = sc.file_uses
            self.assoc.update(sc.assoc)
            for it in sc.all_fns:
                self.all_fns.setdefault((it.owner, it.name), []).append(it)
            for it in sc.fns:
                m = self.scope_of(it)
                if m is None:
                    continue
                if it.key in self.items:
                    fail(rel, f"function {it.qname} defined twice")
                self.items[it.key] = it
                self.module_of[it.key] = m
                self.order.append(it.key)
        for key in EXTRA:
            if key not in self.items:
                fail("src", f"{key[0]}::{key[1]} (listed in EXTRA) not found")
        for key, d in CALLS.items():
            src_key = d.get("src", key)
            if src_key not in CALL_SIGS:
                fail("rs2lean_p5.py", f"no signature recorded for {src_key[0]}::{src_key[1]}")
            cands = [it for it in self.all_fns.get(src_key, []) if it.trait in (None, "Default")]
            if len(cands) != 1:
                fail("src", f"{src_key[0]}::{src_key[1]} (mapped through the call table) not found")
            sig = "".join(x.text for x in cands[0].params).rstrip(",")
            if sig != CALL_SIGS[src_key]:
                fail(cands[0].file, f"{src_key[0]}::{src_key[1]}: parameter list `{sig}` differs from the one the call table "
                                    f"was written against (`{CALL_SIGS[src_key]}`)")

    def scan_assoc(self, sc):
        """`type Item = T;` inside `impl .. for Owner`"""
        t = sc.t
        for i in range(len(t) - 4):
            if t[i].text == "impl":
                j = i
                while t[j].text != "{" and t[j].kind != "eof":
                    j += 1
                hdr = [x.text for x in t[i:j]]
                if "for" not in hdr or t[j].kind == "eof":
                    continue
                owner = hdr[hdr.index("for") + 1]
                k = sc.matching(j)
                p = j + 1
                while p < k:
                    if t[p].text == "{":
                        p = sc.matching(p)
                    elif t[p].text == "type" and t[p + 2].text == "=":
                        q = p + 3
                        toks = []
                        while t[q].text != ";":
                            toks.append(t[q])
                            q += 1
                        sc.assoc[(owner, t[p + 1].text)] = toks
                    p += 1

    def scope_of(self, it):
        if it.owner is None:
            return None
        if it.key in EXTRA and it.trait in (None, "Display"):
            return EXTRA[it.key]
        if it.owner in SCOPE:
            m, names, excl = SCOPE[it.owner]
            if it.name in excl:
                return None
            if names == "all" or it.name in names:
                return m
        return None

    def struct_fields(self, sname):
        if sname in self._fields:
            return self._fields[sname]
        out = None
        if sname in FOREIGN_FIELDS:
            out = dict(FOREIGN_FIELDS[sname])
        elif sname in self.structs and sname in LEAN_TYPES:
            decl = self.structs[sname]
            saved = Parser5.typarams
            Parser5.typarams = TYPARAMS.get(sname, {})
            try:
                out = {}
                if decl and decl[0] == "tuple":
                    for i, toks in enumerate(decl[1]):
                        out[str(i)] = Parser5(toks).ty()
                else:
                    for fname, toks in decl:
                        out[fname] = FIELD_TYPE.get((sname, fname)) or Parser5(toks).ty()
            finally:
                Parser5.typarams = saved
        self._fields[sname] = out
        return out

    def array_len(self, text, line):
        if isinstance(text, int):
            return text
        v = self.const_val(text, line)
        if not v.lean.isdigit():
            unsup(f"line {line}: array length `{text}` is not an integer constant")
        return int(v.lean)

    def const_val(self, name, line):
        ty_toks, val = self.consts[name]
        ty = Parser5(ty_toks).ty()
        if len(val) == 1 and val[0].kind == "int" and is_int(ty):
            return Val(str(int(val[0].text.replace("_", ""), 0)), ty)
        if isinstance(ty, tuple) and ty[0] == "array" and val and val[0].text == "[" and val[-1].text == "]":
            elems = [x for x in val[1:-1] if x.text != ","]
            if all(x.kind == "char" for x in elems) and ty[1] == "char":
                return Val("[" + ", ".join(str(char_val(x.text)) for x in elems) + "]", ("array", "char", len(elems)))
        unsup(f"line {line}: constant `{name}` of an unsupported shape")

    def ns_of(self, g):
        return MODULES[g.module][0]

    def lean_name_for(self, item, module):
        base = camel(item.name)
        if base in LEAN_KEYWORDS:
            base += "'"
        ns = MODULES[module][0]
        if item.owner in EMIT_STRUCTS and item.name in [f for f, _ in self.structs.get(item.owner, []) if isinstance(f, str)]:
            base += "Fn"               # a Lean structure cannot have a function named like one of its fields
        return f"{ns}.{base}" if item.owner in DROP_OWNER and module == "P" else f"{ns}.{item.owner}.{base}"

    def short(self, full, g):
        ns = MODULES[g.module][0] + "."
        return full[len(ns):] if full.startswith(ns) else full

    def get(self, owner, name):
        key = (owner, name)
        if key in self.done:
            return self.done[key]
        if key in self.failed:
            unsup(f"calls untranslated {self.items[key].qname}")
        if key in self.in_progress:
            unsup(f"recursion through {self.items[key].qname}")
        self.run(key)
        if key in self.failed:
            unsup(f"calls untranslated {self.items[key].qname}")
        return self.done[key]

    def run(self, key):
        item = self.items[key]
        self.in_progress.append(key)
        try:
            g = self.comp.compile(item, self.module_of[key])
            self.done[key] = g
            self.emitted.append(g)
        except Unsupported as ex:
            self.failed[key] = str(ex)
        except RecursionError:
            self.failed[key] = "expression nested too deeply"
        finally:
            self.in_progress.pop()

    def run_all(self):
        for key in self.order:
            if key not in self.done and key not in self.failed:
                self.run(key)
        self.feed_calls = self.scan_feed()

    def scan_feed(self):
        """names of the methods `Parser::feed` calls on `self`, in order of first occurrence (the glue the table
        translator maps to `Act` constructors)"""
        cands = self.all_fns.get(("Parser", "feed"), [])
        if len(cands) != 1:
            fail("src/parser.rs", "Parser::feed not found")
        t = cands[0].body
        out = []
        for i in range(len(t) - 3):
            if t[i].text == "self" and t[i + 1].text == "." and t[i + 2].kind == "ident" and t[i + 3].text == "(":
                if t[i + 2].text not in out:
                    out.append(t[i + 2].text)
        return out

    def struct_decl(self, sname, module):
        fields = self.struct_fields(sname)
        if fields is None:
            fail(self.struct_file.get(sname, "src"), f"struct {sname} not found")
        L = [f"/-- `struct {sname}` ({self.struct_file[sname]}) -/", f"structure {sname} where"]
        for f, ty in fields.items():
            L.append(f"  {camel(f)} : {lty(ty)}")
        return L

    def output(self, module):
        ns, fname, imports, srcs, descr = MODULES[module]
        q = lambda s: '"' + s.replace("\\", "\\\\").replace('"', '\\"') + '"'
        L = [f"/- GENERATED by translate/rs2lean_p5.py from /repo/src on every run — do not edit.",
             f"   {srcs}: one definition per translated Rust function, in the checked style of the hand-written",
             f"   model (`none` = the Rust code panics).  {descr} -/"]
        L += [f"import {i}" for i in imports]
        L += ["set_option linter.unusedVariables false", f"namespace {ns}", ""]
        if PRELUDE[module]:
            L += PRELUDE[module].split("\n")
        for s, m in EMIT_STRUCTS.items():
            if m == module:
                try:
                    L += self.struct_decl(s, module) + [""]
                except Unsupported as ex:
                    fail(self.struct_file.get(s, "src"), f"struct {s}: {ex}")
        for g in self.emitted:
            if g.module != module:
                continue
            it = g.item
            for aux in g.aux:
                L += aux + [""]
            L.append(f"/-- `{it.qname}` ({it.file})" + (f", `impl {it.trait}`" if it.trait else "") + " -/")
            params = "".join(f" ({n} : {t})" for n, t, _, _ in g.params)
            L.append(f"def {self.short(g.lean_name, g)}{params} : {g.res_type} :=")
            L += ["  " + x for x in g.lines]
            L.append("")
            if getattr(g, "post", None):
                L += g.post + [""]
        keys = [k for k in self.order if self.module_of[k] == module]
        names = [self.items[k].qname for k in keys if k in self.done]
        L.append("/-- Rust functions translated above (in source order) -/")
        L.append("def translated : List String := [" + ", ".join(q(n) for n in names) + "]")
        L.append("")
        L.append("/-- Rust functions in this module's scope that are NOT translated, with the reason -/")
        un = [f"{self.items[k].qname}: {self.failed[k]}" for k in keys if k in self.failed]
        L.append("def untranslated : List String := [")
        L += ["  " + q(u) + ("," if i + 1 < len(un) else "") for i, u in enumerate(un)]
        L.append("]")
        L.append("")
        if module == "P":
            L.append("/-- the methods `Parser::feed` calls on `self` (first occurrences, in source order) -/")
            L.append("def feedCalls : List String := [" + ", ".join(q(n) for n in self.feed_calls) + "]")
            L.append("")
        L.append(f"end {ns}")
        return "\n".join(L) + "\n"


def main():
    if len(sys.argv) != 3:
        print("usage: rs2lean_p5.py <repo> <outdir>")
        sys.exit(2)
    repo, outdir = sys.argv[1], sys.argv[2]
    sys.setrecursionlimit(10000)
    tr = Translator(repo)
    tr.run_all()
    os.makedirs(outdir, exist_ok=True)
    for m in MODULE_ORDER:
        text = tr.output(m)
        path = os.path.join(outdir, MODULES[m][1])
        old = None
        if os.path.exists(path):
            with open(path, encoding="utf-8") as f:
                old = f.read()
        if old != text:
            with open(path, "w", encoding="utf-8") as f:
                f.write(text)
            print(f"rs2lean_p5: wrote {path} (changed)")
        else:
            print(f"rs2lean_p5: {path} unchanged")
        keys = [k for k in tr.order if tr.module_of[k] == m]
        print(f"rs2lean_p5: {MODULES[m][1]}: translated={sum(1 for k in keys if k in tr.done)} "
              f"untranslated={sum(1 for k in keys if k in tr.failed)} total={len(keys)}")
    for k in tr.order:
        if k in tr.failed:
            print(f"rs2lean_p5: untranslated {tr.items[k].qname}: {tr.failed[k]}")


if __name__ == "__main__":
    try:
        main()
    except Mismatch as e:
        print(str(e))
        sys.exit(3)
