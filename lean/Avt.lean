-- Root of the `Avt` library: model, specs, lemmas and property theorems.
import Avt.Model.Types
import Avt.Model.Prim
import Avt.Gen.Tables
import Avt.Model.Parser
import Avt.Model.Buffer
import Avt.Model.Terminal
import Avt.Model.Vt
