import Avt.Driver.Main
def main (args : List String) : IO UInt32 := Avt.Driver.main args
