/-
  Avt.Props.C03 — property C03: the parser follows the DEC/ANSI state machine; dispatch is exact and
  memoryless.  (Also `C19_esc_aborts`, used by C19.)

  All statements are about `Parser.feed`, which *interprets* the tables regenerated from
  /repo/src/parser.rs (`Avt.Gen`), against the hand-written reference of `Avt.Spec.C03`
  (`williams`, `refDispatchCsi`, `refDispatchEsc`, `refExecute`, `refStep`, `refRun`).
  Quantifiers: every state, every register file satisfying the invariant `PInv`, every code point
  `c < 0x110000` (all 1,112,064 scalar values and the surrogates); `C03_table` holds for every `c : Nat`.
  The bound is needed in one place only: the translator renders Rust's `_` pattern in `esc_dispatch`
  as the interval `0 ..= 0x10FFFF`.
-/
import Avt.Lemmas.ParserSeq

namespace Avt.Props.C03
open Avt Avt.Spec.C03 Avt.Spec.C20 Avt.ParserTable Avt.ParserSem Avt.ParserSeq

/-! ### 1. the transition table -/

/-- **Table equality** (14 states × all code points): the matching arm of the generated `match` in
    `Parser::feed` performs the action kind and the transition of Williams' diagram. -/
theorem C03_table (st : PState) (c : Nat) : kindAndNext st c = some (williams st c) := table_eq st c

/-! ### 2. the reference parser, step by step and on whole strings -/

/-- One character: `feed` does not panic, emits exactly the reference parser's function, leaves
    registers that encode the reference parser's abstract state (state, last intermediate, parameters
    as written), and re-establishes the register invariant. -/
theorem C03_step {p : Parser} (hp : PInv p = true) (c : Nat) (hc : c < 0x110000) :
    ∃ p', p.feed c = some (p', (refStep (abs p) c).2) ∧ abs p' = (refStep (abs p) c).1 ∧ PInv p' = true :=
  feed_refStep hp c hc

/-- Any string: the functions emitted are the reference parser's, function by function. -/
theorem C03_run {p : Parser} (hp : PInv p = true) (s : List Nat) (hs : ∀ c ∈ s, c < 0x110000) :
    ∃ q, run p s = some (q, (refRun (abs p) s).2) ∧ abs q = (refRun (abs p) s).1 ∧ PInv q = true :=
  run_refRun hp s hs

/-! ### 3. the register invariant; no panic in the parser (C01's parser half) -/

theorem PInv_new : PInv Parser.new = true := by decide

theorem PInv_feed {p p' : Parser} {f : Option Function} {c : Nat} (hp : PInv p = true) (hc : c < 0x110000)
    (h : p.feed c = some (p', f)) : PInv p' = true := by
  obtain ⟨q, h1, -, h3⟩ := feed_refStep hp c hc
  rw [h1] at h
  cases h
  exact h3

theorem feed_total {p : Parser} (hp : PInv p = true) (c : Nat) (hc : c < 0x110000) : (p.feed c).isSome = true := by
  obtain ⟨q, h1, -, -⟩ := feed_refStep hp c hc
  rw [h1]; rfl

theorem run_total {p : Parser} (hp : PInv p = true) (s : List Nat) (hs : ∀ c ∈ s, c < 0x110000) :
    (run p s).isSome = true := by
  obtain ⟨q, h1, -, -⟩ := run_refRun hp s hs
  rw [h1]; rfl

/-! ### 4. `ESC Fe` = C1 -/

/-- A 7-bit `ESC @` … `ESC _` acts exactly like its 8-bit C1 counterpart, from every state and every
    register file: ESC itself emits nothing; the second character emits the same function as the C1
    control; both end in the same state with registers equal up to dead ones. -/
theorem C03_fe_folding {p : Parser} (hp : PInv p = true) (c : Nat) (h1 : 0x40 ≤ c) (h2 : c ≤ 0x5F) :
    ∃ p1 p2 p3 f, p.feed 0x1B = some (p1, none) ∧ p1.feed c = some (p2, f) ∧ p.feed (c + 0x40) = some (p3, f)
      ∧ p2.state = p3.state ∧ (abs p2).norm = (abs p3).norm := by
  obtain ⟨p1, a1, a2, a3⟩ := feed_refStep hp 0x1B (by decide)
  obtain ⟨p2, b1, b2, -⟩ := feed_refStep a3 c (by omega)
  obtain ⟨p3, c1, c2, -⟩ := feed_refStep hp (c + 0x40) (by omega)
  obtain ⟨f1, f2, f3, f4⟩ := fe_fold (abs p) c h1 h2
  rw [f1] at a1
  rw [a2, f2] at b1
  rw [a2] at b2
  refine ⟨p1, p2, p3, _, a1, b1, c1, ?_, ?_⟩
  · have e2 : p2.state = (abs p2).state := rfl
    have e3 : p3.state = (abs p3).state := rfl
    rw [e2, e3, b2, c2, f3]
  · rw [b2, c2, f4]

/-! ### 5. `clear` and memorylessness -/

/-- under the invariant `clear` leaves every register zero (the all-default register file) -/
theorem C03_clear_zero {p p' : Parser} (hp : PInv p = true) (h : p.clear = some p') :
    p' = { state := p.state } ∧ p'.curParam = 0 ∧ p'.intermediate = none
      ∧ p'.params = List.replicate 32 { curPart := 0, parts := [0, 0, 0, 0, 0, 0] } := by
  rw [clear_eq hp] at h
  cases h
  exact ⟨rfl, rfl, rfl, rfl⟩

/-- **Memoryless, strongest form**: after a sequence introducer that is an "anywhere" transition
    (ESC — hence also `ESC [`, `ESC P` — or the 8-bit CSI, DCS) the *entire* future of the parser —
    every function and the final register file — depends only on the characters, not on the state or
    the registers earlier input left behind. -/
theorem C03_memoryless_intro {p q : Parser} (hp : PInv p = true) (hq : PInv q = true) (c : Nat)
    (hc : c = 0x1B ∨ c = 0x9B ∨ c = 0x90) (rest : List Nat) :
    run p (c :: rest) = run q (c :: rest) := by
  have key : ∀ r : Parser, PInv r = true → ∃ s, r.feed c = some ({ state := s }, none)
      ∧ s = (if c = 0x1B then .Escape else if c = 0x9B then .CsiEntry else .DcsEntry) := by
    intro r hr
    rw [feed_eq_sem]
    have hw : williams r.state c = (.clear, if c = 0x1B then .Escape else if c = 0x9B then .CsiEntry else .DcsEntry) := by
      rcases hc with rfl | rfl | rfl <;> cases r.state <;> decide
    rw [hw]
    simp only [sem, clear_eq hr, Option.map_some]
    exact ⟨_, rfl, rfl⟩
  obtain ⟨s1, e1, rfl⟩ := key p hp
  obtain ⟨s2, e2, rfl⟩ := key q hq
  simp only [run, e1, e2]

/-- **Memoryless, general form**: two register files that agree up to dead registers (`AState.norm`
    erases the intermediate and the parameters in the states where nothing can read them before the
    next `clear`: Ground, the string states, CsiIgnore) emit the same functions on every input and
    agree up to dead registers afterwards. -/
theorem C03_memoryless {p q : Parser} (hp : PInv p = true) (hq : PInv q = true)
    (h : (abs p).norm = (abs q).norm) (s : List Nat) (hs : ∀ c ∈ s, c < 0x110000) :
    ∃ p' q' fs, run p s = some (p', fs) ∧ run q s = some (q', fs) ∧ (abs p').norm = (abs q').norm := by
  obtain ⟨p', a1, a2, -⟩ := run_refRun hp s hs
  obtain ⟨q', b1, b2, -⟩ := run_refRun hq s hs
  have := refRun_norm h s
  refine ⟨p', q', _, a1, ?_, ?_⟩
  · rw [b1, this.1]
  · rw [a2, b2, this.2]

/-- in particular: from Ground, whatever earlier sequences left in the registers, the parser emits
    what a fresh parser emits -/
theorem C03_memoryless_ground {p : Parser} (hp : PInv p = true) (hg : p.state = .Ground) (s : List Nat)
    (hs : ∀ c ∈ s, c < 0x110000) :
    ∃ p' q' fs, run p s = some (p', fs) ∧ run Parser.new s = some (q', fs) ∧ p'.state = q'.state := by
  have h : (abs p).norm = (abs Parser.new).norm := by
    rw [norm_of_dead (a := abs p) (by show dead p.state = true; rw [hg]; rfl)]
    show _ = AState.norm { state := .Ground, interm := none, ps := [[0]] }
    rw [norm_of_dead (a := { state := .Ground, interm := none, ps := [[0]] }) rfl]
    show ({ state := p.state } : AState) = _
    rw [hg]
  obtain ⟨p', q', fs, h1, h2, h3⟩ := C03_memoryless hp PInv_new h s hs
  refine ⟨p', q', fs, h1, h2, ?_⟩
  have := congrArg AState.state h3
  rwa [norm_state, norm_state] at this

/-! ### 6. dispatch exactness -/

/-- **Parameters as written (body half)**: a parameter string (digits, `;`, `:`) fed in CsiParam emits
    nothing and leaves registers that encode exactly the text-level reading `stepW` of the string. -/
theorem C03_params_spec {p : Parser} (hp : PInv p = true) (hs : p.state = .CsiParam) (body : List Nat)
    (hb : body.all (inR 0x30 0x3B) = true) :
    ∃ q, run p body = some (q, []) ∧ q.state = .CsiParam ∧ q.intermediate = p.intermediate
      ∧ written q = body.foldl stepW (written p) ∧ PInv q = true := by
  obtain ⟨q, h1, h2, h3⟩ := run_refRun hp body (all_inR_lt hb (by decide))
  rw [csi_params_run body (abs p) hs hb] at h1 h2
  refine ⟨q, h1, ?_, ?_, ?_, h3⟩
  · exact (congrArg AState.state h2).trans hs
  · exact congrArg AState.interm h2
  · exact congrArg AState.ps h2

/-- a plain number is read in decimal modulo 65536: values up to 65535 arrive exactly -/
theorem C03_params_decimal (ds : List Nat) (hd : ds.all (inR 0x30 0x39) = true) :
    parseParams ds = [[decVal ds % 65536]] := parseParams_digits ds hd

/-- at most 32 parameters, at most 6 sub-parts each, every value below 65536 -/
theorem C03_params_shape (body : List Nat) :
    1 ≤ (parseParams body).length ∧ (parseParams body).length ≤ 32
      ∧ ∀ q ∈ parseParams body, 1 ≤ q.length ∧ q.length ≤ 6 ∧ ∀ v ∈ q, v < 65536 :=
  shapeOK_parseParams body

/-- **Dispatch table (table half)**: for every register file satisfying the invariant, every
    intermediate / private marker and every final character, the generated `csi_dispatch` returns the
    hand-written reference function of the parameters as written — 0 for parameters that were not
    written, whatever earlier sequences left in those registers. -/
theorem C03_dispatch_csi {p : Parser} (hp : PInv p = true) (final : Nat) :
    p.csiDispatch final = some (refDispatchCsi p.intermediate final (written p)) := csiDispatch_eq hp final

theorem C03_dispatch_esc (p : Parser) (final : Nat) (hc : final < 0x110000) (hs : p.state = .Ground) :
    p.escDispatch final = some (p, refDispatchEsc p.intermediate final) := escDispatch_eq p final hc hs

theorem C03_execute (c : Nat) : Parser.execute c = refExecute c := execute_eq c

/-- **A whole CSI sequence, from anywhere**: introducer (7- or 8-bit), optional private marker,
    parameter string, intermediates, final.  Whatever the parser was doing and whatever its registers
    held, it emits exactly the reference function of (last intermediate or marker, final, parameters
    read from the text) — nothing if the table selects nothing — and ends in Ground. -/
theorem C03_csi_sequence {p : Parser} (hp : PInv p = true) (intro : List Nat)
    (hi : intro = [0x1B, 0x5B] ∨ intro = [0x9B]) (t : CsiText) (ht : t.wf = true) :
    ∃ q, run p (intro ++ t.body) = some (q, (refDispatchCsi t.eff t.final (parseParams t.params)).toList)
      ∧ q.state = .Ground ∧ PInv q = true := by
  have hlt : ∀ c ∈ intro ++ t.body, c < 0x110000 := by
    intro c hc
    rcases List.mem_append.1 hc with hc | hc
    · rcases hi with rfl | rfl <;> simp at hc <;> omega
    · exact csi_body_lt ht c hc
  obtain ⟨q, h1, h2, h3⟩ := run_refRun hp _ hlt
  rw [refRun_append, csi_intro_run intro hi, csi_run t ht] at h1 h2
  exact ⟨q, h1, congrArg AState.state h2, h3⟩

/-- **A whole ESC sequence, from anywhere**: ESC, intermediates, final (not one of the introducers
    `P X [ ] ^ _` directly after ESC). -/
theorem C03_esc_sequence {p : Parser} (hp : PInv p = true) (t : EscText) (ht : t.wf = true) :
    ∃ q, run p (0x1B :: t.body) = some (q, (refDispatchEsc t.ints.getLast? t.final).toList)
      ∧ q.state = .Ground ∧ PInv q = true := by
  have hlt : ∀ c ∈ 0x1B :: t.body, c < 0x110000 := by
    intro c hc
    rcases List.mem_cons.1 hc with rfl | hc
    · decide
    · exact esc_body_lt ht c hc
  obtain ⟨q, h1, h2, h3⟩ := run_refRun hp _ hlt
  simp only [refRun, refStep_esc, esc_run t ht] at h1 h2
  exact ⟨q, h1, congrArg AState.state h2, h3⟩

/-! ### 7. ESC always aborts; `ESC c` is RIS from every state (for C19) -/

/-- From every parser state and every register file: ESC emits nothing, the following `c` emits
    exactly `Ris`, and the parser is in Ground. -/
theorem C19_esc_aborts {p : Parser} (hp : PInv p = true) :
    ∃ p1 p2, p.feed 0x1B = some (p1, none) ∧ p1.feed 0x63 = some (p2, some .ris) ∧ p2.state = .Ground := by
  obtain ⟨p1, a1, a2, a3⟩ := feed_refStep hp 0x1B (by decide)
  obtain ⟨p2, b1, b2, -⟩ := feed_refStep a3 0x63 (by decide)
  rw [refStep_esc] at a1 a2
  rw [a2] at b1 b2
  refine ⟨p1, p2, a1, b1, ?_⟩
  exact congrArg AState.state b2

/-! ### the hypotheses are satisfiable; concrete instances -/

/-- a register file with stale contents in Ground satisfies the invariant (left by `CSI ? 12 ; 34 : 5 CAN`) -/
example : ∃ p, run Parser.new [0x9B, 0x3F, 0x31, 0x32, 0x3B, 0x33, 0x34, 0x3A, 0x35, 0x18] = some (p, [])
    ∧ PInv p = true ∧ p.state = .Ground ∧ p.curParam = 1 ∧ p.intermediate = some 0x3F := by
  refine ⟨_, rfl, ?_⟩
  decide

/-- `CSI 3 8 : 2 : : 1 : 2 : 3 ; 4 m` is a well-formed CSI text; from a fresh parser it emits one SGR -/
example : (⟨none, [0x33, 0x38, 0x3A, 0x32, 0x3A, 0x3A, 0x31, 0x3A, 0x32, 0x3A, 0x33, 0x3B, 0x34], [], 0x6D⟩ : CsiText).wf = true := by decide

example : refDispatchCsi none 0x6D (parseParams [0x33, 0x38, 0x3A, 0x32, 0x3A, 0x3A, 0x31, 0x3A, 0x32, 0x3A, 0x33, 0x3B, 0x34])
    = some (.sgr [.setFg (.rgb 1 2 3), .setUnderline]) := by decide

example : parseParams [0x31, 0x3B, 0x3B, 0x32, 0x3A, 0x33] = [[1], [0], [2, 3]] := by decide

example : williams .DcsPassthrough 0x9C = (.ignore, .Ground) := by decide
example : williams .OscString 0x18 = (.execute, .Ground) := by decide
example : williams .CsiParam 0x7F = (.ignore, .CsiParam) := by decide
example : williams .CsiParam 0x3A = (.param, .CsiParam) := by decide
example : williams .CsiEntry 0x3A = (.ignore, .CsiIgnore) := by decide
example : williams .Ground 0x4E2D = (.print, .Ground) := by decide

end Avt.Props.C03
