/- Property theorems for C03 (placeholder until the proofs land). -/
import Avt.Spec.C03
