/-
  Avt.Props.C19 — RIS returns the terminal to its power-on state from anywhere.

  All statements are unbounded (every size, every limit, every state satisfying the invariant, every
  parser state) and are stated with the definitions of Avt/Spec/C19.lean that the oracle evaluates
  on the implementation (`normR`, `freshVt`).  Helpers: Avt/Lemmas/C19.lean.

  Obligations (full strength, nothing partial):
    Avt.Props.C19.C19_hardReset             hard_reset = Terminal::new of the current configuration
    Avt.Props.C19.C19_hardReset_fields      … spelled out field by field (incl. cursor_keys_mode)
    Avt.Props.C19.C19_esc_aborts            ESC then 'c' dispatches Ris from every parser state and
                                            leaves the power-on parser (registers included)
    Avt.Props.C19.C19_ris                   ESC c from any state = the power-on Vt (normR-equal, in fact equal)
    Avt.Props.C19.C19_ris_feedStr           the same through feed_str (changes()/gc() tail), incl. the returned Changes
    Avt.Props.C19.C19_ris_then              … and for every continuation input
    Avt.Props.C19.C19_reset_covers_fields   translator-tied: every field of `struct Terminal` is assigned by
                                            `hard_reset` or is one of cols/rows/scrollback_limit/xtwinops
    Avt.Props.C19.C19_xtwinops_never_assigned
-/
import Avt.Lemmas.C19

namespace Avt.Props.C19
open Avt Avt.Spec.C19 Avt.Lemmas.C19

/-- `hard_reset` succeeds on every terminal with at least one row and yields exactly what
    `Terminal::new` builds for the current size and scrollback limit — every field, the dirty flags
    included (`normR` is not even needed at this level). -/
theorem C19_hardReset (t : Terminal) (hx : t.xtwinops = false) (hr : 1 ≤ t.rows) :
    ∃ t', t.hardReset = some t' ∧ Terminal.new t.cols t.rows t.scrollbackLimit = some t' := by
  rw [hardReset_eq_new t hx]
  unfold Terminal.new
  rw [show csub t.rows 1 = some (t.rows - 1) by simp [csub, hr]]
  exact ⟨_, rfl, rfl⟩

/-- the same, field by field, from the model of `hard_reset` alone (no reference to `Terminal::new`):
    blank primary screen with empty scrollback and the configured limit, blank alternate screen,
    primary active, cursor home and visible, default pen, all modes reset (including the cursor-key
    mode), full-screen margins, default tab stops and character sets, empty saved contexts on both
    screens, all rows reported changed; size and limit kept. -/
theorem C19_hardReset_fields (t t' : Terminal) (h : t.hardReset = some t') :
    t'.cols = t.cols ∧ t'.rows = t.rows ∧ t'.scrollbackLimit = t.scrollbackLimit ∧ t'.xtwinops = t.xtwinops
    ∧ t'.buffer = Buffer.new t.cols t.rows t.scrollbackLimit none
    ∧ t'.buffer.sb = [] ∧ t'.buffer.view = List.replicate t.rows (Line.blank t.cols Pen.default)
    ∧ t'.otherBuffer = Buffer.new t.cols t.rows (some 0) none
    ∧ t'.activeBufferType = .primary
    ∧ t'.cursor = { col := 0, row := 0, visible := true }
    ∧ t'.pen = Pen.default
    ∧ t'.charsets = (.ascii, .ascii) ∧ t'.activeCharset = 0
    ∧ t'.tabs = Tabs.new t.cols
    ∧ t'.insertMode = false ∧ t'.originMode = false ∧ t'.autoWrapMode = true ∧ t'.newLineMode = false
    ∧ t'.cursorKeysMode = .normal
    ∧ t'.pendingWrap = false
    ∧ t'.topMargin = 0 ∧ t'.bottomMargin + 1 = t.rows
    ∧ t'.savedCtx = {} ∧ t'.alternateSavedCtx = {}
    ∧ t'.dirtyLines = List.replicate t.rows true := by
  unfold Terminal.hardReset at h
  cases hr : csub t.rows 1 with
  | none => simp [hr] at h
  | some r1 =>
    simp only [hr, Option.map_some, Option.some.injEq] at h
    subst h
    have : r1 + 1 = t.rows := by
      unfold csub at hr
      split at hr
      · simp only [Option.some.injEq] at hr; omega
      · simp at hr
    refine ⟨rfl, rfl, rfl, rfl, rfl, rfl, rfl, rfl, rfl, rfl, rfl, rfl, rfl, rfl, rfl, rfl, rfl, rfl, rfl, rfl, rfl, this,
      rfl, rfl, rfl⟩

/-- `ESC` aborts whatever sequence or string the parser is in (it is matched before every arm that
    could consume it — checked over the table regenerated from `Parser::feed`), and `c` then
    dispatches `Ris`; the parser is left in `Ground` with the registers of `Parser::new`. -/
theorem C19_esc_aborts (p : Parser) (h : PInv p = true) :
    ∃ p1, p.feed 0x1b = some (p1, none) ∧ p1.feed 0x63 = some (Parser.new, some Function.ris) :=
  escAborts p h

/-- **C19.**  From any state satisfying the invariant (any history, any modes, alternate screen,
    parser inside any sequence or string), `ESC c` yields the state of a freshly built `Vt` of the
    current size and scrollback limit — equal up to `normR`, and in fact equal. -/
theorem C19_ris (v v' : Vt) (h : Inv v = true) (hf : v.feedAll [0x1B, 0x63] = some v') :
    ∃ f, freshVt v = some f ∧ normR v' = normR f ∧ v' = f := by
  rw [feedAll_ris v h] at hf
  exact ⟨v', hf, rfl, rfl⟩

/-- `ESC c` never panics on a terminal with at least one row -/
theorem C19_ris_total (v : Vt) (h : Inv v = true) (hr : 1 ≤ v.terminal.rows) :
    (v.feedAll [0x1B, 0x63]).isSome = true := by
  rw [feedAll_ris v h]
  simp [Vt.new, Terminal.new, csub, hr]

/-- through the public `feed_str` (which ends with `changes()` and `gc()`): the call behaves exactly
    like an empty `feed_str` on a fresh terminal — same resulting state, same returned `Changes` (all
    rows, no scrollback lines); the resulting state is the fresh one up to dirty flags. -/
theorem C19_ris_feedStr (v : Vt) (h : Inv v = true) :
    v.feedStr [0x1B, 0x63] = (freshVt v).bind (fun f => f.feedStr [])
    ∧ ∀ v' ch, v.feedStr [0x1B, 0x63] = some (v', ch) →
        ∃ f, freshVt v = some f ∧ v' = normR f ∧ normR v' = normR f := by
  have h1 : v.feedStr [0x1B, 0x63] = (freshVt v).bind (fun f => f.feedStr []) := by
    unfold Vt.feedStr freshVt
    rw [feedAll_ris v h]
    cases Vt.new v.terminal.cols v.terminal.rows v.terminal.scrollbackLimit <;> rfl
  refine ⟨h1, ?_⟩
  intro v' ch hv
  rw [h1] at hv
  unfold freshVt at hv ⊢
  cases hn : Vt.new v.terminal.cols v.terminal.rows v.terminal.scrollbackLimit with
  | none => simp [hn] at hv
  | some f =>
    simp only [hn, Option.bind_some, Vt.feedStr, Vt.feedAll, Option.map_some, Option.some.injEq] at hv
    have hfin := finish_new _ _ _ f hn
    have : v' = normR f := by rw [← hfin, hv]
    refine ⟨f, rfl, this, ?_⟩
    rw [this]
    simp [normR, Dirty.clear]

/-- "… and it reacts to every subsequent input exactly like the fresh one": after `ESC c`, every
    continuation gives what it gives on the fresh terminal (state and panics alike). -/
theorem C19_ris_then (v : Vt) (h : Inv v = true) (xs : List Nat) :
    v.feedAll ([0x1B, 0x63] ++ xs) = (freshVt v).bind (fun f => f.feedAll xs) := by
  rw [feedAll_append, feedAll_ris v h]
  rfl

/-- the translator-tied completeness obligation, over the lists regenerated from `struct Terminal`
    and from the body of `hard_reset` on every run: a field that `hard_reset` forgets (as
    `cursor_keys_mode` was before fix F3) makes this fail. -/
theorem C19_reset_covers_fields :
    ∀ f ∈ Gen.terminalFields,
      f ∈ Gen.hardResetAssigned ∨ f ∈ ["cols", "rows", "scrollback_limit", "xtwinops"] := by
  decide

/-- `xtwinops` is assigned nowhere in `terminal.rs` besides its initialiser (so it stays `false`,
    `CSI 8;r;c t` is inert, and no function can change `cols`/`rows`) -/
theorem C19_xtwinops_never_assigned : Gen.xtwinopsAssignments = 0 := by decide

/-- a non-trivial history on a 7x4 terminal with scrollback limit 3: application cursor keys, text,
    a custom tab stop, bold pen, a saved context, the alternate screen (`?1049h`), margins 2..3,
    origin mode, and the parser left inside a CSI parameter list -/
def exHistory : List Nat :=
  [0x1b, 0x5b, 0x3f, 0x31, 0x68,                      -- CSI ?1h
   0x61, 0x62, 0x63, 0x1b, 0x48,                      -- abc HTS
   0x1b, 0x5b, 0x31, 0x6d, 0x1b, 0x37,                -- bold, save
   0x1b, 0x5b, 0x3f, 0x31, 0x30, 0x34, 0x39, 0x68,    -- CSI ?1049h
   0x1b, 0x5b, 0x32, 0x3b, 0x33, 0x72,                -- CSI 2;3r
   0x1b, 0x5b, 0x3f, 0x36, 0x68,                      -- CSI ?6h
   0x78, 0x1b, 0x5b, 0x35, 0x3b]                      -- x CSI 5;

def exState : Option Vt := (Vt.new 7 4 (some 3)).bind (fun v0 => v0.feedAll exHistory)

theorem exState_isSome : exState.isSome = true := by decide +kernel

/-- the hypotheses are satisfiable on that state, and `ESC c` gives the fresh 7x4 terminal -/
example :
    let v := exState.get exState_isSome
    Inv v = true ∧ v.parser.state = .CsiParam ∧ v.terminal.activeBufferType = .alternate
      ∧ v.terminal.cursorKeysMode = .application ∧ v.terminal.originMode = true
      ∧ v.terminal.tabs ≠ Tabs.new 7
      ∧ v.feedAll [0x1B, 0x63] = Vt.new 7 4 (some 3)
      ∧ ∃ f, freshVt v = some f ∧ (v.feedAll [0x1B, 0x63]).map normR = some (normR f) := by
  refine ⟨by decide +kernel, by decide +kernel, by decide +kernel, by decide +kernel, by decide +kernel,
    by decide +kernel, by decide +kernel, ?_⟩
  have hinv : Inv (exState.get exState_isSome) = true := by decide +kernel
  rw [feedAll_ris _ hinv]
  cases hf : freshVt (exState.get exState_isSome) with
  | none => exact absurd hf (by decide +kernel)
  | some f => exact ⟨f, rfl, by unfold freshVt at hf; rw [hf]; rfl⟩

end Avt.Props.C19
