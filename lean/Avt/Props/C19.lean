/- Property theorems for C19 (placeholder until the proofs land). -/
import Avt.Spec.C19
