/-
  Avt.Props.Api — the step-level properties as a user of the public API sees them: over every state
  reachable through the API (`Reach`), over the BYTES fed to `feed_str`, observed through `Vt.cursor`,
  `Vt.view`, `Vt.lines` and the returned `Changes`.

  Each theorem composes three layers that were proved separately:
    text ↦ function      C03 (`C03_csi_sequence`, `C03_esc_sequence`, `C03_step`) through
                         `Api.SeqText.run`: a complete sequence makes the parser emit exactly the
                         reference function — CSI / ESC sequences from ANY parser state, C0 / C1
                         controls and printable characters from Ground; 7- and 8-bit introducers; every
                         parameter spelling (`Api.CmdText`: missing, `0`, leading zeros, exact up to 65535);
    function ↦ spec      C04–C08, C15, C17, C18 (`TInv t → t.execute f = some (spec t f)`);
    reachable ↦ invariant `Closed.reach_inv`, and `Api.Api_bridge` (the call returns `finishT` of the fold).

  Hypotheses left: `Reach v`, "the text is a complete sequence selecting `f`" (`SeqText v.parser xs (some f)`,
  decided from the text and — for controls / printables — `v.parser.state = Ground`), and the property's
  own coverage predicate.  No `TInv`, no `PInv`; "this call returned" only where a theorem speaks about a
  series of calls (C17), and then a closed form without it is given as well.

  Headline theorems (all for EVERY reachable state):
    C05  Api_C05, Api_C05_cmd                       cursor per `moveSpec`, `view()` unchanged
    C04  Api_C04_text, Api_C04, Api_C04_rep, Api_C04_cell   fold of `printSpec`; REP = `repSpec`
    C15  Api_C15, Api_C15_resize                    changed rows ⊆ `Changes.lines`
    C20  Api_C20, Api_C20_feed, Api_C20_seq         inert input: nothing changes, nothing reported
    C07  Api_C07, Api_C07_shift                     `editSpec`; cells outside the extent unchanged
    C06  Api_C06, Api_C06_quiet, Api_C06_decstbm    `scrollCmdSpec`; rows outside the range unchanged;
                                                    scrolled-off rows handed out / kept in order
    C08  Api_C08                                    pen = reference fold; printed / blanked cells report it
    C17  Api_C17, Api_C17_closed, Api_C17_default, Api_C17_inside, Api_C17_separate
    C18  Api_C18, Api_C18_moves, Api_C18_never_customised, Api_C18_tabs_like_fresh
    all  Api_whole                                  several commands in one `feed_str`: fold of the specs
-/
import Avt.Lemmas.ApiText
import Avt.Props.C04
import Avt.Props.C05
import Avt.Props.C06
import Avt.Props.C07
import Avt.Props.C08
import Avt.Props.C15
import Avt.Props.C17
import Avt.Props.C18
import Avt.Props.C20

namespace Avt.Props.Api
open Avt Avt.Spec Avt.Api

/-- cell `(r, c)` of the visible screen, through `Vt.view` -/
def viewCell (v : Vt) (r c : Nat) : Option Cell := (v.view[r]?).bind fun l => l.cells[c]?

/-- the cells of visible row `i`, through `Vt.view` (wrap marks are not cells) -/
def viewRow (v : Vt) (i : Nat) : Option (List Cell) := (v.view[i]?).map Line.cells

/-! ## C05 — cursor movement and addressing -/

section C05
open Avt.Spec.C05

theorem moveSpec_dirty {t : Terminal} {f : Function} (hf : covered t f = true) :
    (moveSpec t f).dirtyLines = t.dirtyLines := by
  cases f <;> simp only [covered, Bool.false_eq_true] at hf <;>
    first
    | rfl
    | (simp only [moveSpec, oneDown]; split <;> (try split) <;> rfl)

/-- **C05 at the API.**  From every reachable state, feeding the text of any cursor command — `CSI n`
    `A B C D E F G H I Z` `` ` `` `a d e f`, `CSI t;b r`, `CSI ?6h/l` (any parser state, both introducers,
    any parameter spelling), BS, CR, HT, and LF / VT / FF / IND / NEL / RI while not on the margin (from
    Ground; their `ESC` forms from any state): `feed_str` returns, `cursor()` is where `moveSpec` says
    (with its pending-wrap flag, margins and origin mode), `view()` is unchanged — no cell, no wrap
    mark —, no changed line is reported beyond those already pending, and the complete terminal is
    `moveSpec` run through `changes()` + `gc()`.  Per-character `feed`: the terminal is `moveSpec` itself. -/
theorem Api_C05 {v : Vt} (hR : Reach v) {xs : List Nat} {f : Function}
    (hx : SeqText v.parser xs (some f)) (hc : covered v.terminal f = true) :
    ∃ v' ch, v.feedStr xs = some (v', ch)
      ∧ v'.cursor = (moveSpec v.terminal f).cursor
      ∧ v'.terminal.pendingWrap = (moveSpec v.terminal f).pendingWrap
      ∧ v'.view = v.view
      ∧ ch.lines = Dirty.toVec v.terminal.dirtyLines
      ∧ v'.terminal = finishT (moveSpec v.terminal f)
      ∧ v'.parser.state = .Ground ∧ Reach v'
      ∧ ∃ g, v.feedAll xs = some g ∧ g.terminal = moveSpec v.terminal f := by
  obtain ⟨v', ch, t1, h1, h2, _, h4, h5, h6, h7, g, h8, h9, _⟩ := Api_seq hR hx
  have ht := (reach_parts hR).2
  rw [C05_move ht hc] at h2
  cases h2
  refine ⟨v', ch, h1, ?_, ?_, ?_, ?_, h4, h6, h7, g, h8, h9⟩
  · show v'.terminal.cursor = _; rw [h4]; rfl
  · rw [h4]; rfl
  · show v'.terminal.buffer.view = v.terminal.buffer.view
    rw [h4, finishT_view, (C05_no_cell_changes ht hc (C05_move ht hc)).1]
  · rw [h5, moveSpec_dirty hc]

/-- the explicit spellings (`CmdText`) are instances -/
theorem Api_C05_cmd {v : Vt} (hR : Reach v) {xs : List Nat} {f : Function}
    (hx : CmdText v.parser xs f) (hc : covered v.terminal f = true) :
    ∃ v' ch, v.feedStr xs = some (v', ch) ∧ v'.cursor = (moveSpec v.terminal f).cursor
      ∧ v'.view = v.view ∧ Reach v' := by
  obtain ⟨v', ch, h1, h2, _, h4, _, _, _, h8, _⟩ := Api_C05 hR hx.seq hc
  exact ⟨v', ch, h1, h2, h4, h8⟩

end C05

/-! ## C04 — printing, auto-wrap, insert mode, charsets -/

section C04
open Avt.Spec.C04

/-- the specification of the two covered functions as one total function -/
def printFn (t : Terminal) : Function → Terminal
  | .print ch => printSpec t ch
  | .rep n => repSpec t n
  | _ => t

theorem printFn_sound : SpecFor (fun _ f => Spec.C04.covered f) printFn := by
  intro t f h hc
  cases f <;> simp only [Spec.C04.covered, Bool.false_eq_true] at hc
  case print ch => exact C04.C04_print t ch h
  case rep n => exact C04.C04_rep t n h

/-- **C04 at the API, text.**  From every reachable state with the parser in Ground, feeding any run
    of printable characters (`0x20..0x7F` incl. DEL, everything from `0xA0` on): the terminal is the
    left fold of `printSpec` over the characters — glyph through the active character set, deferred
    wrap, scroll on the bottom margin, insert mode, last-column rule, pen — run through `changes()` +
    `gc()`; the changed lines are the rows that fold flags; the parser is untouched. -/
theorem Api_C04_text {v : Vt} (hR : Reach v) (hg : v.parser.state = .Ground) {xs : List Nat}
    (hp : ∀ c ∈ xs, printable c = true) :
    ∃ v' ch, v.feedStr xs = some (v', ch)
      ∧ v'.terminal = finishT (xs.foldl printSpec v.terminal)
      ∧ v'.view = (xs.foldl printSpec v.terminal).buffer.view
      ∧ v'.cursor = (xs.foldl printSpec v.terminal).cursor
      ∧ ch.lines = Dirty.toVec (xs.foldl printSpec v.terminal).dirtyLines
      ∧ v'.parser = v.parser ∧ Reach v'
      ∧ ∃ g, v.feedAll xs = some g ∧ g.terminal = xs.foldl printSpec v.terminal := by
  have hr := run_printables xs hg hp
  obtain ⟨v', ch, t', h1, h2, _, h4, h5, h6, h7, h8⟩ := Api_bridge_run hR hr
  have hcov : coveredRun (fun _ f => Spec.C04.covered f) printFn (xs.map Function.print) v.terminal = true :=
    coveredRun_of_all _ _ (by
      intro f hf
      obtain ⟨c, _, rfl⟩ := List.mem_map.1 hf
      rfl)
  obtain ⟨e1, _⟩ := execAll_spec printFn_sound _ (reach_parts hR).2 hcov
  have e2 : (xs.map Function.print).foldl printFn v.terminal = xs.foldl printSpec v.terminal := by
    rw [List.foldl_map]; rfl
  rw [e1, e2] at h2
  cases h2
  refine ⟨v', ch, h1, h4, ?_, ?_, h6, h5, h8, _, h7, rfl⟩
  · show v'.terminal.buffer.view = _; rw [h4, finishT_view]
  · show v'.terminal.cursor = _; rw [h4]; rfl

/-- **C04 at the API, one item**: a printable character (from Ground) or `CSI n b` (REP; any parser
    state, both introducers, any spelling of `n`): the terminal is `printSpec` resp. `repSpec` — `max n 1`
    prints of the character left of the cursor, as if typed — run through `changes()` + `gc()`. -/
theorem Api_C04 {v : Vt} (hR : Reach v) {xs : List Nat} {f : Function}
    (hx : SeqText v.parser xs (some f)) (hc : Spec.C04.covered f = true) :
    ∃ v' ch, v.feedStr xs = some (v', ch) ∧ v'.terminal = finishT (printFn v.terminal f)
      ∧ v'.view = (printFn v.terminal f).buffer.view ∧ v'.cursor = (printFn v.terminal f).cursor
      ∧ ch.lines = Dirty.toVec (printFn v.terminal f).dirtyLines
      ∧ v'.parser.state = .Ground ∧ Reach v' := by
  obtain ⟨v', ch, t1, h1, h2, _, h4, h5, h6, h7, _⟩ := Api_seq hR hx
  rw [printFn_sound _ _ (reach_parts hR).2 hc] at h2
  cases h2
  refine ⟨v', ch, h1, h4, ?_, ?_, h5, h6, h7⟩
  · show v'.terminal.buffer.view = _; rw [h4, finishT_view]
  · show v'.terminal.cursor = _; rw [h4]; rfl

/-- `CSI n b` spelled out: REP with the number as written -/
theorem Api_C04_rep {v : Vt} (hR : Reach v) {intro ds : List Nat} (hi : IsCsi intro) (hd : Digits ds) :
    ∃ v' ch, v.feedStr (intro ++ ds ++ [0x62]) = some (v', ch)
      ∧ v'.terminal = finishT (repSpec v.terminal (val ds)) ∧ Reach v' := by
  obtain ⟨v', ch, h1, h2, _, _, _, _, h7⟩ :=
    Api_C04 hR (CmdText.csi1 (p := v.parser) hi .rep hd).seq rfl
  exact ⟨v', ch, h1, h2, h7⟩

/-- the printed cell, through `view()`: after feeding one printable character the row the cursor is
    in holds, at the column the print went to, the glyph of the active character set in the pen that
    was current -/
theorem Api_C04_cell {v : Vt} (hR : Reach v) (hg : v.parser.state = .Ground) {c : Nat}
    (hp : printable c = true) :
    ∃ v' ch, v.feedStr [c] = some (v', ch)
      ∧ viewCell v' v'.cursor.row (C04.printedCol v.terminal) = some ⟨glyph v.terminal c, v.terminal.pen⟩ := by
  obtain ⟨v', ch, h1, _, h3, h4, _⟩ := Api_C04 hR (SeqText.print hg hp) rfl
  obtain ⟨l, e1, e2⟩ := C04.C04_cell_pen v.terminal c (reach_parts hR).2
  refine ⟨v', ch, h1, ?_⟩
  unfold viewCell
  rw [h3, h4]
  show (((printSpec v.terminal c).buffer.view[(printSpec v.terminal c).cursor.row]?).bind _) = _
  rw [e1]; exact e2

end C04

/-! ## C15 — changed-line reports are sound -/

section C15
open Avt.Spec.C15

/-- **C15 at the API.**  For every reachable state and EVERY input: `feed_str` returns, and every
    visible row whose cells differ between `view()` before and after the call is contained in the
    returned `Changes.lines`; a row that is not reported is cell-for-cell what it was. -/
theorem Api_C15 {v : Vt} (hR : Reach v) (xs : List Nat) :
    ∃ v' ch, v.feedStr xs = some (v', ch) ∧ Reach v'
      ∧ (∀ i, i < v'.terminal.rows → viewRow v' i ≠ viewRow v i → i ∈ ch.lines)
      ∧ (∀ i, i < v'.terminal.rows → i ∉ ch.lines → viewRow v' i = viewRow v i) := by
  obtain ⟨v', ch, h1, _, _⟩ := Closed.C02_feedStr xs (Closed.reach_inv hR)
  have hs := C15.C15_sound (reach_parts hR).2 h1
  have key : ∀ i, i < v'.terminal.rows → viewRow v' i ≠ viewRow v i → i ∈ ch.lines := by
    intro i hi hne
    simp only [reportSound, changedRows, List.all_eq_true, List.mem_filter, List.mem_range, rowChanged,
      bne_iff_ne, ne_eq, and_imp, List.contains_iff_mem] at hs
    exact hs i hi hne
  refine ⟨v', ch, h1, Reach_feedStr hR h1, key, fun i hi hn => ?_⟩
  by_cases he : viewRow v' i = viewRow v i
  · exact he
  · exact absurd (key i hi he) hn

/-- the same for `resize` (which reports every row of the new screen) -/
theorem Api_C15_resize {v : Vt} (hR : Reach v) {c r : Nat} (hc : 1 ≤ c) (hr : 1 ≤ r) :
    ∃ v' ch, v.resize c r = some (v', ch) ∧ Reach v' ∧ v'.size = (c, r)
      ∧ (∀ i, i < v'.terminal.rows → i ∈ ch.lines) := by
  obtain ⟨v', ch, h1, _, _, _, h5⟩ := Closed.Vt_resize_ok (Closed.reach_inv hR) hc hr
  exact ⟨v', ch, h1, Reach_resize hR hc hr h1, h5, (C15.C15_sound_resize h1).1⟩

end C15

/-! ## C20 — control strings and unimplemented sequences are inert -/

section C20
open Avt.Spec.C20

/-- **C20 at the API.**  From every reachable state with the parser in Ground, feeding any input the
    text-level classifier `isInertInput` accepts (OSC / DCS / SOS / PM / APC strings with any payload,
    7- or 8-bit introducers and terminators, BEL for OSC; CSI and ESC sequences selecting no function;
    unassigned C0 / C1 controls; any concatenation): `feed_str` returns; `view()`, `cursor()`, pen,
    every mode, margins, tab stops and saved contexts are what they were; the parser is back in
    Ground; the changed lines reported are those already pending — none when the previous call was a
    `feed_str` or `resize` (which cleared the flags). -/
theorem Api_C20 {v : Vt} (hR : Reach v) (hg : v.parser.state = .Ground) {s : List Nat}
    (h : isInertInput s = true) :
    ∃ v' ch, v.feedStr s = some (v', ch) ∧ Reach v'
      ∧ v'.view = v.view ∧ v'.cursor = v.cursor ∧ v'.size = v.size
      ∧ v'.cursorKeyAppMode = v.cursorKeyAppMode
      ∧ v'.terminal = finishT v.terminal ∧ v'.parser.state = .Ground
      ∧ ch.lines = Dirty.toVec v.terminal.dirtyLines
      ∧ (v.terminal.dirtyLines.all (· == false) = true → ch.lines = [])
      ∧ (∀ (u : Vt) (ys : List Nat) (c0 : Changes), u.feedStr ys = some (v, c0) → ch.lines = []) := by
  obtain ⟨v', ch, h1, h2, h3, h4, h5⟩ := C20.C20_inert_feedStr (reach_parts hR).1 hg h
  refine ⟨v', ch, h1, Reach_feedStr hR h1, ?_, ?_, ?_, ?_, h2, h3, h4, h5, ?_⟩
  · show v'.terminal.buffer.view = _; rw [h2, finishT_view]; rfl
  · show v'.terminal.cursor = _; rw [h2]; rfl
  · show (v'.terminal.cols, v'.terminal.rows) = _; rw [h2]; rfl
  · show decide (v'.terminal.cursorKeysMode = .application) = _; rw [h2]; rfl
  · intro u ys c0 hu
    apply h5
    obtain ⟨g, _, e1, _⟩ := Closed2.feedStr_split hu
    rw [e1]
    exact finishT_clean g.terminal

/-- … and through per-character `feed`: the terminal is untouched -/
theorem Api_C20_feed {v : Vt} (hR : Reach v) (hg : v.parser.state = .Ground) {s : List Nat}
    (h : isInertInput s = true) :
    ∃ v', v.feedAll s = some v' ∧ v'.terminal = v.terminal ∧ v'.parser.state = .Ground ∧ Reach v' := by
  obtain ⟨v', h1, h2, h3⟩ := C20.C20_inert_feedChars (reach_parts hR).1 hg h
  exact ⟨v', h1, h2, h3, Reach_feedAll hR h1⟩

/-- a single unimplemented CSI / ESC sequence is inert from ANY parser state (no Ground needed) -/
theorem Api_C20_seq {v : Vt} (hR : Reach v) {xs : List Nat} (hx : SeqText v.parser xs none) :
    ∃ v' ch, v.feedStr xs = some (v', ch) ∧ v'.view = v.view ∧ v'.cursor = v.cursor
      ∧ v'.terminal = finishT v.terminal ∧ v'.parser.state = .Ground ∧ Reach v' := by
  obtain ⟨v', ch, h1, h2, _, h4, h5⟩ := Api_seq_none hR hx
  refine ⟨v', ch, h1, ?_, ?_, h2, h4, h5⟩
  · show v'.terminal.buffer.view = _; rw [h2, finishT_view]; rfl
  · show v'.terminal.cursor = _; rw [h2]; rfl

end C20

/-! ## C07 — erase, insert, delete touch exactly their extent -/

section C07
open Avt.Spec.C07

/-- wrap mark of visible row `r`, through `Vt.view` -/
def viewMark (v : Vt) (r : Nat) : Option Bool := (v.view[r]?).map Line.wrapped

theorem viewCell_finish {v' : Vt} {t1 : Terminal} (h : v'.terminal = finishT t1) (r c : Nat) :
    viewCell v' r c = cellAt t1 r c := by
  show ((v'.terminal.buffer.view[r]?).bind fun l => l.cells[c]?) = _
  rw [h, finishT_view]; rfl

theorem viewMark_finish {v' : Vt} {t1 : Terminal} (h : v'.terminal = finishT t1) (r : Nat) :
    viewMark v' r = markAt t1 r := by
  show (v'.terminal.buffer.view[r]?).map Line.wrapped = _
  rw [h, finishT_view]; rfl

/-- **C07 at the API.**  From every reachable state, feeding the text of `CSI n J` (ED 0–3), `CSI n K`
    (EL 0–2), `CSI n X` (ECH), `CSI n @` (ICH), `CSI n P` (DCH) — any parser state, both introducers,
    any spelling of `n` — or `ESC # 8` (DECALN): the terminal is `editSpec` run through `changes()` +
    `gc()`; through `view()`: every cell OUTSIDE the extent is what it was; for ED / EL / ECH every cell
    of the extent is a blank in the current pen; DECALN writes `E` with the default pen everywhere;
    `cursor()` is unchanged except that DCH first leaves the wrap-pending column; the wrap mark of
    the cursor row is cleared exactly for EL 0/2, DCH, and ECH reaching the row end. -/
theorem Api_C07 {v : Vt} (hR : Reach v) {xs : List Nat} {f : Function}
    (hx : SeqText v.parser xs (some f)) (hc : coveredEdit f = true) :
    ∃ v' ch, v.feedStr xs = some (v', ch)
      ∧ v'.terminal = finishT (editSpec v.terminal f)
      ∧ (∀ r c, extent v.terminal f r c = false → viewCell v' r c = viewCell v r c)
      ∧ (erases f = true → ∀ r c, r < v.terminal.rows → c < v.terminal.cols →
          extent v.terminal f r c = true → viewCell v' r c = some (Cell.blank v.terminal.pen))
      ∧ (f = .decaln → ∀ r c, r < v.terminal.rows → c < v.terminal.cols →
          viewCell v' r c = some ⟨0x45, Pen.default⟩)
      ∧ v'.cursor.row = v.cursor.row
      ∧ (¬ ((∃ n, f = .dch n) ∧ v.cursor.col ≥ v.terminal.cols) →
          v'.cursor = v.cursor ∧ v'.terminal.pendingWrap = v.terminal.pendingWrap)
      ∧ ((∃ n, f = .dch n) ∧ v.cursor.col ≥ v.terminal.cols →
          v'.cursor.col = v.terminal.cols - 1 ∧ v'.terminal.pendingWrap = false)
      ∧ (((∃ s, f = .el s) ∨ (∃ n, f = .ech n) ∨ (∃ n, f = .ich n) ∨ (∃ n, f = .dch n) ∨ f = .decaln) →
          ∀ r, viewMark v' r =
            if r = v.cursor.row ∧ clearsMark v.terminal f = true then some false else viewMark v r)
      ∧ v'.parser.state = .Ground ∧ Reach v' := by
  obtain ⟨v', ch, t1, h1, h2, _, h4, _, h6, h7, _⟩ := Api_seq hR hx
  have ht := (reach_parts hR).2
  have hex := h2
  rw [C07.C07_edit _ _ ht hc] at h2
  cases h2
  obtain ⟨_, f2, _, f4, f5⟩ := C07.C07_frame _ _ _ ht hc hex
  refine ⟨v', ch, h1, h4, ?_, ?_, ?_, ?_, ?_, ?_, ?_, h6, h7⟩
  · intro r c he
    rw [viewCell_finish h4]
    exact C07.C07_outside_extent _ _ _ ht hc hex r c he
  · intro he r c hr hcc hx'
    rw [viewCell_finish h4]
    exact C07.C07_erased_cells _ _ _ ht he hex r c hr hcc hx'
  · intro hf r c hr hcc
    subst hf
    rw [viewCell_finish h4]
    exact C07.C07_decaln_cells _ _ ht hex r c hr hcc
  · show v'.terminal.cursor.row = _; rw [h4]; exact f2
  · intro hn
    obtain ⟨a, b⟩ := f5 hn
    exact ⟨by show v'.terminal.cursor = _; rw [h4]; exact a, by rw [h4]; exact b⟩
  · intro hd
    obtain ⟨a, b⟩ := f4 hd
    exact ⟨by show v'.terminal.cursor.col = _; rw [h4]; exact a, by rw [h4]; exact b⟩
  · intro hf r
    rw [viewMark_finish h4]
    exact C07.C07_wrap_marks _ _ _ ht hf hex r

/-- ICH and DCH shift the rest of the row, through `view()` -/
theorem Api_C07_shift {v : Vt} (hR : Reach v) {xs : List Nat} (n : Nat) :
    (SeqText v.parser xs (some (.ich n)) →
      ∃ v' ch, v.feedStr xs = some (v', ch) ∧ ∀ c, viewCell v' v.cursor.row c =
        if c < v.cursor.col then viewCell v v.cursor.row c
        else if c < v.cursor.col + min (asUsize n 1) (v.terminal.cols - v.cursor.col)
          then some (Cell.blank v.terminal.pen)
        else if c < v.terminal.cols
          then viewCell v v.cursor.row (c - min (asUsize n 1) (v.terminal.cols - v.cursor.col))
        else none)
    ∧ (SeqText v.parser xs (some (.dch n)) →
      ∃ v' ch, v.feedStr xs = some (v', ch) ∧ ∀ c,
        let col' := min v.cursor.col (v.terminal.cols - 1)
        let k := min (asUsize n 1) (v.terminal.cols - col')
        viewCell v' v.cursor.row c =
          if c < col' then viewCell v v.cursor.row c
          else if c + k < v.terminal.cols then viewCell v v.cursor.row (c + k)
          else if c < v.terminal.cols then some (Cell.blank v.terminal.pen) else none) := by
  have ht := (reach_parts hR).2
  refine ⟨fun hx => ?_, fun hx => ?_⟩
  · obtain ⟨v', ch, t1, h1, h2, _, h4, _⟩ := Api_seq hR hx
    refine ⟨v', ch, h1, fun c => ?_⟩
    rw [viewCell_finish h4]
    exact C07.C07_ich_shift _ _ n ht h2 c
  · obtain ⟨v', ch, t1, h1, h2, _, h4, _⟩ := Api_seq hR hx
    refine ⟨v', ch, h1, fun c => ?_⟩
    rw [viewCell_finish h4]
    exact C07.C07_dch_shift _ _ n ht h2 c

end C07

/-! ## C06 — scrolling stays inside its region and feeds the scrollback in order -/

section C06
open Avt.Spec.C06

/-- what a covered command does to the rows, in the property's words: nothing, or a scroll of rows
    `s..e` up / down by `n` -/
inductive Scroll where
  | none
  | up (s e n : Nat)
  | down (s e n : Nat)

/-- the range and count the property names for each command: the region for SU / SD and for LF / IND /
    NEL / RI on the margin (by one); the rows from the cursor to the bottom margin — or to the last row
    when the cursor is below the region — for IL / DL; nothing otherwise -/
def scrollOf (t : Terminal) : Function → Scroll
  | .su n => .up t.topMargin (t.bottomMargin + 1) (asUsize n 1)
  | .sd n => .down t.topMargin (t.bottomMargin + 1) (asUsize n 1)
  | .il n => .down (lineRange t).1 (lineRange t).2 (asUsize n 1)
  | .dl n => .up (lineRange t).1 (lineRange t).2 (asUsize n 1)
  | .lf | .nel => if t.cursor.row = t.bottomMargin then .up t.topMargin (t.bottomMargin + 1) 1 else .none
  | .ri => if t.cursor.row = t.topMargin then .down t.topMargin (t.bottomMargin + 1) 1 else .none
  | _ => .none

/-- the buffer after a scroll -/
def Scroll.apply (pen : Pen) (b : Buffer) : Scroll → Buffer
  | .none => b
  | .up s e n => scrollUpSpec s e n pen b
  | .down s e n => scrollDownSpec s e n pen b

/-- the range is a non-empty range of visible rows -/
def Scroll.valid (rows : Nat) : Scroll → Prop
  | .none => True
  | .up s e _ => s < e ∧ e ≤ rows
  | .down s e _ => s < e ∧ e ≤ rows

theorem down1_buffer (t : Terminal) :
    (down1 t).buffer = if t.cursor.row = t.bottomMargin
      then scrollUpSpec t.topMargin (t.bottomMargin + 1) 1 t.pen t.buffer else t.buffer := by
  unfold down1
  split
  · rfl
  · split <;> rfl

theorem up1_buffer (t : Terminal) :
    (up1 t).buffer = if t.cursor.row = t.topMargin
      then scrollDownSpec t.topMargin (t.bottomMargin + 1) 1 t.pen t.buffer else t.buffer := by
  unfold up1
  split
  · rfl
  · split <;> rfl

/-- every covered command changes the buffer by exactly the scroll the property names, keeps the
    screen that is showing, the pen and the size -/
theorem scrollCmd_buffer (t : Terminal) {f : Function} (hf : coveredScroll f = true) :
    (scrollCmdSpec t f).buffer = (scrollOf t f).apply t.pen t.buffer
      ∧ (scrollCmdSpec t f).activeBufferType = t.activeBufferType := by
  cases f <;> simp only [coveredScroll, Bool.false_eq_true] at hf
  case lf =>
    have e : (scrollCmdSpec t .lf).buffer = (down1 t).buffer
        ∧ (scrollCmdSpec t .lf).activeBufferType = (down1 t).activeBufferType := by
      simp only [scrollCmdSpec]; split <;> exact ⟨rfl, rfl⟩
    rw [e.1, e.2, down1_buffer]
    refine ⟨?_, ?_⟩
    · simp only [scrollOf]; split <;> rfl
    · unfold down1; split
      · rfl
      · split <;> rfl
  case nel =>
    have e : (scrollCmdSpec t .nel).buffer = (down1 t).buffer
        ∧ (scrollCmdSpec t .nel).activeBufferType = (down1 t).activeBufferType := ⟨rfl, rfl⟩
    rw [e.1, e.2, down1_buffer]
    refine ⟨?_, ?_⟩
    · simp only [scrollOf]; split <;> rfl
    · unfold down1; split
      · rfl
      · split <;> rfl
  case ri =>
    have e : (scrollCmdSpec t .ri).buffer = (up1 t).buffer
        ∧ (scrollCmdSpec t .ri).activeBufferType = (up1 t).activeBufferType := ⟨rfl, rfl⟩
    rw [e.1, e.2, up1_buffer]
    refine ⟨?_, ?_⟩
    · simp only [scrollOf]; split <;> rfl
    · unfold up1; split
      · rfl
      · split <;> rfl
  all_goals exact ⟨rfl, rfl⟩

theorem scrollOf_valid {t : Terminal} (h : TInv t = true) (f : Function) : (scrollOf t f).valid t.rows := by
  have k := TOK.of_TInv h
  have hm := k.marg
  have hr := k.crow
  have hlr : (lineRange t).1 < (lineRange t).2 ∧ (lineRange t).2 ≤ t.rows := by
    simp only [lineRange]; split <;> omega
  cases f <;> simp only [scrollOf] <;> (try split) <;> simp only [Scroll.valid] <;> (try trivial) <;>
    first | exact hlr | omega

/-- **C06 at the API.**  From every reachable state, feeding the text of LF / VT / FF / IND / NEL / RI,
    `CSI n S` (SU), `CSI n T` (SD), `CSI n L` (IL), `CSI n M` (DL), `CSI t;b r` (DECSTBM) or CR: the terminal is
    `scrollCmdSpec` run through `changes()` + `gc()`, and through `view()` / `lines()` / `Changes`:
    the range `s..e` the property names (`scrollOf`) is a range of visible rows; every row outside it is
    cell-for-cell unchanged; inside, rows move by exactly `k = min n (e - s)` and the `k` vacated rows
    are blank rows in the current pen; when a range starting at row 0 of the primary screen scrolls
    up, the lines handed out followed by `lines()` are the old lines above the view, then the `k`
    scrolled-off rows — cell for cell, in order —, then the new view; in every other case the lines
    above the view are what they were; the alternate screen keeps none. -/
theorem Api_C06 {v : Vt} (hR : Reach v) {xs : List Nat} {f : Function}
    (hx : SeqText v.parser xs (some f)) (hc : coveredScroll f = true) :
    ∃ v' ch, v.feedStr xs = some (v', ch)
      ∧ v'.terminal = finishT (scrollCmdSpec v.terminal f)
      ∧ v'.cursor = (scrollCmdSpec v.terminal f).cursor
      ∧ v'.view = ((scrollOf v.terminal f).apply v.terminal.pen v.terminal.buffer).view
      ∧ (scrollOf v.terminal f).valid v.terminal.rows
      ∧ (match scrollOf v.terminal f with
         | .none => v'.view = v.view
         | .up s e n =>
           (∀ i, i < s ∨ e ≤ i → viewRow v' i = viewRow v i)
           ∧ (∀ i, s ≤ i → i + min n (e - s) < e → viewRow v' i = viewRow v (i + min n (e - s)))
           ∧ (∀ i, s ≤ i → i < e → e ≤ i + min n (e - s) →
                v'.view[i]? = some (Line.blank v.terminal.cols v.terminal.pen))
         | .down s e n =>
           (∀ i, i < s ∨ e ≤ i → viewRow v' i = viewRow v i)
           ∧ (∀ i, s ≤ i → i + min n (e - s) < e → viewRow v' (i + min n (e - s)) = viewRow v i)
           ∧ (∀ i, s ≤ i → i < s + min n (e - s) → i < e →
                viewRow v' i = some (List.replicate v.terminal.cols (Cell.blank v.terminal.pen))))
      ∧ (v.terminal.activeBufferType = .primary →
          (ch.scrollback ++ v'.lines).map Line.cells =
            (match scrollOf v.terminal f with
             | .up 0 e n => (v.lines.map Line.cells).take (v.lines.length - v.terminal.rows + min n e)
             | _ => (v.lines.map Line.cells).take (v.lines.length - v.terminal.rows))
            ++ v'.view.map Line.cells)
      ∧ (v.terminal.activeBufferType = .alternate → ch.scrollback = [] ∧ v'.lines = v'.view)
      ∧ v'.parser.state = .Ground ∧ Reach v' := by
  obtain ⟨v', ch, t1, h1, h2, h3, h4, _, h6, h7, g, h8, h9, _⟩ := Api_seq hR hx
  have ht := (reach_parts hR).2
  rw [C06.C06_cmd _ _ ht hc] at h2
  cases h2
  obtain ⟨eb, ea⟩ := scrollCmd_buffer v.terminal hc
  have k := TOK.of_TInv ht
  have hb : BInv v.terminal.buffer = true := k.bok.BInv
  have hbr := k.brows
  have hbc := k.bcols
  have hvl : v.terminal.buffer.view.length = v.terminal.rows := k.bok.hv.trans hbr
  have hval := scrollOf_valid ht f
  have hview : v'.view = ((scrollOf v.terminal f).apply v.terminal.pen v.terminal.buffer).view := by
    show v'.terminal.buffer.view = _; rw [h4, finishT_view, eb]
  have hrow : ∀ i, viewRow v' i = (((scrollOf v.terminal f).apply v.terminal.pen v.terminal.buffer).view[i]?).map Line.cells := by
    intro i; unfold viewRow; rw [hview]
  obtain ⟨sb1, sb2⟩ := feedStr_scrollback h1 h8
  rw [h9] at sb1 sb2
  refine ⟨v', ch, h1, h4, ?_, hview, hval, ?_, ?_, ?_, h6, h7⟩
  · show v'.terminal.cursor = _; rw [h4]; rfl
  · -- the rows
    cases hs : scrollOf v.terminal f with
    | none => rw [hview, hs]; rfl
    | up s e n =>
      rw [hs] at hval hrow
      obtain ⟨hse, he⟩ := hval
      have he' : e ≤ v.terminal.buffer.rows := by omega
      refine ⟨fun i hi => ?_, fun i h1' h2' => ?_, fun i h1' h2' h3' => ?_⟩
      · rw [hrow]; exact (C06.C06_outside_unchanged s e n _ _ hb hse he' i hi).1
      · rw [hrow]; exact ((C06.C06_shift_and_fill s e n _ _ hb hse he' i h1' (by omega)).1 h2').1
      · rw [hview, hs, ← hbc]
        exact (C06.C06_shift_and_fill s e n _ _ hb hse he' i h1' h2').2.1 h3'
    | down s e n =>
      rw [hs] at hval hrow
      obtain ⟨hse, he⟩ := hval
      have he' : e ≤ v.terminal.buffer.rows := by omega
      refine ⟨fun i hi => ?_, fun i h1' h2' => ?_, fun i h1' h2' h3' => ?_⟩
      · rw [hrow]; exact (C06.C06_outside_unchanged s e n _ _ hb hse he' i hi).2.1
      · rw [hrow]; exact ((C06.C06_shift_and_fill s e n _ _ hb hse he' i h1' (by omega)).1 h2').2
      · rw [hrow, ← hbc]
        exact (C06.C06_shift_and_fill s e n _ _ hb hse he' i h1' h3').2.2 h2'
  · -- the scrollback, primary screen
    intro hp
    have hlines := sb1 (ea.trans hp)
    rw [hlines, eb]
    have hsbl : v.lines.length - v.terminal.rows = v.terminal.buffer.sb.length := by
      show (v.terminal.buffer.sb ++ v.terminal.buffer.view).length - _ = _
      rw [List.length_append, hvl]; omega
    have hvlines : v.lines = v.terminal.buffer.sb ++ v.terminal.buffer.view := rfl
    have hkeep : ∀ sc : Scroll, (sc.apply v.terminal.pen v.terminal.buffer).sb = v.terminal.buffer.sb →
        (sc.apply v.terminal.pen v.terminal.buffer).lines.map Line.cells =
          (v.lines.map Line.cells).take (v.lines.length - v.terminal.rows)
            ++ (sc.apply v.terminal.pen v.terminal.buffer).view.map Line.cells := by
      intro sc hsb
      rw [hsbl, hvlines, List.map_append, List.take_left' (by simp)]
      simp only [Buffer.lines, List.map_append, hsb]
    rw [hview]
    cases hs : scrollOf v.terminal f with
    | none => exact hkeep .none rfl
    | down s e n => exact hkeep (.down s e n) rfl
    | up s e n =>
      cases s with
      | succ s' => exact hkeep (.up (s' + 1) e n) ((C06.C06_scrollback_untouched _ e n _ _).1 (by omega))
      | zero =>
        simp only [Scroll.apply]
        obtain ⟨_, c2, _⟩ := C06.C06_scrollback_append e n v.terminal.pen v.terminal.buffer
        have hk : min n e ≤ v.terminal.buffer.view.length := by
          rw [hs] at hval; have := hval.2; omega
        rw [hsbl, hvlines]
        simp only [Buffer.lines, List.map_append]
        rw [c2]
        have hl : (v.terminal.buffer.sb.map Line.cells).length = v.terminal.buffer.sb.length := by simp
        rw [← hl, List.take_length_add_append, List.map_take, List.append_assoc]
  · -- the alternate screen keeps none
    intro ha
    have ha1 := ea.trans ha
    refine ⟨sb2 ha1, ?_⟩
    show v'.terminal.buffer.sb ++ v'.terminal.buffer.view = v'.terminal.buffer.view
    rw [h4, C06.C06_alt_keeps_none _ h3 ha1]; rfl

/-- **no other control function adds to the scrollback**, at the API: after feeding any single item
    whose function is not LF / NEL / SU / DL / Print / REP / RIS / a DEC mode change, the lines above the
    view (counting what the call hands out) are what they were, and the parked screen is untouched -/
theorem Api_C06_quiet {v : Vt} (hR : Reach v) {xs : List Nat} {f : Function}
    (hx : SeqText v.parser xs (some f)) (hm : mayChangeScrollback f = false) :
    ∃ v' ch, v.feedStr xs = some (v', ch)
      ∧ (v'.terminal.activeBufferType = .primary →
          ch.scrollback ++ v'.lines = v.lines.take (v.lines.length - v.terminal.rows) ++ v'.view)
      ∧ v'.terminal.otherBuffer = v.terminal.otherBuffer := by
  obtain ⟨v', ch, t1, h1, h2, _, h4, _, _, _, g, h8, h9, _⟩ := Api_seq hR hx
  have ht := (reach_parts hR).2
  have k := TOK.of_TInv ht
  have hvl : v.terminal.buffer.view.length = v.terminal.rows := k.bok.hv.trans k.brows
  have hsame : t1.buffer.sb = v.terminal.buffer.sb ∧ t1.otherBuffer = v.terminal.otherBuffer := by
    by_cases hne : t1.buffer.sb ≠ v.terminal.buffer.sb ∨ t1.otherBuffer ≠ v.terminal.otherBuffer
    · exfalso
      rcases C06.C06_only_scrolls_grow _ _ f ht h2 hne with rfl | rfl | ⟨n, rfl⟩ | ⟨n, rfl⟩ | ⟨c, rfl⟩
        | ⟨n, rfl⟩ | rfl | ⟨⟨ms, rfl | rfl⟩, _⟩ <;> cases hm
    · exact ⟨Classical.not_not.1 fun h => hne (.inl h), Classical.not_not.1 fun h => hne (.inr h)⟩
  obtain ⟨sb1, _⟩ := feedStr_scrollback h1 h8
  rw [h9] at sb1
  refine ⟨v', ch, h1, fun hp => ?_, by rw [h4]; exact hsame.2⟩
  have hp1 : t1.activeBufferType = .primary := by rw [h4] at hp; exact hp
  rw [sb1 hp1]
  have e1 : v'.view = t1.buffer.view := by show v'.terminal.buffer.view = _; rw [h4, finishT_view]
  have e2 : v.lines.take (v.lines.length - v.terminal.rows) = v.terminal.buffer.sb := by
    show (v.terminal.buffer.sb ++ v.terminal.buffer.view).take _ = _
    have hl : v.lines.length = v.terminal.buffer.sb.length + v.terminal.buffer.view.length := by
      show (v.terminal.buffer.sb ++ v.terminal.buffer.view).length = _
      rw [List.length_append]
    rw [List.take_left' (by rw [hl, hvl]; omega)]
  rw [e1, e2, ← hsame.1]; rfl

/-- DECSTBM through the API: the margins take effect only for `1 ≤ top < bottom ≤ rows` (after the
    defaults), and the cursor is homed -/
theorem Api_C06_decstbm {v : Vt} (hR : Reach v) {xs : List Nat} {a b : Nat}
    (hx : SeqText v.parser xs (some (.decstbm a b))) :
    ∃ v' ch, v.feedStr xs = some (v', ch) ∧ v'.view = v.view
      ∧ (v'.terminal.topMargin, v'.terminal.bottomMargin) =
          (if 1 ≤ asUsize a 1 ∧ asUsize a 1 < asUsize b v.terminal.rows ∧ asUsize b v.terminal.rows ≤ v.terminal.rows
           then (asUsize a 1 - 1, asUsize b v.terminal.rows - 1)
           else (v.terminal.topMargin, v.terminal.bottomMargin))
      ∧ v'.cursor.col = 0
      ∧ v'.cursor.row = (if v.terminal.originMode then v'.terminal.topMargin else 0) := by
  obtain ⟨v', ch, h1, h2, h3, _, _, h6, _⟩ := Api_C06 hR hx rfl
  have ht := (reach_parts hR).2
  have hm := C06.C06_decstbm v.terminal _ a b ht (C06.C06_cmd _ _ ht rfl)
  refine ⟨v', ch, h1, h6, ?_, ?_, ?_⟩
  · rw [h2]; exact hm
  · rw [h3]; rfl
  · rw [h3, h2]; rfl

end C06

/-! ## C08 — SGR attributes and colours reach the printed cells unchanged -/

section C08
open Avt.Spec.C08

/-- the text of one SGR sequence makes the parser emit exactly the reference decoding — from ANY
    parser state (the introducer is an "anywhere" transition: `C03_memoryless_intro`) -/
theorem sgr_run {p : Parser} (hp : PInv p = true) {txt : List Nat} {ws : List (List Nat)}
    (h : parseSgrText txt = some ws) :
    ∃ q, Spec.C03.run p txt = some (q, [.sgr (sgrRefOps ws)]) ∧ q.state = .Ground := by
  obtain ⟨q, he, hg⟩ := C08.C08_text (p := Parser.new) C03.PInv_new rfl h
  rw [emit_eq_run] at he
  have hshape : ∃ c rest, txt = c :: rest ∧ (c = 0x1B ∨ c = 0x9B ∨ c = 0x90) := by
    unfold parseSgrText at h
    split at h
    · exact ⟨_, _, rfl, .inl rfl⟩
    · exact ⟨_, _, rfl, .inr (.inl rfl)⟩
    · cases h
  obtain ⟨c, rest, rfl, hc⟩ := hshape
  refine ⟨q, ?_, hg⟩
  rw [C03.C03_memoryless_intro hp C03.PInv_new c hc rest]
  exact he

/-- along a run of prints every cell of the view satisfies what the old cells and the cells carrying
    the current pen satisfy; the pen does not change -/
theorem prints_cells {Q : Cell → Prop} : ∀ (xs : List Nat) {t t' : Terminal},
    (∀ c, Q ⟨c, t.pen⟩) → (∀ l ∈ t.buffer.view, ∀ c ∈ l.cells, Q c) →
    Api.execAll (xs.map Function.print) t = some t' →
    (∀ l ∈ t'.buffer.view, ∀ c ∈ l.cells, Q c) ∧ t'.pen = t.pen
  | [], t, t', _, hv, h => by
    simp only [List.map_nil, Api.execAll, Terminal.foldM', Option.some.injEq] at h
    subst h; exact ⟨hv, rfl⟩
  | x :: xs, t, t', hQ, hv, h => by
    simp only [List.map_cons, Api.execAll, Terminal.foldM'] at h
    cases h1 : t.execute (.print x) with
    | none => rw [h1] at h; cases h
    | some t1 =>
      rw [h1] at h
      have hp : t1.pen = t.pen := (C08.C08_cells (f := .print x) rfl h1).2
      have hv1 := C08.C08_cells_general (Q := Q) (f := .print x) rfl hQ hv h1
      obtain ⟨a, b⟩ := prints_cells xs (t := t1) (fun c => hp ▸ hQ c) hv1 h
      exact ⟨a, b.trans hp⟩

theorem printedCell_finish (t t2 : Terminal) : printedCell t (finishT t2) = printedCell t t2 := by
  unfold printedCell printedCol
  rw [finishT_view]; rfl

/-- **C08 at the API.**  From every reachable state and ANY parser state, feeding the text of one SGR
    sequence (`ESC [` or `0x9B`; digits, `;`, `:`; final `m`; any number of parameters and
    sub-parameters): the pen is the reference fold of the parameters as written
    (`penRef … (sgrRefOps ws)`), its nine accessors report `obsRef`; nothing else changes — `view()`,
    `cursor()`, no changed line —; and afterwards
    * every printable character fed stores a cell whose nine accessors report exactly that pen;
    * after any run of printable characters every cell of `view()` either reports that pen or was
      already on the screen;
    * every cell an erase command (ED / EL / ECH, any spelling) blanks is a space reporting that pen. -/
theorem Api_C08 {v : Vt} (hR : Reach v) {txt : List Nat} {ws : List (List Nat)}
    (h : parseSgrText txt = some ws) :
    ∃ v1 ch1, v.feedStr txt = some (v1, ch1)
      ∧ v1.terminal = finishT { v.terminal with pen := penRef v.terminal.pen (sgrRefOps ws) }
      ∧ Pen.obs v1.terminal.pen = obsRef (Pen.obs v.terminal.pen) (sgrRefOps ws)
      ∧ v1.view = v.view ∧ v1.cursor = v.cursor ∧ ch1.lines = Dirty.toVec v.terminal.dirtyLines
      ∧ v1.parser.state = .Ground ∧ Reach v1
      ∧ (∀ c, printable c = true → ∃ v2 ch2 cell, v1.feedStr [c] = some (v2, ch2)
          ∧ printedCell v1.terminal v2.terminal = some cell
          ∧ Pen.obs cell.pen = obsRef (Pen.obs v.terminal.pen) (sgrRefOps ws))
      ∧ (∀ ys, (∀ c ∈ ys, printable c = true) → ∃ v2 ch2, v1.feedStr ys = some (v2, ch2)
          ∧ ∀ l ∈ v2.view, ∀ c ∈ l.cells,
              Pen.obs c.pen = obsRef (Pen.obs v.terminal.pen) (sgrRefOps ws) ∨ ∃ l0 ∈ v1.view, c ∈ l0.cells)
      ∧ (∀ xs f, SeqText v1.parser xs (some f) → Spec.C07.erases f = true →
          ∃ v2 ch2, v1.feedStr xs = some (v2, ch2) ∧ ∀ r c, r < v1.terminal.rows → c < v1.terminal.cols →
            Spec.C07.extent v1.terminal f r c = true →
            ∃ cell, viewCell v2 r c = some cell ∧ cell.ch = 0x20
              ∧ Pen.obs cell.pen = obsRef (Pen.obs v.terminal.pen) (sgrRefOps ws)) := by
  obtain ⟨hp, ht⟩ := reach_parts hR
  have hattr := reach_penOK hR
  obtain ⟨q, hr, hq⟩ := sgr_run hp h
  obtain ⟨a1, _, a3, a4⟩ := C08.C08_fold v.terminal (sgrRefOps ws)
  obtain ⟨v1, ch1, b1, b2, b3, b4, _, b6, _⟩ := Api_single hR hr a1
  have hpen : v1.terminal.pen = penRef v.terminal.pen (sgrRefOps ws) := by
    rw [b2]; exact a3 hattr
  have hobs : Pen.obs v1.terminal.pen = obsRef (Pen.obs v.terminal.pen) (sgrRefOps ws) := by
    rw [b2]; exact a4 hattr
  have hg1 : v1.parser.state = .Ground := b3 ▸ hq
  have ht1 := (reach_parts b6).2
  refine ⟨v1, ch1, b1, ?_, hobs, ?_, ?_, b4, hg1, b6, ?_, ?_, ?_⟩
  · rw [b2, ← a3 hattr]; rfl
  · show v1.terminal.buffer.view = _; rw [b2, finishT_view]; rfl
  · show v1.terminal.cursor = _; rw [b2]; rfl
  · intro c hc
    obtain ⟨v2, ch2, t2, c1, c2, _, c4, _⟩ := Api_seq b6 (SeqText.print hg1 hc)
    obtain ⟨cell, d1, d2⟩ := C08.C08_print_cell ht1 c2
    refine ⟨v2, ch2, cell, c1, ?_, ?_⟩
    · rw [c4, printedCell_finish]; exact d1
    · rw [d2]; exact hobs
  · intro ys hys
    obtain ⟨v2, ch2, t2, c1, c2, _, c4, _⟩ := Api_bridge_run b6 (run_printables ys hg1 hys)
    refine ⟨v2, ch2, c1, ?_⟩
    have := (prints_cells (Q := fun c => Pen.obs c.pen = obsRef (Pen.obs v.terminal.pen) (sgrRefOps ws)
        ∨ ∃ l0 ∈ v1.view, c ∈ l0.cells) ys (t := v1.terminal) (fun c => .inl hobs)
        (fun l hl c hc => .inr ⟨l, hl, hc⟩) c2).1
    show ∀ l ∈ v2.terminal.buffer.view, _
    rw [c4, finishT_view]
    exact this
  · intro xs f hx he
    have hcov : Spec.C07.coveredEdit f = true := by cases f <;> simp_all [Spec.C07.erases, Spec.C07.coveredEdit]
    obtain ⟨v2, ch2, c1, _, _, c4, _⟩ := Api_C07 b6 hx hcov
    refine ⟨v2, ch2, c1, fun r c hr hcc hext => ⟨_, c4 he r c hr hcc hext, rfl, hobs⟩⟩

end C08

/-! ## C17 — save / restore cursor round-trips the full context -/

section C17
open Avt.Spec.C17 Avt.Props.C17

theorem steps_of_execAll : ∀ (fs : List Function) {t t' : Terminal}, TInv t = true →
    execAll fs t = some t' → Steps t fs t'
  | [], t, t', _, h => by
    simp only [execAll, Terminal.foldM', Option.some.injEq] at h
    subst h; exact .nil t
  | f :: fs, t, t', hi, h => by
    simp only [execAll, Terminal.foldM'] at h
    obtain ⟨t1, h1, h2⟩ := Closed.C02_execute f hi
    rw [h1] at h
    exact .cons hi h1 (steps_of_execAll fs h2 h)

/-- **C17 at the API.**  From every reachable state `v`: feed a save (`ESC 7`, `CSI s`, `CSI ?1048h` —
    any complete text selecting a plain save, from any parser state), then any middle text none of
    whose emitted functions saves on this screen, switches screens, or is DECSTR / RIS (moves, prints,
    SGR, mode and margin changes, erases, scrolls, tab operations, other restores, … — whatever state the
    parser is left in), then a restore (`ESC 8`, `CSI u`, `CSI ?1048l`).  After the restore `cursor()` is
    at the column of `v` clamped to the last real column and at the row of `v`; pen, origin mode and
    auto-wrap mode are those of `v`; no wrap is pending. -/
theorem Api_C17 {v v1 v2 v3 : Vt} {c1 c2 c3 : Changes} {sv mid sr : List Nat} {fs fr : Function}
    (hR : Reach v)
    (hsv : SeqText v.parser sv (some fs)) (hfs : IsPlainSave fs) (h1 : v.feedStr sv = some (v1, c1))
    (hmid : ∀ f ∈ Frame.emitted v1.parser mid, touchesCtx f = false) (h2 : v1.feedStr mid = some (v2, c2))
    (hsr : SeqText v2.parser sr (some fr)) (hfr : IsPlainRestore fr) (h3 : v2.feedStr sr = some (v3, c3)) :
    v3.cursor.col = min v.cursor.col (v.terminal.cols - 1) ∧ v3.cursor.row = v.cursor.row
      ∧ v3.terminal.pen = v.terminal.pen ∧ v3.terminal.originMode = v.terminal.originMode
      ∧ v3.terminal.autoWrapMode = v.terminal.autoWrapMode ∧ v3.terminal.pendingWrap = false
      ∧ Reach v3 := by
  -- the save
  obtain ⟨w1, d1, t1, a1, a2, _, a4, _, _, a7, _⟩ := Api_seq hR hsv
  rw [h1] at a1; cases a1
  have e1 := C17_save hfs a2
  -- the middle
  obtain ⟨w2, d2, t2, b1, b2, _, b4, _, b6⟩ := Api_bridge (xs := mid) a7 rfl
  rw [h2] at b1; cases b1
  have hsteps := steps_of_execAll _ (reach_parts a7).2 b2
  have hkeep := (C17_frame_many hsteps hmid).1
  -- the restore
  obtain ⟨w3, d3, t3, g1, g2, _, g4, _, _, g7, _⟩ := Api_seq b6 hsr
  rw [h3] at g1; cases g1
  have r := C17_restore_step hfr g2
  have hctx : v2.terminal.savedCtx = ctxOf v.terminal := by
    rw [b4]
    show t2.savedCtx = _
    rw [hkeep, a4]
    show t1.savedCtx = _
    rw [e1]
  rw [hctx] at r
  refine ⟨?_, ?_, ?_, ?_, ?_, ?_, g7⟩
  · show v3.terminal.cursor.col = _; rw [g4]; exact r.1
  · show v3.terminal.cursor.row = _; rw [g4]; exact r.2.1
  · rw [g4]; exact r.2.2.1
  · rw [g4]; exact r.2.2.2.1
  · rw [g4]; exact r.2.2.2.2.1
  · rw [g4]; exact r.2.2.2.2.2.1

/-- the same without "this call returned" hypotheses: all three calls return (C01), and the middle
    condition is stated on a fresh parser — the save leaves the parser in Ground, and from Ground the
    emitted functions do not depend on the registers (`C03_memoryless_ground`) -/
theorem Api_C17_closed {v : Vt} {sv mid sr : List Nat} {fs fr : Function} (hR : Reach v)
    (hsv : SeqText v.parser sv (some fs)) (hfs : IsPlainSave fs)
    (hscalar : ∀ c ∈ mid, c < 0x110000)
    (hmid : ∀ f ∈ Frame.emitted Parser.new mid, touchesCtx f = false)
    (hsr : ∀ p : Parser, SeqText p sr (some fr)) (hfr : IsPlainRestore fr) :
    ∃ v1 c1 v2 c2 v3 c3, v.feedStr sv = some (v1, c1) ∧ v1.feedStr mid = some (v2, c2)
      ∧ v2.feedStr sr = some (v3, c3)
      ∧ v3.cursor.col = min v.cursor.col (v.terminal.cols - 1) ∧ v3.cursor.row = v.cursor.row
      ∧ v3.terminal.pen = v.terminal.pen ∧ v3.terminal.originMode = v.terminal.originMode
      ∧ v3.terminal.autoWrapMode = v.terminal.autoWrapMode ∧ v3.terminal.pendingWrap = false := by
  obtain ⟨v1, c1, t1, a1, _, _, _, _, a6, a7, _⟩ := Api_seq hR hsv
  obtain ⟨v2, c2, t2, b1, _, _, _, _, b6⟩ := Api_bridge (xs := mid) a7 rfl
  obtain ⟨v3, c3, t3, g1, _⟩ := Api_seq b6 (hsr v2.parser)
  have hm : ∀ f ∈ Frame.emitted v1.parser mid, touchesCtx f = false := by
    obtain ⟨p', q', gs, m1, m2, _⟩ := C03.C03_memoryless_ground (reach_parts a7).1 a6 mid hscalar
    have e1 : Frame.emitted v1.parser mid = gs := emits_of_run m1
    have e2 : Frame.emitted Parser.new mid = gs := emits_of_run m2
    rw [e1, ← e2]; exact hmid
  obtain ⟨r1, r2, r3, r4, r5, r6, _⟩ := Api_C17 hR hsv hfs a1 hm b1 (hsr v2.parser) hfr g1
  exact ⟨v1, c1, v2, c2, v3, c3, a1, b1, g1, r1, r2, r3, r4, r5, r6⟩

/-- nothing saved: a restore gives (0,0), default pen, origin off, auto-wrap on -/
theorem Api_C17_default {v : Vt} (hR : Reach v) (hd : v.terminal.savedCtx = defaultCtx)
    {sr : List Nat} {fr : Function} (hsr : SeqText v.parser sr (some fr)) (hfr : IsPlainRestore fr) :
    ∃ v' ch, v.feedStr sr = some (v', ch) ∧ v'.cursor.col = 0 ∧ v'.cursor.row = 0
      ∧ v'.terminal.pen = Pen.default ∧ v'.terminal.originMode = false
      ∧ v'.terminal.autoWrapMode = true ∧ v'.terminal.pendingWrap = false := by
  obtain ⟨v', ch, t1, a1, a2, _, a4, _⟩ := Api_seq hR hsr
  obtain ⟨r1, r2, r3, r4, r5, r6⟩ := C17_default.2.2 _ _ _ hfr hd a2
  refine ⟨v', ch, a1, ?_, ?_, ?_, ?_, ?_, ?_⟩
  · show v'.terminal.cursor.col = _; rw [a4]; exact r1
  · show v'.terminal.cursor.row = _; rw [a4]; exact r2
  · rw [a4]; exact r3
  · rw [a4]; exact r4
  · rw [a4]; exact r5
  · rw [a4]; exact r6

/-- restored positions lie inside the screen — whatever happened before, resizes included: `v` is ANY
    reachable state -/
theorem Api_C17_inside {v : Vt} (hR : Reach v) {sr : List Nat} {fr : Function}
    (hsr : SeqText v.parser sr (some fr)) (hfr : IsPlainRestore fr) :
    ∃ v' ch, v.feedStr sr = some (v', ch) ∧ v'.cursor.col < v'.terminal.cols
      ∧ v'.cursor.row < v'.terminal.rows ∧ v'.terminal.pendingWrap = false := by
  obtain ⟨v', ch, t1, a1, a2, _, a4, _, _, a7, _⟩ := Api_seq hR hsr
  have r := C17_restore_step hfr a2
  have k := TOK.of_TInv (reach_parts a7).2
  have hpw : v'.terminal.pendingWrap = false := by rw [a4]; exact r.2.2.2.2.2.1
  refine ⟨v', ch, a1, ?_, k.crow, hpw⟩
  rcases k.ccol with ⟨h, _⟩ | ⟨_, h⟩
  · rw [hpw] at h; cases h
  · exact h

theorem Reach_run : ∀ (ops : List PubOp) {v v' : Vt}, Reach v → (∀ op ∈ ops, op.valid) →
    run v ops = some v' → Reach v'
  | [], v, v', h, _, hr => by cases hr; exact h
  | op :: ops, v, v', h, hv, hr => by
    simp only [run] at hr
    obtain ⟨w, h1, h2⟩ := Closed.Reach_step h op (hv op (List.mem_cons_self ..))
    rw [h1] at hr
    exact Reach_run ops h2 (fun o ho => hv o (List.mem_cons_of_mem _ ho)) hr

theorem C16_emitted_of_seq {p : Parser} (hp : PInv p = true) {xs : List Nat} {f : Function}
    (hx : SeqText p xs (some f)) : Spec.C16.emitted p xs = [f] := by
  obtain ⟨q, hr, _⟩ := hx.run hp
  rw [Closed2.emitted_eq]
  exact emits_of_run hr

/-- **C17 at the API, separate contexts per screen.**  From a reachable state with the primary screen
    showing: a save; `CSI ?47h` / `CSI ?1047h`; then ANY list of `feed_str` / `feed` / `resize` calls on the
    alternate screen that neither leaves it nor hard-resets — saves and restores THERE included —; then
    `CSI ?47l` / `CSI ?1047l`; then a restore.  The restore re-establishes pen, origin mode and auto-wrap
    mode of the state at the save, and its position, clamped into the screen as it is now (unchanged when no
    resize happened): the other screen's saves did not clobber this one. -/
theorem Api_C17_separate {v v1 v2 v3 v4 v5 : Vt} {c1 c2 c4 c5 : Changes} {sv enter leave sr : List Nat}
    {fs fr : Function} {ops : List PubOp}
    (hR : Reach v) (hp : v.terminal.activeBufferType = .primary)
    (hsv : SeqText v.parser sv (some fs)) (hfs : IsPlainSave fs) (h1 : v.feedStr sv = some (v1, c1))
    (hen : SeqText v1.parser enter (some (.decset [.altScreenBuffer]))) (h2 : v1.feedStr enter = some (v2, c2))
    (hv : ∀ op ∈ ops, op.valid)
    (hq : ∀ f ∈ Spec.C16.emitted v2.parser (Closed2.inputOf ops), Spec.C16.endsExcursion f = false)
    (h3 : run v2 ops = some v3)
    (hle : SeqText v3.parser leave (some (.decrst [.altScreenBuffer]))) (h4 : v3.feedStr leave = some (v4, c4))
    (hsr : SeqText v4.parser sr (some fr)) (hfr : IsPlainRestore fr) (h5 : v4.feedStr sr = some (v5, c5)) :
    v5.cursor.col = min (min v.cursor.col (v.terminal.cols - 1)) (v3.terminal.cols - 1)
      ∧ v5.cursor.row = min v.cursor.row (v3.terminal.rows - 1)
      ∧ v5.terminal.pen = v.terminal.pen ∧ v5.terminal.originMode = v.terminal.originMode
      ∧ v5.terminal.autoWrapMode = v.terminal.autoWrapMode ∧ v5.terminal.pendingWrap = false := by
  -- the save on the primary screen
  obtain ⟨w1, d1, t1, a1, a2, _, a4, _, _, a7, _⟩ := Api_seq hR hsv
  rw [h1] at a1; cases a1
  have e1 := C17_save hfs a2
  have hp1 : v1.terminal.activeBufferType = .primary := by rw [a4, e1]; exact hp
  have hs1 : v1.terminal.savedCtx = ctxOf v.terminal := by rw [a4, e1]; rfl
  -- entering the alternate screen parks it
  obtain ⟨_, b2, _, b4, _⟩ := Closed2.C16_vt_enter (me := .altScreenBuffer) (Closed.reach_inv a7) hp1 rfl
    (C16_emitted_of_seq (reach_parts a7).1 hen) h2
  have hR2 : Reach v2 := Reach_feedStr a7 h2
  have hpark2 : v2.terminal.alternateSavedCtx = ctxOf v.terminal := by
    rw [b4]; simpa [Spec.C16.parkedCtx] using hs1
  -- anything on the alternate screen keeps the parked context
  obtain ⟨_, g2, g3, _⟩ := Closed2.C16_run_frame ops b2 hq h3
  have hR3 : Reach v3 := Reach_run ops hR2 hv h3
  -- leaving swaps it back, clamped into the current screen
  obtain ⟨w4, d4, t4, k1, k2, _, k4, _, _, k7, _⟩ := Api_seq hR3 hle
  rw [h4] at k1; cases k1
  have hst := C17_step (reach_parts hR3).2 k2
  have hs4 : t4.savedCtx = clampCtx v3.terminal.cols v3.terminal.rows (ctxOf v.terminal) := by
    simp only [stepOK, modeCtx, showScreen, g3, Bool.and_eq_true, beq_iff_eq] at hst
    have h := hst.1.1
    rw [if_neg (by decide)] at h
    rw [← hpark2, ← g2]
    exact (Prod.mk.inj h).1
  -- the restore
  obtain ⟨w5, d5, t5, m1, m2, _, m4, _⟩ := Api_seq k7 hsr
  rw [h5] at m1; cases m1
  have r := C17_restore_step hfr m2
  have hs4' : v4.terminal.savedCtx = clampCtx v3.terminal.cols v3.terminal.rows (ctxOf v.terminal) := by
    rw [k4]; exact hs4
  rw [hs4'] at r
  refine ⟨?_, ?_, ?_, ?_, ?_, ?_⟩
  · show v5.terminal.cursor.col = _; rw [m4]; exact r.1
  · show v5.terminal.cursor.row = _; rw [m4]; exact r.2.1
  · rw [m4]; exact r.2.2.1
  · rw [m4]; exact r.2.2.2.1
  · rw [m4]; exact r.2.2.2.2.1
  · rw [m4]; exact r.2.2.2.2.2.1

end C17

/-! ## C18 — tab stops -/

section C18
open Avt.Spec.C18 Avt.Props.Closed2

theorem tabSpec_buffer (t : Terminal) (f : Function) : (tabSpec t f).buffer = t.buffer := by
  cases f <;> try rfl
  case ctc op => cases op <;> rfl
  case tbc s => cases s <;> rfl

/-- **C18 at the API.**  From every reachable state, feeding the text of HT (from Ground), `CSI n I` (CHT),
    `CSI n Z` (CBT), HTS (`0x88` from Ground, `ESC H` from any state), `CSI n g` (TBC 0 / 3), `CSI n W`
    (CTC 0 / 2 / 5): the terminal is `tabSpec` run through `changes()` + `gc()` — the stop vector (sorted-set
    insert / remove under the guards `0 < col < cols`) or the cursor column (the `n`-th next / previous
    stop, else the last / first column) changes, `view()` and everything else do not. -/
theorem Api_C18 {v : Vt} (hR : Reach v) {xs : List Nat} {f : Function}
    (hx : SeqText v.parser xs (some f)) (hc : isTabOp f = true) :
    ∃ v' ch, v.feedStr xs = some (v', ch)
      ∧ v'.terminal = finishT (tabSpec v.terminal f)
      ∧ v'.terminal.tabs = (tabSpec v.terminal f).tabs
      ∧ v'.cursor = (tabSpec v.terminal f).cursor
      ∧ v'.view = v.view
      ∧ tabsOK v'.terminal.tabs v'.terminal.cols = true
      ∧ v'.parser.state = .Ground ∧ Reach v' := by
  obtain ⟨v', ch, t1, h1, h2, _, h4, _, h6, h7, _⟩ := Api_seq hR hx
  have ht := (reach_parts hR).2
  rw [C18_tabop ht hc] at h2
  cases h2
  have hb := tabSpec_buffer v.terminal f
  refine ⟨v', ch, h1, h4, by rw [h4]; rfl, by show v'.terminal.cursor = _; rw [h4]; rfl, ?_, ?_, h6, h7⟩
  · show v'.terminal.buffer.view = _; rw [h4, finishT_view, hb]; rfl
  · rw [h4]; exact C18_tabop_tabsOK ht hc

/-- the movement half in the property's words -/
theorem Api_C18_moves {v : Vt} (hR : Reach v) {xs : List Nat} {f : Function}
    (hx : SeqText v.parser xs (some f)) (n : Nat) :
    ((f = .ht ∧ n = 1) ∨ (∃ k, f = .cht k ∧ n = Spec.C18.arg k) →
      ∃ v' ch, v.feedStr xs = some (v', ch) ∧ v'.cursor.row = v.cursor.row ∧ v'.cursor.col < v.terminal.cols
        ∧ v'.cursor.col = (nthAfter v.terminal.tabs v.cursor.col n).getD (v.terminal.cols - 1))
    ∧ ((∃ k, f = .cbt k ∧ n = Spec.C18.arg k) →
      ∃ v' ch, v.feedStr xs = some (v', ch) ∧ v'.cursor.row = v.cursor.row ∧ v'.cursor.col < v.terminal.cols
        ∧ v'.cursor.col = (nthBefore v.terminal.tabs v.cursor.col n).getD 0) := by
  have ht := (reach_parts hR).2
  obtain ⟨m1, m2, m3, m4, m5, m6⟩ := C18_moves ht n
  refine ⟨fun hf => ?_, fun hf => ?_⟩
  · have hcur : tabSpec v.terminal f = tabForward v.terminal n := by
      rcases hf with ⟨rfl, rfl⟩ | ⟨k, rfl, rfl⟩ <;> rfl
    have hc : isTabOp f = true := by rcases hf with ⟨rfl, _⟩ | ⟨k, rfl, _⟩ <;> rfl
    obtain ⟨v', ch, h1, _, _, h4, _⟩ := Api_C18 hR hx hc
    rw [hcur] at h4
    exact ⟨v', ch, h1, by rw [h4]; exact m5, by rw [h4]; exact m3, by rw [h4]; exact m1⟩
  · obtain ⟨k, rfl, rfl⟩ := hf
    obtain ⟨v', ch, h1, _, _, h4, _⟩ := Api_C18 hR hx rfl
    have hcur : tabSpec v.terminal (.cbt k) = tabBackward v.terminal (Spec.C18.arg k) := rfl
    rw [hcur] at h4
    exact ⟨v', ch, h1, by rw [h4]; exact m6, by rw [h4]; exact m4, by rw [h4]; exact m2⟩

theorem quiet_of_emitted : ∀ (s : List Nat) (p : Parser),
    (∀ f ∈ Frame.emitted p s, editsTabs f = false) → C18_quiet p s
  | [], _, _ => trivial
  | c :: cs, p, h => by
    unfold C18_quiet
    cases hp : p.feed c with
    | none => trivial
    | some r =>
      obtain ⟨p', o⟩ := r
      cases o with
      | none =>
        simp only []
        exact quiet_of_emitted cs p' (by simpa [Frame.emitted, hp] using h)
      | some f =>
        simp only []
        have h' : ∀ g ∈ f :: Frame.emitted p' cs, editsTabs g = false := by
          simpa [Frame.emitted, hp] using h
        exact ⟨h' f (List.mem_cons_self ..), quiet_of_emitted cs p' fun g hg => h' g (List.mem_cons_of_mem _ hg)⟩

/-- the parser threads through a public call: what it emits for the rest of the input -/
theorem emitted_step {v v' : Vt} {op : PubOp} (h : step v op = some v') (rest : List Nat) :
    Frame.emitted v.parser (PubOp.input op ++ rest)
      = Frame.emitted v.parser (PubOp.input op) ++ Frame.emitted v'.parser rest := by
  have hfs : ∀ s, (v.feedStr s).map (·.1) = some v' →
      Frame.emitted v.parser (s ++ rest) = Frame.emitted v.parser s ++ Frame.emitted v'.parser rest := by
    intro s hs
    cases hr : v.feedStr s with
    | none => simp [hr] at hs
    | some r =>
      obtain ⟨w, ch⟩ := r
      simp only [hr, Option.map_some, Option.some.injEq] at hs
      subst hs
      obtain ⟨g, hg, e1, _⟩ := feedStr_split hr
      have hp : w.parser = g.parser := by rw [e1]; rfl
      rw [hp]; exact Frame.emitted_feedAll hg rest
  cases op with
  | feedStr s => exact hfs s h
  | feedDrop s => exact hfs s h
  | feedChars s => exact Frame.emitted_feedAll h rest
  | resize c r =>
    simp only [step] at h
    cases hr : v.resize c r with
    | none => simp [hr] at h
    | some res =>
      obtain ⟨w, ch⟩ := res
      simp only [hr, Option.map_some, Option.some.injEq] at h
      subst h
      have hp : w.parser = v.parser := by
        unfold Vt.resize at hr
        cases ht : v.terminal.resize c r with
        | none => simp [ht] at hr
        | some t =>
          simp only [ht, Option.map_some, Option.some.injEq] at hr
          have : w = (Vt.finish { parser := v.parser, terminal := t }).1 := by rw [hr]
          rw [this]; rfl
      simp [PubOp.input, Frame.emitted, hp]

theorem fresh_run : ∀ (ops : List PubOp) {v v' : Vt}, C18_fresh v →
    (∀ f ∈ Frame.emitted v.parser (inputOf ops), editsTabs f = false) → run v ops = some v' → C18_fresh v'
  | [], v, v', h, _, hr => by cases hr; exact h
  | op :: ops, v, v', h, hq, hr => by
    simp only [run] at hr
    cases hs : step v op with
    | none => simp [hs] at hr
    | some v1 =>
      simp only [hs] at hr
      rw [inputOf_cons, emitted_step hs] at hq
      have hq0 : ∀ f ∈ Frame.emitted v.parser (PubOp.input op), editsTabs f = false :=
        fun f hf => hq f (List.mem_append_left _ hf)
      have hq1 : ∀ f ∈ Frame.emitted v1.parser (inputOf ops), editsTabs f = false :=
        fun f hf => hq f (List.mem_append_right _ hf)
      have h1 : C18_fresh v1 := by
        cases op with
        | feedStr s => exact C18_never_customised_call (k := .feedStr s) h (quiet_of_emitted _ _ hq0) hs
        | feedDrop s => exact C18_never_customised_call (k := .feedStr s) h (quiet_of_emitted _ _ hq0) hs
        | feedChars s => exact C18_never_customised_feedAll s h (quiet_of_emitted _ _ hq0) hs
        | resize c r => exact C18_never_customised_call (k := .resize c r) h trivial hs
      exact fresh_run ops h1 hq1 hr

/-- **C18, never customised, at the API.**  A terminal built by `Vt::new` and driven through ANY list of
    `feed_str` / per-character `feed` / `resize` calls in which the parser never emits HTS / TBC / CTC
    (RIS, buffer switches, anything else allowed) has exactly the stops of a fresh terminal of its
    current width … -/
theorem Api_C18_never_customised {cols rows : Nat} {lim : Option Nat} {v0 v : Vt} {ops : List PubOp}
    (hc : 1 ≤ cols) (h0 : Vt.new cols rows lim = some v0)
    (hq : ∀ f ∈ Frame.emitted Parser.new (inputOf ops), editsTabs f = false) (hrun : run v0 ops = some v) :
    v.terminal.tabs = tabsRef v.terminal.cols ∧ v.terminal.tabs = Tabs.new v.terminal.cols := by
  have hp : v0.parser = Parser.new := by
    unfold Vt.new at h0
    cases ht : Terminal.new cols rows lim with
    | none => simp [ht] at h0
    | some t => simp only [ht, Option.map_some, Option.some.injEq] at h0; rw [← h0]
  have := fresh_run ops (C18_new_fresh hc h0) (by rw [hp]; exact hq) hrun
  exact ⟨this.1, by rw [C18_new]; exact this.1⟩

/-- … so it tabs like a fresh one: feeding HT / `CSI n I` / `CSI n Z` moves to the `n`-th next / previous
    multiple of 8 below the current width, else to the last / first column -/
theorem Api_C18_tabs_like_fresh {cols rows : Nat} {lim : Option Nat} {v0 v : Vt} {ops : List PubOp}
    (hc : 1 ≤ cols) (hr : 1 ≤ rows) (h0 : Vt.new cols rows lim = some v0) (hv : ∀ op ∈ ops, op.valid)
    (hq : ∀ f ∈ Frame.emitted Parser.new (inputOf ops), editsTabs f = false) (hrun : run v0 ops = some v)
    {xs : List Nat} {f : Function} (hx : SeqText v.parser xs (some f)) (hf : isTabOp f = true) :
    ∃ v' ch, v.feedStr xs = some (v', ch)
      ∧ v'.cursor = (tabSpec { v.terminal with tabs := tabsRef v.terminal.cols } f).cursor := by
  have hR : Reach v := ⟨cols, rows, lim, v0, ops, hc, hr, h0, hv, hrun⟩
  obtain ⟨e, _⟩ := Api_C18_never_customised hc h0 hq hrun
  obtain ⟨v', ch, h1, _, _, h4, _⟩ := Api_C18 hR hx hf
  refine ⟨v', ch, h1, ?_⟩
  rw [h4]
  have : ({ v.terminal with tabs := tabsRef v.terminal.cols } : Terminal) = v.terminal := by
    rw [← e]
  rw [this]

end C18

/-! ## whole inputs: several commands in one `feed_str` -/

section Whole

theorem specFor_C05 : SpecFor Spec.C05.covered Spec.C05.moveSpec := fun _ _ h hc => C05_move h hc
theorem specFor_C06 : SpecFor (fun _ f => Spec.C06.coveredScroll f) Spec.C06.scrollCmdSpec :=
  fun t f h hc => C06.C06_cmd t f h hc
theorem specFor_C07 : SpecFor (fun _ f => Spec.C07.coveredEdit f) Spec.C07.editSpec :=
  fun t f h hc => C07.C07_edit t f h hc
theorem specFor_C18 : SpecFor (fun _ f => Spec.C18.isTabOp f) Spec.C18.tabSpec :=
  fun _ _ h hc => C18_tabop h hc

/-- one total specification for everything C04–C07 and C18 cover: printing, REP, cursor commands,
    scrolling commands, editing commands, tab commands -/
def stepSpec (t : Terminal) (f : Function) : Terminal :=
  if Spec.C04.covered f then printFn t f
  else if Spec.C05.covered t f then Spec.C05.moveSpec t f
  else if Spec.C06.coveredScroll f then Spec.C06.scrollCmdSpec t f
  else if Spec.C07.coveredEdit f then Spec.C07.editSpec t f
  else Spec.C18.tabSpec t f

def stepCovered (t : Terminal) (f : Function) : Bool :=
  Spec.C04.covered f || Spec.C05.covered t f || Spec.C06.coveredScroll f || Spec.C07.coveredEdit f
    || Spec.C18.isTabOp f

theorem specFor_step : SpecFor stepCovered stepSpec := by
  intro t f h hc
  unfold stepSpec
  by_cases h4 : Spec.C04.covered f = true
  · rw [if_pos h4]; exact printFn_sound t f h h4
  · rw [if_neg h4]
    by_cases h5 : Spec.C05.covered t f = true
    · rw [if_pos h5]; exact C05_move h h5
    · rw [if_neg h5]
      by_cases h6 : Spec.C06.coveredScroll f = true
      · rw [if_pos h6]; exact C06.C06_cmd t f h h6
      · rw [if_neg h6]
        by_cases h7 : Spec.C07.coveredEdit f = true
        · rw [if_pos h7]; exact C07.C07_edit t f h h7
        · rw [if_neg h7]
          simp only [stepCovered, Bool.or_eq_true] at hc
          rcases hc with (((hc | hc) | hc) | hc) | hc
          · exact absurd hc h4
          · exact absurd hc h5
          · exact absurd hc h6
          · exact absurd hc h7
          · exact C18_tabop h hc

/-- **C04–C07, C18 at the API, whole inputs.**  From every reachable state, any input that is a
    concatenation of complete items (`Texts`: printable characters, controls, CSI / ESC sequences in any
    spelling), each function covered by one of the five specifications in the state in which it is
    executed: `feed_str` returns and the terminal is the left fold of the specifications over the
    emitted functions, run through `changes()` + `gc()`; the changed lines are the rows that fold flags. -/
theorem Api_whole {v : Vt} (hR : Reach v) {xs : List Nat} {fs : List Function}
    (hx : Texts v.parser xs fs) (hc : coveredRun stepCovered stepSpec fs v.terminal = true) :
    ∃ v' ch, v.feedStr xs = some (v', ch) ∧ v'.terminal = finishT (fs.foldl stepSpec v.terminal)
      ∧ v'.view = (fs.foldl stepSpec v.terminal).buffer.view
      ∧ v'.cursor = (fs.foldl stepSpec v.terminal).cursor
      ∧ ch.lines = Dirty.toVec (fs.foldl stepSpec v.terminal).dirtyLines ∧ Reach v' := by
  obtain ⟨v', ch, h1, h2, h3, h4⟩ := Api_texts specFor_step hR hx hc
  refine ⟨v', ch, h1, h2, ?_, ?_, h3, h4⟩
  · show v'.terminal.buffer.view = _; rw [h2, finishT_view]
  · show v'.terminal.cursor = _; rw [h2]; rfl

end Whole

/-! ## the hypotheses are satisfiable: concrete reachable states and texts

  Every example builds a state with `Vt.new` + public calls (`exMk`), proves it reachable, exhibits the
  text-level hypothesis of the theorem (`CmdText` / `SeqText` / `parseSgrText` / `isInertInput` / the
  emitted-function condition), and checks the concrete outcome of the call with `decide +kernel`. -/

section Examples

/-- a terminal built through the public API only -/
def exMk (cols rows : Nat) (lim : Option Nat) (ops : List PubOp) : Option Vt :=
  (Vt.new cols rows lim).bind fun v0 => run v0 ops

theorem exMk_reach {cols rows : Nat} {lim : Option Nat} {ops : List PubOp} {v : Vt} (hc : 1 ≤ cols)
    (hr : 1 ≤ rows) (hv : ∀ op ∈ ops, op.valid) (h : exMk cols rows lim ops = some v) : Reach v := by
  unfold exMk at h
  cases h0 : Vt.new cols rows lim with
  | none => rw [h0] at h; cases h
  | some v0 => rw [h0] at h; exact ⟨cols, rows, lim, v0, ops, hc, hr, h0, hv, h⟩

/-- a Bool-valued test of a state built through the public API -/
def exCheck (cols rows : Nat) (lim : Option Nat) (ops : List PubOp) (P : Vt → Bool) : Bool :=
  match exMk cols rows lim ops with
  | some v => P v
  | none => false

theorem exMk_some {cols rows : Nat} {lim : Option Nat} {ops : List PubOp} {P : Vt → Bool}
    (h : exCheck cols rows lim ops P = true) :
    ∃ v, exMk cols rows lim ops = some v ∧ P v = true := by
  unfold exCheck at h
  cases hm : exMk cols rows lim ops with
  | none => rw [hm] at h; cases h
  | some v => rw [hm] at h; exact ⟨v, rfl, h⟩

/-- a Bool-valued test of the result of `feed_str` -/
def exFeed (v : Vt) (xs : List Nat) (P : Vt → Changes → Bool) : Bool :=
  match v.feedStr xs with
  | some (v', ch) => P v' ch
  | none => false

theorem exFeed_some {v : Vt} {xs : List Nat} {P : Vt → Changes → Bool} (h : exFeed v xs P = true) :
    ∃ v' ch, v.feedStr xs = some (v', ch) ∧ P v' ch = true := by
  unfold exFeed at h
  cases hm : v.feedStr xs with
  | none => rw [hm] at h; cases h
  | some r => obtain ⟨v', ch⟩ := r; rw [hm] at h; exact ⟨v', ch, rfl, h⟩

/-! C05: 10×6, region rows 1..3, origin mode on, "abc" typed, the parser left inside `ESC [`
    (state CsiEntry).  `0x9B 003 B` — 8-bit CSI, leading zeros — is CUD 3: the cursor stops at the
    bottom margin, `view()` unchanged. -/

def ex05ops : List PubOp :=
  [.feedStr [27, 91, 50, 59, 52, 114, 27, 91, 63, 54, 104], .feedStr [97, 98, 99, 27, 91]]

theorem ex05_facts : exCheck 10 6 none ex05ops (fun v => (v.parser.state == .CsiEntry) && (v.cursor == ⟨3, 1, true⟩) && Spec.C05.covered v.terminal (.cud 3)
        && exFeed v [0x9B, 0x30, 0x30, 0x33, 0x42] fun v' ch =>
             (v'.cursor == ⟨3, 3, true⟩) && (v'.view == v.view) && (ch.lines == [])) = true := by decide +kernel

example : ∃ v v' ch, Reach v ∧ v.parser.state = .CsiEntry
    ∧ CmdText v.parser ([0x9B] ++ [0x30, 0x30, 0x33] ++ [0x42]) (.cud 3)
    ∧ Spec.C05.covered v.terminal (.cud 3) = true
    ∧ v.feedStr [0x9B, 0x30, 0x30, 0x33, 0x42] = some (v', ch)
    ∧ v'.cursor = ⟨3, 3, true⟩ ∧ v'.cursor = (Spec.C05.moveSpec v.terminal (.cud 3)).cursor ∧ v'.view = v.view := by
  obtain ⟨v, hv, hf⟩ := exMk_some ex05_facts
  simp only [Bool.and_eq_true, beq_iff_eq] at hf
  obtain ⟨⟨⟨a1, _⟩, a3⟩, a4⟩ := hf
  obtain ⟨v', ch, b1, b2⟩ := exFeed_some a4
  simp only [Bool.and_eq_true, beq_iff_eq] at b2
  have hR : Reach v := exMk_reach (by decide) (by decide) (by decide) hv
  have hx : CmdText v.parser ([0x9B] ++ [0x30, 0x30, 0x33] ++ [0x42]) (.cud 3) :=
    CmdText.csi1 (.inr rfl) .cud (by decide)
  obtain ⟨w, cw, c1, c2, _⟩ := Api_C05 hR hx.seq a3
  have e : (w, cw) = (v', ch) := Option.some.inj (c1.symm.trans b1)
  have ew : w = v' := congrArg Prod.fst e
  exact ⟨v, v', ch, hR, a1, hx, a3, b1, b2.1.1, ew ▸ c2, b2.1.2⟩

/-! C04: 3×2, scrollback limit 5, G0 = DEC special graphics, "xyz" typed (cursor wrap-pending).  Feeding
    `qq`: the first `q` wraps (row 0 gets the soft-wrap mark), both are stored as `─`; `CSI 2 b` instead
    repeats the `z` glyph `≥` twice. -/

def ex04ops : List PubOp := [.feedStr [27, 40, 48], .feedStr [120, 121, 122]]

theorem ex04_facts : exCheck 3 2 (some 5) ex04ops (fun v => (v.parser.state == .Ground) && v.terminal.pendingWrap
        && (exFeed v [0x71, 0x71] fun v' ch =>
             (v'.terminal == finishT ([0x71, 0x71].foldl Spec.C04.printSpec v.terminal))
             && (v'.cursor == ⟨2, 1, true⟩) && (ch.lines == [1])
             && (v'.view.map (fun l => (l.cells.map (·.ch), l.wrapped))
                  == [([9474, 8804, 8805], true), ([9472, 9472, 32], false)]))
        && (exFeed v [0x9B, 0x32, 0x62] fun v' _ =>
             (v'.terminal == finishT (Spec.C04.repSpec v.terminal 2))
             && (v'.view.map (fun l => l.cells.map (·.ch)) == [[9474, 8804, 8805], [8805, 8805, 32]]))) = true := by decide +kernel

example : ∃ v v' ch, Reach v ∧ v.parser.state = .Ground ∧ (∀ c ∈ [0x71, 0x71], printable c = true)
    ∧ v.feedStr [0x71, 0x71] = some (v', ch)
    ∧ v'.terminal = finishT ([0x71, 0x71].foldl Spec.C04.printSpec v.terminal)
    ∧ v'.cursor = ⟨2, 1, true⟩ ∧ ch.lines = [1] := by
  obtain ⟨v, hv, hf⟩ := exMk_some ex04_facts
  simp only [Bool.and_eq_true, beq_iff_eq] at hf
  obtain ⟨⟨⟨a1, _⟩, a3⟩, _⟩ := hf
  obtain ⟨v', ch, b1, b2⟩ := exFeed_some a3
  simp only [Bool.and_eq_true, beq_iff_eq] at b2
  exact ⟨v, v', ch, exMk_reach (by decide) (by decide) (by decide) hv, a1, by decide, b1, b2.1.1.1, b2.1.1.2, b2.1.2⟩

/-! C06: 3×4 with a scrollback limit, rows `aaa bbb ccc ddd`, region rows 1..2, cursor on the bottom
    margin, blue background.  `ESC D` (IND) scrolls rows 1..2 up by one: rows 0 and 3 untouched, `ccc`
    moves up, a blank row appears, nothing reaches the scrollback.  On a full-screen region with
    limit 0, `CSI 2 S` hands the two scrolled-off rows out, in order. -/

def ex06ops : List PubOp :=
  [.feedStr [97, 97, 97, 13, 10, 98, 98, 98, 13, 10, 99, 99, 99, 13, 10, 100, 100, 100], .resize 3 4,
   .feedStr [27, 91, 50, 59, 51, 114, 27, 91, 51, 59, 50, 72, 27, 91, 52, 52, 109]]

def ex06bops : List PubOp :=
  [.feedStr [97, 97, 97, 13, 10, 98, 98, 98, 13, 10, 99, 99, 99, 13, 10, 100, 100, 100]]

def exText (ls : List Line) : List (List Nat) := ls.map fun l => l.cells.map (·.ch)

theorem ex06_facts : exCheck 3 4 (some 7) ex06ops (fun v => (v.cursor == ⟨1, 2, true⟩) && (exText v.view == [[97, 97, 97], [98, 98, 98], [99, 99, 99], [100, 100, 100]])
        && (match scrollOf v.terminal .lf with | .up 1 3 1 => true | _ => false)
        && exFeed v [0x1B, 0x44] fun v' ch =>
             (exText v'.view == [[97, 97, 97], [99, 99, 99], [32, 32, 32], [100, 100, 100]])
             && (v'.cursor == ⟨1, 2, true⟩) && (ch.lines == [1, 2]) && (ch.scrollback == [])
             && (v'.view[2]? == some (Line.blank 3 v.terminal.pen)) && (v'.lines.length == v.lines.length)) = true := by decide +kernel

theorem ex06b_facts : exCheck 3 4 (some 0) ex06bops (fun v => (match scrollOf v.terminal (.su 2) with | .up 0 4 2 => true | _ => false)
        && (v.terminal.activeBufferType == .primary)
        && exFeed v [0x1B, 0x5B, 0x32, 0x53] fun v' ch =>
             (exText ch.scrollback == [[97, 97, 97], [98, 98, 98]])
             && (exText v'.lines == [[99, 99, 99], [100, 100, 100], [32, 32, 32], [32, 32, 32]])) = true := by decide +kernel

example : ∃ v v' ch, Reach v ∧ CmdText v.parser [0x1B, 0x44] .lf ∧ Spec.C06.coveredScroll .lf = true
    ∧ v.feedStr [0x1B, 0x44] = some (v', ch)
    ∧ exText v'.view = [[97, 97, 97], [99, 99, 99], [32, 32, 32], [100, 100, 100]] ∧ ch.scrollback = [] := by
  obtain ⟨v, hv, hf⟩ := exMk_some ex06_facts
  simp only [Bool.and_eq_true, beq_iff_eq] at hf
  obtain ⟨_, a4⟩ := hf
  obtain ⟨v', ch, b1, b2⟩ := exFeed_some a4
  simp only [Bool.and_eq_true, beq_iff_eq] at b2
  exact ⟨v, v', ch, exMk_reach (by decide) (by decide) (by decide) hv, .escFe .ind, rfl, b1,
    b2.1.1.1.1.1, b2.1.1.2⟩

example : ∃ v v' ch, Reach v ∧ CmdText v.parser ([0x1B, 0x5B] ++ [0x32] ++ [0x53]) (.su 2)
    ∧ v.feedStr [0x1B, 0x5B, 0x32, 0x53] = some (v', ch)
    ∧ exText ch.scrollback = [[97, 97, 97], [98, 98, 98]] := by
  obtain ⟨v, hv, hf⟩ := exMk_some ex06b_facts
  simp only [Bool.and_eq_true, beq_iff_eq] at hf
  obtain ⟨_, a4⟩ := hf
  obtain ⟨v', ch, b1, b2⟩ := exFeed_some a4
  simp only [Bool.and_eq_true, beq_iff_eq] at b2
  exact ⟨v, v', ch, exMk_reach (by decide) (by decide) (by decide) hv,
    CmdText.csi1 (.inl rfl) .su (by decide), b1, b2.1⟩

/-! C07: 4×2, "abcdefgh" typed (row 0 soft-wrapped, cursor wrap-pending on row 1), red pen.  `CSI 2 P`
    (DCH 2) first leaves the wrap-pending column and deletes one cell (capped); `CSI 1 K` (EL 1) erases
    the whole row and keeps the cursor. -/

def ex07ops : List PubOp := [.feedStr [97, 98, 99, 100, 101, 102, 103, 104, 27, 91, 51, 49, 109]]

theorem ex07_facts : exCheck 4 2 none ex07ops (fun v => (v.cursor == ⟨4, 1, true⟩) && v.terminal.pendingWrap
        && (exFeed v [0x1B, 0x5B, 0x32, 0x50] fun v' ch =>
             (exText v'.view == [[97, 98, 99, 100], [101, 102, 103, 32]]) && (v'.cursor == ⟨3, 1, true⟩)
             && (ch.lines == [1]) && (viewCell v' 1 3 == some (Cell.blank v.terminal.pen))
             && (viewMark v' 0 == some true))
        && (exFeed v [0x9B, 0x31, 0x4B] fun v' _ =>
             (exText v'.view == [[97, 98, 99, 100], [32, 32, 32, 32]]) && (v'.cursor == v.cursor))) = true := by decide +kernel

example : ∃ v v' ch, Reach v ∧ CmdText v.parser ([0x1B, 0x5B] ++ [0x32] ++ [0x50]) (.dch 2)
    ∧ Spec.C07.coveredEdit (.dch 2) = true ∧ v.feedStr [0x1B, 0x5B, 0x32, 0x50] = some (v', ch)
    ∧ exText v'.view = [[97, 98, 99, 100], [101, 102, 103, 32]] ∧ v'.cursor = ⟨3, 1, true⟩ := by
  obtain ⟨v, hv, hf⟩ := exMk_some ex07_facts
  simp only [Bool.and_eq_true, beq_iff_eq] at hf
  obtain ⟨⟨_, a3⟩, _⟩ := hf
  obtain ⟨v', ch, b1, b2⟩ := exFeed_some a3
  simp only [Bool.and_eq_true, beq_iff_eq] at b2
  exact ⟨v, v', ch, exMk_reach (by decide) (by decide) (by decide) hv,
    CmdText.csi1 (.inl rfl) .dch (by decide), rfl, b1, b2.1.1.1.1, b2.1.1.1.2⟩

/-! C08: 5×2, "ab" typed, italic pen, the parser left INSIDE an OSC string.  `ESC [ 1;38;5;200;48:2::1:2:300 m`
    aborts the string and sets bold, foreground 200, background rgb(1,2,44), italic kept; the `x` typed
    afterwards reports exactly that pen. -/

def ex08ops : List PubOp := [.feedStr [97, 98, 27, 91, 51, 109, 27, 93, 48, 59, 116, 105, 116, 108, 101]]

def ex08txt : List Nat :=
  [27, 91, 49, 59, 51, 56, 59, 53, 59, 50, 48, 48, 59, 52, 56, 58, 50, 58, 58, 49, 58, 50, 58, 51, 48, 48, 109]

def ex08obs : Spec.C08.Obs :=
  (some (.indexed 200), some (.rgb 1 2 44), true, false, true, false, false, false, false)

theorem ex08_facts : exCheck 5 2 none ex08ops (fun v => (v.parser.state == .OscString)
        && (Spec.C08.parseSgrText ex08txt == some [[1], [38], [5], [200], [48, 2, 0, 1, 2, 300]])
        && (Spec.C08.obsRef (Spec.C08.Pen.obs v.terminal.pen)
              (Spec.C08.sgrRefOps [[1], [38], [5], [200], [48, 2, 0, 1, 2, 300]]) == ex08obs)
        && exFeed v ex08txt fun v1 ch1 =>
             (Spec.C08.Pen.obs v1.terminal.pen == ex08obs) && (ch1.lines == []) && (v1.view == v.view)
             && exFeed v1 [0x78] fun v2 _ =>
                  ((Spec.C08.printedCell v1.terminal v2.terminal).map fun c => (c.ch, Spec.C08.Pen.obs c.pen))
                    == some (0x78, ex08obs)) = true := by decide +kernel

example : ∃ v v1 ch1, Reach v ∧ v.parser.state = .OscString
    ∧ Spec.C08.parseSgrText ex08txt = some [[1], [38], [5], [200], [48, 2, 0, 1, 2, 300]]
    ∧ v.feedStr ex08txt = some (v1, ch1) ∧ Spec.C08.Pen.obs v1.terminal.pen = ex08obs ∧ v1.view = v.view := by
  obtain ⟨v, hv, hf⟩ := exMk_some ex08_facts
  simp only [Bool.and_eq_true, beq_iff_eq] at hf
  obtain ⟨⟨⟨a1, a2⟩, _⟩, a4⟩ := hf
  obtain ⟨v1, ch1, b1, b2⟩ := exFeed_some a4
  simp only [Bool.and_eq_true, beq_iff_eq] at b2
  exact ⟨v, v1, ch1, exMk_reach (by decide) (by decide) (by decide) hv, a1, a2, b1, b2.1.1.1, b2.1.2⟩

/-! C17: 5×3, origin mode on, green pen, "abcde" typed (cursor wrap-pending).  `ESC 7`; then a middle
    text that moves, turns origin mode and auto-wrap off, resets the pen, prints, erases, reverse-indexes
    and ends inside `ESC [`; then `0x9B u`.  Column 4 (= 5 clamped), row 0, green pen, origin mode and
    auto-wrap on again. -/

def ex17ops : List PubOp := [.feedStr [27, 91, 63, 54, 104, 27, 91, 51, 50, 109, 97, 98, 99, 100, 101]]

def ex17mid : List Nat :=
  [27, 91, 50, 59, 50, 72, 27, 91, 63, 54, 108, 27, 91, 63, 55, 108, 27, 91, 48, 59, 55, 109, 120, 121, 122, 27, 91,
   50, 74, 27, 77, 27, 91]

theorem ex17_facts : exCheck 5 3 none ex17ops (fun v => (v.cursor == ⟨5, 0, true⟩) && v.terminal.originMode
        && exFeed v [0x1B, 0x37] fun v1 _ =>
             (Frame.emitted v1.parser ex17mid).all (fun f => !Spec.C17.touchesCtx f)
             && exFeed v1 ex17mid fun v2 _ =>
                  (v2.parser.state == .CsiEntry) && !v2.terminal.originMode && !v2.terminal.autoWrapMode
                  && exFeed v2 [0x9B, 0x75] fun v3 _ =>
                       (v3.cursor == ⟨4, 0, true⟩) && v3.terminal.originMode && v3.terminal.autoWrapMode
                       && (v3.terminal.pen == v.terminal.pen) && !v3.terminal.pendingWrap) = true := by decide +kernel

example : ∃ v v1 c1 v2 c2 v3 c3, Reach v ∧ v.feedStr [0x1B, 0x37] = some (v1, c1)
    ∧ (∀ f ∈ Frame.emitted v1.parser ex17mid, Spec.C17.touchesCtx f = false)
    ∧ v1.feedStr ex17mid = some (v2, c2) ∧ v2.parser.state = .CsiEntry
    ∧ v2.feedStr ([0x9B] ++ [0x75]) = some (v3, c3) ∧ v3.cursor = ⟨4, 0, true⟩
    ∧ v3.cursor.col = min v.cursor.col (v.terminal.cols - 1) ∧ v3.terminal.pen = v.terminal.pen := by
  obtain ⟨v, hv, hf⟩ := exMk_some ex17_facts
  simp only [Bool.and_eq_true, beq_iff_eq] at hf
  obtain ⟨_, a3⟩ := hf
  obtain ⟨v1, c1, b1, b2⟩ := exFeed_some a3
  simp only [Bool.and_eq_true, List.all_eq_true, Bool.not_eq_true'] at b2
  obtain ⟨b2, b3⟩ := b2
  obtain ⟨v2, c2, d1, d2⟩ := exFeed_some b3
  simp only [Bool.and_eq_true, beq_iff_eq] at d2
  obtain ⟨⟨⟨d2, _⟩, _⟩, d5⟩ := d2
  obtain ⟨v3, c3, g1, g2⟩ := exFeed_some d5
  simp only [Bool.and_eq_true, beq_iff_eq] at g2
  have hR : Reach v := exMk_reach (by decide) (by decide) (by decide) hv
  have r := Api_C17 hR (CmdText.decsc (p := v.parser)).seq (.inl rfl) b1 b2 d1
    (CmdText.scorc (p := v2.parser) (.inr rfl)).seq (.inr (.inl rfl)) g1
  exact ⟨v, v1, c1, v2, c2, v3, c3, hR, b1, b2, d1, d2, g1, g2.1.1.1.1, r.1, r.2.2.1⟩

/-! C17, separate screens: on the C17 state, `ESC 7`; `CSI ?1047h`; on the alternate screen a move, another
    `ESC 7`, text, `resize(4,2)`, per-character `ESC 8`; `CSI ?1047l`; `ESC 8`.  The primary's context comes
    back, its column clamped into the 4-column screen. -/

def ex17bOps : List PubOp :=
  [.feedStr [27, 91, 50, 59, 50, 72, 27, 55, 120, 121, 122], .resize 4 2, .feedChars [27, 56]]

theorem ex17b_facts : exCheck 5 3 none ex17ops (fun v =>
    (v.terminal.activeBufferType == .primary)
      && exFeed v [0x1B, 0x37] fun v1 _ =>
         exFeed v1 [0x1B, 0x5B, 0x3F, 0x31, 0x30, 0x34, 0x37, 0x68] fun v2 _ =>
           (Spec.C16.emitted v2.parser (Closed2.inputOf ex17bOps)).all (fun f => !Spec.C16.endsExcursion f)
           && match run v2 ex17bOps with
              | some v3 =>
                (v3.size == (4, 2))
                && exFeed v3 [0x9B, 0x3F, 0x31, 0x30, 0x34, 0x37, 0x6C] fun v4 _ =>
                     exFeed v4 [0x1B, 0x38] fun v5 _ =>
                       (v5.cursor == ⟨3, 0, true⟩) && (v5.terminal.pen == v.terminal.pen) && v5.terminal.originMode
              | none => false) = true := by decide +kernel

/-! C18: 20×2; typed text and a move, `resize(80,2)`, per-character `feed` of RIS + text,
    `resize(100,2)`, a dropped `feed_str` — no HTS / TBC / CTC anywhere.  The stops are those of a fresh
    100-column terminal (incl. column 80), and `CSI 2 I` from column 69 lands on column 80. -/

def ex18ops : List PubOp :=
  [.feedStr [97, 98, 99, 27, 91, 53, 67], .resize 80 2, .feedChars [27, 99, 120, 121], .resize 100 2,
   .feedDrop [27, 91, 55, 48, 71]]

theorem ex18_facts : exCheck 20 2 (some 3) ex18ops (fun v => (v.cursor == ⟨69, 0, true⟩)
        && (Frame.emitted Parser.new (Closed2.inputOf ex18ops)).all (fun f => !Spec.C18.editsTabs f)
        && (v.terminal.tabs == [8, 16, 24, 32, 40, 48, 56, 64, 72, 80, 88, 96])
        && exFeed v [0x1B, 0x5B, 0x32, 0x49] fun v' _ => v'.cursor == ⟨80, 0, true⟩) = true := by decide +kernel

example : ∃ v v' ch, exMk 20 2 (some 3) ex18ops = some v ∧ Reach v
    ∧ (∀ f ∈ Frame.emitted Parser.new (Closed2.inputOf ex18ops), Spec.C18.editsTabs f = false)
    ∧ v.terminal.tabs = Spec.C18.tabsRef v.terminal.cols
    ∧ CmdText v.parser ([0x1B, 0x5B] ++ [0x32] ++ [0x49]) (.cht 2)
    ∧ v.feedStr [0x1B, 0x5B, 0x32, 0x49] = some (v', ch) ∧ v'.cursor = ⟨80, 0, true⟩ := by
  obtain ⟨v, hv, hf⟩ := exMk_some ex18_facts
  simp only [Bool.and_eq_true, beq_iff_eq, List.all_eq_true, Bool.not_eq_true'] at hf
  obtain ⟨⟨⟨_, a2⟩, _⟩, a4⟩ := hf
  obtain ⟨v', ch, b1, b2⟩ := exFeed_some a4
  have hv' := hv
  unfold exMk at hv'
  cases h0 : Vt.new 20 2 (some 3) with
  | none => rw [h0] at hv'; cases hv'
  | some v0 =>
    rw [h0] at hv'
    exact ⟨v, v', ch, hv, exMk_reach (by decide) (by decide) (by decide) hv, a2,
      (Api_C18_never_customised (by decide) h0 a2 hv').1, CmdText.csi1 (.inl rfl) .cht (by decide), b1,
      by simpa using b2⟩

/-! C15: 5×3 with text, flags cleared by the previous `feed_str`; `CSI 2;2H x CSI 1J LF LF y` changes all
    three rows and reports all three. -/

def ex15ops : List PubOp := [.feedStr [97, 98, 13, 10, 99]]
def ex15txt : List Nat := [27, 91, 50, 59, 50, 72, 120, 27, 91, 49, 74, 10, 10, 121]

theorem ex15_facts : exCheck 5 3 (some 2) ex15ops (fun v => exFeed v ex15txt fun v' ch =>
        (ch.lines == [0, 1, 2]) && ((List.range 3).all fun i => viewRow v' i != viewRow v i)
        && exFeed v [0x7A] fun v'' ch' => (ch'.lines == [1]) && (viewRow v'' 0 == viewRow v 0)) = true := by decide +kernel

example : ∃ v v' ch, Reach v ∧ v.feedStr ex15txt = some (v', ch) ∧ ch.lines = [0, 1, 2]
    ∧ ∀ i, i < 3 → viewRow v' i ≠ viewRow v i := by
  obtain ⟨v, hv, hf⟩ := exMk_some ex15_facts
  obtain ⟨v', ch, b1, b2⟩ := exFeed_some hf
  simp only [Bool.and_eq_true, beq_iff_eq, List.all_eq_true, List.mem_range, bne_iff_ne, ne_eq] at b2
  exact ⟨v, v', ch, exMk_reach (by decide) (by decide) (by decide) hv, b1, b2.1.1, b2.1.2⟩

/-! C20: 5×2, "hi" typed, insert mode on.  An OSC title ended by BEL (payload with `é`, LF, DEL), a DCS
    string ended by `ESC \`, `CSI > c`, `CSI 5 SP q`, `ESC =`, NUL, an APC string ended by 8-bit ST: nothing
    changes and no line is reported. -/

def ex20ops : List PubOp := [.feedStr [104, 105, 27, 91, 52, 104]]
def ex20txt : List Nat :=
  [27, 93, 48, 59, 116, 233, 10, 127, 7, 144, 49, 36, 114, 109, 27, 92, 27, 91, 62, 99, 155, 53, 32, 113, 27, 61, 0,
   159, 65, 156]

theorem ex20_facts : exCheck 5 2 none ex20ops (fun v => (v.parser.state == .Ground) && Spec.C20.isInertInput ex20txt && v.terminal.insertMode
        && exFeed v ex20txt fun v' ch =>
             (v'.view == v.view) && (v'.cursor == v.cursor) && (ch.lines == []) && (v'.parser.state == .Ground)
             && v'.terminal.insertMode && (v'.terminal.tabs == v.terminal.tabs)) = true := by decide +kernel

example : ∃ v v' ch, Reach v ∧ v.parser.state = .Ground ∧ Spec.C20.isInertInput ex20txt = true
    ∧ v.feedStr ex20txt = some (v', ch) ∧ v'.view = v.view ∧ v'.cursor = v.cursor ∧ ch.lines = [] := by
  obtain ⟨v, hv, hf⟩ := exMk_some ex20_facts
  simp only [Bool.and_eq_true, beq_iff_eq] at hf
  obtain ⟨⟨⟨a1, a2⟩, _⟩, a4⟩ := hf
  obtain ⟨v', ch, b1, b2⟩ := exFeed_some a4
  simp only [Bool.and_eq_true, beq_iff_eq] at b2
  exact ⟨v, v', ch, exMk_reach (by decide) (by decide) (by decide) hv, a1, a2, b1, b2.1.1.1.1.1,
    b2.1.1.1.1.2, b2.1.1.1.2⟩

/-! whole input: on the C05 state, `CSI 2 C  x  CR  LF  CSI K  HT` in ONE `feed_str` (the first sequence starts
    in CsiEntry): six functions, each covered; the result is the fold of the specifications. -/

def exWholeTxt : List Nat := [0x9B, 0x32, 0x43] ++ ([0x78] ++ ([0x0D] ++ ([0x0A] ++ ([0x1B, 0x5B, 0x4B] ++ ([0x09] ++ [])))))
def exWholeFs : List Function := [.cuf 2, .print 0x78, .cr, .lf, .el .toRight, .ht]

theorem exWhole_facts : exCheck 10 6 none ex05ops (fun v =>
    coveredRun stepCovered stepSpec exWholeFs v.terminal
      && exFeed v exWholeTxt fun v' ch =>
           (v'.terminal == finishT (exWholeFs.foldl stepSpec v.terminal)) && (v'.cursor == ⟨8, 2, true⟩)
           && (ch.lines == [1, 2])) = true := by decide +kernel

example : ∃ v v' ch, Reach v ∧ Texts v.parser exWholeTxt exWholeFs
    ∧ coveredRun stepCovered stepSpec exWholeFs v.terminal = true
    ∧ v.feedStr exWholeTxt = some (v', ch)
    ∧ v'.terminal = finishT (exWholeFs.foldl stepSpec v.terminal) ∧ v'.cursor = ⟨8, 2, true⟩ := by
  obtain ⟨v, hv, hf⟩ := exMk_some exWhole_facts
  simp only [Bool.and_eq_true] at hf
  obtain ⟨a1, a2⟩ := hf
  obtain ⟨v', ch, b1, b2⟩ := exFeed_some a2
  simp only [Bool.and_eq_true, beq_iff_eq] at b2
  have hx : Texts v.parser exWholeTxt exWholeFs :=
    .cons (CmdText.csi1 (p := v.parser) (.inr rfl) .cuf (by decide : Digits [0x32])).seq fun q1 g1 =>
    .cons (SeqText.print g1 (by decide)) fun q2 g2 =>
    .cons (SeqText.ctl g2 (f := .cr) (by decide)) fun q3 g3 =>
    .cons (SeqText.ctl g3 (f := .lf) (c := 0x0A) (by decide)) fun q4 _ =>
    .cons (CmdText.sel (p := q4) (intro := [0x1B, 0x5B]) (ds := []) (f := .el .toRight) (.inl rfl) .el
        (by decide) (by decide)).seq fun q5 g5 =>
    .cons (SeqText.ctl g5 (f := .ht) (by decide)) fun q6 _ => .nil q6
  exact ⟨v, v', ch, exMk_reach (by decide) (by decide) (by decide) hv, hx, a1, b1, b2.1.1, b2.1.2⟩

end Examples

end Avt.Props.Api
