/-
  Avt.Props.Closed2 — second round of hypothesis-minimal restatements (after Avt.Props.Closed).

  C12  `C12_feedStrs` carried two `altClean` hypotheses ("`feed_str` leaves no scrollback on the
       alternate screen") that are instances of C13.  They are discharged here from `Inv` of the
       start state alone: every `feed_str` returns in a state satisfying `Inv` with
       `trim_needed = false` (`Closed.Vt_feedStr_ok`), and then the alternate buffer (limit 0, part of
       `Inv`) has no scrollback (`altClean_of_trimmed`).
         C12_feedStrs_closed, C12_feedStr_closed, C12_chunking (existence + equivalence, no "this call
         returned" hypotheses), C12_reachable (the property's headline over `Reach`, incl. per-char
         `feed`), `equivChunk_observables`; `C12_empty_series_needs_clean`: the one side condition
         left (an EMPTY series of calls vs. `feed_str ""` from a state that per-character `feed()`
         calls left untrimmed) is necessary — it is KF4 seen from C12's side.

  C16  excursions at the `Vt` level over reachable states, with `resize` calls in between, no
       `TInv`-style hypothesis left:
         C16_run_frame / C16_run_throughout   any list of public calls (feed_str, feed per char, resize)
                                              on the alternate screen whose emitted functions neither
                                              leave nor hard-reset: parked primary, its saved context and
                                              `text()` are constant after every call — no hypothesis on
                                              the state at all;
         C16_vt_enter                         the entering `feed_str` from a reachable primary state;
         C16_vt_excursion                     enter + calls: `text()` constant throughout;
         C16_vt_leave / C16_vt_excursion_resized   the leaving `feed_str` after any such excursion,
                                              whatever resizes happened: `Inv`, `geomOK`, primary at the
                                              current size, the marked logical lines kept or cut short
                                              (counting the scrollback lines the leaving call hands out),
                                              `text()` never altered; with unlimited scrollback and
                                              1049/1049 the cursor is on the same character (C10's
                                              `resizeRel`).

  C14  `C14_stream_closed`: the stream equation with the existence of both sessions proved (C01/C02)
       instead of assumed.
-/
import Avt.Props.Closed
import Avt.Props.C12
import Avt.Props.C14
import Avt.Props.C16

namespace Avt.Props.Closed2
open Avt

/-! ## C12 -/

section C12
open Avt.Frame Avt.Spec.C12 Avt.C12

/-- C13 for the alternate screen, in the shape C12 uses: a state satisfying the invariant whose active
    buffer is trimmed (what every `feed_str` / `resize` returns) has no scrollback on the alternate
    screen -/
theorem altClean_of_trimmed {v : Vt} (h : Inv v = true) (ht : v.terminal.buffer.trimNeeded = false) :
    altClean v = true := by
  unfold altClean
  cases ha : v.terminal.activeBufferType with
  | primary => rfl
  | alternate =>
    have hlen := (C13.C13_bound h ht).2 ha
    obtain ⟨_, hk⟩ := (Vt.inv_iff v).1 h
    have hv := hk.bok.hv
    have hr := hk.brows
    have : v.terminal.buffer.sb.length = 0 := by
      simp only [Vt.lines, Terminal.lines, Buffer.lines, List.length_append] at hlen
      omega
    simp [List.length_eq_zero_iff.1 this]

/-- `altClean` after every `feed_str` from a state satisfying the invariant -/
theorem altClean_feedStr {v v' : Vt} {ch : Changes} {s : List Nat} (h : Inv v = true)
    (hs : v.feedStr s = some (v', ch)) : Inv v' = true ∧ altClean v' = true := by
  obtain ⟨v1, ch1, h1, h2, h3, _⟩ := Closed.Vt_feedStr_ok s h
  rw [hs] at h1; cases h1
  exact ⟨h2, altClean_of_trimmed h2 h3⟩

/-- a series of `feed_str` calls keeps the invariant; after at least one call (or from a clean start)
    the alternate screen holds no scrollback -/
theorem runFeeds_clean : ∀ (chunks : List (List Nat)) {v v2 : Vt} {d : List Line}, Inv v = true →
    (chunks ≠ [] ∨ altClean v = true) → runFeeds v chunks = some (v2, d) →
    Inv v2 = true ∧ altClean v2 = true
  | [], v, v2, d, hI, hc, h => by
    simp only [runFeeds, Option.some.injEq, Prod.mk.injEq] at h
    rw [← h.1]
    rcases hc with hc | hc
    · exact absurd rfl hc
    · exact ⟨hI, hc⟩
  | s :: ss, v, v2, d, hI, _, h => by
    simp only [runFeeds] at h
    cases hs : v.feedStr s with
    | none => simp [hs] at h
    | some r =>
      obtain ⟨v1, ch⟩ := r
      simp only [hs, Option.map_eq_some_iff] at h
      obtain ⟨⟨w, d'⟩, hr, he⟩ := h
      simp only [Prod.mk.injEq] at he
      obtain ⟨i1, c1⟩ := altClean_feedStr hI hs
      have := runFeeds_clean ss i1 (Or.inr c1) hr
      rw [← he.1]; exact this

/-- **C12, `feed_str`, hypothesis-minimal.**  From any state satisfying the invariant, a series of
    `feed_str` calls on consecutive pieces (cut anywhere) and one `feed_str` of the whole leave the
    same visible screen, cursor, modes, parser, parked buffer (`equivChunk`) under every scrollback
    limit, and with unlimited scrollback also the same `lines()` and primary scrollback
    (`equivLines`) — on the primary AND on the alternate screen.  Side condition: at least one call
    is made, or the start state has no alternate-screen scrollback (true after every `feed_str` /
    `resize`; see `C12_empty_series_needs_clean`). -/
theorem C12_feedStrs_closed {v v2 w : Vt} {cw : Changes} {chunks : List (List Nat)}
    (hI : Inv v = true) (hne : chunks ≠ [] ∨ altClean v = true)
    (h : feedStrs v chunks = some v2) (hw : v.feedStr chunks.flatten = some (w, cw)) :
    equivChunk v2 w = true ∧ (v.terminal.scrollbackLimit = none → equivLines v2 w = true) := by
  obtain ⟨h1, h2⟩ := C12_feedStrs hI h hw
  refine ⟨h1, fun hL => ?_⟩
  obtain ⟨_, _, h3⟩ := h2 hL
  have c2 : altClean v2 = true := by
    unfold feedStrs at h
    cases hr : runFeeds v chunks with
    | none => simp [hr] at h
    | some rd =>
      obtain ⟨v2', d⟩ := rd
      simp only [hr, Option.map_some, Option.some.injEq] at h
      subst h
      exact (runFeeds_clean chunks hI hne hr).2
  exact h3 c2 (altClean_feedStr hI hw).2

/-- the two-piece form: `feed_str xs; feed_str ys` vs `feed_str (xs ++ ys)` -/
theorem C12_feedStr_closed {v v1 v2 w : Vt} {c1 c2 cw : Changes} {xs ys : List Nat}
    (hI : Inv v = true) (h1 : v.feedStr xs = some (v1, c1)) (h2 : v1.feedStr ys = some (v2, c2))
    (hw : v.feedStr (xs ++ ys) = some (w, cw)) :
    equivChunk v2 w = true ∧ (v.terminal.scrollbackLimit = none → equivLines v2 w = true) := by
  have h : feedStrs v [xs, ys] = some v2 := by
    simp [feedStrs, runFeeds, h1, h2]
  have hw' : v.feedStr [xs, ys].flatten = some (w, cw) := by simpa using hw
  exact C12_feedStrs_closed hI (Or.inl (by simp)) h hw'

/-- **C12, no "this call returned" hypotheses**: from a state satisfying the invariant both ways of
    feeding return, and the results are equivalent -/
theorem C12_chunking {v : Vt} (hI : Inv v = true) (chunks : List (List Nat))
    (hne : chunks ≠ [] ∨ altClean v = true) :
    ∃ v2 w cw, feedStrs v chunks = some v2 ∧ v.feedStr chunks.flatten = some (w, cw)
      ∧ equivChunk v2 w = true ∧ (v.terminal.scrollbackLimit = none → equivLines v2 w = true) := by
  obtain ⟨w, cw, hw, _⟩ := Closed.C02_feedStr chunks.flatten hI
  have hsome : (feedStrs v chunks).isSome = true := by
    rw [C12_feedStrs_total chunks hI, hw]; rfl
  obtain ⟨v2, h2⟩ := Option.isSome_iff_exists.1 hsome
  obtain ⟨e1, e2⟩ := C12_feedStrs_closed hI hne h2 hw
  exact ⟨v2, w, cw, h2, hw, e1, e2⟩

/-- what `equivChunk` says in terms of the public accessors: same `view()`, `size()`, `cursor()`,
    cursor-key mode, the same modes, pen, margins, tabs, and the same parser state -/
theorem equivChunk_observables {a b : Vt} (h : equivChunk a b = true) :
    a.view = b.view ∧ a.size = b.size ∧ a.cursor = b.cursor
      ∧ a.cursorKeyAppMode = b.cursorKeyAppMode
      ∧ a.terminal.pendingWrap = b.terminal.pendingWrap
      ∧ a.terminal.insertMode = b.terminal.insertMode ∧ a.terminal.originMode = b.terminal.originMode
      ∧ a.terminal.autoWrapMode = b.terminal.autoWrapMode
      ∧ a.terminal.newLineMode = b.terminal.newLineMode
      ∧ a.terminal.activeBufferType = b.terminal.activeBufferType
      ∧ a.terminal.pen = b.terminal.pen ∧ a.terminal.tabs = b.terminal.tabs
      ∧ a.terminal.topMargin = b.terminal.topMargin ∧ a.terminal.bottomMargin = b.terminal.bottomMargin
      ∧ a.terminal.savedCtx = b.terminal.savedCtx ∧ a.parser = b.parser := by
  simp only [equivChunk, termEqv, scalarsEq, bufEqv, Bool.and_eq_true, beq_iff_eq] at h
  obtain ⟨hp, ⟨hs, hb⟩, _⟩ := h
  obtain ⟨⟨⟨⟨⟨⟨⟨⟨⟨⟨⟨⟨⟨⟨⟨⟨⟨⟨⟨⟨s1, s2⟩, s3⟩, _⟩, s5⟩, s6⟩, _⟩, _⟩, s9⟩, s10⟩, s11⟩, s12⟩, s13⟩, s14⟩, s15⟩,
    s16⟩, s17⟩, s18⟩, _⟩, _⟩, _⟩ := hs
  obtain ⟨⟨⟨⟨b1, _⟩, _⟩, _⟩, _⟩ := hb
  refine ⟨b1, ?_, s5, ?_, s15, s10, s11, s12, s13, s3, s6, s9, s16, s17, s18, hp⟩
  · simp [Vt.size, s1, s2]
  · simp [Vt.cursorKeyAppMode, s14]

/-- **C12, in the property's words, over reachable states.**  For every state reachable through the
    public API, every input string `xs` and every way `chunks` of cutting it into consecutive pieces
    (at least one piece; cut anywhere, also inside an escape sequence): one `feed_str` of the whole,
    the series of `feed_str` calls on the pieces, and `feed()` one character at a time all return,
    and leave the same visible screen, cursor, modes (`equivChunk`, see `equivChunk_observables`);
    with unlimited scrollback the two `feed_str` ways leave the same `lines()` (`equivLines`), and so
    does per-character `feed()` whenever the primary screen is showing at the end (on the alternate
    screen it does not: known finding KF4, `C12.C12_feed_full_false`). -/
theorem C12_reachable {v : Vt} (hR : Reach v) (xs : List Nat) (chunks : List (List Nat))
    (hcat : chunks.flatten = xs) (hne : chunks ≠ []) :
    ∃ w cw v2 g, v.feedStr xs = some (w, cw) ∧ feedStrs v chunks = some v2 ∧ feedChars v xs = some g
      ∧ equivChunk v2 w = true ∧ equivChunk w g = true
      ∧ (v.terminal.scrollbackLimit = none →
          equivLines v2 w = true
          ∧ w.terminal.primaryBuffer.sb = g.terminal.primaryBuffer.sb
          ∧ (g.terminal.activeBufferType = .primary → w.lines = g.lines)) := by
  have hI := Closed.C02_reach hR
  obtain ⟨v2, w, cw, h2, hw, e1, e2⟩ := C12_chunking hI chunks (Or.inl hne)
  rw [hcat] at hw
  obtain ⟨g, hg, _⟩ := Closed.C02_feedAll xs hI
  obtain ⟨e3, e4⟩ := C12_feedChars_partial hI hg hw
  exact ⟨w, cw, v2, g, hw, h2, hg, e1, e3, fun hL => ⟨e2 hL, (e4 hL).1, (e4 hL).2⟩⟩

/-- the side condition of `C12_feedStrs_closed` cannot be dropped: the state KF4's witness reaches by
    per-character `feed()` satisfies the invariant (it is reachable), the EMPTY series of `feed_str`
    calls leaves it as it is, while `feed_str ""` trims the row that scrolled off the alternate
    screen — `lines()` differ. -/
theorem C12_empty_series_needs_clean :
    ∃ v, Reach v ∧ Inv v = true ∧ v.terminal.scrollbackLimit = none ∧ altClean v = false
      ∧ ∃ w cw, feedStrs v [] = some v ∧ v.feedStr ([] : List (List Nat)).flatten = some (w, cw)
          ∧ equivChunk v w = true ∧ equivLines v w = false := by
  have hf : (match Vt.new 7 1 none with
      | some v0 =>
        (match run v0 [.feedChars kf4Input] with
         | some v =>
           (match v.feedStr [] with
            | some (w, _) => Inv v && (v.terminal.scrollbackLimit == none) && !altClean v
                && equivChunk v w && !equivLines v w
            | none => false)
         | none => false)
      | none => false) = true := by decide +kernel
  cases h0 : Vt.new 7 1 none with
  | none => rw [h0] at hf; cases hf
  | some v0 =>
    rw [h0] at hf
    dsimp only at hf
    cases h1 : run v0 [.feedChars kf4Input] with
    | none => rw [h1] at hf; cases hf
    | some v =>
      rw [h1] at hf
      dsimp only at hf
      cases h2 : v.feedStr [] with
      | none => rw [h2] at hf; cases hf
      | some r =>
        obtain ⟨w, cw⟩ := r
        rw [h2] at hf
        dsimp only at hf
        simp only [Bool.and_eq_true, beq_iff_eq, Bool.not_eq_true'] at hf
        obtain ⟨⟨⟨⟨a1, a2⟩, a3⟩, a4⟩, a5⟩ := hf
        refine ⟨v, ⟨7, 1, none, v0, [.feedChars kf4Input], by decide, by decide, h0, ?_, h1⟩, a1, a2, a3,
          w, cw, rfl, h2, a4, a5⟩
        intro op hop
        rw [List.mem_singleton.1 hop]; trivial

end C12

/-! ## C16 — excursions through the public API, over reachable states -/

section C16
open Avt.Spec.C16 Avt.C16 Avt.Props.C16

/-- the two copies of `emitted` (Spec/C16.lean for the oracle, Lemmas/FrameVt.lean) are the same function -/
theorem emitted_eq : ∀ (s : List Nat) (p : Parser), emitted p s = Frame.emitted p s
  | [], _ => rfl
  | c :: cs, p => by
    simp only [emitted, Frame.emitted]
    cases hp : p.feed c with
    | none => rfl
    | some r =>
      obtain ⟨p', o⟩ := r
      cases o with
      | none => exact emitted_eq cs p'
      | some f => simp only []; rw [emitted_eq cs p']

/-- `feed_str`'s fold executes exactly the emitted functions, in order -/
theorem feedAll_exec : ∀ (s : List Nat) {v g : Vt}, v.feedAll s = some g →
    Terminal.foldM' Terminal.execute (emitted v.parser s) v.terminal = some g.terminal
  | [], v, g, h => by
    simp only [Vt.feedAll, Option.some.injEq] at h
    subst h; rfl
  | c :: cs, v, g, h => by
    simp only [Vt.feedAll] at h
    cases hf : v.feed c with
    | none => simp [hf] at h
    | some v1 =>
      simp only [hf] at h
      have ih := feedAll_exec cs h
      unfold Vt.feed at hf
      cases hp : v.parser.feed c with
      | none => simp [hp] at hf
      | some r =>
        obtain ⟨p', o⟩ := r
        cases o with
        | none =>
          simp only [hp, Option.some.injEq] at hf
          subst hf
          simpa [emitted, hp] using ih
        | some f =>
          simp only [hp, Option.map_eq_some_iff] at hf
          obtain ⟨t, ht, rfl⟩ := hf
          simp only [emitted, hp, Terminal.foldM', ht]
          exact ih

theorem feedStr_split {v v' : Vt} {ch : Changes} {s : List Nat} (h : v.feedStr s = some (v', ch)) :
    ∃ g, v.feedAll s = some g ∧ v' = g.finish.1 ∧ ch = g.finish.2 := by
  unfold Vt.feedStr at h
  cases hg : v.feedAll s with
  | none => simp [hg] at h
  | some g =>
    simp only [hg, Option.map_some, Option.some.injEq] at h
    exact ⟨g, rfl, by rw [h], by rw [h]⟩

/-- a `feed_str` whose input makes the parser emit exactly one function executes that function and
    then runs `changes()` + `gc()` -/
theorem feedStr_single {v v' : Vt} {ch : Changes} {s : List Nat} {f : Function}
    (hs : emitted v.parser s = [f]) (h : v.feedStr s = some (v', ch)) :
    ∃ g, v.feedAll s = some g ∧ v.terminal.execute f = some g.terminal ∧ v' = g.finish.1
      ∧ ch = g.finish.2 := by
  obtain ⟨g, hg, e1, e2⟩ := feedStr_split h
  have := feedAll_exec s hg
  rw [hs] at this
  simp only [Terminal.foldM'] at this
  cases he : v.terminal.execute f with
  | none => simp [he] at this
  | some t =>
    simp only [he, Option.some.injEq] at this
    exact ⟨g, hg, by rw [this], e1, e2⟩

/-- the characters a public call feeds to the parser -/
def PubOp.input : PubOp → List Nat
  | .feedStr s | .feedDrop s | .feedChars s => s
  | .resize _ _ => []

/-- … and a list of public calls, in order (`resize` does not touch the parser) -/
def inputOf (ops : List PubOp) : List Nat := (ops.map PubOp.input).flatten

theorem inputOf_cons (op : PubOp) (ops : List PubOp) : inputOf (op :: ops) = PubOp.input op ++ inputOf ops := by
  simp [inputOf]

theorem inputOf_append (a b : List PubOp) : inputOf (a ++ b) = inputOf a ++ inputOf b := by
  simp [inputOf]

theorem emitted_prefix : ∀ (a b : List Nat) (p : Parser) (f : Function), f ∈ emitted p a →
    f ∈ emitted p (a ++ b)
  | [], _, _, _, h => by simp [emitted] at h
  | c :: cs, b, p, f, h => by
    simp only [List.cons_append, emitted] at h ⊢
    cases hp : p.feed c with
    | none => simp [hp] at h
    | some r =>
      obtain ⟨p', o⟩ := r
      cases o with
      | none =>
        simp only [hp] at h ⊢
        exact emitted_prefix cs b p' f h
      | some g =>
        simp only [hp, List.mem_cons] at h ⊢
        rcases h with h | h
        · exact .inl h
        · exact .inr (emitted_prefix cs b p' f h)

theorem feedStr_step_frame {v v' : Vt} {s : List Nat} (ha : v.terminal.activeBufferType = .alternate)
    (hq : ∀ f ∈ emitted v.parser s, endsExcursion f = false) (h : (v.feedStr s).map (·.1) = some v') :
    (v'.terminal.otherBuffer = v.terminal.otherBuffer
      ∧ v'.terminal.alternateSavedCtx = v.terminal.alternateSavedCtx
      ∧ v'.terminal.activeBufferType = .alternate ∧ v'.text = v.text)
    ∧ ∀ rest, emitted v.parser (s ++ rest) = emitted v.parser s ++ emitted v'.parser rest := by
  cases hr : v.feedStr s with
  | none => simp [hr] at h
  | some r =>
    obtain ⟨w, ch⟩ := r
    simp only [hr, Option.map_some, Option.some.injEq] at h
    subst h
    refine ⟨C16_feedStr ha hq hr, fun rest => ?_⟩
    obtain ⟨g, hg, e1, _⟩ := feedStr_split hr
    have hp : w.parser = g.parser := by rw [e1]; rfl
    rw [emitted_eq, emitted_eq, emitted_eq, hp]
    exact Frame.emitted_feedAll hg rest

/-- one public call on the alternate screen, none of whose emitted functions leaves or hard-resets:
    the parked primary, its saved context, the active screen and `text()` stay; the parser moves on
    as the input dictates -/
theorem C16_step_frame {v v' : Vt} {op : PubOp} (ha : v.terminal.activeBufferType = .alternate)
    (hq : ∀ f ∈ emitted v.parser (PubOp.input op), endsExcursion f = false) (h : step v op = some v') :
    (v'.terminal.otherBuffer = v.terminal.otherBuffer
      ∧ v'.terminal.alternateSavedCtx = v.terminal.alternateSavedCtx
      ∧ v'.terminal.activeBufferType = .alternate ∧ v'.text = v.text)
    ∧ ∀ rest, emitted v.parser (PubOp.input op ++ rest)
        = emitted v.parser (PubOp.input op) ++ emitted v'.parser rest := by
  cases op with
  | feedStr s => exact feedStr_step_frame ha hq h
  | feedDrop s => exact feedStr_step_frame ha hq h
  | feedChars s =>
    simp only [step] at h
    refine ⟨C16_feedAll ha hq h, fun rest => ?_⟩
    simp only [PubOp.input]
    rw [emitted_eq, emitted_eq, emitted_eq]
    exact Frame.emitted_feedAll h rest
  | resize c r =>
    simp only [step] at h
    cases hr : v.resize c r with
    | none => simp [hr] at h
    | some res =>
      obtain ⟨w, ch⟩ := res
      simp only [hr, Option.map_some, Option.some.injEq] at h
      subst h
      refine ⟨C16_vtResize ha hr, fun rest => ?_⟩
      have hp : w.parser = v.parser := by
        unfold Vt.resize at hr
        cases ht : v.terminal.resize c r with
        | none => simp [ht] at hr
        | some t =>
          simp only [ht, Option.map_some, Option.some.injEq] at hr
          have : w = (Vt.finish { parser := v.parser, terminal := t }).1 := by rw [hr]
          rw [this]; rfl
      simp [PubOp.input, emitted, hp]

/-- **C16, frame, any list of public calls.**  While the alternate screen is showing, any list of
    `feed_str` / per-character `feed` / `resize` calls — of any state whatsoever, no invariant
    needed — none of whose emitted functions leaves the alternate screen or is RIS, leaves the parked
    primary buffer, its saved context and `text()` exactly as they were. -/
theorem C16_run_frame : ∀ (ops : List PubOp) {v v' : Vt}, v.terminal.activeBufferType = .alternate →
    (∀ f ∈ emitted v.parser (inputOf ops), endsExcursion f = false) → run v ops = some v' →
    v'.terminal.otherBuffer = v.terminal.otherBuffer
      ∧ v'.terminal.alternateSavedCtx = v.terminal.alternateSavedCtx
      ∧ v'.terminal.activeBufferType = .alternate ∧ v'.text = v.text
  | [], v, v', ha, _, h => by
    simp only [run, Option.some.injEq] at h
    subst h; exact ⟨rfl, rfl, ha, rfl⟩
  | op :: ops, v, v', ha, hq, h => by
    simp only [run] at h
    cases hs : step v op with
    | none => simp [hs] at h
    | some v1 =>
      simp only [hs] at h
      rw [inputOf_cons] at hq
      obtain ⟨⟨a1, a2, a3, a4⟩, hem⟩ :=
        C16_step_frame ha (fun f hf => hq f (emitted_prefix _ _ _ f hf)) hs
      have hq1 : ∀ f ∈ emitted v1.parser (inputOf ops), endsExcursion f = false := by
        intro f hf
        apply hq f
        rw [hem]; exact List.mem_append_right _ hf
      obtain ⟨b1, b2, b3, b4⟩ := C16_run_frame ops a3 hq1 h
      exact ⟨b1.trans a1, b2.trans a2, b3, b4.trans a4⟩

theorem run_append : ∀ (a b : List PubOp) (v : Vt),
    run v (a ++ b) = match run v a with | some w => run w b | none => none
  | [], b, v => rfl
  | op :: a, b, v => by
    simp only [List.cons_append, run]
    cases step v op with
    | none => rfl
    | some v1 => exact run_append a b v1

/-- … and this holds after EVERY call of the list (`text()` is constant throughout) -/
theorem C16_run_throughout {ops : List PubOp} {v : Vt} (ha : v.terminal.activeBufferType = .alternate)
    (hq : ∀ f ∈ emitted v.parser (inputOf ops), endsExcursion f = false)
    (pre post : List PubOp) (hsplit : ops = pre ++ post) {w : Vt} (hw : run v pre = some w) :
    w.terminal.otherBuffer = v.terminal.otherBuffer
      ∧ w.terminal.alternateSavedCtx = v.terminal.alternateSavedCtx
      ∧ w.terminal.activeBufferType = .alternate ∧ w.text = v.text := by
  refine C16_run_frame pre ha (fun f hf => hq f ?_) hw
  rw [hsplit, inputOf_append]
  exact emitted_prefix _ _ _ f hf

/-- `changes()` + `gc()` keep size, active screen, text of the parked buffer, the view -/
theorem finish_keeps (g : Vt) :
    g.finish.1.terminal.activeBufferType = g.terminal.activeBufferType
      ∧ g.finish.1.terminal.otherBuffer = g.terminal.otherBuffer
      ∧ g.finish.1.terminal.alternateSavedCtx = g.terminal.alternateSavedCtx
      ∧ g.finish.1.size = g.size ∧ g.finish.1.terminal.cursor = g.terminal.cursor
      ∧ g.finish.1.terminal.pen = g.terminal.pen
      ∧ g.finish.1.terminal.originMode = g.terminal.originMode
      ∧ g.finish.1.terminal.autoWrapMode = g.terminal.autoWrapMode
      ∧ g.finish.1.terminal.pendingWrap = g.terminal.pendingWrap
      ∧ g.finish.1.terminal.scrollbackLimit = g.terminal.scrollbackLimit
      ∧ g.finish.1.terminal.buffer = g.terminal.buffer.gc.1 :=
  ⟨rfl, rfl, rfl, rfl, rfl, rfl, rfl, rfl, rfl, rfl, rfl⟩

/-- **C16, entering through `feed_str`.**  From a state satisfying the invariant (every reachable
    state) with the primary showing, a `feed_str` whose input makes the parser emit exactly
    `DECSET 47/1047/1049`: the invariant holds, the alternate screen is showing — blank, current pen,
    no scrollback — at the same size, the primary buffer is parked unchanged with its saved context
    (for 1049: the entry cursor), and `text()` is unchanged. -/
theorem C16_vt_enter {v v0 : Vt} {ch0 : Changes} {s0 : List Nat} {me : DecMode}
    (hI : Inv v = true) (hp : v.terminal.activeBufferType = .primary)
    (hme : isAltScreenMode me = true) (hs0 : emitted v.parser s0 = [.decset [me]])
    (h0 : v.feedStr s0 = some (v0, ch0)) :
    Inv v0 = true ∧ v0.terminal.activeBufferType = .alternate
      ∧ v0.terminal.otherBuffer = v.terminal.buffer
      ∧ v0.terminal.alternateSavedCtx = parkedCtx v.terminal (me == .saveCursorAltScreenBuffer)
      ∧ v0.text = v.text ∧ v0.size = v.size
      ∧ v0.view = blankScreen v.terminal.cols v.terminal.rows v.terminal.pen := by
  obtain ⟨v0', ch', h0', hI0, _⟩ := Closed.C02_feedStr s0 hI
  rw [h0] at h0'; cases h0'
  obtain ⟨g, _, hex, e1, _⟩ := feedStr_single hs0 h0
  have hT : TInv v.terminal = true := by
    simp only [Inv, Bool.and_eq_true] at hI; exact hI.2
  obtain ⟨c1, c2, c3, _, c5⟩ := C16_enter hT hp hme hex
  obtain ⟨f1, f2, f3, f4, _⟩ := finish_keeps g
  simp only [freshAlternate, Bool.and_eq_true, beq_iff_eq] at c1
  obtain ⟨⟨⟨⟨k1, k2⟩, k3⟩, k4⟩, _⟩ := c1
  have hview : g.finish.1.view = g.view := (Avt.C14.C14_finish g).1
  subst e1
  refine ⟨hI0, f1.trans k1, f2.trans c2, f3.trans c3, ?_, ?_, ?_⟩
  · show g.finish.1.terminal.text = v.terminal.text
    rw [text_alt (f1.trans k1), f2, ← text_alt k1]; exact c5
  · rw [f4]; simp [Vt.size, k2, k3]
  · rw [hview]; exact k4

/-- **C16 through the public API, over reachable states** (Task: no `TInv`-style hypothesis).  From any
    reachable state with the primary showing: a `feed_str` that enters the alternate screen
    (`?47/1047/1049h`), then any list of `feed_str` / `feed` / `resize` calls none of whose emitted
    functions leaves the alternate screen or is RIS — after the entering call and after every later
    call `text()` is what it was, the alternate screen is showing, and the parked primary buffer is
    the marked one. -/
theorem C16_vt_excursion {v v0 : Vt} {ch0 : Changes} {s0 : List Nat} {me : DecMode} {ops : List PubOp}
    (hR : Reach v) (hp : v.terminal.activeBufferType = .primary)
    (hme : isAltScreenMode me = true) (hs0 : emitted v.parser s0 = [.decset [me]])
    (h0 : v.feedStr s0 = some (v0, ch0))
    (hq : ∀ f ∈ emitted v0.parser (inputOf ops), endsExcursion f = false)
    (pre post : List PubOp) (hsplit : ops = pre ++ post) {w : Vt} (hw : run v0 pre = some w) :
    w.text = v.text ∧ w.terminal.activeBufferType = .alternate
      ∧ w.terminal.otherBuffer = v.terminal.buffer
      ∧ w.terminal.alternateSavedCtx = parkedCtx v.terminal (me == .saveCursorAltScreenBuffer) := by
  obtain ⟨_, a2, a3, a4, a5, _, _⟩ := C16_vt_enter (Closed.C02_reach hR) hp hme hs0 h0
  obtain ⟨b1, b2, b3, b4⟩ := C16_run_throughout a2 hq pre post hsplit hw
  exact ⟨b4.trans a5, b3, b1.trans a3, b2.trans a4⟩

/-! ### leaving through `feed_str`, after any resizes -/

theorem gc_unlimited {b : Buffer} (h : b.limit = none) :
    b.gc.1.sb = b.sb ∧ b.gc.1.view = b.view ∧ b.gc.2 = [] := by
  unfold Buffer.gc
  split
  · simp [h]
  · exact ⟨rfl, rfl, rfl⟩

/-- **C16, leaving through `feed_str`** from any state of an excursion (invariant, alternate screen
    showing, parked buffer = the marked primary `m.buffer`; the terminal may have been resized since
    the mark).  A `feed_str` whose input makes the parser emit exactly `DECRST 47/1047/1049`:
    * the invariant and the API-level geometry (`geomOK`) hold, the primary is showing, `size()` is
      unchanged;
    * the scrollback lines the call hands out (`Changes.scrollback`, the `gc()` of a finite limit)
      followed by `lines()` have the marked logical lines, each kept, the last one possibly cut short,
      blank filler aside (`keptOrCut`), hence their text is `textRel` to the marked text;
    * with unlimited scrollback nothing is handed out, `text()` itself is `textRel` to the marked text,
      and C10's `resizeRel` holds for the cursor fed to the deferred resize. -/
theorem C16_vt_leave {m : Terminal} {v1 v2 : Vt} {ch2 : Changes} {s2 : List Nat} {ml : DecMode}
    (hI : Inv v1 = true) (ha : v1.terminal.activeBufferType = .alternate)
    (hpark : v1.terminal.otherBuffer = m.buffer) (hml : isAltScreenMode ml = true)
    (hs2 : emitted v1.parser s2 = [.decrst [ml]]) (h2 : v1.feedStr s2 = some (v2, ch2)) :
    Inv v2 = true ∧ geomOK v2 = true ∧ v2.terminal.activeBufferType = .primary ∧ v2.size = v1.size
      ∧ Spec.C10.keptOrCut (Spec.C10.logicalLines m.buffer.lines)
          (Spec.C10.logicalLines (ch2.scrollback ++ v2.lines)) = true
      ∧ textRel m.buffer.text (Buffer.textGo (ch2.scrollback ++ v2.lines) []) = true
      ∧ (v1.terminal.scrollbackLimit = none →
          ch2.scrollback = [] ∧ textRel m.buffer.text v2.text = true
          ∧ ((leaveCursor v1.terminal ml).2 < m.buffer.rows →
              Spec.C10.resizeRel (Spec.C10.logicalLines m.buffer.lines)
                (Spec.C10.logicalLines v2.terminal.buffer.lines)
                (Spec.C10.cursorLogical m.buffer (leaveCursor v1.terminal ml)).1
                (Spec.C10.cursorLogical m.buffer (leaveCursor v1.terminal ml)).2
                (cursorOf v2.terminal).1 (cursorOf v2.terminal).2
                (leavePending v1.terminal ml) = true)) := by
  obtain ⟨v2', ch', h2', hI2, _⟩ := Closed.C02_feedStr s2 hI
  rw [h2] at h2'; cases h2'
  obtain ⟨g, _, hex, e1, e2⟩ := feedStr_single hs2 h2
  have hT : TInv v1.terminal = true := by
    simp only [Inv, Bool.and_eq_true] at hI; exact hI.2
  obtain ⟨r1, r2, r3, r4, r5, r6, r7⟩ := C16_resized hT ha hpark hml hex
  obtain ⟨f1, _, _, f4, f5, _, _, _, _, _, f11⟩ := finish_keeps g
  have hlines : ch2.scrollback ++ v2.lines = g.terminal.buffer.lines := by
    rw [e1, e2]; exact (Avt.C14.C14_finish g).2.1 r2
  subst e1
  refine ⟨hI2, (C02.C02_geom hI2).1, f1.trans r2, ?_, ?_, ?_, ?_⟩
  · rw [f4]; simp [Vt.size, r3, r4]
  · rw [hlines]; exact r5
  · rw [hlines]
    have : g.terminal.text = Buffer.textGo g.terminal.buffer.lines [] := by rw [text_prim r2]; rfl
    rw [← this]; exact r6
  · intro hL
    have hgeo := geo_execute (tinv_parts hT).2.2.2.2.2.2 hex
    have hsl : g.terminal.scrollbackLimit = none := by
      simp only [geo, Prod.mk.injEq] at hgeo; rw [hgeo.2.2.2]; exact hL
    have hlim : g.terminal.buffer.limit = none := by
      rcases (TOK.of_TInv r1).lim with ⟨_, hl⟩ | ⟨hx, _⟩
      · rw [hl, hsl]; rfl
      · rw [r2] at hx; cases hx
    obtain ⟨g1, g2, g3⟩ := gc_unlimited hlim
    have hsc : ch2.scrollback = [] := by
      rw [e2, Frame.finish_scrollback, r2]; simpa using g3
    have hbl : g.finish.1.terminal.buffer.lines = g.terminal.buffer.lines := by
      rw [f11]; simp [Buffer.lines, g1, g2]
    refine ⟨hsc, ?_, fun hrow => ?_⟩
    · have : g.finish.1.text = g.terminal.text := by
        show g.finish.1.terminal.text = _
        rw [text_prim (f1.trans r2), text_prim r2]
        simp only [Buffer.text]; rw [hbl]
      rw [this]; exact r6
    · have hc : cursorOf g.finish.1.terminal = cursorOf g.terminal := by
        simp only [cursorOf, Spec.C10.cursorLogical, f5, hbl]
        rw [f11, g1]
      rw [hc, hbl]; exact r7 hrow

/-- **C16 through the public API with resizes, over reachable states.**  From any reachable state
    `v` with the primary showing: an entering `feed_str` (`?47/1047/1049h`); any list of `feed_str` /
    per-character `feed` / `resize` calls (sizes ≥ 1×1) none of whose emitted functions leaves the
    alternate screen or is RIS; a leaving `feed_str` (`?47/1047/1049l`).  Then `text()` was constant
    until the leaving call, and on return: `Inv`, `geomOK`, primary showing at the size of the last
    resize; the lines handed out by the leaving call followed by `lines()` carry the logical lines of
    `v`, re-wrapped, none altered, at most cut short at the bottom; with unlimited scrollback `text()`
    itself is `textRel` to the old one and — for 1049 in, 1049 out — the cursor is in the same logical
    line, on the same character as at entry (column clamped to `cols-1`), with the pen, origin mode
    and auto-wrap mode of the mark and no wrap pending. -/
theorem C16_vt_excursion_resized {v v0 v1 v2 : Vt} {ch0 ch2 : Changes} {s0 s2 : List Nat}
    {me ml : DecMode} {ops : List PubOp}
    (hR : Reach v) (hp : v.terminal.activeBufferType = .primary)
    (hme : isAltScreenMode me = true) (hml : isAltScreenMode ml = true)
    (hs0 : emitted v.parser s0 = [.decset [me]]) (h0 : v.feedStr s0 = some (v0, ch0))
    (hv : ∀ op ∈ ops, op.valid)
    (hq : ∀ f ∈ emitted v0.parser (inputOf ops), endsExcursion f = false)
    (h1 : run v0 ops = some v1)
    (hs2 : emitted v1.parser s2 = [.decrst [ml]]) (h2 : v1.feedStr s2 = some (v2, ch2)) :
    v1.text = v.text
      ∧ Inv v2 = true ∧ geomOK v2 = true ∧ v2.terminal.activeBufferType = .primary ∧ v2.size = v1.size
      ∧ Spec.C10.keptOrCut (Spec.C10.logicalLines v.lines)
          (Spec.C10.logicalLines (ch2.scrollback ++ v2.lines)) = true
      ∧ textRel v.text (Buffer.textGo (ch2.scrollback ++ v2.lines) []) = true
      ∧ (v.terminal.scrollbackLimit = none →
          ch2.scrollback = [] ∧ textRel v.text v2.text = true
          ∧ (me = .saveCursorAltScreenBuffer → ml = .saveCursorAltScreenBuffer →
              Spec.C10.resizeRel (Spec.C10.logicalLines v.lines)
                  (Spec.C10.logicalLines v2.lines)
                  (Spec.C10.cursorLogical v.terminal.buffer
                    (min v.terminal.cursor.col (v.terminal.cols - 1), v.terminal.cursor.row)).1
                  (Spec.C10.cursorLogical v.terminal.buffer
                    (min v.terminal.cursor.col (v.terminal.cols - 1), v.terminal.cursor.row)).2
                  (cursorOf v2.terminal).1 (cursorOf v2.terminal).2 false = true
                ∧ v2.terminal.pen = v.terminal.pen ∧ v2.terminal.originMode = v.terminal.originMode
                ∧ v2.terminal.autoWrapMode = v.terminal.autoWrapMode
                ∧ v2.terminal.pendingWrap = false)) := by
  have hI := Closed.C02_reach hR
  have hT : TInv v.terminal = true := by
    simp only [Inv, Bool.and_eq_true] at hI; exact hI.2
  obtain ⟨i0, a2, a3, a4, a5, _, _⟩ := C16_vt_enter hI hp hme hs0 h0
  obtain ⟨b1, b2, b3, b4⟩ := C16_run_frame ops a2 hq h1
  obtain ⟨v1', h1', i1⟩ := Closed.C02_run ops i0 hv
  rw [h1] at h1'; cases h1'
  have hpark : v1.terminal.otherBuffer = v.terminal.buffer := b1.trans a3
  have hctx := b2.trans a4
  have htext : v.text = v.terminal.buffer.text := text_prim hp
  obtain ⟨c1, c2, c3, c4, c5, c6, c7⟩ := C16_vt_leave (m := v.terminal) i1 b3 hpark hml hs2 h2
  refine ⟨b4.trans a5, c1, c2, c3, c4, c5, by rw [htext]; exact c6, fun hL => ?_⟩
  -- the scrollback limit is configuration: read it off the parked primary
  have hL1 : v1.terminal.scrollbackLimit = none := by
    have k0 := (TOK.of_TInv hT).lim
    have hT1 : TInv v1.terminal = true := by
      simp only [Inv, Bool.and_eq_true] at i1; exact i1.2
    have k1 := (TOK.of_TInv hT1).lim
    rcases k0 with ⟨_, e0⟩ | ⟨hx, _⟩
    · rcases k1 with ⟨hx, _⟩ | ⟨_, _, e1⟩
      · rw [b3] at hx; cases hx
      · rw [hpark, e0, hL] at e1
        cases hsl : v1.terminal.scrollbackLimit with
        | none => rfl
        | some L => rw [hsl] at e1; cases e1
    · rw [hp] at hx; cases hx
  obtain ⟨d1, d2, _⟩ := c7 hL1
  refine ⟨d1, by rw [htext]; exact d2, fun e1 e2 => ?_⟩
  subst e1 e2
  -- 1049 in, 1049 out: redo the leaving step at the terminal level with the entry context
  obtain ⟨g, _, hex, eg, _⟩ := feedStr_single hs2 h2
  have hT1 : TInv v1.terminal = true := by
    simp only [Inv, Bool.and_eq_true] at i1; exact i1.2
  have hctx' : v1.terminal.alternateSavedCtx = entryCtx v.terminal := by
    rw [hctx]; simp [parkedCtx]
  obtain ⟨q1, q2, q3, q4, q5⟩ := C16_resized_1049 hT hT1 b3 hpark hctx' hex
  obtain ⟨r1, r2, _, _, _, _, _⟩ := C16_resized hT1 b3 hpark (ml := .saveCursorAltScreenBuffer) rfl hex
  obtain ⟨f1, _, _, _, f5, f6, f7, f8, f9, _, f11⟩ := finish_keeps g
  have hgeo := geo_execute (tinv_parts hT1).2.2.2.2.2.2 hex
  have hlim : g.terminal.buffer.limit = none := by
    have hsl : g.terminal.scrollbackLimit = none := by
      simp only [geo, Prod.mk.injEq] at hgeo; rw [hgeo.2.2.2]; exact hL1
    rcases (TOK.of_TInv r1).lim with ⟨_, hl⟩ | ⟨hx, _⟩
    · rw [hl, hsl]; rfl
    · rw [r2] at hx; cases hx
  obtain ⟨g1, g2, _⟩ := gc_unlimited hlim
  subst eg
  have hbl : g.finish.1.terminal.buffer.lines = g.terminal.buffer.lines := by
    rw [f11]; simp [Buffer.lines, g1, g2]
  have hc : cursorOf g.finish.1.terminal = cursorOf g.terminal := by
    simp only [cursorOf, Spec.C10.cursorLogical, f5, hbl]
    rw [f11, g1]
  refine ⟨?_, f6.trans q2, f7.trans q3, f8.trans q4, f9.trans q5⟩
  show Spec.C10.resizeRel (Spec.C10.logicalLines v.terminal.buffer.lines)
    (Spec.C10.logicalLines g.finish.1.terminal.buffer.lines) _ _ _ _ false = true
  rw [hc, hbl]; exact q1

/-! ### a concrete session: the hypotheses of `C16_vt_excursion_resized` are satisfiable

  4×2, unlimited scrollback.  `feed_str("z\n\r\n\rabcdef" ESC[1m ESC[D)`: rows "z", "" (scrollback),
  "abcd"⏎"ef" (one logical line), bold pen, cursor on the 'f'.  Then `feed_str(ESC[?1049h)`; during
  the excursion `feed_str("x" ESC[)`, `resize(3,3)`, `feed()` per character of `2J\n\n\ny` (the
  sequence `ESC[2J` is cut by the resize), `resize(2,2)`, `feed_str(ESC#8)`; finally
  `feed_str(ESC[?1049l)` at 2×2: "abcdef" now fills three rows, `text()` is the old one, the cursor is
  on the 'f' again (logical line 2, offset 5). -/

def exIn : List Nat :=
  [0x7a, 0x0a, 0x0d, 0x0a, 0x0d, 0x61, 0x62, 0x63, 0x64, 0x65, 0x66, 0x1b, 0x5b, 0x31, 0x6d, 0x1b, 0x5b, 0x44]
def ex1049h : List Nat := [0x1b, 0x5b, 0x3f, 0x31, 0x30, 0x34, 0x39, 0x68]
def ex1049l : List Nat := [0x1b, 0x5b, 0x3f, 0x31, 0x30, 0x34, 0x39, 0x6c]
def exOps : List PubOp :=
  [.feedStr [0x78, 0x1b, 0x5b], .resize 3 3, .feedChars [0x32, 0x4a, 0x0a, 0x0a, 0x0a, 0x79], .resize 2 2,
   .feedDrop [0x1b, 0x23, 0x38]]

theorem ex_facts :
    (match Vt.new 4 2 none with
     | some u =>
       match run u [.feedStr exIn] with
       | some v =>
         match v.feedStr ex1049h with
         | some (v0, _) =>
           match run v0 exOps with
           | some v1 =>
             match v1.feedStr ex1049l with
             | some (v2, ch2) =>
               (v.terminal.activeBufferType == .primary)
                 && (emitted v.parser ex1049h == [.decset [.saveCursorAltScreenBuffer]])
                 && (emitted v0.parser (inputOf exOps)).all (fun f => !endsExcursion f)
                 && (emitted v0.parser (inputOf exOps)).length == 7
                 && (emitted v1.parser ex1049l == [.decrst [.saveCursorAltScreenBuffer]])
                 && (v.size == (4, 2)) && (v1.size == (2, 2)) && (v2.size == (2, 2))
                 && (v1.terminal.otherBuffer.cols == 4)
                 && (Spec.C10.cursorLogical v.terminal.buffer
                      (min v.terminal.cursor.col (v.terminal.cols - 1), v.terminal.cursor.row) == (2, 5))
                 && Spec.C10.onChar (Spec.C10.logicalLines v.lines) 2 5 false
                 && (cursorOf v2.terminal == (2, 5))
                 && (v2.text == v.text) && (v2.text == [[0x7a], [], [0x61, 0x62, 0x63, 0x64, 0x65, 0x66]])
                 && (v2.lines.length == 5) && (ch2.scrollback == [])
                 && (v2.terminal.pen.intensity == .bold)
             | none => false
           | none => false
         | none => false
       | none => false
     | none => false) = true := by decide +kernel

example : ∃ (v v0 v1 v2 : Vt) (ch0 ch2 : Changes),
    Reach v ∧ v.terminal.activeBufferType = .primary
      ∧ emitted v.parser ex1049h = [.decset [.saveCursorAltScreenBuffer]]
      ∧ v.feedStr ex1049h = some (v0, ch0)
      ∧ (∀ op ∈ exOps, op.valid)
      ∧ (∀ f ∈ emitted v0.parser (inputOf exOps), endsExcursion f = false)
      ∧ run v0 exOps = some v1
      ∧ emitted v1.parser ex1049l = [.decrst [.saveCursorAltScreenBuffer]]
      ∧ v1.feedStr ex1049l = some (v2, ch2)
      ∧ v.size = (4, 2) ∧ v1.size = (2, 2) ∧ v2.text = v.text ∧ cursorOf v2.terminal = (2, 5) := by
  have hf := ex_facts
  cases hu : Vt.new 4 2 none with
  | none => rw [hu] at hf; cases hf
  | some u =>
    rw [hu] at hf; dsimp only at hf
    cases hv : run u [.feedStr exIn] with
    | none => rw [hv] at hf; cases hf
    | some v =>
      rw [hv] at hf; dsimp only at hf
      cases h0 : v.feedStr ex1049h with
      | none => rw [h0] at hf; cases hf
      | some r0 =>
        obtain ⟨v0, ch0⟩ := r0
        rw [h0] at hf; dsimp only at hf
        cases h1 : run v0 exOps with
        | none => rw [h1] at hf; cases hf
        | some v1 =>
          rw [h1] at hf; dsimp only at hf
          cases h2 : v1.feedStr ex1049l with
          | none => rw [h2] at hf; cases hf
          | some r2 =>
            obtain ⟨v2, ch2⟩ := r2
            rw [h2] at hf; dsimp only at hf
            simp only [Bool.and_eq_true, beq_iff_eq, List.all_eq_true, Bool.not_eq_true'] at hf
            obtain ⟨⟨⟨⟨⟨⟨⟨⟨⟨⟨⟨⟨⟨⟨⟨⟨a1, a2⟩, a3⟩, _⟩, a5⟩, a6⟩, a7⟩, _⟩, _⟩, _⟩, _⟩, a12⟩, a13⟩, _⟩, _⟩, _⟩, _⟩ := hf
            refine ⟨v, v0, v1, v2, ch0, ch2, ⟨4, 2, none, u, [.feedStr exIn], by decide, by decide, hu, ?_, hv⟩,
              a1, a2, h0, by decide, a3, h1, a5, h2, a6, a7, a13, a12⟩
            intro op hop
            rw [List.mem_singleton.1 hop]; trivial

end C16

/-! ## C14 — the stream equation without "this call returned" hypotheses -/

section C14
open Avt.Frame Avt.Spec.C14 Avt.C14

/-- a series of `feed_str` calls from a state satisfying the invariant returns (C01) and keeps the
    invariant (C02) -/
theorem runFeeds_ok : ∀ (chunks : List (List Nat)) {v : Vt}, Inv v = true →
    ∃ v' d, runFeeds v chunks = some (v', d) ∧ Inv v' = true
  | [], v, h => ⟨v, [], rfl, h⟩
  | s :: ss, v, h => by
    obtain ⟨v1, ch, h1, i1, _⟩ := Closed.C02_feedStr s h
    obtain ⟨v2, d, h2, i2⟩ := runFeeds_ok ss i1
    exact ⟨v2, ch.scrollback ++ d, by simp [runFeeds, h1, h2], i2⟩

/-- **C14, closed.**  For every size ≥ 1×1, every limit `L`, every two chunkings of the same input
    none of whose emitted functions is RIS: both sessions (limit `L` / unlimited) exist and return,
    and if the limited one ends on the primary screen, the lines it handed out followed by its
    `lines()` are exactly the `lines()` of the unlimited one, which hands out nothing. -/
theorem C14_stream_closed {c r : Nat} (L : Nat) (hc : 1 ≤ c) (hr : 1 ≤ r) (ops ops' : List (List Nat))
    (hcat : ops.flatten = ops'.flatten)
    (hnr : Function.ris ∉ Frame.emitted Parser.new ops.flatten) :
    ∃ v0 u0 v u dv du, Vt.new c r (some L) = some v0 ∧ Vt.new c r none = some u0
      ∧ runFeeds v0 ops = some (v, dv) ∧ runFeeds u0 ops' = some (u, du)
      ∧ Inv v = true ∧ Inv u = true
      ∧ (v.terminal.activeBufferType = .primary → streamEq dv v u = true ∧ du = []) := by
  obtain ⟨v0, hv0, iv0⟩ := C02.C02_init (some L) hc hr
  obtain ⟨u0, hu0, iu0⟩ := C02.C02_init none hc hr
  obtain ⟨v, dv, hv, iv⟩ := runFeeds_ok ops iv0
  obtain ⟨u, du, hu, iu⟩ := runFeeds_ok ops' iu0
  exact ⟨v0, u0, v, u, dv, du, hv0, hu0, hv, hu, iv, iu, fun hT => C14_stream hv0 hu0 hcat hnr hv hu hT⟩

end C14

end Avt.Props.Closed2
