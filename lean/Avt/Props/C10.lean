/-
  Avt.Props.C10 — resizing keeps the logical text and the cursor's place in it.

  Vocabulary (Avt/Spec/C10.lean — the same definitions the oracle evaluates on the implementation):
  `logicalLines` (rows joined along wrap marks, trailing default cells removed), `cursorLogical`
  (the cursor's logical line and offset, read off the row structure), `resizeRel` (the whole
  relation), `keptOrCut` (its "none altered, reordered or invented" clause), `rowsOnlyOK`.

  Proved here, for all buffers / terminals / sizes (no bounds):
  * `C10_resize`           — the FULL statement `C10_resize_full`: for every state satisfying the global
                             invariant, primary screen, unlimited scrollback, every new width and height
                             ≥ 1: the cursor stays in the same logical line, every line above is unchanged,
                             the text before the cursor is intact, the cursor is on the same character
                             (when it was on one), the lines from the cursor's line on are kept or cut
                             short at the bottom, blank filler aside (`resizeRel`);
  * `C10_chain`            — the same along every chain of resizes (`C10_chain_full`), GIVEN that the
                             invariant is preserved by `Vt.resize` (C02's theorem, taken as a hypothesis);
  * `C10_reflow_logical`   — the `Reflow` iterator keeps the logical lines, for every input and width
                             (with `C10_contract_content`, `C10_extend_content` for the two row operations);
  * `C10_resize_lines`     — EVERY resize of any buffer (no invariant needed, any cursor): the logical
                             lines after are the old ones, the last ones possibly dropped / one cut short
                             at the bottom, possibly followed by blank filler (`keptOrCut`);
  * `C10_rows_only`, `C10_rows_only_rows` — the height-only half (no reflow), also on the rows themselves;
  * `C10_cursorLogical_eq_logicalPosition` — the structural `cursorLogical` is what the code's
                             `logical_position` computes;
  * `C10_pending_place`    — the wrap-pending cursor (`C10_pending_place_full`): when the cursor is
                             wrap-pending at the end of a soft-wrapped row, its logical offset names a
                             character of the text (the first cell of the next row); every resize keeps that
                             offset, a resize that changes the width puts the cursor ON that character
                             (`C10_pending_place_width`), a height-only resize keeps the character unless
                             the rows below the cursor row were dropped, i.e. the line was cut exactly at
                             the cursor (`C10_pending_place_rows`, which holds for every cursor).
  The width-changing case (`Lemmas/C10Width*.lean`) factors `Buffer.resize` as: reflow + cursor
  translation, then a height-only resize of the reflowed rows; it uses the phase decomposition and the
  totality facts of Lemmas/Resize.lean (`rsStep1`, `rsStep2`, `resize_eq`, `rsStep1_ok`, `rsStep2_ok`).
-/
import Avt.Lemmas.C10Pending

namespace Avt.Props.C10
open Avt Avt.Spec.C10 Avt.Lemmas

/-- the cursor's logical position of a terminal -/
def cursorOf (t : Terminal) : Nat × Nat := cursorLogical t.buffer (t.cursor.col, t.cursor.row)

/-- **C10, full statement** (kept as a definition: proved below for width-preserving resizes, and —
    without the cursor clauses — for all resizes). -/
def C10_resize_full : Prop :=
  ∀ (v v' : Vt) (c r : Nat) (ch : Changes),
    Inv v = true → 1 ≤ c → 1 ≤ r →
    v.terminal.activeBufferType = .primary → v.terminal.scrollbackLimit = none →
    v.resize c r = some (v', ch) →
    resizeRel (logicalLines v.terminal.buffer.lines) (logicalLines v'.terminal.buffer.lines)
      (cursorOf v.terminal).1 (cursorOf v.terminal).2
      (cursorOf v'.terminal).1 (cursorOf v'.terminal).2 v.terminal.pendingWrap = true

/-- chains of resizes: the relation holds at every step of the chain (by `C10_resize_full` applied at
    each step; every step starts from a state satisfying `Inv` by C02) -/
def C10_chain_full : Prop :=
  ∀ (v : Vt) (sizes : List (Nat × Nat)), Inv v = true →
    v.terminal.activeBufferType = .primary → v.terminal.scrollbackLimit = none →
    (∀ s ∈ sizes, 1 ≤ s.1 ∧ 1 ≤ s.2) →
    ∀ (pre : List (Nat × Nat)) (c r : Nat) (post : List (Nat × Nat)), sizes = pre ++ (c, r) :: post →
    ∀ (v1 v2 : Vt) (ch : Changes),
      pre.foldlM (fun (w : Vt) s => (w.resize s.1 s.2).map (·.1)) v = some v1 →
      v1.resize c r = some (v2, ch) →
      resizeRel (logicalLines v1.terminal.buffer.lines) (logicalLines v2.terminal.buffer.lines)
        (cursorOf v1.terminal).1 (cursorOf v1.terminal).2
        (cursorOf v2.terminal).1 (cursorOf v2.terminal).2 v1.terminal.pendingWrap = true

/-! ### the row operations and the reflow iterator -/

/-- `Line::contract` keeps the logical lines: the two pieces read like the row they came from -/
theorem C10_contract_content (l : Line) (len : Nat) (tail : List Line) :
    logicalLines ((l.contract len).1 :: ((l.contract len).2.toList ++ tail)) = logicalLines (l :: tail) :=
  contract_content l len tail

/-- `Line::extend` keeps the logical lines: what it returns reads like the two rows it was given -/
theorem C10_extend_content {l other : Line} {len : Nat} {l' : Line} {emit : Bool} {r : Option Line}
    (h : l.extend other len = some (l', emit, r)) (tail : List Line) :
    logicalLines (l' :: (r.toList ++ tail)) = logicalLines (l :: other :: tail) :=
  extend_content h tail

/-- reflowing any list of rows to any width keeps the logical lines -/
theorem C10_reflow_logical {ls out : List Line} {c : Nat} (h : Buffer.reflow ls c = some out) :
    logicalLines out = logicalLines ls :=
  reflow_logical h

/-! ### every resize: no logical line altered, reordered or invented -/

/-- `Buffer.resize` for every geometry and every cursor -/
theorem C10_buffer_resize_lines {b b' : Buffer} {c r : Nat} {cur cur' : Nat × Nat}
    (h : b.resize c r cur = some (b', cur')) :
    keptOrCut (logicalLines b.lines) (logicalLines b'.lines) = true :=
  resize_lines h

/-- **C10 (line content), every resize.**  For `Vt.resize` to any width and height on an unlimited
    buffer: the logical lines afterwards are the old ones in order, where the last ones may have been
    dropped and one cut short (rows dropped at the bottom), followed at most by blank filler. -/
theorem C10_resize_lines {v v' : Vt} {c r : Nat} {ch : Changes}
    (hlim : v.terminal.buffer.limit = none) (h : v.resize c r = some (v', ch)) :
    keptOrCut (logicalLines v.terminal.buffer.lines) (logicalLines v'.terminal.buffer.lines) = true := by
  obtain ⟨b', cur', h1, h2, -⟩ := vt_resize_buffer hlim h
  rw [h2]; exact resize_lines h1

/-! ### height-only resize: the full statement -/

/-- what a height-only `Buffer.resize` does to the rows and to the cursor -/
theorem C10_rows_only_rows {b b' : Buffer} {r' : Nat} {cur cur' : Nat × Nat}
    (hview : b.view.length = b.rows) (hcur : cur.2 < b.rows)
    (h : b.resize b.cols r' cur = some (b', cur')) :
    rowsOnlyOK b b' cur cur' = true :=
  (resize_rows_only hview hcur h).1

/-- the facts of the global invariant used below -/
theorem inv_facts {v : Vt} (hinv : Inv v = true) :
    let t := v.terminal
    t.buffer.cols = t.cols ∧ t.buffer.rows = t.rows ∧ t.buffer.view.length = t.buffer.rows
      ∧ (∀ l ∈ t.buffer.lines, l.len = t.buffer.cols) ∧ t.cursor.row < t.rows
      ∧ t.cursor.col ≤ t.cols ∧ (t.pendingWrap = false → t.cursor.col < t.cols)
      ∧ (t.activeBufferType = .primary → t.scrollbackLimit = none → t.buffer.limit = none)
      ∧ 1 ≤ t.buffer.rows ∧ lastUnwrapped t.buffer.lines = true := by
  simp only [Inv, TInv, BInv, Bool.and_eq_true, beq_iff_eq, decide_eq_true_eq, List.all_eq_true,
    Bool.or_eq_true, Bool.not_eq_true'] at hinv
  obtain ⟨-, ⟨⟨⟨⟨⟨⟨⟨⟨⟨⟨⟨⟨⟨⟨⟨⟨hc, hr⟩, hb⟩, -⟩, hrow⟩, hpend⟩, -⟩, -⟩, -⟩, -⟩, -⟩, -⟩, -⟩, -⟩, -⟩, hlim⟩, -⟩⟩ := hinv
  obtain ⟨⟨⟨⟨⟨⟨⟨-, hr1⟩, hvl⟩, hvw⟩, hsw⟩, hvlu⟩, -⟩, -⟩ := hb
  refine ⟨hc, hr, hvl, ?_, hrow, ?_, ?_, ?_, hr1, ?_⟩
  · intro l hl
    simp only [Buffer.lines, List.mem_append] at hl
    rcases hl with hl | hl
    · exact hsw l hl
    · exact hvw l hl
  · rcases hpend with ⟨-, h2⟩ | ⟨-, h2⟩ <;> omega
  · intro hp
    rcases hpend with ⟨h1, -⟩ | ⟨-, h2⟩
    · rw [hp] at h1; cases h1
    · exact h2
  · intro hprim hnone
    rw [hprim] at hlim
    simp only [hnone, Option.map_none] at hlim
    exact eq_of_beq hlim
  · have hne : v.terminal.buffer.view ≠ [] := by
      intro h0; rw [h0] at hvl; simp at hvl; omega
    simp only [Buffer.lines]
    rw [lastUnwrapped_append hne]; exact hvlu

/-- **C10 for resizes that keep the width** (any new height): the full relation — the cursor stays
    in the same logical line at the same offset, every line above is unchanged, the text before the
    cursor is intact, the cursor is on the same character, and the lines from the cursor's line on are
    kept or cut short at the bottom (blank filler may follow). -/
theorem C10_rows_only {v v' : Vt} {r : Nat} {ch : Changes} (hinv : Inv v = true)
    (hprim : v.terminal.activeBufferType = .primary) (hlim : v.terminal.scrollbackLimit = none)
    (h : v.resize v.terminal.cols r = some (v', ch)) :
    resizeRel (logicalLines v.terminal.buffer.lines) (logicalLines v'.terminal.buffer.lines)
      (cursorOf v.terminal).1 (cursorOf v.terminal).2
      (cursorOf v'.terminal).1 (cursorOf v'.terminal).2 v.terminal.pendingWrap = true := by
  obtain ⟨hc, hr, hvl, hlens, hrow, hcol, hstrict, hl, -, -⟩ := inv_facts hinv
  obtain ⟨b', cur', h1, h2, h3, -, -, h6, h7⟩ := vt_resize_buffer (hl hprim hlim) h
  have hcur' : cursorOf v'.terminal = cursorLogical b' cur' := by
    simp only [cursorOf, cursorLogical, h2, h3, h6, h7]
  rw [hcur', h2]
  rw [← hc] at h1
  exact rows_only_rel v.terminal.pendingWrap hvl hlens (by rw [hr]; exact hrow) (by rw [hc]; exact hcol)
    (by rw [hc]; exact hstrict) h1

/-- **C10**: the full statement holds -/
theorem C10_resize : C10_resize_full := by
  intro v v' c r ch hinv hc1 hr1 hprim hlim h
  obtain ⟨hc, hr, hvl, hlens, hrow, hcol, hstrict, hl, hrows, hlu⟩ := inv_facts hinv
  by_cases hsame : c = v.terminal.cols
  · subst hsame; exact C10_rows_only hinv hprim hlim h
  · obtain ⟨b', cur', h1, h2, h3, -, -, h6, h7⟩ := vt_resize_buffer (hl hprim hlim) h
    have hcur' : cursorOf v'.terminal = cursorLogical b' cur' := by
      simp only [cursorOf, cursorLogical, h2, h3, h6, h7]
    rw [hcur', h2]
    exact width_rel v.terminal.pendingWrap hvl hrows hlens hlu (by rw [hr]; exact hrow) hc1 hr1
      (by rw [hc]; exact hsame) h1

/-! ### the wrap-pending cursor -/

/-- **C10, the wrap-pending cursor** (same hypotheses as `C10_resize_full`): if the cursor is
    wrap-pending and its logical offset names a character of the text (`pendingOnChar`: the row is
    soft-wrapped, the character is the first cell of the next row), then after the resize the cursor
    has the same logical offset, and
    * if the width changed, it is on that same character (`onCharOK`);
    * if only the height changed, the character at that offset is the same one, or the cursor's line
      now ends at the cursor (the rows below the cursor row were dropped) (`pendingPlaceOK`). -/
def C10_pending_place_full : Prop :=
  ∀ (v v' : Vt) (c r : Nat) (ch : Changes),
    Inv v = true → 1 ≤ c → 1 ≤ r →
    v.terminal.activeBufferType = .primary → v.terminal.scrollbackLimit = none →
    v.resize c r = some (v', ch) →
    pendingPlaceRel (logicalLines v.terminal.buffer.lines) (logicalLines v'.terminal.buffer.lines)
      (cursorOf v.terminal).1 (cursorOf v.terminal).2 (cursorOf v'.terminal).2
      v.terminal.pendingWrap (v'.terminal.buffer.cols != v.terminal.buffer.cols) = true

/-- a resize that changes the width: a wrap-pending cursor whose offset names a character of the text
    ends up ON that character (same offset, same cell) -/
theorem C10_pending_place_width {v v' : Vt} {c r : Nat} {ch : Changes} (hinv : Inv v = true)
    (hc1 : 1 ≤ c) (hr1 : 1 ≤ r)
    (hprim : v.terminal.activeBufferType = .primary) (hlim : v.terminal.scrollbackLimit = none)
    (hne : c ≠ v.terminal.cols) (h : v.resize c r = some (v', ch))
    (hp : pendingOnChar (logicalLines v.terminal.buffer.lines)
      (cursorOf v.terminal).1 (cursorOf v.terminal).2 v.terminal.pendingWrap = true) :
    onCharOK (logicalLines v.terminal.buffer.lines) (logicalLines v'.terminal.buffer.lines)
      (cursorOf v.terminal).1 (cursorOf v.terminal).2 (cursorOf v'.terminal).2 = true := by
  obtain ⟨hc, hr, hvl, hlens, hrow, hcol, hstrict, hl, hrows, hlu⟩ := inv_facts hinv
  obtain ⟨b', cur', h1, h2, h3, -, -, h6, h7⟩ := vt_resize_buffer (hl hprim hlim) h
  have hcur' : cursorOf v'.terminal = cursorLogical b' cur' := by
    simp only [cursorOf, cursorLogical, h2, h3, h6, h7]
  rw [hcur', h2]
  exact width_pending v.terminal.pendingWrap hvl hrows hlens hlu (by rw [hr]; exact hrow) hc1 hr1
    (by rw [hc]; exact hne) h1 hp

/-- a resize that keeps the width (any new height), EVERY cursor (wrap-pending or not): the cursor
    keeps its logical offset, and the character at that offset is the same one — or the cursor's line
    was cut at the cursor (only possible for a wrap-pending cursor, whose character is on the next
    row: rows below the cursor row may be dropped) -/
theorem C10_pending_place_rows {v v' : Vt} {r : Nat} {ch : Changes} (hinv : Inv v = true)
    (hprim : v.terminal.activeBufferType = .primary) (hlim : v.terminal.scrollbackLimit = none)
    (h : v.resize v.terminal.cols r = some (v', ch)) :
    pendingPlaceOK (logicalLines v.terminal.buffer.lines) (logicalLines v'.terminal.buffer.lines)
      (cursorOf v.terminal).1 (cursorOf v.terminal).2 (cursorOf v'.terminal).2 = true := by
  obtain ⟨hc, hr, hvl, hlens, hrow, hcol, -, hl, -, -⟩ := inv_facts hinv
  obtain ⟨b', cur', h1, h2, h3, -, -, h6, h7⟩ := vt_resize_buffer (hl hprim hlim) h
  have hcur' : cursorOf v'.terminal = cursorLogical b' cur' := by
    simp only [cursorOf, cursorLogical, h2, h3, h6, h7]
  rw [hcur', h2]
  rw [← hc] at h1
  exact rows_only_pending hvl hlens (by rw [hr]; exact hrow) (by rw [hc]; exact hcol) h1

/-- **C10, the wrap-pending cursor**: the full statement holds -/
theorem C10_pending_place : C10_pending_place_full := by
  intro v v' c r ch hinv hc1 hr1 hprim hlim h
  obtain ⟨hc, -, -, -, -, -, -, hl, -, -⟩ := inv_facts hinv
  obtain ⟨b', cur', h1, -, -, h4, -, -, -⟩ := vt_resize_buffer (hl hprim hlim) h
  have hcols : v'.terminal.buffer.cols = c := by rw [h4]; exact buffer_resize_cols h1
  simp only [pendingPlaceRel, Bool.or_eq_true, Bool.not_eq_true']
  cases hp : pendingOnChar (logicalLines v.terminal.buffer.lines)
      (cursorOf v.terminal).1 (cursorOf v.terminal).2 v.terminal.pendingWrap with
  | false => exact Or.inl rfl
  | true =>
    right
    by_cases hsame : c = v.terminal.cols
    · subst hsame
      have : (v'.terminal.buffer.cols != v.terminal.buffer.cols) = false := by
        rw [hcols, hc]; simp
      rw [this]
      exact C10_pending_place_rows hinv hprim hlim h
    · have : (v'.terminal.buffer.cols != v.terminal.buffer.cols) = true := by
        rw [hcols, hc]; simpa using hsame
      rw [this]
      exact C10_pending_place_width hinv hc1 hr1 hprim hlim hsame h hp

/-- in every case (whatever changed) the wrap-pending cursor on a character keeps its logical offset,
    and the character there is the same one or the line was cut at the cursor -/
theorem C10_pending_place_weak {v v' : Vt} {c r : Nat} {ch : Changes} (hinv : Inv v = true)
    (hc1 : 1 ≤ c) (hr1 : 1 ≤ r)
    (hprim : v.terminal.activeBufferType = .primary) (hlim : v.terminal.scrollbackLimit = none)
    (h : v.resize c r = some (v', ch))
    (hp : pendingOnChar (logicalLines v.terminal.buffer.lines)
      (cursorOf v.terminal).1 (cursorOf v.terminal).2 v.terminal.pendingWrap = true) :
    pendingPlaceOK (logicalLines v.terminal.buffer.lines) (logicalLines v'.terminal.buffer.lines)
      (cursorOf v.terminal).1 (cursorOf v.terminal).2 (cursorOf v'.terminal).2 = true := by
  by_cases hsame : c = v.terminal.cols
  · subst hsame; exact C10_pending_place_rows hinv hprim hlim h
  · exact pendingPlaceOK_of_onCharOK (C10_pending_place_width hinv hc1 hr1 hprim hlim hsame h hp)

/-- the restriction to `c = cols` (kept under its own name: it does not depend on the reflow lemmas) -/
theorem C10_resize_partial : ∀ (v v' : Vt) (r : Nat) (ch : Changes),
    Inv v = true → v.terminal.activeBufferType = .primary → v.terminal.scrollbackLimit = none →
    v.resize v.terminal.cols r = some (v', ch) →
    resizeRel (logicalLines v.terminal.buffer.lines) (logicalLines v'.terminal.buffer.lines)
      (cursorOf v.terminal).1 (cursorOf v.terminal).2
      (cursorOf v'.terminal).1 (cursorOf v'.terminal).2 v.terminal.pendingWrap = true :=
  fun _ _ _ _ hinv hprim hlim h => C10_rows_only hinv hprim hlim h

/-- what `Vt.resize` keeps of the hypotheses of C10 (`Terminal.resize` touches neither) -/
theorem resize_keeps_mode {v v' : Vt} {c r : Nat} {ch : Changes} (h : v.resize c r = some (v', ch)) :
    v'.terminal.activeBufferType = v.terminal.activeBufferType
      ∧ v'.terminal.scrollbackLimit = v.terminal.scrollbackLimit := by
  unfold Vt.resize at h
  cases ht : v.terminal.resize c r with
  | none => simp [ht] at h
  | some t' =>
    simp only [ht, Option.map_some, Option.some.injEq] at h
    obtain ⟨-, -, -, -, -, h5, h6⟩ := terminal_resize_buffer ht
    have hv : v'.terminal = ((Terminal.changes t').1.gc).1 := by
      simp only [Vt.finish] at h
      rw [← (Prod.mk.inj h).1]
    rw [hv]
    simp only [Terminal.gc, Terminal.changes]
    exact ⟨h5, h6⟩

/-- **C10 along chains of resizes**, given that `Vt.resize` preserves the global invariant (that is
    C02's theorem; it is a hypothesis here so that this file does not depend on C02's proof) -/
theorem C10_chain
    (hC02 : ∀ (w w' : Vt) (c r : Nat) (ch : Changes), Inv w = true → 1 ≤ c → 1 ≤ r →
      w.resize c r = some (w', ch) → Inv w' = true) : C10_chain_full := by
  intro v sizes hinv hprim hlim hsz pre c r post hsplit v1 v2 ch hpre hstep
  -- the state reached after the prefix still satisfies the hypotheses
  have key : ∀ (pre : List (Nat × Nat)) (w : Vt), Inv w = true →
      w.terminal.activeBufferType = .primary → w.terminal.scrollbackLimit = none →
      (∀ s ∈ pre, 1 ≤ s.1 ∧ 1 ≤ s.2) → ∀ w1,
      pre.foldlM (fun (w : Vt) s => (w.resize s.1 s.2).map (·.1)) w = some w1 →
      Inv w1 = true ∧ w1.terminal.activeBufferType = .primary ∧ w1.terminal.scrollbackLimit = none := by
    intro pre
    induction pre with
    | nil =>
      intro w hw hp hl _ w1 h1
      simp only [List.foldlM_nil, Option.pure_def, Option.some.injEq] at h1
      subst h1; exact ⟨hw, hp, hl⟩
    | cons s rest ih =>
      intro w hw hp hl hs w1 h1
      simp only [List.foldlM_cons, Option.bind_eq_bind] at h1
      cases hres : w.resize s.1 s.2 with
      | none => simp [hres] at h1
      | some res =>
        obtain ⟨w', ch'⟩ := res
        simp only [hres, Option.map_some, Option.bind_some] at h1
        have hs1 := hs s (by simp)
        obtain ⟨k1, k2⟩ := resize_keeps_mode hres
        exact ih w' (hC02 w w' s.1 s.2 ch' hw hs1.1 hs1.2 hres) (by rw [k1]; exact hp)
          (by rw [k2]; exact hl) (fun x hx => hs x (by simp [hx])) w1 h1
  have hpre' : ∀ s ∈ pre, 1 ≤ s.1 ∧ 1 ≤ s.2 := fun s hs => hsz s (by rw [hsplit]; simp [hs])
  obtain ⟨i1, i2, i3⟩ := key pre v hinv hprim hlim hpre' v1 hpre
  have hcr := hsz (c, r) (by rw [hsplit]; simp)
  exact C10_resize v1 v2 c r ch i1 hcr.1 hcr.2 i2 i3 hstep

/-! ### the cursor's logical position -/

/-- `cursorLogical` (defined from the row structure) is what `Buffer::logical_position` computes -/
theorem C10_cursorLogical_eq_logicalPosition {b : Buffer} {cur : Nat × Nat}
    (hview : b.view.length = b.rows) (hlens : ∀ l ∈ b.lines, l.len = b.cols) (hcur : cur.2 < b.rows) :
    Buffer.logicalPosition b.lines cur b.cols b.rows
      = some ((cursorLogical b cur).2, (cursorLogical b cur).1) :=
  cursorLogical_eq_logicalPosition hview hlens hcur

/-! ### a concrete instance: 3x2 terminal after "abcd", cursor moved back onto the 'd' -/

def demo : Option Vt :=
  (Vt.new 3 2 none).bind fun v => (v.feedStr [0x61, 0x62, 0x63, 0x64, 0x1b, 0x5b, 0x44]).map (·.1)

def relOf (v v' : Vt) : Bool :=
  resizeRel (logicalLines v.terminal.buffer.lines) (logicalLines v'.terminal.buffer.lines)
    (cursorOf v.terminal).1 (cursorOf v.terminal).2
    (cursorOf v'.terminal).1 (cursorOf v'.terminal).2 v.terminal.pendingWrap

/-- the hypotheses of `C10_rows_only` / `C10_resize_full` are satisfiable, the cursor is on a
    character of the text (offset 3 of "abcd", wrapped over two rows), and the relation holds for a
    narrowing resize (3x2 → 2x2: three rows, the cursor's line index and offset are kept), a widening
    one (→ 5x1) and a height-only one (→ 3x1, which must not cut the text before the cursor) -/
example :
    (match demo with
     | some v =>
       Inv v && v.terminal.activeBufferType == .primary && v.terminal.scrollbackLimit == none
         && cursorOf v.terminal == (0, 3)
         && onChar (logicalLines v.terminal.buffer.lines) 0 3 v.terminal.pendingWrap
         && (match v.resize 2 2, v.resize 5 1, v.resize 3 1 with
             | some (a, _), some (b, _), some (c, _) =>
               relOf v a && relOf v b && relOf v c && cursorOf a.terminal == (0, 3)
                 && cursorOf b.terminal == (0, 3) && cursorOf c.terminal == (0, 3)
             | _, _, _ => false)
     | none => false) = true := by decide

/-! ### a concrete instance for the wrap-pending cursor: 4x3 terminal, "abcdefgh", CUP 1;4, "X" -/

/-- "abcdefgh" on 4 columns (row 0 "abcd" soft-wrapped, row 1 "efgh"), cursor to row 1 / column 4,
    print "X": the cursor is wrap-pending at (4, 0), its logical offset 4 names the 'e' -/
def demoPending : Option Vt :=
  (Vt.new 4 3 none).bind fun v =>
    (v.feedStr [0x61, 0x62, 0x63, 0x64, 0x65, 0x66, 0x67, 0x68, 0x1b, 0x5b, 0x31, 0x3b, 0x34, 0x48, 0x58]).map (·.1)

def pendingRelOf (v v' : Vt) : Bool :=
  pendingPlaceRel (logicalLines v.terminal.buffer.lines) (logicalLines v'.terminal.buffer.lines)
    (cursorOf v.terminal).1 (cursorOf v.terminal).2 (cursorOf v'.terminal).2
    v.terminal.pendingWrap (v'.terminal.buffer.cols != v.terminal.buffer.cols)

/-- the hypotheses of `C10_pending_place` are satisfiable with `pendingOnChar = true`, and the clause
    holds for a widening resize (4x3 → 8x3: one row "abcXefgh", cursor on the 'e' at column 4, not
    pending), a narrowing one (→ 2x4: five rows, one in the scrollback, cursor on the 'e' at column 0
    of view row 1) and two height-only ones (→ 4x2 keeps the 'e' row; → 4x1 drops it: the line is cut
    at the cursor, the disjunct `b.length ≤ o`) -/
example :
    (match demoPending with
     | some v =>
       Inv v && v.terminal.activeBufferType == .primary && v.terminal.scrollbackLimit == none
         && v.terminal.pendingWrap && v.terminal.cursor.col == 4 && v.terminal.cursor.row == 0
         && cursorOf v.terminal == (0, 4)
         && pendingOnChar (logicalLines v.terminal.buffer.lines) 0 4 v.terminal.pendingWrap
         && (match v.resize 8 3, v.resize 2 4, v.resize 4 2, v.resize 4 1 with
             | some (a, _), some (b, _), some (c, _), some (d, _) =>
               pendingRelOf v a && pendingRelOf v b && pendingRelOf v c && pendingRelOf v d
                 && cursorOf a.terminal == (0, 4) && cursorOf b.terminal == (0, 4)
                 && cursorOf c.terminal == (0, 4) && cursorOf d.terminal == (0, 4)
                 && onCharOK (logicalLines v.terminal.buffer.lines) (logicalLines a.terminal.buffer.lines) 0 4 4
                 && onCharOK (logicalLines v.terminal.buffer.lines) (logicalLines b.terminal.buffer.lines) 0 4 4
                 && onCharOK (logicalLines v.terminal.buffer.lines) (logicalLines c.terminal.buffer.lines) 0 4 4
                 && !onCharOK (logicalLines v.terminal.buffer.lines) (logicalLines d.terminal.buffer.lines) 0 4 4
                 && (a.terminal.cursor.col, a.terminal.cursor.row, a.terminal.pendingWrap) == (4, 0, false)
                 && (b.terminal.cursor.col, b.terminal.cursor.row, b.terminal.pendingWrap) == (0, 1, false)
             | _, _, _, _ => false)
     | none => false) = true := by decide

end Avt.Props.C10
