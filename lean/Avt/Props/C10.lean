/- Property theorems for C10 (placeholder until the proofs land). -/
import Avt.Spec.C10
