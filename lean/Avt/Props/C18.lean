/- Property theorems for C18 (placeholder until the proofs land). -/
import Avt.Spec.C18
