/-
  Avt.Props.C18 — property theorems for C18 (tab stops).  Helper lemmas: Avt/Lemmas/C18.lean.

  All statements are unbounded: every width, every stop vector satisfying the invariant's clause
  `tabsOK` (sorted, duplicate-free, inside `(0, cols)`), every count, every resize chain.
  The reference notions (`tabsRef`, `setRef`, `unsetRef`, `nthAfter`, `nthBefore`, `resizeRef`,
  `tabSpec`) are the decidable definitions of Avt/Spec/C18.lean, which the oracle evaluates on the
  implementation's states.
-/
import Avt.Lemmas.C18
import Avt.Lemmas.C18Frame
import Avt.Lemmas.C18TabsFrame

namespace Avt
open Avt.Spec Avt.Spec.C18 Avt.Lemmas.C18

/-! ### defaults -/

/-- a fresh terminal has a stop at every multiple of 8 strictly between 0 and its width -/
theorem C18_new (cols : Nat) : Tabs.new cols = tabsRef cols := new_eq_tabsRef cols

theorem C18_new_terminal {cols rows : Nat} {lim : Option Nat} {t : Terminal}
    (h : Terminal.new cols rows lim = some t) : t.tabs = tabsRef t.cols := by
  unfold Terminal.new at h
  cases hc : csub rows 1 <;> simp [hc] at h
  subst h
  exact C18_new cols

/-- the reference in words -/
theorem C18_tabsRef_mem (cols x : Nat) : x ∈ tabsRef cols ↔ 0 < x ∧ x < cols ∧ x % 8 = 0 := mem_tabsRef

/-! ### set / unset / clear: sorted-set semantics -/

/-- `Tabs::set` is sorted-set insertion: the result is sorted and duplicate-free, has exactly the old
    members plus `col`, and stays inside the screen under the guard `0 < col < cols` -/
theorem C18_set {tabs : List Nat} {cols col : Nat} (h : tabsOK tabs cols = true)
    (h0 : 0 < col) (h1 : col < cols) :
    Tabs.set tabs col = setRef tabs col
      ∧ (∀ x, x ∈ Tabs.set tabs col ↔ x = col ∨ x ∈ tabs)
      ∧ tabsOK (Tabs.set tabs col) cols = true := by
  have hs := ((tabsOK_iff _ _).1 h)
  refine ⟨set_eq_setRef tabs col hs.1, mem_set tabs col, ?_⟩
  rw [tabsOK_iff]
  refine ⟨sorted_set tabs col hs.1, ?_⟩
  intro x hx
  rcases (mem_set tabs col x).1 hx with rfl | hx
  · exact ⟨h0, h1⟩
  · exact hs.2 x hx

/-- `Tabs::unset` is sorted-set removal -/
theorem C18_unset {tabs : List Nat} {cols : Nat} (col : Nat) (h : tabsOK tabs cols = true) :
    Tabs.unset tabs col = unsetRef tabs col
      ∧ (∀ x, x ∈ Tabs.unset tabs col ↔ x ∈ tabs ∧ x ≠ col)
      ∧ tabsOK (Tabs.unset tabs col) cols = true := by
  have hs := ((tabsOK_iff _ _).1 h)
  refine ⟨unset_eq_unsetRef tabs col hs.1, ?_, ?_⟩
  · intro x; simp [Tabs.unset]
  · rw [tabsOK_iff]
    refine ⟨hs.1.filter _, ?_⟩
    intro x hx
    exact hs.2 x (List.mem_filter.1 hx).1

/-- clearing all stops -/
theorem C18_clear (cols : Nat) : tabsOK [] cols = true := rfl

/-! ### n-th next / previous stop -/

/-- `Tabs::after(pos, n)` (for `n ≥ 1`, which `as_usize(_, 1)` guarantees) does not panic and returns
    the `n`-th stop greater than `pos` -/
theorem C18_after {tabs : List Nat} {cols : Nat} (pos : Nat) {n : Nat} (h : tabsOK tabs cols = true)
    (hn : 0 < n) : Tabs.after tabs pos n = some (nthAfter tabs pos n) :=
  after_eq tabs pos n ((tabsOK_iff _ _).1 h).1 hn

/-- `Tabs::before(pos, n)` returns the `n`-th stop smaller than `pos`, counting leftwards -/
theorem C18_before {tabs : List Nat} {cols : Nat} (pos : Nat) {n : Nat} (h : tabsOK tabs cols = true)
    (hn : 0 < n) : Tabs.before tabs pos n = some (nthBefore tabs pos n) :=
  before_eq tabs pos n ((tabsOK_iff _ _).1 h).1 hn

/-- the stops found are real stops on the requested side -/
theorem C18_after_mem {tabs : List Nat} {pos n x : Nat} (h : nthAfter tabs pos n = some x) :
    x ∈ tabs ∧ pos < x := nthAfter_mem h

theorem C18_before_mem {tabs : List Nat} {pos n x : Nat} (h : nthBefore tabs pos n = some x) :
    x ∈ tabs ∧ x < pos := nthBefore_mem h

/-! ### the tab functions on the terminal -/

/-- HTS, TBC, CTC, HT, CHT, CBT never panic and do exactly what `tabSpec` says: the stop vector (under
    the guards: no stop at column 0, none at the wrap-pending column) or the cursor column changes,
    nothing else does -/
theorem C18_tabop {t : Terminal} {f : Function} (h : TInv t = true) (hf : isTabOp f = true) :
    t.execute f = some (tabSpec t f) := tabop_eq h hf

/-- the tab moves in the property's words: the cursor lands on the `n`-th next / previous stop, or in
    the last / first column when there is none; it never leaves the screen; the row is kept -/
theorem C18_moves {t : Terminal} (h : TInv t = true) (n : Nat) :
    (tabForward t n).cursor.col = (nthAfter t.tabs t.cursor.col n).getD (t.cols - 1)
      ∧ (tabBackward t n).cursor.col = (nthBefore t.tabs t.cursor.col n).getD 0
      ∧ (tabForward t n).cursor.col < t.cols ∧ (tabBackward t n).cursor.col < t.cols
      ∧ (tabForward t n).cursor.row = t.cursor.row ∧ (tabBackward t n).cursor.row = t.cursor.row := moves h n

/-- every tab function keeps the stop vector sorted, duplicate-free and inside the screen -/
theorem C18_tabop_tabsOK {t : Terminal} {f : Function} (h : TInv t = true) (hf : isTabOp f = true) :
    tabsOK (tabSpec t f).tabs (tabSpec t f).cols = true := by
  have hok := TInv_tabsOK h
  have hs := TInv_sorted h
  have hset : tabsOK (setAtCursor t.tabs t.cursor.col t.cols) t.cols = true := by
    unfold setAtCursor
    split
    · rename_i hg
      rw [← set_eq_setRef _ _ hs]
      exact (C18_set hok hg.1 hg.2).2.2
    · exact hok
  have hun : tabsOK (unsetRef t.tabs t.cursor.col) t.cols = true := by
    rw [← unset_eq_unsetRef _ _ hs]
    exact (C18_unset _ hok).2.2
  cases f <;> simp only [isTabOp, Bool.false_eq_true] at hf
  case cbt n => exact hok
  case cht n => exact hok
  case ht => exact hok
  case hts => exact hset
  case ctc op => cases op <;> first | exact hset | exact hun | rfl
  case tbc s => cases s <;> first | exact hun | rfl

/-! ### resize -/

/-- `Tabs::contract` keeps exactly the stops below the new width; `Tabs::expand` keeps every stop and
    adds every multiple of 8 in `[cols, cols')` — including `cols` itself when it is a multiple of 8 -/
theorem C18_resize_tabs {tabs : List Nat} {cols : Nat} (cols' : Nat) (h : tabsOK tabs cols = true) :
    Tabs.contract tabs cols' = tabs.filter (· < cols')
      ∧ Tabs.expand tabs cols cols' = tabs ++ defaultsIn cols cols'
      ∧ (∀ x, x ∈ defaultsIn cols cols' ↔ cols ≤ x ∧ x < cols' ∧ x % 8 = 0) :=
  ⟨contract_eq tabs cols' ((tabsOK_iff _ _).1 h).1, expand_eq .., fun _ => mem_defaultsIn⟩

/-- the boundary case the property singles out: widening from a width that is a multiple of 8 adds a
    stop in the first new column (80 → 100 gains the stop at column 80) -/
theorem C18_resize_boundary {tabs : List Nat} {cols cols' : Nat} (h8 : cols % 8 = 0) (hlt : cols < cols') :
    cols ∈ Tabs.expand tabs cols cols' := by
  rw [expand_eq]
  exact List.mem_append_right _ (mem_defaultsIn.2 ⟨Nat.le_refl _, hlt, h8⟩)

/-- `Terminal::resize`: whenever it returns, the stop vector is the old one transformed by the
    contract / expand rule, and it is again sorted, duplicate-free and inside the new screen -/
theorem C18_resize {t t' : Terminal} {cols' rows' : Nat} (h : TInv t = true)
    (hr : t.resize cols' rows' = some t') :
    t'.tabs = resizeRef t.tabs t.cols cols' ∧ t'.cols = cols' ∧ tabsOK t'.tabs t'.cols = true := by
  have e := resize_tabs hr
  have hs := TInv_sorted h
  rw [resizedTabs_eq _ _ _ hs] at e
  refine ⟨e.1, e.2.1, ?_⟩
  rw [e.1, e.2.1]
  exact tabsOK_resizeRef _ _ _ (TInv_tabsOK h) (TInv_cols_pos h)

/-- a never-customised terminal has, after any resize, the stops of a fresh terminal of the new width -/
theorem C18_never_customised {t t' : Terminal} {cols' rows' : Nat} (hc : 1 ≤ t.cols)
    (h : t.tabs = tabsRef t.cols) (hr : t.resize cols' rows' = some t') :
    t'.tabs = tabsRef t'.cols ∧ 1 ≤ t'.cols := by
  have e := resize_tabs hr
  rw [resizedTabs_eq _ _ _ (h ▸ sorted_tabsRef _), h, resizeRef_tabsRef _ _ hc] at e
  exact ⟨by rw [e.1, e.2.1], by rw [e.2.1]; exact e.2.2⟩

/-- a chain of resizes (`none` as soon as one panics) -/
def C18_resizeChain : Terminal → List (Nat × Nat) → Option Terminal
  | t, [] => some t
  | t, (c, r) :: rest => match t.resize c r with | some t' => C18_resizeChain t' rest | none => none

/-- … and after every chain of resizes -/
theorem C18_never_customised_chain : ∀ (sizes : List (Nat × Nat)) {t t' : Terminal}, 1 ≤ t.cols →
    t.tabs = tabsRef t.cols → C18_resizeChain t sizes = some t' → t'.tabs = tabsRef t'.cols
  | [], t, t', _, h, hr => by cases hr; exact h
  | (c, r) :: rest, t, t', hc, h, hr => by
    unfold C18_resizeChain at hr
    cases h1 : t.resize c r with
    | none => simp [h1] at hr
    | some t1 =>
      simp only [h1] at hr
      have e := C18_never_customised hc h h1
      exact C18_never_customised_chain rest e.2 e.1 hr

/-- from power-on: a terminal that is only ever resized tabs like a fresh one of its current width -/
theorem C18_fresh_chain {cols rows : Nat} {lim : Option Nat} {t t' : Terminal} (hc : 1 ≤ cols)
    (h : Terminal.new cols rows lim = some t) (sizes : List (Nat × Nat))
    (hr : C18_resizeChain t sizes = some t') : t'.tabs = Tabs.new t'.cols := by
  rw [C18_new]
  have hcols : t.cols = cols := by
    unfold Terminal.new at h
    cases hc' : csub rows 1 <;> simp [hc'] at h
    subst h; rfl
  exact C18_never_customised_chain sizes (by omega) (C18_new_terminal h) hr

/-! ### never customised, over arbitrary histories -/

/-- what a public call does to the terminal: execute a parsed function, resize, or the `changes()` +
    `gc()` tail of `feed_str` / `resize`.  Every history of `Vt::feed_str` / `Vt::feed` / `Vt::resize`
    calls projects to a list of these. -/
inductive C18_Op where
  | exec (f : Function)
  | resize (cols rows : Nat)
  | finish

def C18_step (t : Terminal) : C18_Op → Option Terminal
  | .exec f => t.execute f
  | .resize c r => t.resize c r
  | .finish => some (finishT t)

def C18_run : Terminal → List C18_Op → Option Terminal
  | t, [] => some t
  | t, op :: ops => match C18_step t op with | some t' => C18_run t' ops | none => none

/-- the history contains no HTS / TBC / CTC -/
def C18_neverEdits (ops : List C18_Op) : Prop := ∀ f, C18_Op.exec f ∈ ops → editsTabs f = false

/-- one step keeps "has exactly the default stops of the current width" -/
theorem C18_never_customised_step {t t' : Terminal} {op : C18_Op} (hc : 1 ≤ t.cols)
    (h : t.tabs = tabsRef t.cols) (hop : ∀ f, op = .exec f → editsTabs f = false)
    (hr : C18_step t op = some t') : t'.tabs = tabsRef t'.cols ∧ 1 ≤ t'.cols := by
  cases op with
  | resize c r => exact C18_never_customised hc h hr
  | finish =>
    simp only [C18_step, Option.some.injEq] at hr
    subst hr
    have e : (finishT t).tabs = t.tabs ∧ (finishT t).cols = t.cols := by
      unfold finishT Terminal.gc Terminal.changes
      exact ⟨rfl, rfl⟩
    rw [e.1, e.2]
    exact ⟨h, hc⟩
  | exec f =>
    have hf := hop f rfl
    simp only [C18_step] at hr
    by_cases ht : touchesTabs f = false
    · have e := execute_frame ht hr
      rw [e.1, e.2]
      exact ⟨h, hc⟩
    · cases f <;> simp only [touchesTabs, editsTabs, Bool.true_eq_false, not_true_eq_false,
        not_false_eq_true] at ht hf
      case ris =>
        simp only [Terminal.execute, Terminal.hardReset] at hr
        cases hcs : csub t.rows 1 <;> simp [hcs] at hr
        subst hr
        exact ⟨C18_new t.cols, hc⟩
      case xtwinops c r =>
        simp only [Terminal.execute, Terminal.xtwinopsF] at hr
        split at hr
        · exact C18_never_customised hc h hr
        · cases hr; exact ⟨h, hc⟩

/-- a terminal whose stops were never edited has, after ANY history of function executions and
    resizes (RIS included), exactly the stops of a fresh terminal of its current width — so it tabs
    like a fresh one (`C18_tabop` reads only `tabs`, `cols` and the cursor) -/
theorem C18_never_customised_history : ∀ (ops : List C18_Op) {t t' : Terminal}, 1 ≤ t.cols →
    t.tabs = tabsRef t.cols → C18_neverEdits ops → C18_run t ops = some t' →
    t'.tabs = tabsRef t'.cols
  | [], t, t', _, h, _, hr => by cases hr; exact h
  | op :: ops, t, t', hc, h, hn, hr => by
    unfold C18_run at hr
    cases h1 : C18_step t op with
    | none => simp [h1] at hr
    | some t1 =>
      simp only [h1] at hr
      have e := C18_never_customised_step hc h
        (fun f hf => hn f (by rw [hf]; exact List.mem_cons_self ..)) h1
      exact C18_never_customised_history ops e.2 e.1
        (fun f hf => hn f (List.mem_cons_of_mem _ hf)) hr

/-! ### … and at the level of the public API (`Vt`) -/

/-- the parser, started in state `p`, emits no HTS / TBC / CTC while reading `s` -/
def C18_quiet : Parser → List Nat → Prop
  | _, [] => True
  | p, c :: cs =>
    match p.feed c with
    | some (p', some f) => editsTabs f = false ∧ C18_quiet p' cs
    | some (p', none) => C18_quiet p' cs
    | none => True

/-- "has exactly the default stops of the current width" -/
def C18_fresh (v : Vt) : Prop := v.terminal.tabs = tabsRef v.terminal.cols ∧ 1 ≤ v.terminal.cols

theorem C18_never_customised_feedAll : ∀ (s : List Nat) {v v' : Vt}, C18_fresh v →
    C18_quiet v.parser s → v.feedAll s = some v' → C18_fresh v'
  | [], v, v', h, _, hr => by cases hr; exact h
  | c :: cs, v, v', h, hq, hr => by
    unfold Vt.feedAll at hr
    cases h1 : v.feed c with
    | none => simp [h1] at hr
    | some v1 =>
      simp only [h1] at hr
      unfold C18_quiet at hq
      unfold Vt.feed at h1
      cases hp : v.parser.feed c with
      | none => simp [hp] at h1
      | some pf =>
        obtain ⟨p', of⟩ := pf
        cases of with
        | none =>
          simp only [hp, Option.some.injEq] at h1 hq
          subst h1
          exact C18_never_customised_feedAll cs (v := { v with parser := p' }) h hq hr
        | some f =>
          simp only [hp] at h1 hq
          cases he : v.terminal.execute f with
          | none => simp [he] at h1
          | some t1 =>
            simp only [he, Option.map_some, Option.some.injEq] at h1
            subst h1
            have e := C18_never_customised_step (op := .exec f) h.2 h.1
              (fun g hg => by cases hg; exact hq.1) he
            exact C18_never_customised_feedAll cs (v := { parser := p', terminal := t1 }) e hq.2 hr

/-- a public call -/
inductive C18_Call where
  | feedStr (s : List Nat)
  | feed (c : Nat)
  | resize (cols rows : Nat)

def C18_call (v : Vt) : C18_Call → Option Vt
  | .feedStr s => (v.feedStr s).map (·.1)
  | .feed c => v.feed c
  | .resize c r => (v.resize c r).map (·.1)

def C18_calls : Vt → List C18_Call → Option Vt
  | v, [] => some v
  | v, k :: ks => match C18_call v k with | some v' => C18_calls v' ks | none => none

/-- no call of the history makes the parser emit HTS / TBC / CTC -/
def C18_callsQuiet : Vt → List C18_Call → Prop
  | _, [] => True
  | v, k :: ks =>
    (match k with
      | .feedStr s => C18_quiet v.parser s
      | .feed c => C18_quiet v.parser [c]
      | .resize _ _ => True)
    ∧ ∀ v', C18_call v k = some v' → C18_callsQuiet v' ks

theorem C18_finish_fresh {v : Vt} (h : C18_fresh v) : C18_fresh (v.finish).1 := by
  unfold Vt.finish Terminal.gc Terminal.changes
  exact h

theorem C18_never_customised_call {v v' : Vt} {k : C18_Call} (h : C18_fresh v)
    (hq : match k with
      | .feedStr s => C18_quiet v.parser s
      | .feed c => C18_quiet v.parser [c]
      | .resize _ _ => True)
    (hr : C18_call v k = some v') : C18_fresh v' := by
  cases k with
  | feedStr s =>
    simp only [C18_call, Vt.feedStr, Option.map_map] at hr
    cases h1 : v.feedAll s with
    | none => simp [h1] at hr
    | some v1 =>
      simp only [h1, Option.map_some, Function.comp, Option.some.injEq] at hr
      subst hr
      exact C18_finish_fresh (C18_never_customised_feedAll s h hq h1)
  | feed c =>
    simp only [C18_call] at hr
    apply C18_never_customised_feedAll [c] h hq
    simp only [Vt.feedAll, hr]
  | resize c r =>
    simp only [C18_call, Vt.resize, Option.map_map] at hr
    cases h1 : v.terminal.resize c r with
    | none => simp [h1] at hr
    | some t1 =>
      simp only [h1, Option.map_some, Function.comp, Option.some.injEq] at hr
      subst hr
      have e := C18_never_customised h.2 h.1 h1
      exact C18_finish_fresh (v := { v with terminal := t1 }) e

/-- the property's quantifier: after ANY history of `feed_str` / `feed` / `resize` calls in which no
    stop was ever set or cleared, the stops are those of a fresh terminal of the current width -/
theorem C18_never_customised_calls : ∀ (ks : List C18_Call) {v v' : Vt}, C18_fresh v →
    C18_callsQuiet v ks → C18_calls v ks = some v' → v'.terminal.tabs = Tabs.new v'.terminal.cols
  | [], v, v', h, _, hr => by cases hr; rw [C18_new]; exact h.1
  | k :: ks, v, v', h, hq, hr => by
    unfold C18_calls at hr
    unfold C18_callsQuiet at hq
    cases h1 : C18_call v k with
    | none => simp [h1] at hr
    | some v1 =>
      simp only [h1] at hr
      exact C18_never_customised_calls ks (C18_never_customised_call h hq.1 h1) (hq.2 v1 h1) hr

/-- a freshly built `Vt` qualifies -/
theorem C18_new_fresh {cols rows : Nat} {lim : Option Nat} {v : Vt} (hc : 1 ≤ cols)
    (h : Vt.new cols rows lim = some v) : C18_fresh v := by
  unfold Vt.new at h
  cases ht : Terminal.new cols rows lim with
  | none => simp [ht] at h
  | some t =>
    simp only [ht, Option.map_some, Option.some.injEq] at h
    subst h
    refine ⟨C18_new_terminal ht, ?_⟩
    unfold Terminal.new at ht
    cases hc' : csub rows 1 <;> simp [hc'] at ht
    subst ht
    exact hc

/-! ### the hypotheses are satisfiable on a non-trivial state -/

/-- 20 columns, customised stops `[3, 8, 17]`, cursor in the wrap-pending column -/
def C18_example : Terminal :=
  { cols := 20, rows := 3, buffer := Buffer.new 20 3 none none, otherBuffer := Buffer.new 20 3 (some 0) none,
    activeBufferType := .primary, scrollbackLimit := none, cursor := { col := 20, row := 1 }, pen := {},
    charsets := (.ascii, .ascii), activeCharset := 0, tabs := [3, 8, 17], insertMode := false,
    originMode := false, autoWrapMode := true, newLineMode := false, cursorKeysMode := .normal,
    pendingWrap := true, topMargin := 0, bottomMargin := 2, savedCtx := {}, alternateSavedCtx := {},
    dirtyLines := Dirty.new 3, xtwinops := false }

example : TInv C18_example = true ∧ isTabOp (.cbt 2) = true
    ∧ (tabSpec C18_example (.cbt 2)).cursor.col = 8 ∧ (tabSpec C18_example (.cbt 2)).pendingWrap = false
    ∧ tabsOK C18_example.tabs C18_example.cols = true
    ∧ resizeRef C18_example.tabs 20 16 = [3, 8] ∧ resizeRef [8] 16 30 = [8, 16, 24]
    ∧ (tabSpec { C18_example with cursor := { col := 5, row := 1 }, pendingWrap := false } .hts).tabs = [3, 5, 8, 17] := by
  decide

/-! ### the stop vector is state: only HTS / TBC / CTC, RIS and a resize change it -/

/-- **Function level.**  A function other than HTS, TBC, CTC, RIS and XTWINOPS (`setsTabs`) leaves
    the stop vector exactly as it was — every terminal state, every geometry, no invariant needed.
    In particular HT / CHT / CBT themselves, printing, scrolling, save / restore cursor, the soft
    reset DECSTR, and entering and leaving the alternate screen (DECSET / DECRST 47, 1047, 1049)
    keep every stop. -/
theorem C18_tabs_persist {t t' : Terminal} {f : Function} (hf : setsTabs f = false)
    (h : t.execute f = some t') : t'.tabs = t.tabs :=
  (Avt.C18T.frame hf h).1

/-- **Call level.**  If none of the functions the parser emits for the input (from the parser state
    the call starts in) sets the stops, then the fold of `execute` over them, per-character
    `Vt::feed`, `Vt.feedAll` and `Vt::feed_str` (which ends with `changes()` + `gc()`) all leave the
    stop vector as it was.  This is the clause `tabs-persist` of the oracle (`Spec.C18.checkStep`). -/
theorem C18_tabs_persist_feed {v : Vt} {xs : List Nat}
    (hf : ∀ f ∈ Frame.emitted v.parser xs, setsTabs f = false) :
    (∀ t', Terminal.foldM' Terminal.execute (Frame.emitted v.parser xs) v.terminal = some t' →
        t'.tabs = v.terminal.tabs)
    ∧ (∀ v', v.feedAll xs = some v' → v'.terminal.tabs = v.terminal.tabs)
    ∧ (∀ v' ch, v.feedStr xs = some (v', ch) → v'.terminal.tabs = v.terminal.tabs)
    ∧ (∀ c v', xs = [c] → v.feed c = some v' → v'.terminal.tabs = v.terminal.tabs) :=
  ⟨fun _ h => (Avt.C18T.frame_many hf h).1,
   fun _ h => (Avt.C18T.feedAll_tabs xs hf h).1,
   fun _ _ h => (Avt.C18T.feedStr_tabs hf h).1,
   fun _ _ e h => (Avt.C18T.feed_tabs (by rw [← e]; exact hf) h).1⟩

/-! the hypotheses are satisfiable: a 20x3 terminal gets a custom stop at column 3 (`CSI 4 G`,
    `ESC H`), then in one call enters the alternate screen (`CSI ?1049h`), is soft-reset (`CSI ! p`),
    prints, tabs, scrolls (three LF, `CSI S`) and leaves the alternate screen (`CSI ?1049l`): none of
    the ten emitted functions sets the stops, and the stops are still `[3, 8, 16]` — not the
    defaults of a 20-column terminal -/

private def exTabsIn : List Nat :=
  [0x1b, 0x5b, 0x3f, 0x31, 0x30, 0x34, 0x39, 0x68, 0x1b, 0x5b, 0x21, 0x70, 0x61, 0x09, 0x62,
   0x0a, 0x0a, 0x0a, 0x1b, 0x5b, 0x53, 0x1b, 0x5b, 0x3f, 0x31, 0x30, 0x34, 0x39, 0x6c]

example : (do
    let v ← Vt.new 20 3 none
    let (v0, _) ← v.feedStr [0x1b, 0x5b, 0x34, 0x47, 0x1b, 0x48]
    let (v1, _) ← v0.feedStr exTabsIn
    pure (v0.terminal.tabs == [3, 8, 16] && v0.terminal.tabs != tabsRef 20
          && Frame.emitted v0.parser exTabsIn
               == [.decset [.saveCursorAltScreenBuffer], .decstr, .print 0x61, .ht, .print 0x62,
                   .lf, .lf, .lf, .su 0, .decrst [.saveCursorAltScreenBuffer]]
          && (Frame.emitted v0.parser exTabsIn).all (fun f => !setsTabs f)
          && v1.terminal.tabs == [3, 8, 16] && v1.terminal.activeBufferType == .primary)) = some true := by
  decide

end Avt
