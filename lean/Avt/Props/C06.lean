/- Property theorems for C06 (placeholder until the proofs land). -/
import Avt.Spec.C06
