/-
  Avt.Props.C06 — property C06: scrolling stays inside its region and feeds the scrollback in order.

  All theorems are about the model (`Avt.Model.*`), for every terminal state satisfying the global
  invariant (`TInv`, C02), every geometry, every count — no bounds.  The specification vocabulary
  (`scrollUpSpec`, `scrollDownSpec`, `scrollCmdSpec`, `coveredScroll`, `mayChangeScrollback`, …) is
  defined in Avt/Spec/C06.lean and is the same one the oracle evaluates on implementation states.

  Obligations (all proved at full strength):
    C06_scrollUp  C06_scrollDown  C06_cmd  C06_cmd_ranges
    C06_outside_unchanged  C06_shift_and_fill  C06_wrap_marks
    C06_scrollback_append  C06_scrollback_untouched
    C06_decstbm  C06_only_scrolls_grow  C06_scroll_feeds_only_from_row0  C06_alt_keeps_none
    C06_region_persists  C06_region_persists_feed
-/
import Avt.Lemmas.C06Props
import Avt.Lemmas.C06Margins

namespace Avt.Props.C06
open Avt Avt.Spec Avt.Spec.C06 Avt.C06L

/-! ### the two buffer operations meet the closed-form specification -/

theorem C06_scrollUp (b : Buffer) (s e n : Nat) (pen : Pen) (hb : BInv b = true) (hse : s < e)
    (he : e ≤ b.rows) : b.scrollUp s e n pen = some (scrollUpSpec s e n pen b) :=
  scrollUp_eq b s e n pen hb hse he

theorem C06_scrollDown (b : Buffer) (s e n : Nat) (pen : Pen) (hb : BInv b = true) (hse : s < e)
    (he : e ≤ b.rows) : b.scrollDown s e n pen = some (scrollDownSpec s e n pen b) :=
  scrollDown_eq b s e n pen hb hse he

/-! ### every scrolling command is the specification applied to the range the property names -/

/-- LF/IND/VT/FF, NEL, RI, SU, SD, IL, DL, DECSTBM (and CR): total, and exactly `scrollCmdSpec` -/
theorem C06_cmd (t : Terminal) (f : Function) (h : TInv t = true) (hf : coveredScroll f = true) :
    t.execute f = some (scrollCmdSpec t f) :=
  scrollCmd_eq t f h hf

/-- the ranges and counts, spelled out: on the bottom margin LF and NEL scroll the region up by one
    (the cursor stays; NEL and LF under LNM return to column 0), on the top margin RI scrolls it
    down by one, SU/SD scroll the region by `as_usize(n, 1)`, IL/DL scroll the rows from the cursor
    to the bottom margin (to the last row when the cursor is below the region) -/
theorem C06_cmd_ranges (t : Terminal) (h : TInv t = true) (n : Nat) :
    (t.cursor.row = t.bottomMargin →
        t.execute .lf = some (if t.newLineMode then toCol0 (regionUp t 1) else regionUp t 1)
        ∧ t.execute .nel = some (toCol0 (regionUp t 1)))
    ∧ (t.cursor.row = t.topMargin → t.execute .ri = some (regionDown t 1))
    ∧ t.execute (.su n) = some (regionUp t (asUsize n 1))
    ∧ t.execute (.sd n) = some (regionDown t (asUsize n 1))
    ∧ t.execute (.il n) = some
        { t with buffer := scrollDownSpec t.cursor.row
                    (if t.cursor.row ≤ t.bottomMargin then t.bottomMargin + 1 else t.rows)
                    (asUsize n 1) t.pen t.buffer
                 dirtyLines := markRange t.dirtyLines t.cursor.row
                    (if t.cursor.row ≤ t.bottomMargin then t.bottomMargin + 1 else t.rows) }
    ∧ t.execute (.dl n) = some
        { t with buffer := scrollUpSpec t.cursor.row
                    (if t.cursor.row ≤ t.bottomMargin then t.bottomMargin + 1 else t.rows)
                    (asUsize n 1) t.pen t.buffer
                 dirtyLines := markRange t.dirtyLines t.cursor.row
                    (if t.cursor.row ≤ t.bottomMargin then t.bottomMargin + 1 else t.rows) } := by
  refine ⟨fun hm => ⟨?_, ?_⟩, fun hm => ?_, ?_, ?_, ?_, ?_⟩
  · rw [C06_cmd t .lf h rfl]
    simp only [scrollCmdSpec, down1, hm, if_true]
    rfl
  · rw [C06_cmd t .nel h rfl]
    simp only [scrollCmdSpec, down1, hm, if_true]
  · rw [C06_cmd t .ri h rfl]
    simp only [scrollCmdSpec, up1, hm, if_true]
  · exact C06_cmd t (.su n) h rfl
  · exact C06_cmd t (.sd n) h rfl
  · exact C06_cmd t (.il n) h rfl
  · exact C06_cmd t (.dl n) h rfl

/-! ### the property's clauses, read off the specification -/

/-- every row outside the range is cell-for-cell unchanged, for both directions; rows outside the
    range other than the one just above it also keep their wrap marks -/
theorem C06_outside_unchanged (s e n : Nat) (pen : Pen) (b : Buffer) (hb : BInv b = true)
    (hse : s < e) (he : e ≤ b.rows) (i : Nat) (hi : i < s ∨ e ≤ i) :
    ((scrollUpSpec s e n pen b).view[i]?).map Line.cells = (b.view[i]?).map Line.cells
    ∧ ((scrollDownSpec s e n pen b).view[i]?).map Line.cells = (b.view[i]?).map Line.cells
    ∧ ((i + 1 < s ∨ e ≤ i) →
        (scrollUpSpec s e n pen b).view[i]? = b.view[i]?
        ∧ (scrollDownSpec s e n pen b).view[i]? = b.view[i]?) := by
  obtain ⟨_, _, hv, _⟩ := BInv_facts hb
  have he' : e ≤ b.view.length := by omega
  refine ⟨?_, ?_, fun hi' => ⟨?_, ?_⟩⟩
  · have := scrollUp_outside s e n pen b (by omega) he' i hi
    simpa [cellsOf] using this
  · have := scrollDown_outside s e n pen b (by omega) he' i hi
    simpa [cellsOf] using this
  · exact scrollUp_rows_outside s e n pen b hse he' i hi'
  · exact scrollDown_rows_outside s e n pen b hse he' i hi'

/-- exactly the rows of the range move, by exactly `k = min n (e - s)`, and the `k` vacated rows are
    blank rows in the given pen -/
theorem C06_shift_and_fill (s e n : Nat) (pen : Pen) (b : Buffer) (hb : BInv b = true)
    (hse : s < e) (he : e ≤ b.rows) (i : Nat) (h1 : s ≤ i) (h2 : i < e) :
    let k := min n (e - s)
    (i + k < e →
        ((scrollUpSpec s e n pen b).view[i]?).map Line.cells = (b.view[i + k]?).map Line.cells
        ∧ ((scrollDownSpec s e n pen b).view[i + k]?).map Line.cells = (b.view[i]?).map Line.cells)
    ∧ (e ≤ i + k → (scrollUpSpec s e n pen b).view[i]? = some (Line.blank b.cols pen))
    ∧ (i < s + k →
        ((scrollDownSpec s e n pen b).view[i]?).map Line.cells
          = some (List.replicate b.cols (Cell.blank pen))) := by
  obtain ⟨_, _, hv, _⟩ := BInv_facts hb
  have he' : e ≤ b.view.length := by omega
  refine ⟨fun hk => ⟨?_, ?_⟩, fun hk => ?_, fun hk => ?_⟩
  · have := scrollUp_shifted s e n pen b (by omega) he' i h1 hk
    simpa [cellsOf] using this
  · have := scrollDown_shifted s e n pen b (by omega) he' i h1 hk
    simpa [cellsOf] using this
  · exact scrollUp_filled s e n pen b (by omega) he' i hk h2
  · have := scrollDown_filled s e n pen b (by omega) he' i h1 hk
    simpa [cellsOf] using this

/-- wrap marks: scrolling up clears the mark of the row just above the range, and of the old last
    row of a range that ends above the last row of the screen; every other mark moves with its row.
    Scrolling down clears the marks of the row just above the range and of the new last row of the
    range. -/
theorem C06_wrap_marks (s e n : Nat) (pen : Pen) (b : Buffer) (hb : BInv b = true)
    (hse : s < e) (he : e ≤ b.rows) :
    (0 < s → (scrollUpSpec s e n pen b).view[s - 1]? = (b.view[s - 1]?).map unmark)
    ∧ (∀ i, s ≤ i → i + min n (e - s) < e →
        (scrollUpSpec s e n pen b).view[i]? =
          if i + min n (e - s) + 1 = e ∧ e < b.rows then (b.view[i + min n (e - s)]?).map unmark
          else b.view[i + min n (e - s)]?)
    ∧ (0 < s → ((scrollDownSpec s e n pen b).view[s - 1]?).map Line.wrapped = some false)
    ∧ ((scrollDownSpec s e n pen b).view[e - 1]?).map Line.wrapped = some false := by
  obtain ⟨_, _, hv, _⟩ := BInv_facts hb
  have he' : e ≤ b.view.length := by omega
  refine ⟨fun hs => ?_, fun i h1 h2 => ?_, fun hs => ?_, ?_⟩
  · exact scrollUp_row_above s e n pen b hse he' hs
  · exact scrollUp_rows_moved s e n pen b hse he' i h1 h2
  · exact scrollDown_unmarked s e n pen b hse he' (s - 1) (Or.inl ⟨hs, rfl⟩)
  · exact scrollDown_unmarked s e n pen b hse he' (e - 1) (Or.inr rfl)

/-- rows scrolled off the top of a range that begins at the first row are appended to the
    scrollback unchanged and in order: the new line sequence is the old scrollback, then the old
    view rows `0..k`, then the new view; cell for cell, and with their wrap marks (except the old
    last row of a range that ends above the last row of the screen, whose mark is cleared) -/
theorem C06_scrollback_append (e n : Nat) (pen : Pen) (b : Buffer) :
    let k := min n e
    (scrollUpSpec 0 e n pen b).lines
        = b.sb ++ (upMarks 0 e b.rows b.view).take k ++ (scrollUpSpec 0 e n pen b).view
    ∧ (scrollUpSpec 0 e n pen b).sb.map Line.cells
        = b.sb.map Line.cells ++ (b.view.take k).map Line.cells
    ∧ ∀ i, i < k → (i + 1 ≠ e ∨ e = b.rows) →
        (scrollUpSpec 0 e n pen b).sb[b.sb.length + i]? = b.view[i]? := by
  refine ⟨scrollUp_lines e n pen b, ?_, fun i hi hm => scrollUp_sb_rows e n pen b i hi hm⟩
  have := scrollUp_sb_cells e n pen b
  simpa [cellsOf, List.map_take] using this

/-- a scroll-up of a range that does not start at row 0, and every scroll-down, leave the
    scrollback alone -/
theorem C06_scrollback_untouched (s e n : Nat) (pen : Pen) (b : Buffer) :
    (s ≠ 0 → (scrollUpSpec s e n pen b).sb = b.sb) ∧ (scrollDownSpec s e n pen b).sb = b.sb := by
  refine ⟨fun hs => ?_, rfl⟩
  rw [scrollUp_sb, if_neg hs]

/-- DECSTBM takes effect only for `1 ≤ top < bottom ≤ rows` (after the defaults `top = 1`,
    `bottom = rows` for omitted / zero parameters) and otherwise leaves the margins as they were -/
theorem C06_decstbm (t t' : Terminal) (top bottom : Nat) (h : TInv t = true)
    (he : t.execute (.decstbm top bottom) = some t') :
    (t'.topMargin, t'.bottomMargin) =
      if 1 ≤ asUsize top 1 ∧ asUsize top 1 < asUsize bottom t.rows ∧ asUsize bottom t.rows ≤ t.rows
      then (asUsize top 1 - 1, asUsize bottom t.rows - 1)
      else (t.topMargin, t.bottomMargin) := by
  rw [C06_cmd t _ h rfl] at he
  cases he
  simp only [scrollCmdSpec, setMargins, marginsAfter, validMargins, Bool.and_eq_true,
    decide_eq_true_eq, and_assoc]

/-- no other control function adds to the scrollback: a function that changes the lines above the
    view of the active buffer (or anything in the parked buffer) is LF/IND/VT/FF, NEL, SU, DL,
    Print, Rep, RIS, or a DECSET/DECRST carrying an alternate-screen mode (47/1047/1049) -/
theorem C06_only_scrolls_grow (t t' : Terminal) (f : Function) (h : TInv t = true)
    (he : t.execute f = some t')
    (hne : t'.buffer.sb ≠ t.buffer.sb ∨ t'.otherBuffer ≠ t.otherBuffer) :
    f = .lf ∨ f = .nel ∨ (∃ n, f = .su n) ∨ (∃ n, f = .dl n) ∨ (∃ c, f = .print c)
      ∨ (∃ n, f = .rep n) ∨ f = .ris
      ∨ ((∃ ms, f = .decset ms ∨ f = .decrst ms) ∧ replacesBuffer f = true) := by
  cases hm : mayChangeScrollback f
  · have := keeps_scrollback t t' f h hm he
    rcases hne with h1 | h1
    · exact absurd this.1 h1
    · exact absurd this.2 h1
  · cases f <;> simp only [mayChangeScrollback, Bool.false_eq_true] at hm
    case lf => exact Or.inl rfl
    case nel => exact Or.inr (Or.inl rfl)
    case su n => exact Or.inr (Or.inr (Or.inl ⟨n, rfl⟩))
    case dl n => exact Or.inr (Or.inr (Or.inr (Or.inl ⟨n, rfl⟩)))
    case print c => exact Or.inr (Or.inr (Or.inr (Or.inr (Or.inl ⟨c, rfl⟩))))
    case rep n => exact Or.inr (Or.inr (Or.inr (Or.inr (Or.inr (Or.inl ⟨n, rfl⟩)))))
    case ris => exact Or.inr (Or.inr (Or.inr (Or.inr (Or.inr (Or.inr (Or.inl rfl))))))
    case xtwinops c r =>
      rw [xtwinops_inert t c r h] at he
      cases he
      rcases hne with h1 | h1 <;> exact absurd rfl h1
    case decset ms =>
      refine Or.inr (Or.inr (Or.inr (Or.inr (Or.inr (Or.inr (Or.inr ⟨⟨ms, Or.inl rfl⟩, ?_⟩))))))
      cases hr : replacesBuffer (.decset ms)
      · have := decModes_same t t' _ hr (Or.inl ⟨ms, rfl⟩) he
        rcases hne with h1 | h1
        · exact absurd (by rw [this.1]) h1
        · exact absurd this.2 h1
      · rfl
    case decrst ms =>
      refine Or.inr (Or.inr (Or.inr (Or.inr (Or.inr (Or.inr (Or.inr ⟨⟨ms, Or.inr rfl⟩, ?_⟩))))))
      cases hr : replacesBuffer (.decrst ms)
      · have := decModes_same t t' _ hr (Or.inr ⟨ms, rfl⟩) he
        rcases hne with h1 | h1
        · exact absurd (by rw [this.1]) h1
        · exact absurd this.2 h1
      · rfl

/-- … and among the covered scrolling commands the scrollback changes only when the scrolled
    range starts at row 0: LF/NEL on the bottom margin with top margin 0, SU with top margin 0,
    DL with the cursor on row 0 -/
theorem C06_scroll_feeds_only_from_row0 (t : Terminal) (f : Function) (hf : coveredScroll f = true)
    (hne : (scrollCmdSpec t f).buffer.sb ≠ t.buffer.sb) :
    ((f = .lf ∨ f = .nel) ∧ t.cursor.row = t.bottomMargin ∧ t.topMargin = 0)
    ∨ ((∃ n, f = .su n) ∧ t.topMargin = 0)
    ∨ ((∃ n, f = .dl n) ∧ t.cursor.row = 0) := by
  have hup : ∀ s e n pen (b : Buffer), (scrollUpSpec s e n pen b).sb ≠ b.sb → s = 0 := by
    intro s e n pen b hx
    rcases Nat.eq_zero_or_pos s with h0 | h0
    · exact h0
    · exact absurd ((C06_scrollback_untouched s e n pen b).1 (by omega)) hx
  have hdown1 : (down1 t).buffer.sb ≠ t.buffer.sb → t.cursor.row = t.bottomMargin ∧ t.topMargin = 0 := by
    intro hx
    unfold down1 at hx
    split at hx
    · rename_i hrow
      exact ⟨hrow, hup _ _ _ _ _ hx⟩
    · split at hx <;> exact absurd rfl hx
  cases f <;> simp only [coveredScroll, Bool.false_eq_true] at hf <;> simp only [scrollCmdSpec] at hne
  case lf =>
    refine Or.inl ⟨Or.inl rfl, hdown1 ?_⟩
    split at hne
    · exact hne
    · exact hne
  case nel => exact Or.inl ⟨Or.inr rfl, hdown1 hne⟩
  case ri =>
    unfold up1 at hne
    split at hne
    · exact absurd rfl hne
    · split at hne <;> exact absurd rfl hne
  case su n => exact Or.inr (Or.inl ⟨⟨n, rfl⟩, hup _ _ _ _ _ hne⟩)
  case sd n => exact absurd rfl hne
  case il n => exact absurd rfl hne
  case dl n => exact Or.inr (Or.inr ⟨⟨n, rfl⟩, hup _ _ _ _ _ hne⟩)
  case decstbm a b => exact absurd rfl hne
  case cr => exact absurd rfl hne

/-- the alternate screen keeps no scrollback: after every finishing call (`changes()` + `gc()`)
    nothing is left above its view -/
theorem C06_alt_keeps_none (t : Terminal) (h : TInv t = true)
    (ha : t.activeBufferType = .alternate) : (finishT t).buffer.sb = [] :=
  alt_keeps_none t h ha

/-! ### the hypotheses are satisfiable: a concrete 3x4 terminal with region rows 1..2, a non-default
    pen, soft-wrapped rows and one line of scrollback -/

private def exPen : Pen := { bg := some (.indexed 4) }
private def exRow (c : Nat) (w : Bool) : Line := ⟨List.replicate 3 ⟨c, {}⟩, w⟩

private def exT : Terminal :=
  { cols := 3, rows := 4,
    buffer := { sb := [exRow 0x7a false], view := [exRow 0x61 true, exRow 0x62 true, exRow 0x63 true, exRow 0x64 false],
                cols := 3, rows := 4, limit := none, trimNeeded := false },
    otherBuffer := Buffer.new 3 4 (some 0) none,
    activeBufferType := .primary, scrollbackLimit := none,
    cursor := { col := 1, row := 2 }, pen := exPen, charsets := (.ascii, .ascii), activeCharset := 0,
    tabs := [], insertMode := false, originMode := false, autoWrapMode := true, newLineMode := false,
    cursorKeysMode := .normal, pendingWrap := false, topMargin := 1, bottomMargin := 2,
    savedCtx := {}, alternateSavedCtx := {}, dirtyLines := [false, false, false, false],
    xtwinops := false }

example : TInv exT = true := by decide

/-- LF on the bottom margin scrolls rows 1..2: row 0 loses its mark, row 2 moves to row 1 without its
    mark, row 2 is blank in the pen, row 3 and the scrollback are untouched -/
example : exT.execute .lf = some
    { exT with
      buffer := { exT.buffer with
        view := [exRow 0x61 false, exRow 0x63 false, Line.blank 3 exPen, exRow 0x64 false],
        trimNeeded := true },
      dirtyLines := [false, true, true, false] } := by
  rw [C06_cmd exT .lf (by decide) rfl]
  decide

/-- DL on row 0 of the primary screen feeds the scrollback -/
example : ((scrollCmdSpec { exT with cursor := { col := 0, row := 0 } } (.dl 2)).buffer.sb)
    = [exRow 0x7a false, exRow 0x61 true, exRow 0x62 true] := by decide

/-! ### the region is state: only DECSTBM, the resets and a resize change it -/

/-- **Function level.**  A function other than DECSTBM, DECSTR, RIS and XTWINOPS (`setsMargins`)
    leaves the scroll region exactly as it was — every terminal state, every geometry, no invariant
    needed.  In particular entering and leaving the alternate screen (DECSET / DECRST 47, 1047,
    1049), after whatever resize happened in between, keeps the region. -/
theorem C06_region_persists {t t' : Terminal} {f : Function} (hf : setsMargins f = false)
    (h : t.execute f = some t') :
    t'.topMargin = t.topMargin ∧ t'.bottomMargin = t.bottomMargin :=
  Avt.C06M.frame hf h

/-- **Call level.**  If none of the functions the parser emits for the input (from the parser state
    the call starts in) sets the margins, then the fold of `execute` over them, per-character
    `Vt::feed`, `Vt.feedAll` and `Vt::feed_str` (which ends with `changes()` + `gc()`) all leave the
    region as it was.  This is the clause `region-persists` of the oracle (`Spec.C06.checkStep`). -/
theorem C06_region_persists_feed {v : Vt} {xs : List Nat}
    (hf : ∀ f ∈ Frame.emitted v.parser xs, setsMargins f = false) :
    (∀ t', Terminal.foldM' Terminal.execute (Frame.emitted v.parser xs) v.terminal = some t' →
        t'.topMargin = v.terminal.topMargin ∧ t'.bottomMargin = v.terminal.bottomMargin)
    ∧ (∀ v', v.feedAll xs = some v' →
        v'.terminal.topMargin = v.terminal.topMargin ∧ v'.terminal.bottomMargin = v.terminal.bottomMargin)
    ∧ (∀ v' ch, v.feedStr xs = some (v', ch) →
        v'.terminal.topMargin = v.terminal.topMargin ∧ v'.terminal.bottomMargin = v.terminal.bottomMargin)
    ∧ (∀ c v', xs = [c] → v.feed c = some v' →
        v'.terminal.topMargin = v.terminal.topMargin ∧ v'.terminal.bottomMargin = v.terminal.bottomMargin) :=
  ⟨fun _ h => Avt.C06M.frame_many hf h,
   fun _ h => Avt.C06M.feedAll_mrg xs hf h,
   fun _ _ h => Avt.C06M.feedStr_mrg hf h,
   fun _ _ e h => Avt.C06M.feed_mrg (by rw [← e]; exact hf) h⟩

/-! the hypotheses are satisfiable: a 4x4 terminal with region rows 1..2 (`CSI 2;3 r`) enters the
    alternate screen (`CSI ?1047h`), is resized there (width only: 6x4), and leaves it again
    (`CSI ?1047l`): none of the two switches emits a margin-setting function, and the region is still
    rows 1..2 of a screen of 4 rows — a proper sub-range -/

private def exRegion : Option (Vt × Vt × Vt) := do
  let v ← Vt.new 4 4 none
  let (v0, _) ← v.feedStr [0x1b, 0x5b, 0x32, 0x3b, 0x33, 0x72]
  let (v1, _) ← v0.feedStr [0x1b, 0x5b, 0x3f, 0x31, 0x30, 0x34, 0x37, 0x68]
  let (v2, _) ← v1.resize 6 4
  let (v3, _) ← v2.feedStr [0x1b, 0x5b, 0x3f, 0x31, 0x30, 0x34, 0x37, 0x6c]
  pure (v0, v2, v3)

example : ∃ v0 v2 v3, exRegion = some (v0, v2, v3)
    ∧ (v0.terminal.topMargin, v0.terminal.bottomMargin, v0.terminal.rows) = (1, 2, 4)
    ∧ Frame.emitted v0.parser [0x1b, 0x5b, 0x3f, 0x31, 0x30, 0x34, 0x37, 0x68] = [.decset [.altScreenBuffer]]
    ∧ Frame.emitted v2.parser [0x1b, 0x5b, 0x3f, 0x31, 0x30, 0x34, 0x37, 0x6c] = [.decrst [.altScreenBuffer]]
    ∧ setsMargins (.decset [.altScreenBuffer]) = false ∧ setsMargins (.decrst [.altScreenBuffer]) = false
    ∧ v2.terminal.activeBufferType = .alternate ∧ v2.terminal.cols = 6
    ∧ v3.terminal.activeBufferType = .primary
    ∧ (v3.terminal.topMargin, v3.terminal.bottomMargin, v3.terminal.rows) = (1, 2, 4) := by
  refine ⟨_, _, _, rfl, ?_⟩
  decide

end Avt.Props.C06
