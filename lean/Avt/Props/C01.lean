/- Property theorems for C01 (placeholder until the proofs land). -/
import Avt.Spec.C01
