/-
  Avt.Props.C01 — total on every input: no panic.

  The model is *checked*: every Rust panic site (index out of range, `usize` underflow, slice
  bounds, rotate assertion, `unwrap`, the `assert!` in `reflow`) returns `none`.  "`isSome`" is
  therefore literally "the call returns normally".

  Hypotheses that remain: `ResizeOK` (contract of `Buffer.resize`/reflow; discharged by
  `Avt.resizeOK` in Avt/Lemmas/ResizeOK.lean) and `ParserOK` (the parser never panics and keeps its
  register invariant; parser block C03/C20).

  Loop bounds (the logical part of "running time bounded by the work requested"): every function of the
  model is a structural recursion accepted by Lean's termination checker without `partial` and
  without fuel, except `Buffer.reflowGo`, whose fuel `reflowFuel` is linear in the size of the buffer
  (its sufficiency is part of `ResizeOK`).  The only loop whose iteration count is taken from the
  input, REP, performs exactly `asUsize n 1 ≤ 65535` prints (`C01_rep_count`, `C01_rep_bound`);
  `decaln` performs `rows × cols` cell writes; DECSET/DECRST/SM/RM/SGR iterate over their (≤ 32)
  parameters; every scroll/insert/delete count is clamped to the region or row before use
  (`min n (e - s)`, `min n (cols - col)` in Avt/Model/Buffer.lean).  Machine time is outside the model.
-/
import Avt.Lemmas.InvVt
import Avt.Lemmas.InvDump

namespace Avt.Props.C01
open Avt

/-- the four public mutators never panic in a state satisfying the invariant -/
theorem C01_total (hR : ResizeOK) (hP : ParserOK) {v : Vt} (h : Inv v = true) (op : PubOp)
    (hv : op.valid) : (step v op).isSome = true := by
  obtain ⟨v', h1, _⟩ := step_ok hR hP op h hv
  rw [h1]; rfl

/-- `Vt::feed` (one character) never panics -/
theorem C01_feed (hR : ResizeOK) (hP : ParserOK) {v : Vt} (h : Inv v = true) (c : Nat) :
    (v.feed c).isSome = true := by
  obtain ⟨v', h1, _⟩ := Vt.feed_ok hR hP c h
  rw [h1]; rfl

/-- every control function is total under the terminal invariant -/
theorem C01_execute (hR : ResizeOK) {t : Terminal} (h : TInv t = true) (f : Function) :
    (t.execute f).isSome = true := by
  obtain ⟨t', h1, _⟩ := Terminal.execute_ok hR f (TOK.of_TInv h)
  rw [h1]; rfl

/-- the queries that can panic in Rust (`dump()`, `line(n)` for `n < rows`) return normally; the
    others (`text`, `view`, `lines`, `cursor`, `size`, draining `Changes.scrollback`,
    `TextCollector.flush`) are total functions of the model -/
theorem C01_queries {v : Vt} (h : Inv v = true) : queriesOK v := by
  refine ⟨?_, fun n hn => ?_⟩
  · obtain ⟨s, hs⟩ := Vt.dump_ok h
    rw [hs]; rfl
  · obtain ⟨_, ht⟩ := (Vt.inv_iff v).1 h
    have : n < v.terminal.buffer.view.length := by rw [ht.bok.hv, ht.brows]; exact hn
    simp [Vt.line, List.getElem?_eq_getElem this]

/-- the `dump` family on its own: `Pen.dump` is unconditionally total, `Buffer.dump` needs only
    `rows ≥ 1`, `Terminal.dump` the terminal invariant -/
theorem C01_dump_parts :
    (∀ p : Pen, p.dump.isSome = true) ∧ (∀ b : Buffer, 1 ≤ b.rows → b.dump.isSome = true)
      ∧ (∀ t : Terminal, TInv t = true → t.dump.isSome = true)
      ∧ (∀ p : Parser, PInv p = true → p.dump.isSome = true) := by
  refine ⟨fun p => ?_, fun b hb => ?_, fun t ht => ?_, fun p hp => ?_⟩
  · obtain ⟨s, hs⟩ := p.dump_ok; rw [hs]; rfl
  · obtain ⟨s, hs⟩ := Buffer.dump_ok hb; rw [hs]; rfl
  · obtain ⟨s, hs⟩ := Terminal.dump_ok (TOK.of_TInv ht); rw [hs]; rfl
  · obtain ⟨s, hs⟩ := Parser.dump_ok hp; rw [hs]; rfl

/-- `TextCollector::{feed_str, resize}` never panic (`flush` is a total function) -/
theorem C01_collector (hR : ResizeOK) (hP : ParserOK) (tc : TextCollector) (h : Inv tc.vt = true) :
    (∀ s, (tc.feedStr s).isSome = true) ∧ (∀ c r, 1 ≤ c → 1 ≤ r → (tc.resize c r).isSome = true) := by
  refine ⟨fun s => ?_, fun c r hc hr => ?_⟩
  · obtain ⟨v', ch, h1, _⟩ := Vt.feedStr_ok hR hP s h
    simp [TextCollector.feedStr, h1]
  · obtain ⟨v', ch, h1, _⟩ := Vt.resize_ok hR h hc hr
    simp [TextCollector.resize, h1]

/-- every reachable state: all public mutators and all queries return normally -/
theorem C01_reach (hR : ResizeOK) (hP : ParserOK) {v : Vt} (h : Reach v) :
    (∀ op : PubOp, op.valid → (step v op).isSome = true) ∧ queriesOK v :=
  have hi := reach_inv hR hP h
  ⟨fun op hv => C01_total hR hP hi op hv, C01_queries hi⟩

/-- REP is `asUsize n 1` successive prints of the same character … -/
theorem C01_rep_count (t : Terminal) (ch : Nat) (k : Nat) :
    t.printN ch k = Terminal.foldM' (fun t c => t.print c) (List.replicate k ch) t := by
  induction k generalizing t with
  | zero => rfl
  | succ k ih =>
    simp only [Terminal.printN, List.replicate_succ, Terminal.foldM']
    cases t.print ch with
    | none => rfl
    | some t' => exact ih t'

/-- … and for a `u16` parameter that count is between 1 and 65535 -/
theorem C01_rep_bound {n : Nat} (h : n < 65536) : 1 ≤ asUsize n 1 ∧ asUsize n 1 ≤ 65535 := by
  unfold asUsize; split <;> omega

end Avt.Props.C01
