/-
  Avt.Props.C15 — changed-line reports are sound.

  Vocabulary (Avt/Spec/C15.lean, the definitions the oracle evaluates): `rowCells`, `rowChanged`,
  `changedRows`, `reportSound`, `flagged`, `dirtyMono`, `dirtySound`.

  Proved, for all states, all sizes, **every** `Function` (no restriction — `coveredDirty` would be
  constantly `true`, so there is no `_partial` statement):
  * `C15_step`        `TInv t → t.execute f = some t' → dirtyMono t t' ∧ dirtySound t t'`;
  * `C15_feedAll`     the same for the whole function stream of an input string (`Vt::feed` per char:
                      flags accumulate, none is cleared, every changed row is flagged);
  * `C15_sound`       `feed_str` returns a `Changes.lines` that contains every visible row whose cells
                      differ between the start and the end of the call;
  * `C15_sound_resize` so does `resize` (it reports every row of the new screen) — no hypothesis at all;
  * `C15_reported_iff` `Changes.lines` lists exactly the rows whose flag is set.
  The proof goes through `StepD` (Avt/Lemmas/C15Step.lean): "mutate, then mark" is modelled as a debt
  that the following `dirty_lines.add/extend` pays; `Pre` (three clauses of `TInv`: `buffer.rows = rows`,
  one flag per row, `xtwinops` off) is all that is needed of the invariant and is itself preserved.
-/
import Avt.Lemmas.C15Fun
import Avt.Lemmas.InvTerminal

namespace Avt.Props.C15
open Avt Avt.Spec.C15 Avt.C15

theorem pre_of_tinv {t : Terminal} (h : TInv t = true) : Pre t :=
  let k := TOK.of_TInv h
  ⟨k.brows, k.dirty, k.xt⟩

theorem flagged_iff (t : Terminal) (i : Nat) : flagged t i = true ↔ Flagged t.dirtyLines i := by
  simp [flagged, Flagged]

/-- the step relation in the oracle's vocabulary -/
theorem spec_of_step {t t' : Terminal} (p : Pre t) (h : StepD Never t t') :
    dirtyMono t t' = true ∧ dirtySound t t' = true := by
  constructor
  · simp only [dirtyMono, Bool.or_eq_true, bne_iff_ne, ne_eq, List.all_eq_true, List.mem_range,
      Bool.not_eq_true', ← Bool.not_eq_true, flagged_iff]
    refine .inr fun i _ => ?_
    by_cases hf : Flagged t.dirtyLines i
    · exact .inr (h.keep i hf)
    · exact .inl hf
  · simp only [dirtySound, changedRows, List.all_eq_true, List.mem_filter, List.mem_range, rowChanged,
      bne_iff_ne, ne_eq, flagged_iff, and_imp]
    intro i hi hne
    rcases h.sound i (by rw [p.brows, ← h.rows]; exact hi) hne with hf | hf
    · exact hf
    · exact hf.elim

/-- **C15_step.**  Every function keeps every flag that is set and flags every row whose cells it
    changes.  All constructors of `Function` are covered. -/
theorem C15_step {t t' : Terminal} {f : Function} (hinv : TInv t = true) (h : t.execute f = some t') :
    dirtyMono t t' = true ∧ dirtySound t t' = true :=
  spec_of_step (pre_of_tinv hinv) (step_execute (pre_of_tinv hinv) h)

/-- the step relation along the function stream of an input string -/
theorem step_feedAll {s : List Nat} {v v' : Vt} (p : Pre v.terminal) (h : v.feedAll s = some v') :
    StepD Never v.terminal v'.terminal := by
  induction s generalizing v with
  | nil => simp only [Vt.feedAll, Option.some.injEq] at h; subst h; exact StepD.refl _ _
  | cons c cs ih =>
    unfold Vt.feedAll at h
    split at h
    · rename_i v1 h1
      have s1 : StepD Never v.terminal v1.terminal := by
        unfold Vt.feed at h1
        split at h1
        · simp at h1
        · simp only [Option.some.injEq] at h1; subst h1; exact StepD.refl _ _
        · simp only [Option.map_eq_some_iff] at h1
          obtain ⟨t1, ht1, rfl⟩ := h1
          exact step_execute p ht1
      exact s1.trans (ih (s1.pre p) h)
    · simp at h

/-- **C15_feedAll.**  Feeding any string character by character (`Vt::feed`, no `changes()`): no flag
    is cleared and every row whose cells differ from the start is flagged. -/
theorem C15_feedAll {s : List Nat} {v v' : Vt} (hinv : TInv v.terminal = true)
    (h : v.feedAll s = some v') :
    dirtyMono v.terminal v'.terminal = true ∧ dirtySound v.terminal v'.terminal = true :=
  spec_of_step (pre_of_tinv hinv) (step_feedAll (pre_of_tinv hinv) h)

/-- **C15_reported_iff.**  `changes()` reports exactly the flagged rows. -/
theorem C15_reported_iff (t : Terminal) (i : Nat) : i ∈ t.changes.2 ↔ flagged t i = true := by
  rw [flagged_iff]; exact mem_toVec _ _

theorem gc_view (b : Buffer) : b.gc.1.view = b.view := by
  unfold Buffer.gc
  cases b.trimNeeded
  · rfl
  · simp only [↓reduceIte]
    cases b.limit with
    | none => rfl
    | some l => dsimp only; split <;> rfl

theorem finish_view (v : Vt) :
    v.finish.1.terminal.buffer.view = v.terminal.buffer.view ∧ v.finish.1.terminal.rows = v.terminal.rows
      ∧ v.finish.2.lines = Dirty.toVec v.terminal.dirtyLines :=
  ⟨gc_view _, rfl, rfl⟩

/-- **C15_sound.**  Every visible row whose cells differ between the start and the end of a
    `feed_str` call is contained in the `Changes.lines` the call returns. -/
theorem C15_sound {s : List Nat} {v v' : Vt} {ch : Changes} (hinv : TInv v.terminal = true)
    (h : v.feedStr s = some (v', ch)) : reportSound v.terminal v'.terminal ch.lines = true := by
  unfold Vt.feedStr at h
  simp only [Option.map_eq_some_iff] at h
  obtain ⟨v1, h1, e⟩ := h
  have e1 : v' = v1.finish.1 := by rw [e]
  have e2 : ch = v1.finish.2 := by rw [e]
  obtain ⟨f1, f2, f3⟩ := finish_view v1
  have p := pre_of_tinv hinv
  have st := step_feedAll p h1
  simp only [reportSound, changedRows, List.all_eq_true, List.mem_filter, List.mem_range, rowChanged,
    bne_iff_ne, ne_eq, and_imp, List.contains_iff_mem]
  intro i hi hne
  rw [e2, f3, mem_toVec]
  rw [e1, f2] at hi
  have hne' : cellsAt v1.terminal.buffer i ≠ cellsAt v.terminal.buffer i := by
    intro heq; apply hne
    simp only [rowCells, e1, f1]
    exact heq
  rcases st.sound i (by rw [p.brows, ← st.rows]; exact hi) hne' with hf | hf
  · exact hf
  · exact hf.elim

/-- **C15_sound_resize.**  `resize` reports every row of the new screen; in particular every row whose
    cells changed or that did not exist before.  No hypothesis on the state is needed. -/
theorem C15_sound_resize {v v' : Vt} {c r : Nat} {ch : Changes} (h : v.resize c r = some (v', ch)) :
    (∀ i, i < v'.terminal.rows → i ∈ ch.lines) ∧ reportSound v.terminal v'.terminal ch.lines = true := by
  unfold Vt.resize at h
  simp only [Option.map_eq_some_iff] at h
  obtain ⟨t1, h1, e⟩ := h
  have e1 : v' = (Vt.finish { v with terminal := t1 }).1 := by rw [e]
  have e2 : ch = (Vt.finish { v with terminal := t1 }).2 := by rw [e]
  obtain ⟨_, f2, f3⟩ := finish_view { v with terminal := t1 }
  have hall : ∀ i, i < t1.rows → Flagged t1.dirtyLines i := by
    unfold Terminal.resize at h1
    dsimp only at h1
    split at h1
    · simp at h1
    · rename_i t0 _
      obtain ⟨a1, _, _, _, a5⟩ := reflow_all h1
      intro i hi
      exact a5 i (by rw [← a1]; exact hi)
  have hrep : ∀ i, i < v'.terminal.rows → i ∈ ch.lines := by
    intro i hi
    rw [e2, f3, mem_toVec]
    rw [e1, f2] at hi
    exact hall i hi
  refine ⟨hrep, ?_⟩
  simp only [reportSound, changedRows, List.all_eq_true, List.mem_filter, List.mem_range, and_imp,
    List.contains_iff_mem]
  exact fun i hi _ => hrep i hi

/-! ### a concrete call -/

/-- 5×3 terminal with text, flags cleared (as after a `feed_str`) -/
def exV : Vt :=
  let v := (Vt.new 5 3 (some 2)).getD default
  ((v.feedStr [0x61, 0x62, 0x0d, 0x0a, 0x63]).getD (default, default)).1

/-- "ESC [ 2 ; 2 H x ESC [ 1 J" then LF LF (scrolls): rows 0, 1, 2 change -/
def exInput : List Nat := [0x1b, 0x5b, 0x32, 0x3b, 0x32, 0x48, 0x78, 0x1b, 0x5b, 0x31, 0x4a, 0x0a, 0x0a, 0x79]

example : TInv exV.terminal = true ∧ exV.terminal.dirtyLines = [false, false, false] := by decide +kernel

example : ∃ v' ch, exV.feedStr exInput = some (v', ch)
    ∧ changedRows exV.terminal v'.terminal = [0, 1, 2] ∧ ch.lines = [0, 1, 2]
    ∧ reportSound exV.terminal v'.terminal ch.lines = true :=
  ⟨((exV.feedStr exInput).getD (default, default)).1, ((exV.feedStr exInput).getD (default, default)).2,
   by decide +kernel, by decide +kernel, by decide +kernel, by decide +kernel⟩

/-- a call that changes one row only reports (at least) that row -/
example : ∃ v' ch, exV.feedStr [0x7a] = some (v', ch)
    ∧ changedRows exV.terminal v'.terminal = [1] ∧ ch.lines = [1] :=
  ⟨((exV.feedStr [0x7a]).getD (default, default)).1, ((exV.feedStr [0x7a]).getD (default, default)).2,
   by decide +kernel, by decide +kernel, by decide +kernel⟩

end Avt.Props.C15
