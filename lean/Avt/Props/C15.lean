/- Property theorems for C15 (placeholder until the proofs land). -/
import Avt.Spec.C15
