/-
  Avt.Props.C14 — property C14: no scrolled-off line is lost, duplicated, reordered or altered.

  Technique (DESIGN.md §6 C14): the same lock-step relation as C12 (`Frame.Rel`, non-strict variant:
  the two terminals may have different scrollback limits), with the lines handed out through
  `Changes.scrollback` as the ghost accumulator: `gc` moves a PREFIX of the primary scrollback from
  the buffer to the output (`Frame.gc_spec`, `Frame.finish_rel`), discards alternate-screen rows
  without handing them out, and every `Function` other than RIS preserves the relation
  (`Frame.frame_execute`).

  Obligations (kernel-checked, no hypotheses other than those stated):
    C14_gc_prefix        `gc` removes exactly a prefix of the scrollback and hands out exactly that prefix;
                         view, geometry, limit untouched
    C14_finish           the same for the tail of `feed_str`; on the alternate screen nothing is handed out
    C14_stream           sessions of `feed_str` calls only, any two chunkings of the same input, limit L vs.
                         unlimited, no RIS among the emitted functions, ending on the primary screen:
                           drained(L) ++ lines(L) = lines(unlimited)   and   drained(unlimited) = []
    C14_stream_general   the same from any pair of related start states (not only fresh terminals)
    unwrapMany_append    `TextUnwrapper` is a fold that commutes with list append
    C14_collector        the text a `TextCollector` yields (streamed parts ++ flush, before the final
                         trimming of trailing empty strings) depends only on `drained ++ lines`, hence
                         — by C14_stream — not on the limit nor on the chunking
    C14_collector_trailing  the exact law including `flush`'s trimming: the outputs of two collectors
                         agree after dropping trailing empty strings (`sameTextModTrailingBlank`)
    C14_collector_law    closed form: `dropTrailingEmpty (tcOut L) = tcOut ∞`
    C14_collector_full_false  … and NOT in general as plain lists (finding KF5): witness 4x1, limit 0, "\n"
-/
import Avt.Lemmas.FrameStream

namespace Avt.C14
open Avt Avt.Frame Avt.Spec.C14

/-! ### gc and finish -/

/-- `gc` drops exactly a prefix of the scrollback and hands out exactly that prefix, in order; the
    view, the geometry and the limit are untouched -/
theorem C14_gc_prefix (b : Buffer) :
    ∃ k, (b.gc).1.sb = b.sb.drop k ∧ (b.gc).2 = b.sb.take k ∧ (b.gc).1.view = b.view
      ∧ (b.gc).1.cols = b.cols ∧ (b.gc).1.rows = b.rows ∧ (b.gc).1.limit = b.limit
      ∧ (b.gc).2 ++ (b.gc).1.lines = b.lines :=
  ⟨gcCount b, (gc_sb b).1, (gc_sb b).2, (gc_view b).1, (gc_view b).2.1, (gc_view b).2.2.1,
    (gc_view b).2.2.2.1, gc_lines b⟩

/-- the tail of `feed_str`: on the primary screen what is handed out followed by what is kept is what
    was there; on the alternate screen nothing is handed out; the view never changes -/
theorem C14_finish (v : Vt) :
    (v.finish).1.view = v.view
    ∧ (v.terminal.activeBufferType = .primary → (v.finish).2.scrollback ++ (v.finish).1.lines = v.lines)
    ∧ (v.terminal.activeBufferType = .alternate → (v.finish).2.scrollback = [])
    ∧ (v.finish).1.parser = v.parser := by
  refine ⟨(gc_view v.terminal.buffer).1, fun hT => ?_, fun hT => ?_, rfl⟩
  · rw [finish_scrollback, hT]
    exact gc_lines v.terminal.buffer
  · rw [finish_scrollback, hT]; rfl

/-! ### the stream equation -/

/-- **C14, general form.**  `u` is unlimited, `v` has any limit, and they are related (same screen,
    `u` holds `P.prim` more primary scrollback).  Two sessions of `feed_str` calls whose inputs
    concatenate to the same string, no RIS among the emitted functions, ending on the primary
    screen: the unlimited terminal hands out nothing, and its lines are the extra scrollback, then
    what the limited terminal handed out, then the limited terminal's lines. -/
theorem C14_stream_general {P : Par} {u v u' v' : Vt} {du dv : List Line} {ops ops' : List (List Nat)}
    (R : VRel P u v) (Ru : VRel ⟨true, true, none, P.T, [], []⟩ u u) (hg : P.g = true)
    (hcat : ops.flatten = ops'.flatten)
    (hnr : Function.ris ∉ emitted v.parser ops.flatten)
    (hv : runFeeds v ops = some (v', dv)) (hu : runFeeds u ops' = some (u', du))
    (hT : v'.terminal.activeBufferType = .primary) :
    du = [] ∧ u'.lines = P.prim ++ dv ++ v'.lines := by
  obtain ⟨g, P', hgv, R', _, _, _, hp, _, _⟩ := runFeeds_ghost ops R hg (Or.inr hnr) hv
  obtain ⟨g2, Q', hgu, RQ, _, _, _, _, hd, he⟩ := runFeeds_ghost ops' Ru rfl (Or.inl rfl) hu
  rw [← hcat, hgv] at hgu; cases hgu
  have hdu : du = [] := hd rfl rfl
  have hq : Q'.prim = [] := he rfl rfl (by cases P.T <;> rfl)
  have hTu : u'.terminal.activeBufferType = .primary := by
    rw [← RQ.term.activeBufferType, R'.term.activeBufferType]; exact hT
  have e1 : g.terminal.buffer.lines = P'.prim ++ v'.terminal.buffer.lines := lines_ghost R'.term hT
  have e2 : g.terminal.buffer.lines = Q'.prim ++ u'.terminal.buffer.lines := lines_ghost RQ.term hTu
  refine ⟨hdu, ?_⟩
  show u'.terminal.buffer.lines = P.prim ++ dv ++ v'.terminal.buffer.lines
  rw [hq, List.nil_append] at e2
  rw [← e2, e1, hp hnr]

/-- **C14.**  Fresh terminals of the same size, limit `L` vs. unlimited, the same input under any two
    chunkings, no RIS, ending on the primary screen: the lines handed out through
    `Changes.scrollback` over the session, followed by the final `lines()`, are exactly the lines of the
    unlimited terminal — same order, each exactly once, cell for cell (pens and wrap marks
    included); and the unlimited terminal hands out nothing. -/
theorem C14_stream {c r L : Nat} {v0 u0 v u : Vt} {dv du : List Line} {ops ops' : List (List Nat)}
    (hv0 : Vt.new c r (some L) = some v0) (hu0 : Vt.new c r none = some u0)
    (hcat : ops.flatten = ops'.flatten)
    (hnr : Function.ris ∉ emitted Parser.new ops.flatten)
    (hv : runFeeds v0 ops = some (v, dv)) (hu : runFeeds u0 ops' = some (u, du))
    (hT : v.terminal.activeBufferType = .primary) :
    streamEq dv v u = true ∧ du = [] := by
  have hp : v0.parser = Parser.new := by
    unfold Vt.new at hv0
    cases ht : Terminal.new c r (some L) with
    | none => simp [ht] at hv0
    | some t => simp [ht] at hv0; rw [← hv0]
  have h := C14_stream_general (new_rel hu0 hv0) (new_rel_self hu0) rfl hcat (hp ▸ hnr) hv hu hT
  refine ⟨?_, h.1⟩
  unfold streamEq
  have : u.lines = dv ++ v.lines := by simpa [Par.prim] using h.2
  simp [this]

/-! ### TextUnwrapper / TextCollector -/

/-- `TextUnwrapper` is a fold: pushing `xs ++ ys` is pushing `xs`, then `ys` with the carried-over
    partial line, and the outputs concatenate -/
theorem unwrapMany_append (acc : List Nat) (xs ys : List Line) :
    unwrapMany acc (xs ++ ys) =
      ((unwrapMany (unwrapMany acc xs).1 ys).1, (unwrapMany acc xs).2 ++ (unwrapMany (unwrapMany acc xs).1 ys).2) := by
  induction xs generalizing acc with
  | nil => simp [unwrapMany]
  | cons l ls ih =>
    simp only [List.cons_append, unwrapMany]
    rw [ih]
    cases (unwrapPush acc l).2 <;> simp

/-- what a `TextCollector` streams out while it is fed lines in chunks (the `scrollback` of
    successive calls), with the unwrapper state it ends in -/
def streamChunks : List Nat → List (List Line) → List Nat × List (List Nat)
  | acc, [] => (acc, [])
  | acc, ch :: chs =>
    let r := unwrapMany acc ch
    let r' := streamChunks r.1 chs
    (r'.1, r.2 ++ r'.2)

theorem streamChunks_flatten (acc : List Nat) (chs : List (List Line)) :
    streamChunks acc chs = unwrapMany acc chs.flatten := by
  induction chs generalizing acc with
  | nil => rfl
  | cons ch chs ih =>
    simp only [streamChunks, List.flatten_cons]
    rw [unwrapMany_append, ih]

/-- everything a collector yields before `flush` trims trailing empty strings: the streamed parts,
    then the unwrapped final lines, then the carried-over partial line -/
def collectedRaw (chunks : List (List Line)) (final : List Line) : List (List Nat) :=
  let r := streamChunks [] chunks
  let f := unwrapMany r.1 final
  r.2 ++ f.2 ++ (unwrapFlush f.1).toList

/-- everything a collector yields, as the crate does it: `flush` trims only its own part -/
def collected (chunks : List (List Line)) (final : List Line) : List (List Nat) :=
  let r := streamChunks [] chunks
  let f := unwrapMany r.1 final
  r.2 ++ TextCollector.dropTrailingEmpty (f.2 ++ (unwrapFlush f.1).toList)

/-- the model's `TextCollector.flush` is the second half of `collected` -/
theorem flush_eq (tc : TextCollector) :
    tc.flush = TextCollector.dropTrailingEmpty
      ((unwrapMany tc.acc tc.vt.lines).2 ++ (unwrapFlush (unwrapMany tc.acc tc.vt.lines).1).toList) := rfl

/-- **C14, collector.**  The collected text depends only on the concatenation
    `handed-out lines ++ final lines`: it is the unwrapping of that one list. -/
theorem C14_collector (chunks : List (List Line)) (final : List Line) :
    collectedRaw chunks final =
      (unwrapMany [] (chunks.flatten ++ final)).2
        ++ (unwrapFlush (unwrapMany [] (chunks.flatten ++ final)).1).toList := by
  unfold collectedRaw
  simp only [streamChunks_flatten]
  rw [unwrapMany_append]

/-- … hence, by `C14_stream`, it is the same for every limit and every chunking: whenever
    `drained ++ lines = lines'` (the stream equation), the limited collector and the unlimited one
    (which streams nothing) collect the same raw text -/
theorem C14_collector_indep {chunks : List (List Line)} {final final' : List Line}
    (h : chunks.flatten ++ final = final') :
    collectedRaw chunks final = collectedRaw [] final' := by
  rw [C14_collector, C14_collector, h]; rfl

theorem dropTrailingEmpty_append_idem (a b : List (List Nat)) :
    TextCollector.dropTrailingEmpty (a ++ TextCollector.dropTrailingEmpty b)
      = TextCollector.dropTrailingEmpty (a ++ b) := by
  unfold TextCollector.dropTrailingEmpty
  simp only [List.reverse_append, List.reverse_reverse]
  generalize b.reverse = rb
  generalize a.reverse = ra
  induction rb with
  | nil => simp
  | cons x xs ih =>
    by_cases hx : x.isEmpty = true
    · simp only [List.dropWhile_cons, hx, if_true, List.cons_append]
      exact ih
    · simp [hx]

/-- **C14, collector, exact law with `flush`'s trimming.**  Two collectors whose line streams
    concatenate to the same list yield texts that agree after dropping trailing empty strings
    (`sameTextModTrailingBlank`, the oracle's KF5 classifier). -/
theorem C14_collector_trailing {chunks : List (List Line)} {final final' : List Line}
    (h : chunks.flatten ++ final = final') :
    sameTextModTrailingBlank (collected chunks final) (collected [] final') = true := by
  have hraw := C14_collector_indep h
  unfold sameTextModTrailingBlank
  have e1 : TextCollector.dropTrailingEmpty (collected chunks final)
      = TextCollector.dropTrailingEmpty (collectedRaw chunks final) := by
    unfold collected collectedRaw
    simp only [List.append_assoc]
    exact dropTrailingEmpty_append_idem _ _
  have e2 : TextCollector.dropTrailingEmpty (collected [] final')
      = TextCollector.dropTrailingEmpty (collectedRaw [] final') := by
    unfold collected collectedRaw
    simp only [List.append_assoc]
    exact dropTrailingEmpty_append_idem _ _
  rw [e1, e2, hraw]
  simp

/-- the same law in closed form: dropping the trailing empty strings of what the limited collector
    yielded gives exactly what the unlimited collector yields:
    `dropTrailingEmpty (tcOut L) = tcOut ∞` -/
theorem C14_collector_law {chunks : List (List Line)} {final final' : List Line}
    (h : chunks.flatten ++ final = final') :
    TextCollector.dropTrailingEmpty (collected chunks final) = collected [] final' := by
  have hraw := C14_collector_indep h
  have e1 : TextCollector.dropTrailingEmpty (collected chunks final)
      = TextCollector.dropTrailingEmpty (collectedRaw chunks final) := by
    unfold collected collectedRaw
    simp only [List.append_assoc]
    exact dropTrailingEmpty_append_idem _ _
  have e2 : collected [] final' = TextCollector.dropTrailingEmpty (collectedRaw [] final') := by
    unfold collected collectedRaw
    simp [streamChunks]
  rw [e1, e2, hraw]

/-- the property's literal consequence ("the same text for every limit"), as plain equality -/
def C14_collector_full : Prop :=
  ∀ (chunks : List (List Line)) (final final' : List Line), chunks.flatten ++ final = final' →
    collected chunks final = collected [] final'

/-- **It is false of the pinned code** (finding KF5): a blank line that was already streamed out stays,
    while `flush` of the unlimited collector drops it.  Witness: 4x1, limit 0, input LF — the limited
    collector yields `[""]`, the unlimited one `[]`. -/
theorem C14_collector_full_false : ¬ C14_collector_full := by
  intro h
  have := h [[Line.blank 4 Pen.default]] [Line.blank 4 Pen.default]
    [Line.blank 4 Pen.default, Line.blank 4 Pen.default] rfl
  revert this
  decide +kernel

/-- the witness is what the model (and the crate) really do on a 4x1 terminal fed "\n" -/
example :
    (match Vt.new 4 1 (some 0), Vt.new 4 1 none with
     | some v0, some u0 =>
       (match runFeeds v0 [[0x0a]], runFeeds u0 [[0x0a]] with
        | some (v, dv), some (u, du) =>
          streamEq dv v u && du.isEmpty && (dv == [Line.blank 4 Pen.default])
            && (collected [dv] v.lines == [[]]) && (collected [du] u.lines == [])
        | _, _ => false)
     | _, _ => false) = true := by decide +kernel

/-- the hypotheses of `C14_stream` are satisfiable on a non-trivial session: 3x2, limit 1; wrapped
    text, an excursion to the alternate screen that scrolls there, more text; chunked differently -/
example :
    (match Vt.new 3 2 (some 1), Vt.new 3 2 none with
     | some v0, some u0 =>
       let a : List Nat := [0x61, 0x62, 0x63, 0x64, 0x0a, 0x65, 0x0a, 0x66, 0x0a]
       let b : List Nat := [0x1b, 0x5b, 0x3f, 0x34, 0x37, 0x68, 0x78, 0x0a, 0x79, 0x0a, 0x7a, 0x0a,
                            0x1b, 0x5b, 0x3f, 0x34, 0x37, 0x6c, 0x67, 0x0a, 0x68, 0x0a, 0x69]
       (match runFeeds v0 [a, b], runFeeds u0 [a.take 2, a.drop 2 ++ b.take 3, b.drop 3] with
        | some (v, dv), some (u, du) =>
          streamEq dv v u && du.isEmpty && (dv.length == 5) && (v.terminal.activeBufferType == .primary)
            && !(emitted Parser.new (a ++ b)).contains .ris
        | _, _ => false)
     | _, _ => false) = true := by decide +kernel

end Avt.C14
