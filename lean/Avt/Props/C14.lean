/- Property theorems for C14 (placeholder until the proofs land). -/
import Avt.Spec.C14
