/-
  Avt.Props.C02 — screen geometry invariants hold after every public call.

  All statements are unbounded: every size ≥ 1x1, every scrollback limit, every input character,
  every `Function` value, every history.  `ResizeOK` (the contract of `Buffer.resize`, proved as
  `Avt.resizeOK` in Avt/Lemmas/ResizeOK.lean) and `ParserOK` (the parser never panics and keeps its
  register invariant; parser block) are explicit hypotheses.
-/
import Avt.Lemmas.InvVt

namespace Avt.Props.C02
open Avt

/-- a fresh terminal satisfies the invariant -/
theorem C02_init {cols rows : Nat} (lim : Option Nat) (hc : 1 ≤ cols) (hr : 1 ≤ rows) :
    ∃ v, Vt.new cols rows lim = some v ∧ Inv v = true :=
  Vt.new_ok lim hc hr

/-- EVERY control function (all constructors of `Function`, all arguments) succeeds under the terminal
    invariant and preserves it: totality (C01) and preservation (C02) at the function level -/
theorem C02_execute (hR : ResizeOK) {t : Terminal} (f : Function) (h : TInv t = true) :
    ∃ t', t.execute f = some t' ∧ TInv t' = true := by
  obtain ⟨t', h1, h2⟩ := Terminal.execute_ok hR f (TOK.of_TInv h)
  exact ⟨t', h1, h2.TInv⟩

/-- `Vt::feed` -/
theorem C02_feed (hR : ResizeOK) (hP : ParserOK) {v : Vt} (c : Nat) (h : Inv v = true) :
    ∃ v', v.feed c = some v' ∧ Inv v' = true :=
  Vt.feed_ok hR hP c h

/-- `Vt::feed` once per character -/
theorem C02_feedAll (hR : ResizeOK) (hP : ParserOK) {v : Vt} (s : List Nat) (h : Inv v = true) :
    ∃ v', v.feedAll s = some v' ∧ Inv v' = true :=
  Vt.feedAll_ok hR hP s h

/-- `Vt::feed_str`: returns, re-establishes the invariant, and the reported changed-line indices are
    strictly increasing and below `rows` -/
theorem C02_feedStr (hR : ResizeOK) (hP : ParserOK) {v : Vt} (s : List Nat) (h : Inv v = true) :
    ∃ v' ch, v.feedStr s = some (v', ch) ∧ Inv v' = true
      ∧ changesOK v'.terminal.rows ch.lines = true := by
  obtain ⟨v', ch, h1, h2, _, h4⟩ := Vt.feedStr_ok hR hP s h
  exact ⟨v', ch, h1, h2, h4⟩

/-- `Vt::resize` to any size ≥ 1x1: returns, re-establishes the invariant, reports well-formed
    changed-line indices -/
theorem C02_resize (hR : ResizeOK) {v : Vt} {c r : Nat} (h : Inv v = true) (hc : 1 ≤ c)
    (hr : 1 ≤ r) :
    ∃ v' ch, v.resize c r = some (v', ch) ∧ Inv v' = true
      ∧ changesOK v'.terminal.rows ch.lines = true := by
  obtain ⟨v', ch, h1, h2, _, h4, _⟩ := Vt.resize_ok hR h hc hr
  exact ⟨v', ch, h1, h2, h4⟩

/-- `size()` reports the geometry last requested -/
theorem C02_size {v v' : Vt} {ch : Changes} {c r : Nat} (h : v.resize c r = some (v', ch)) :
    v'.size = (c, r) := by
  unfold Vt.resize at h
  cases ht : v.terminal.resize c r with
  | none => simp [ht] at h
  | some t' =>
    simp only [ht, Option.map_some, Option.some.injEq] at h
    have hs := Terminal.resize_size ht
    have e : v' = (Vt.finish { v with terminal := t' }).1 := by rw [h]
    rw [e]
    show ((Vt.finish { v with terminal := t' }).1.terminal.cols,
      (Vt.finish { v with terminal := t' }).1.terminal.rows) = (c, r)
    rw [(Vt.finish_size _).1, (Vt.finish_size _).2]
    exact Prod.ext hs.1 hs.2

/-- one public call keeps the invariant -/
theorem C02_step (hR : ResizeOK) (hP : ParserOK) {v : Vt} (op : PubOp) (h : Inv v = true)
    (hv : op.valid) : ∃ v', step v op = some v' ∧ Inv v' = true :=
  step_ok hR hP op h hv

/-- every finite list of public calls keeps the invariant -/
theorem C02_run (hR : ResizeOK) (hP : ParserOK) {v : Vt} (ops : List PubOp) (h : Inv v = true)
    (hv : ∀ op ∈ ops, op.valid) : ∃ v', run v ops = some v' ∧ Inv v' = true :=
  run_ok hR hP ops h hv

/-- every reachable state satisfies the invariant -/
theorem C02_reach (hR : ResizeOK) (hP : ParserOK) {v : Vt} (h : Reach v) : Inv v = true :=
  reach_inv hR hP h

/-- the API-visible clauses: `view()` has exactly `rows` lines and is the tail of `lines()`, every line
    has `cols` cells, `lines()` is not shorter than `rows`, the last line is not soft-wrapped, the
    cursor is inside the screen with `col = cols` only while a wrap is pending -/
theorem C02_geom {v : Vt} (h : Inv v = true) :
    geomOK v = true ∧ v.view = v.lines.drop (v.lines.length - v.terminal.rows) := by
  obtain ⟨_, ht⟩ := (Vt.inv_iff v).1 h
  have hv := ht.bok.hv
  have hr := ht.brows
  have hlen : v.lines.length = v.terminal.buffer.sb.length + v.terminal.rows := by
    simp [Vt.lines, Terminal.lines, Buffer.lines, hv, hr]
  constructor
  · simp only [geomOK, Bool.and_eq_true, beq_iff_eq, List.all_eq_true, decide_eq_true_eq,
      Bool.or_eq_true]
    refine ⟨⟨⟨⟨⟨⟨?_, ?_⟩, ?_⟩, ?_⟩, ht.crow⟩, ht.ccol_le⟩, ?_⟩
    · show v.terminal.buffer.view.length = v.terminal.rows
      omega
    · intro l hl
      rcases List.mem_append.1 (show l ∈ v.terminal.buffer.sb ++ v.terminal.buffer.view from hl) with hl | hl
      · rw [ht.bok.hsw l hl, ht.bcols]
      · rw [ht.bok.hvw l hl, ht.bcols]
    · omega
    · rw [lastUnwrapped_iff]
      intro l hl
      refine ht.bok.hlast l ?_
      have hr1 := ht.r1
      rw [hlen] at hl
      rw [show v.lines = v.terminal.buffer.sb ++ v.terminal.buffer.view from rfl,
        List.getElem?_append_right (by omega)] at hl
      rw [← hl]; congr 1; omega
    · rcases ht.ccol with ⟨h1, _⟩ | ⟨_, h2⟩
      · exact .inr h1
      · exact .inl h2
  · show v.terminal.buffer.view = (v.terminal.buffer.sb ++ v.terminal.buffer.view).drop _
    rw [hlen, Nat.add_sub_cancel, List.drop_left]

/-- the changed-line list of a terminal state is strictly increasing and below `rows` -/
theorem C02_changes {t : Terminal} (h : TInv t = true) :
    changesOK t.rows (Dirty.toVec t.dirtyLines) = true := by
  have := (TOK.of_TInv h).dirty
  rw [← this]
  exact Dirty.toVec_ok _

/-- … in particular the `Changes.lines` of `Terminal.changes` -/
theorem C02_changes_call {t : Terminal} (h : TInv t = true) :
    changesOK t.changes.1.rows t.changes.2 = true :=
  C02_changes h

/-- the hypotheses are satisfiable on a concrete non-trivial state -/
example : ∃ v, Vt.new 80 24 (some 100) = some v ∧ Inv v = true := C02_init _ (by decide) (by decide)

end Avt.Props.C02
