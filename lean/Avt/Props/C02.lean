/- Property theorems for C02 (placeholder until the proofs land). -/
import Avt.Spec.C02
