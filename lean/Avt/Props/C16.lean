/- Property theorems for C16 (placeholder until the proofs land). -/
import Avt.Spec.C16
