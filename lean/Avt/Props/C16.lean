/-
  Avt.Props.C16 — the alternate screen never disturbs the primary screen.

  Vocabulary (Avt/Spec/C16.lean, the definitions the oracle evaluates): `endsExcursion` (leaving =
  DECRST 47/1047/1049, or RIS), `isAltScreenMode`, `emitted`, `freshAlternate`, `entryCtx`,
  `parkedCtx`, `sameBuffer`, `trimmedSb`, `primaryRestored`, `ctxRestored`, `textRel`, `ResizeSame`.

  Proved, for all states and all sizes:
  * `C16_frame`          every function except leaving and RIS, executed on the alternate screen,
                         leaves `otherBuffer` (the parked primary), `alternateSavedCtx` (its saved
                         context) and `activeBufferType` untouched — no invariant needed;
  * `C16_frame_resize`   so does `Terminal.resize` (only the active buffer is reflowed);
  * `C16_text_const`     hence `text()` is constant;
  * `C16_feedAll`, `C16_feedStr`, `C16_vtResize`   the same through the parser / the public calls,
                         with the side condition on the emitted function list;
  * `C16_enter`          entering gives a blank screen of the current pen, parks the primary buffer
                         unchanged and (1049) saves the cursor context;
  * `C16_roundtrip`      enter, any function list without leave/RIS, leave: back on the primary with
                         the same view, scrollback, size, limit and text (function level: no resize
                         can happen between, `geo_execute`);  `C16_roundtrip_api` adds the `gc()` that
                         ends the leaving call (`primaryRestored`, i.e. scrollback `trimmedSb`);
  * `C16_1049`           with `?1049h … ?1049l` the cursor is back at `(min col (cols-1), row)` with
                         the pen, origin mode and auto-wrap mode of the mark, `pending_wrap` off.
  `ResizeSame` (same-geometry `Buffer.resize` only sets `trim_needed`) is a hypothesis of the
  `_of` versions and is discharged by `Avt.Buffer.resize_same` (Avt/Lemmas/ResizeSame.lean); invariant
  preservation along the excursion comes from `Avt.Terminal.execute_ok` (Avt/Lemmas/InvTerminal.lean)
  with `Avt.resizeOK`.

  Resized excursions (the last sentence of the property), proved at the end of the file:
  * `C16_resized`        the leaving step from ANY excursion state (alternate showing, invariant, parked
                         buffer = the marked primary, any current size): invariant afterwards, primary
                         showing at the current size, logical lines kept or cut short at the bottom
                         (`Spec.C10.keptOrCut`), `textRel` for `text()`, and C10's whole `resizeRel`
                         w.r.t. the cursor fed to the deferred `Buffer.resize` (`leaveCursor`);
  * `C16_resized_full_holds`  the statement kept as `def C16_resized_full` since round one;
  * `C16_resized_1049`   `?1049l`: same logical line, same character as the entry cursor; pen, origin
                         mode, auto-wrap mode of the mark;
  * `C16_excursion_resized`  enter, any list of functions (no leave / RIS) and `Terminal::resize` calls,
                         leave: parked primary and `text()` constant throughout + all of the above.
  For `?47l`/`?1047l` the cursor fed to the deferred resize is the alternate screen's (current
  geometry), so "same character" is claimed for 1049 only, as the property does.
-/
import Avt.Lemmas.C16Text
import Avt.Lemmas.ResizeSame
import Avt.Lemmas.InvTerminal
import Avt.Lemmas.C16Resized

namespace Avt.Props.C16
open Avt Avt.Spec.C16 Avt.C16

/-! ### frame -/

/-- **C16_frame.**  On the alternate screen every function other than leaving it (DECRST
    47/1047/1049) and RIS leaves the parked primary buffer, its saved context and the active screen
    as they are.  (`?1049h` while already on the alternate screen saves into `savedCtx`, the
    alternate's own context.) -/
theorem C16_frame {t t' : Terminal} {f : Function} (ha : t.activeBufferType = .alternate)
    (hf : endsExcursion f = false) (h : t.execute f = some t') :
    t'.otherBuffer = t.otherBuffer ∧ t'.alternateSavedCtx = t.alternateSavedCtx
      ∧ t'.activeBufferType = .alternate := by
  obtain ⟨h1, h2, h3⟩ := fr_parts (fr_execute ha hf h)
  exact ⟨h1, h2, h3.trans ha⟩

/-- `resize` reflows the active buffer only -/
theorem C16_frame_resize {t t' : Terminal} {c r : Nat} (h : t.resize c r = some t') :
    t'.otherBuffer = t.otherBuffer ∧ t'.alternateSavedCtx = t.alternateSavedCtx
      ∧ t'.activeBufferType = t.activeBufferType := fr_parts (fr_resize h)

/-- hence `text()` is constant while the alternate screen is showing -/
theorem C16_text_const {t t' : Terminal} {f : Function} (ha : t.activeBufferType = .alternate)
    (hf : endsExcursion f = false) (h : t.execute f = some t') : t'.text = t.text := by
  obtain ⟨h1, _, h3⟩ := C16_frame ha hf h
  rw [text_alt ha, text_alt h3, h1]

/-- the frame property through the parser: a whole input string none of whose emitted functions
    leaves the alternate screen or is RIS -/
theorem C16_feedAll {v v' : Vt} {s : List Nat} (ha : v.terminal.activeBufferType = .alternate)
    (hf : ∀ f ∈ emitted v.parser s, endsExcursion f = false) (h : v.feedAll s = some v') :
    v'.terminal.otherBuffer = v.terminal.otherBuffer
      ∧ v'.terminal.alternateSavedCtx = v.terminal.alternateSavedCtx
      ∧ v'.terminal.activeBufferType = .alternate ∧ v'.text = v.text := by
  obtain ⟨h1, h2, h3⟩ := fr_parts (fr_feedAll ha hf h)
  refine ⟨h1, h2, h3.trans ha, ?_⟩
  show v'.terminal.text = v.terminal.text
  rw [text_alt ha, text_alt (h3.trans ha), h1]

/-- … and through `feed_str` (which ends with `changes()` and `gc()` of the *active* buffer) -/
theorem C16_feedStr {v v' : Vt} {s : List Nat} {ch : Changes}
    (ha : v.terminal.activeBufferType = .alternate)
    (hf : ∀ f ∈ emitted v.parser s, endsExcursion f = false) (h : v.feedStr s = some (v', ch)) :
    v'.terminal.otherBuffer = v.terminal.otherBuffer
      ∧ v'.terminal.alternateSavedCtx = v.terminal.alternateSavedCtx
      ∧ v'.terminal.activeBufferType = .alternate ∧ v'.text = v.text := by
  obtain ⟨h1, h2, h3⟩ := fr_parts (fr_feedStr ha hf h)
  refine ⟨h1, h2, h3.trans ha, ?_⟩
  show v'.terminal.text = v.terminal.text
  rw [text_alt ha, text_alt (h3.trans ha), h1]

/-- … and through `Vt::resize` -/
theorem C16_vtResize {v v' : Vt} {c r : Nat} {ch : Changes}
    (ha : v.terminal.activeBufferType = .alternate) (h : v.resize c r = some (v', ch)) :
    v'.terminal.otherBuffer = v.terminal.otherBuffer
      ∧ v'.terminal.alternateSavedCtx = v.terminal.alternateSavedCtx
      ∧ v'.terminal.activeBufferType = .alternate ∧ v'.text = v.text := by
  obtain ⟨h1, h2, h3⟩ := fr_parts (fr_vtResize h)
  refine ⟨h1, h2, h3.trans ha, ?_⟩
  show v'.terminal.text = v.terminal.text
  rw [text_alt ha, text_alt (h3.trans ha), h1]

/-! ### entering -/

theorem resizeSame : ResizeSame := fun b cur h hc => Buffer.resize_same b cur h hc

theorem exec_decset_one {t : Terminal} {m : DecMode} : t.execute (.decset [m]) = t.decsetOne m := by
  simp only [Terminal.execute, Terminal.foldM']
  cases t.decsetOne m <;> rfl

theorem exec_decrst_one {t : Terminal} {m : DecMode} : t.execute (.decrst [m]) = t.decrstOne m := by
  simp only [Terminal.execute, Terminal.foldM']
  cases t.decrstOne m <;> rfl

/-- **C16_enter** (from `ResizeSame`).  `DECSET 47/1047/1049` on the primary screen: the new screen
    is `rows × cols` blank cells carrying the current pen, unwrapped, without scrollback; the primary
    buffer is parked as it is; its saved context is parked too — for 1049 after saving the cursor
    (column clamped to `cols-1`), pen, origin mode and auto-wrap mode; `text()` is unchanged. -/
theorem C16_enter_of (hRS : ResizeSame) {m t : Terminal} {me : DecMode} (hinv : TInv m = true)
    (hp : m.activeBufferType = .primary) (hme : isAltScreenMode me = true)
    (h : m.execute (.decset [me]) = some t) :
    freshAlternate m t = true ∧ t.otherBuffer = m.buffer
      ∧ t.alternateSavedCtx = parkedCtx m (me == .saveCursorAltScreenBuffer) ∧ t.pen = m.pen
      ∧ t.text = m.text := by
  rw [exec_decset_one] at h
  obtain ⟨e1, e2, e3⟩ := enter_spec hRS hinv hp hme h
  obtain ⟨hb, _, hpen, _⟩ := sc_buffer e3
  obtain ⟨hc, hr⟩ := geo_parts e2
  simp only [fr, Prod.mk.injEq] at e1
  obtain ⟨h1, h2, h3⟩ := e1
  refine ⟨?_, h1, h2, hpen, ?_⟩
  · simp [freshAlternate, h3, hc, hr, hb, Buffer.new, blankScreen]
  · rw [text_alt h3, text_prim hp, h1]

theorem C16_enter {m t : Terminal} {me : DecMode} (hinv : TInv m = true)
    (hp : m.activeBufferType = .primary) (hme : isAltScreenMode me = true)
    (h : m.execute (.decset [me]) = some t) :
    freshAlternate m t = true ∧ t.otherBuffer = m.buffer
      ∧ t.alternateSavedCtx = parkedCtx m (me == .saveCursorAltScreenBuffer) ∧ t.pen = m.pen
      ∧ t.text = m.text := C16_enter_of resizeSame hinv hp hme h

/-! ### the whole excursion -/

/-- what holds at every point of an excursion entered from `m` with mode `me` -/
structure During (m : Terminal) (me : DecMode) (t : Terminal) : Prop where
  inv : TInv t = true
  alt : t.activeBufferType = .alternate
  parked : t.otherBuffer = m.buffer
  ctx : t.alternateSavedCtx = parkedCtx m (me == .saveCursorAltScreenBuffer)
  size : t.cols = m.cols ∧ t.rows = m.rows

theorem during_enter {m t : Terminal} {me : DecMode} (hinv : TInv m = true)
    (hp : m.activeBufferType = .primary) (hme : isAltScreenMode me = true)
    (h : m.execute (.decset [me]) = some t) : During m me t := by
  have h' := h
  rw [exec_decset_one] at h'
  obtain ⟨e1, e2, _⟩ := enter_spec resizeSame hinv hp hme h'
  simp only [fr, Prod.mk.injEq] at e1
  obtain ⟨t', ht', hok⟩ := Terminal.execute_ok resizeOK (.decset [me]) (TOK.of_TInv hinv)
  rw [h] at ht'; cases ht'
  exact ⟨hok.TInv, e1.2.2, e1.1, e1.2.1, geo_parts e2⟩

theorem during_step {m t t' : Terminal} {me : DecMode} {f : Function} (hd : During m me t)
    (hf : endsExcursion f = false) (h : t.execute f = some t') : During m me t' := by
  obtain ⟨h1, h2, h3⟩ := C16_frame hd.alt hf h
  obtain ⟨t'', ht'', hok⟩ := Terminal.execute_ok resizeOK f (TOK.of_TInv hd.inv)
  rw [h] at ht''; cases ht''
  obtain ⟨hc, hr⟩ := geo_parts (geo_execute (tinv_parts hd.inv).2.2.2.2.2.2 h)
  exact ⟨hok.TInv, h3, h1.trans hd.parked, h2.trans hd.ctx, hc.trans hd.size.1, hr.trans hd.size.2⟩

theorem during_all {m t0 t1 : Terminal} {me : DecMode} {fs : List Function} (hd : During m me t0)
    (hfs : ∀ f ∈ fs, endsExcursion f = false) (h : Terminal.foldM' Terminal.execute fs t0 = some t1) :
    During m me t1 :=
  foldM'_inv (f := Terminal.execute) (During m me) (ms := fs)
    (fun _ f _ hmem hb hs => during_step hb (hfs f hmem) hs) hd h

/-- **C16_roundtrip.**  Enter (`?47/1047/1049h`) from any state `m` of the primary screen, execute
    any functions that neither leave nor hard-reset, leave (`?47/1047/1049l`, any of the three): the
    terminal is back on the primary screen with the size of `m`, and the primary's view, scrollback,
    geometry and limit are those of `m` (only `trim_needed` is set) — hence `text()` too. -/
theorem C16_roundtrip {m t0 t1 t2 : Terminal} {me ml : DecMode} {fs : List Function}
    (hinv : TInv m = true) (hp : m.activeBufferType = .primary)
    (hme : isAltScreenMode me = true) (hml : isAltScreenMode ml = true)
    (h0 : m.execute (.decset [me]) = some t0)
    (hfs : ∀ f ∈ fs, endsExcursion f = false)
    (h1 : Terminal.foldM' Terminal.execute fs t0 = some t1)
    (h2 : t1.execute (.decrst [ml]) = some t2) :
    t2.activeBufferType = .primary ∧ t2.buffer = { m.buffer with trimNeeded := true }
      ∧ sameBuffer t2.buffer m.buffer = true ∧ t2.cols = m.cols ∧ t2.rows = m.rows
      ∧ t2.text = m.text := by
  have hd := during_all (during_enter hinv hp hme h0) hfs h1
  rw [exec_decrst_one] at h2
  obtain ⟨hbc, hbr, _⟩ := tinv_parts hinv
  obtain ⟨a1, a2, a3, _⟩ := leave_spec resizeSame hd.inv hd.alt hml
    (by rw [hd.parked, hbc, hd.size.1]) (by rw [hd.parked, hbr, hd.size.2]) h2
  obtain ⟨hc, hr⟩ := geo_parts a2
  rw [hd.parked] at a3
  refine ⟨a1, a3, ?_, hc.trans hd.size.1, hr.trans hd.size.2, ?_⟩
  · simp [sameBuffer, a3]
  · rw [text_prim a1, text_prim hp, a3]; rfl

/-- the same seen through the API: after the `changes()` + `gc()` that end the leaving call the
    primary is `primaryRestored` — view identical, scrollback identical up to the trim `gc()` performs
    when it is longer than the hard limit (never after a `feed_str`/`resize` call) -/
theorem C16_roundtrip_api {m t0 t1 t2 : Terminal} {me ml : DecMode} {fs : List Function}
    (hinv : TInv m = true) (hp : m.activeBufferType = .primary)
    (hme : isAltScreenMode me = true) (hml : isAltScreenMode ml = true)
    (h0 : m.execute (.decset [me]) = some t0)
    (hfs : ∀ f ∈ fs, endsExcursion f = false)
    (h1 : Terminal.foldM' Terminal.execute fs t0 = some t1)
    (h2 : t1.execute (.decrst [ml]) = some t2) :
    primaryRestored m (Spec.finishT t2) = true := by
  obtain ⟨a1, a2, _⟩ := C16_roundtrip hinv hp hme hml h0 hfs h1 h2
  obtain ⟨g1, g2, g3, g4, g5⟩ := gc_trimmed t2.buffer (by rw [a2])
  have hb : (Spec.finishT t2).buffer = t2.buffer.gc.1 := by
    simp only [Spec.finishT, Terminal.changes, Terminal.gc]
  have ha : (Spec.finishT t2).activeBufferType = t2.activeBufferType := by
    simp only [Spec.finishT, Terminal.changes, Terminal.gc]
  have ht : trimmedSb t2.buffer = trimmedSb m.buffer := by rw [a2]; rfl
  have hv : t2.buffer.view = m.buffer.view := by rw [a2]
  have hc : t2.buffer.cols = m.buffer.cols := by rw [a2]
  have hr : t2.buffer.rows = m.buffer.rows := by rw [a2]
  have hl : t2.buffer.limit = m.buffer.limit := by rw [a2]
  simp only [primaryRestored, hb, ha, a1, g1, g2, g3, g4, g5, ht, hv, hc, hr, hl, beq_self_eq_true,
    Bool.and_self]

/-- **C16_1049.**  With `?1049h … ?1049l` the cursor is back at `(min col (cols-1), row)` of the mark,
    with the mark's pen, origin mode and auto-wrap mode; `pending_wrap` is off. -/
theorem C16_1049 {m t0 t1 t2 : Terminal} {fs : List Function}
    (hinv : TInv m = true) (hp : m.activeBufferType = .primary)
    (h0 : m.execute (.decset [.saveCursorAltScreenBuffer]) = some t0)
    (hfs : ∀ f ∈ fs, endsExcursion f = false)
    (h1 : Terminal.foldM' Terminal.execute fs t0 = some t1)
    (h2 : t1.execute (.decrst [.saveCursorAltScreenBuffer]) = some t2) :
    t2.cursor.col = min m.cursor.col (m.cols - 1) ∧ t2.cursor.row = m.cursor.row ∧ t2.pen = m.pen
      ∧ t2.originMode = m.originMode ∧ t2.autoWrapMode = m.autoWrapMode ∧ t2.pendingWrap = false := by
  have hd := during_all (during_enter hinv hp rfl h0) hfs h1
  rw [exec_decrst_one] at h2
  obtain ⟨hbc, hbr, _⟩ := tinv_parts hinv
  obtain ⟨_, _, _, a4⟩ := leave_spec resizeSame hd.inv hd.alt (m := .saveCursorAltScreenBuffer) rfl
    (by rw [hd.parked, hbc, hd.size.1]) (by rw [hd.parked, hbr, hd.size.2]) h2
  have := a4 rfl
  rw [hd.ctx] at this
  simpa [ctxRestored, parkedCtx, entryCtx, and_assoc] using this

/-- a leave with 1049 after an entry with 47/1047 restores whatever context the primary had saved -/
theorem C16_1049_mixed {m t0 t1 t2 : Terminal} {me : DecMode} {fs : List Function}
    (hinv : TInv m = true) (hp : m.activeBufferType = .primary) (hme : isAltScreenMode me = true)
    (h0 : m.execute (.decset [me]) = some t0)
    (hfs : ∀ f ∈ fs, endsExcursion f = false)
    (h1 : Terminal.foldM' Terminal.execute fs t0 = some t1)
    (h2 : t1.execute (.decrst [.saveCursorAltScreenBuffer]) = some t2) :
    ctxRestored (parkedCtx m (me == .saveCursorAltScreenBuffer)) t2 = true := by
  have hd := during_all (during_enter hinv hp hme h0) hfs h1
  rw [exec_decrst_one] at h2
  obtain ⟨hbc, hbr, _⟩ := tinv_parts hinv
  obtain ⟨_, _, _, a4⟩ := leave_spec resizeSame hd.inv hd.alt (m := .saveCursorAltScreenBuffer) rfl
    (by rw [hd.parked, hbc, hd.size.1]) (by rw [hd.parked, hbr, hd.size.2]) h2
  have := a4 rfl
  rw [hd.ctx] at this
  exact this

/-! ### the oracle's fast text function is `text()` -/

theorem C16_textOf (t : Terminal) : textOf t = t.text := textOf_eq t

/-! ### resized excursions: the statement of round one (proved below, `C16_resized_full_holds`) -/

/-- **C16_resized_full** (proved at the end of this file: `C16_resized_full_holds`; the sharper
    clauses are `C16_resized`, `C16_resized_1049`, `C16_excursion_resized`).  If the terminal was resized while the alternate screen
    was showing, then on return the invariant holds, the primary's logical text is that of the mark up
    to what the shrinking cut off at the end (`textRel`, before the `gc()` of the leaving call hands
    out scrollback lines), and the API-level geometry is consistent.  This is the statement of C10
    (resize keeps the logical text and the cursor's place) applied to the deferred `Buffer.resize`
    of the parked buffer, with the old-geometry cursor; the sharper clause about the cursor ("a 1049
    excursion puts the cursor back on the same character") is C10's `cursor` clause verbatim. -/
def C16_resized_full : Prop :=
  ∀ (m t1 t2 : Terminal) (ml : DecMode),
    TInv m = true → m.activeBufferType = .primary →
    TInv t1 = true → t1.activeBufferType = .alternate → t1.otherBuffer = m.buffer →
    isAltScreenMode ml = true → t1.execute (.decrst [ml]) = some t2 →
      TInv t2 = true ∧ t2.activeBufferType = .primary ∧ t2.buffer.cols = t1.cols ∧ t2.buffer.rows = t1.rows
        ∧ textRel m.text t2.text = true

/-! ### a concrete excursion -/

/-- 4×2 terminal, one line of scrollback, text on the screen, cursor at (3,1) with a bold pen:
    `?1049h`, print, erase display, scroll, `?1049l`. -/
def exM : Terminal :=
  let t := (Terminal.new 4 2 (some 10)).getD default
  let t := (Terminal.foldM' Terminal.execute
    [.print 0x61, .print 0x62, .lf, .lf, .print 0x63, .sgr [.setBold], .cup 2 4] t).getD default
  (Spec.finishT t)

def exFs : List Function := [.print 0x78, .ed .all, .lf, .lf, .print 0x79, .decset [.saveCursorAltScreenBuffer], .decaln]

example : TInv exM = true ∧ exM.activeBufferType = .primary ∧ exM.buffer.sb.length = 1
    ∧ exM.cursor.col = 3 ∧ exM.cursor.row = 1 := by decide

def exT0 : Terminal := (exM.execute (.decset [.saveCursorAltScreenBuffer])).getD default
def exT1 : Terminal := (Terminal.foldM' Terminal.execute exFs exT0).getD default
def exT2 : Terminal := (exT1.execute (.decrst [.saveCursorAltScreenBuffer])).getD default

example : exM.execute (.decset [.saveCursorAltScreenBuffer]) = some exT0
    ∧ Terminal.foldM' Terminal.execute exFs exT0 = some exT1
    ∧ exT1.execute (.decrst [.saveCursorAltScreenBuffer]) = some exT2
    ∧ exT1.buffer.view ≠ exT0.buffer.view
    ∧ sameBuffer exT2.buffer exM.buffer = true ∧ exT2.cursor.col = 3 ∧ exT2.cursor.row = 1
    ∧ exT2.text = exM.text ∧ exT2.pen.intensity = .bold := by decide +kernel

/-! ### resized excursions — proved

  During the excursion the parked primary and its saved context are untouched (`C16_frame`,
  `C16_frame_resize`).  Leaving is ONE `Buffer.resize` of the parked buffer from its old geometry to
  the terminal's current one (`Avt.C16.leave_resize`), fed with `leaveCursor`: for `?1049l` the parked
  saved cursor (old geometry), for `?47l`/`?1047l` the alternate screen's cursor.  C10's theorems about
  `Buffer.resize` (`Lemmas.resize_lines`, `Lemmas.width_rel`, `Lemmas.rows_only_rel`, packaged as
  `Avt.C16.buffer_resize_rel`) then give the relation between the logical lines, and
  `Terminal.execute_ok` (C02) gives the invariant.                                                  -/

/-- the cursor's logical position (line index, offset) of a terminal, as in C10 -/
def cursorOf (t : Terminal) : Nat × Nat :=
  Spec.C10.cursorLogical t.buffer (t.cursor.col, t.cursor.row)

/-- **C16_resized** (the leaving step, any geometry).  `t1` is any state of an excursion: the
    alternate screen is showing, the invariant holds, the parked buffer is the marked primary
    `m.buffer` — the terminal may have been resized any number of times since the mark.  After
    `DECRST 47/1047/1049`:
    * the invariant holds again (all geometry invariants), the primary is showing at the terminal's
      current size;
    * the primary's logical lines are the marked ones, re-wrapped: each kept, or the last one cut
      short, followed at most by blank filler (`keptOrCut` — none altered, reordered or invented);
      hence `textRel` for `text()`;
    * if the row of the cursor fed to the deferred resize lies inside the parked screen (always for
      `?1049l`, see `C16_resized_1049`), the whole relation of C10 holds w.r.t. that cursor: same
      logical line, lines above unchanged, text before it intact, same character under it, later
      lines kept or cut short (`resizeRel`). -/
theorem C16_resized {m t1 t2 : Terminal} {ml : DecMode}
    (hinv : TInv t1 = true) (ha : t1.activeBufferType = .alternate)
    (hpark : t1.otherBuffer = m.buffer) (hml : isAltScreenMode ml = true)
    (h : t1.execute (.decrst [ml]) = some t2) :
    TInv t2 = true ∧ t2.activeBufferType = .primary ∧ t2.cols = t1.cols ∧ t2.rows = t1.rows
      ∧ Spec.C10.keptOrCut (Spec.C10.logicalLines m.buffer.lines)
          (Spec.C10.logicalLines t2.buffer.lines) = true
      ∧ textRel m.buffer.text t2.text = true
      ∧ ((leaveCursor t1 ml).2 < m.buffer.rows →
          Spec.C10.resizeRel (Spec.C10.logicalLines m.buffer.lines)
            (Spec.C10.logicalLines t2.buffer.lines)
            (Spec.C10.cursorLogical m.buffer (leaveCursor t1 ml)).1
            (Spec.C10.cursorLogical m.buffer (leaveCursor t1 ml)).2
            (cursorOf t2).1 (cursorOf t2).2 (leavePending t1 ml) = true) := by
  have hok := TOK.of_TInv hinv
  obtain ⟨t2', ht2', hok2⟩ := Terminal.execute_ok resizeOK (.decrst [ml]) hok
  rw [h] at ht2'; cases ht2'
  have h' := h
  rw [exec_decrst_one] at h'
  obtain ⟨cur', hres, hcc, hcr, hprim, hcols, hrows, _⟩ := leave_resize ha hml h'
  rw [hpark] at hres
  have hbm : BInv m.buffer = true := by rw [← hpark]; exact hok.ook.BInv
  have hkc := Lemmas.resize_lines hres
  refine ⟨hok2.TInv, hprim, hcols, hrows, hkc, ?_, ?_⟩
  · rw [text_prim hprim, buffer_text_eq_logical hbm, buffer_text_eq_logical hok2.bok.BInv]
    exact textRel_of_keptOrCut _ _ hkc
  · intro hrow
    have hcur' : cursorOf t2 = Spec.C10.cursorLogical t2.buffer cur' := by
      simp only [cursorOf, hcc, hcr]
    rw [hcur']
    refine buffer_resize_rel (leavePending t1 ml) hbm hok.c1 hok.r1 hrow ?_ hres
    intro hsame
    -- same width: the column fed to the resize is inside the parked screen (or wrap-pending)
    have hbc : m.buffer.cols = t1.cols := hsame.symm
    unfold leaveCursor leavePending
    split
    · rcases hok.actx with hx | hx
      · rw [ha] at hx; cases hx
      · rw [hpark] at hx
        exact ⟨Nat.le_of_lt hx.1, fun _ => hx.1⟩
    · rw [hbc]
      rcases hok.ccol with ⟨hp, hc⟩ | ⟨hp, hc⟩
      · exact ⟨by rw [hc]; exact Nat.le_refl _, fun hf => by rw [hp] at hf; cases hf⟩
      · exact ⟨Nat.le_of_lt hc, fun _ => hc⟩

/-- **The statement kept since the first round (`C16_resized_full`) holds.** -/
theorem C16_resized_full_holds : C16_resized_full := by
  intro m t1 t2 ml _ hp _ ha hpark hml h
  have hinv1 : TInv t1 = true := by assumption
  obtain ⟨a1, a2, a3, a4, _, a6, _⟩ := C16_resized hinv1 ha hpark hml h
  obtain ⟨hbc, hbr, _⟩ := tinv_parts a1
  refine ⟨a1, a2, hbc.trans a3, hbr.trans a4, ?_⟩
  rw [text_prim hp]; exact a6

/-- **C16_resized_1049.**  `?1049l` after an excursion whose parked context is the cursor saved by
    `?1049h` at the mark `m` (column clamped to `cols-1`), whatever resizes happened in between: the
    cursor is back in the same logical line of the primary's text, every line above it unchanged,
    the text before it intact, ON THE SAME CHARACTER when it was on one (`resizeRel` with the entry
    cursor, no wrap pending), later lines kept or cut short; pen, origin mode and auto-wrap mode are
    those of the mark and no wrap is pending. -/
theorem C16_resized_1049 {m t1 t2 : Terminal}
    (hinvm : TInv m = true) (hinv : TInv t1 = true) (ha : t1.activeBufferType = .alternate)
    (hpark : t1.otherBuffer = m.buffer) (hctx : t1.alternateSavedCtx = entryCtx m)
    (h : t1.execute (.decrst [.saveCursorAltScreenBuffer]) = some t2) :
    Spec.C10.resizeRel (Spec.C10.logicalLines m.buffer.lines) (Spec.C10.logicalLines t2.buffer.lines)
        (Spec.C10.cursorLogical m.buffer (min m.cursor.col (m.cols - 1), m.cursor.row)).1
        (Spec.C10.cursorLogical m.buffer (min m.cursor.col (m.cols - 1), m.cursor.row)).2
        (cursorOf t2).1 (cursorOf t2).2 false = true
      ∧ t2.pen = m.pen ∧ t2.originMode = m.originMode ∧ t2.autoWrapMode = m.autoWrapMode
      ∧ t2.pendingWrap = false := by
  obtain ⟨_, _, _, _, _, _, hrel⟩ := C16_resized (m := m) hinv ha hpark rfl h
  obtain ⟨_, hbr, _, _, hrow, _, _⟩ := tinv_parts hinvm
  have hlc : leaveCursor t1 .saveCursorAltScreenBuffer
      = (min m.cursor.col (m.cols - 1), m.cursor.row) := by
    simp [leaveCursor, hctx, entryCtx]
  have hlp : leavePending t1 .saveCursorAltScreenBuffer = false := by simp [leavePending]
  rw [hlc, hlp] at hrel
  refine ⟨hrel (by rw [hbr]; exact hrow), ?_⟩
  rw [exec_decrst_one] at h
  obtain ⟨p1, p2, p3, p4⟩ := leave_1049_ctx ha h
  rw [hctx] at p1 p2 p3
  exact ⟨p1, p2, p3, p4⟩

/-! ### whole excursions with resizes in between -/

/-- one step of an excursion at the terminal level: a control function, or `Terminal::resize` -/
inductive ExOp where
  | fn (f : Function)
  | resize (c r : Nat)
  deriving DecidableEq, Repr

/-- allowed during an excursion: any function that neither leaves the alternate screen nor is RIS;
    any resize within the API contract (`cols, rows ≥ 1`) -/
def ExOp.ok : ExOp → Prop
  | .fn f => endsExcursion f = false
  | .resize c r => 1 ≤ c ∧ 1 ≤ r

instance : DecidablePred ExOp.ok := fun op => by
  cases op <;> simp only [ExOp.ok] <;> exact inferInstance

def exStep (t : Terminal) : ExOp → Option Terminal
  | .fn f => t.execute f
  | .resize c r => t.resize c r

/-- what holds at every point of an excursion entered from `m` with mode `me`, resizes allowed -/
structure DuringR (m : Terminal) (me : DecMode) (t : Terminal) : Prop where
  inv : TInv t = true
  alt : t.activeBufferType = .alternate
  parked : t.otherBuffer = m.buffer
  ctx : t.alternateSavedCtx = parkedCtx m (me == .saveCursorAltScreenBuffer)

theorem DuringR.text {m t : Terminal} {me : DecMode} (hp : m.activeBufferType = .primary)
    (hd : DuringR m me t) : t.text = m.text := by
  rw [text_alt hd.alt, text_prim hp, hd.parked]

theorem duringR_enter {m t : Terminal} {me : DecMode} (hinv : TInv m = true)
    (hp : m.activeBufferType = .primary) (hme : isAltScreenMode me = true)
    (h : m.execute (.decset [me]) = some t) : DuringR m me t :=
  let hd := during_enter hinv hp hme h
  ⟨hd.inv, hd.alt, hd.parked, hd.ctx⟩

theorem duringR_step {m t t' : Terminal} {me : DecMode} {op : ExOp} (hd : DuringR m me t)
    (hop : op.ok) (h : exStep t op = some t') : DuringR m me t' := by
  cases op with
  | fn f =>
    simp only [exStep] at h
    obtain ⟨h1, h2, h3⟩ := C16_frame hd.alt hop h
    obtain ⟨t'', ht'', hok⟩ := Terminal.execute_ok resizeOK f (TOK.of_TInv hd.inv)
    rw [h] at ht''; cases ht''
    exact ⟨hok.TInv, h3, h1.trans hd.parked, h2.trans hd.ctx⟩
  | resize c r =>
    simp only [exStep] at h
    obtain ⟨h1, h2, h3⟩ := C16_frame_resize h
    obtain ⟨t'', ht'', hok⟩ := Terminal.resize_ok resizeOK (TOK.of_TInv hd.inv) hop.1 hop.2
    rw [h] at ht''; cases ht''
    exact ⟨hok.TInv, h3.trans hd.alt, h1.trans hd.parked, h2.trans hd.ctx⟩

theorem duringR_all {m t0 t1 : Terminal} {me : DecMode} {ops : List ExOp} (hd : DuringR m me t0)
    (hops : ∀ op ∈ ops, op.ok) (h : Terminal.foldM' exStep ops t0 = some t1) : DuringR m me t1 :=
  foldM'_inv (f := exStep) (DuringR m me) (ms := ops)
    (fun _ op _ hmem hb hs => duringR_step hb (hops op hmem) hs) hd h

/-- **C16_excursion_resized.**  Enter (`?47/1047/1049h`) from any state `m` of the primary screen;
    then any list of control functions (none leaving, none RIS) and terminal resizes (wider,
    narrower, taller, shorter, interleaved in any order); leave (`?47/1047/1049l`, any of the three).
    Throughout, the parked primary and its saved context are untouched and `text()` is constant; on
    return the invariant holds, the primary shows at the final size, its logical lines are those of
    `m` re-wrapped — none altered, at most cut short at the bottom (`keptOrCut`, `textRel`) — and when
    both the entry and the exit are 1049 the cursor is back on the same character of the primary's
    text (C10's `resizeRel` for the entry cursor) with the pen and modes of the mark. -/
theorem C16_excursion_resized {m t0 t1 t2 : Terminal} {me ml : DecMode} {ops : List ExOp}
    (hinv : TInv m = true) (hp : m.activeBufferType = .primary)
    (hme : isAltScreenMode me = true) (hml : isAltScreenMode ml = true)
    (h0 : m.execute (.decset [me]) = some t0)
    (hops : ∀ op ∈ ops, op.ok)
    (h1 : Terminal.foldM' exStep ops t0 = some t1)
    (h2 : t1.execute (.decrst [ml]) = some t2) :
    (t1.otherBuffer = m.buffer ∧ t1.text = m.text)
      ∧ TInv t2 = true ∧ t2.activeBufferType = .primary ∧ t2.cols = t1.cols ∧ t2.rows = t1.rows
      ∧ Spec.C10.keptOrCut (Spec.C10.logicalLines m.buffer.lines)
          (Spec.C10.logicalLines t2.buffer.lines) = true
      ∧ textRel m.text t2.text = true
      ∧ (me = .saveCursorAltScreenBuffer → ml = .saveCursorAltScreenBuffer →
          Spec.C10.resizeRel (Spec.C10.logicalLines m.buffer.lines)
              (Spec.C10.logicalLines t2.buffer.lines)
              (Spec.C10.cursorLogical m.buffer (min m.cursor.col (m.cols - 1), m.cursor.row)).1
              (Spec.C10.cursorLogical m.buffer (min m.cursor.col (m.cols - 1), m.cursor.row)).2
              (cursorOf t2).1 (cursorOf t2).2 false = true
            ∧ t2.pen = m.pen ∧ t2.originMode = m.originMode ∧ t2.autoWrapMode = m.autoWrapMode
            ∧ t2.pendingWrap = false) := by
  have hd := duringR_all (duringR_enter hinv hp hme h0) hops h1
  obtain ⟨a1, a2, a3, a4, a5, a6, _⟩ := C16_resized hd.inv hd.alt hd.parked hml h2
  refine ⟨⟨hd.parked, hd.text hp⟩, a1, a2, a3, a4, a5, ?_, ?_⟩
  · rw [text_prim hp]; exact a6
  · intro e1 e2
    subst e1 e2
    have hctx : t1.alternateSavedCtx = entryCtx m := by
      rw [hd.ctx]; simp [parkedCtx]
    exact C16_resized_1049 hinv hd.inv hd.alt hd.parked hctx h2

/-! ### a concrete excursion with resizes

  `exM2`: 4×2, limit 10, rows "z" / "" (scrollback) and "abcd"⏎"ef" (one logical line wrapped over the
  two visible rows), bold pen, cursor moved back onto the 'f' (logical line 2, offset 5).
  `?1049h`, print, resize to 3×3, scroll, print, resize to 2×2, DECALN, `?1049l` at 2×2: the parked
  primary kept its 4×2 rows all along; on return "abcdef" occupies three rows of width 2, `text()` is
  unchanged, the cursor is on the 'f' again, the pen is bold again. -/

def exM2 : Terminal :=
  let t := (Terminal.new 4 2 (some 10)).getD default
  let t := (Terminal.foldM' Terminal.execute
    [.print 0x7a, .lf, .cr, .lf, .cr, .print 0x61, .print 0x62, .print 0x63, .print 0x64, .print 0x65,
     .print 0x66, .sgr [.setBold], .cub 1] t).getD default
  (Spec.finishT t)

def exOpsR : List ExOp :=
  [.fn (.print 0x78), .resize 3 3, .fn .lf, .fn .lf, .fn .lf, .fn (.print 0x79), .resize 2 2, .fn .decaln]

def exR0 : Terminal := (exM2.execute (.decset [.saveCursorAltScreenBuffer])).getD default
def exR1 : Terminal := (Terminal.foldM' exStep exOpsR exR0).getD default
def exR2 : Terminal := (exR1.execute (.decrst [.saveCursorAltScreenBuffer])).getD default

example : (∀ op ∈ exOpsR, op.ok) := by decide

/-- the hypotheses of `C16_excursion_resized` hold on this excursion … -/
example : TInv exM2 = true ∧ exM2.activeBufferType = .primary ∧ exM2.buffer.sb.length = 2
    ∧ (exM2.cursor.col, exM2.cursor.row) = (1, 1)
    ∧ exM2.execute (.decset [.saveCursorAltScreenBuffer]) = some exR0
    ∧ Terminal.foldM' exStep exOpsR exR0 = some exR1
    ∧ exR1.execute (.decrst [.saveCursorAltScreenBuffer]) = some exR2 := by decide +kernel

/-- … and this is what its conclusion says there -/
example : (exR1.cols, exR1.rows) = (2, 2) ∧ exR1.otherBuffer = exM2.buffer ∧ exR1.otherBuffer.cols = 4
    ∧ (exR2.cols, exR2.rows, exR2.buffer.cols, exR2.buffer.rows) = (2, 2, 2, 2)
    ∧ exR2.activeBufferType = .primary
    ∧ exR2.buffer.lines.map (fun l => (l.cells.map Cell.ch, l.wrapped))
        = [([0x7a, 0x20], false), ([0x20, 0x20], false), ([0x61, 0x62], true), ([0x63, 0x64], true),
           ([0x65, 0x66], false)]
    ∧ exR2.text = exM2.text
    ∧ Spec.C10.cursorLogical exM2.buffer (1, 1) = (2, 5) ∧ cursorOf exR2 = (2, 5)
    ∧ Spec.C10.onChar (Spec.C10.logicalLines exM2.buffer.lines) 2 5 false = true
    ∧ (exR2.cursor.col, exR2.cursor.row) = (1, 1)
    ∧ Spec.C10.resizeRel (Spec.C10.logicalLines exM2.buffer.lines) (Spec.C10.logicalLines exR2.buffer.lines)
        2 5 (cursorOf exR2).1 (cursorOf exR2).2 false = true
    ∧ exR2.pen.intensity = .bold ∧ exR2.pendingWrap = false := by decide +kernel

end Avt.Props.C16
