/-
  Avt.Props.C16 — the alternate screen never disturbs the primary screen.

  Vocabulary (Avt/Spec/C16.lean, the definitions the oracle evaluates): `endsExcursion` (leaving =
  DECRST 47/1047/1049, or RIS), `isAltScreenMode`, `emitted`, `freshAlternate`, `entryCtx`,
  `parkedCtx`, `sameBuffer`, `trimmedSb`, `primaryRestored`, `ctxRestored`, `textRel`, `ResizeSame`.

  Proved, for all states and all sizes:
  * `C16_frame`          every function except leaving and RIS, executed on the alternate screen,
                         leaves `otherBuffer` (the parked primary), `alternateSavedCtx` (its saved
                         context) and `activeBufferType` untouched — no invariant needed;
  * `C16_frame_resize`   so does `Terminal.resize` (only the active buffer is reflowed);
  * `C16_text_const`     hence `text()` is constant;
  * `C16_feedAll`, `C16_feedStr`, `C16_vtResize`   the same through the parser / the public calls,
                         with the side condition on the emitted function list;
  * `C16_enter`          entering gives a blank screen of the current pen, parks the primary buffer
                         unchanged and (1049) saves the cursor context;
  * `C16_roundtrip`      enter, any function list without leave/RIS, leave: back on the primary with
                         the same view, scrollback, size, limit and text (function level: no resize
                         can happen between, `geo_execute`);  `C16_roundtrip_api` adds the `gc()` that
                         ends the leaving call (`primaryRestored`, i.e. scrollback `trimmedSb`);
  * `C16_1049`           with `?1049h … ?1049l` the cursor is back at `(min col (cols-1), row)` with
                         the pen, origin mode and auto-wrap mode of the mark, `pending_wrap` off.
  `ResizeSame` (same-geometry `Buffer.resize` only sets `trim_needed`) is a hypothesis of the
  `_of` versions and is discharged by `Avt.Buffer.resize_same` (Avt/Lemmas/ResizeSame.lean); invariant
  preservation along the excursion comes from `Avt.Terminal.execute_ok` (Avt/Lemmas/InvTerminal.lean)
  with `Avt.resizeOK`.

  Not proved here: the resized-excursion clause (`C16_resized_full`) — it is the statement of C10 about
  the deferred `Buffer.resize`, applied with the old-geometry cursor; kept as a `def … : Prop`.
-/
import Avt.Lemmas.C16Text
import Avt.Lemmas.ResizeSame
import Avt.Lemmas.InvTerminal

namespace Avt.Props.C16
open Avt Avt.Spec.C16 Avt.C16

/-! ### frame -/

/-- **C16_frame.**  On the alternate screen every function other than leaving it (DECRST
    47/1047/1049) and RIS leaves the parked primary buffer, its saved context and the active screen
    as they are.  (`?1049h` while already on the alternate screen saves into `savedCtx`, the
    alternate's own context.) -/
theorem C16_frame {t t' : Terminal} {f : Function} (ha : t.activeBufferType = .alternate)
    (hf : endsExcursion f = false) (h : t.execute f = some t') :
    t'.otherBuffer = t.otherBuffer ∧ t'.alternateSavedCtx = t.alternateSavedCtx
      ∧ t'.activeBufferType = .alternate := by
  obtain ⟨h1, h2, h3⟩ := fr_parts (fr_execute ha hf h)
  exact ⟨h1, h2, h3.trans ha⟩

/-- `resize` reflows the active buffer only -/
theorem C16_frame_resize {t t' : Terminal} {c r : Nat} (h : t.resize c r = some t') :
    t'.otherBuffer = t.otherBuffer ∧ t'.alternateSavedCtx = t.alternateSavedCtx
      ∧ t'.activeBufferType = t.activeBufferType := fr_parts (fr_resize h)

/-- hence `text()` is constant while the alternate screen is showing -/
theorem C16_text_const {t t' : Terminal} {f : Function} (ha : t.activeBufferType = .alternate)
    (hf : endsExcursion f = false) (h : t.execute f = some t') : t'.text = t.text := by
  obtain ⟨h1, _, h3⟩ := C16_frame ha hf h
  rw [text_alt ha, text_alt h3, h1]

/-- the frame property through the parser: a whole input string none of whose emitted functions
    leaves the alternate screen or is RIS -/
theorem C16_feedAll {v v' : Vt} {s : List Nat} (ha : v.terminal.activeBufferType = .alternate)
    (hf : ∀ f ∈ emitted v.parser s, endsExcursion f = false) (h : v.feedAll s = some v') :
    v'.terminal.otherBuffer = v.terminal.otherBuffer
      ∧ v'.terminal.alternateSavedCtx = v.terminal.alternateSavedCtx
      ∧ v'.terminal.activeBufferType = .alternate ∧ v'.text = v.text := by
  obtain ⟨h1, h2, h3⟩ := fr_parts (fr_feedAll ha hf h)
  refine ⟨h1, h2, h3.trans ha, ?_⟩
  show v'.terminal.text = v.terminal.text
  rw [text_alt ha, text_alt (h3.trans ha), h1]

/-- … and through `feed_str` (which ends with `changes()` and `gc()` of the *active* buffer) -/
theorem C16_feedStr {v v' : Vt} {s : List Nat} {ch : Changes}
    (ha : v.terminal.activeBufferType = .alternate)
    (hf : ∀ f ∈ emitted v.parser s, endsExcursion f = false) (h : v.feedStr s = some (v', ch)) :
    v'.terminal.otherBuffer = v.terminal.otherBuffer
      ∧ v'.terminal.alternateSavedCtx = v.terminal.alternateSavedCtx
      ∧ v'.terminal.activeBufferType = .alternate ∧ v'.text = v.text := by
  obtain ⟨h1, h2, h3⟩ := fr_parts (fr_feedStr ha hf h)
  refine ⟨h1, h2, h3.trans ha, ?_⟩
  show v'.terminal.text = v.terminal.text
  rw [text_alt ha, text_alt (h3.trans ha), h1]

/-- … and through `Vt::resize` -/
theorem C16_vtResize {v v' : Vt} {c r : Nat} {ch : Changes}
    (ha : v.terminal.activeBufferType = .alternate) (h : v.resize c r = some (v', ch)) :
    v'.terminal.otherBuffer = v.terminal.otherBuffer
      ∧ v'.terminal.alternateSavedCtx = v.terminal.alternateSavedCtx
      ∧ v'.terminal.activeBufferType = .alternate ∧ v'.text = v.text := by
  obtain ⟨h1, h2, h3⟩ := fr_parts (fr_vtResize h)
  refine ⟨h1, h2, h3.trans ha, ?_⟩
  show v'.terminal.text = v.terminal.text
  rw [text_alt ha, text_alt (h3.trans ha), h1]

/-! ### entering -/

theorem resizeSame : ResizeSame := fun b cur h hc => Buffer.resize_same b cur h hc

theorem exec_decset_one {t : Terminal} {m : DecMode} : t.execute (.decset [m]) = t.decsetOne m := by
  simp only [Terminal.execute, Terminal.foldM']
  cases t.decsetOne m <;> rfl

theorem exec_decrst_one {t : Terminal} {m : DecMode} : t.execute (.decrst [m]) = t.decrstOne m := by
  simp only [Terminal.execute, Terminal.foldM']
  cases t.decrstOne m <;> rfl

/-- **C16_enter** (from `ResizeSame`).  `DECSET 47/1047/1049` on the primary screen: the new screen
    is `rows × cols` blank cells carrying the current pen, unwrapped, without scrollback; the primary
    buffer is parked as it is; its saved context is parked too — for 1049 after saving the cursor
    (column clamped to `cols-1`), pen, origin mode and auto-wrap mode; `text()` is unchanged. -/
theorem C16_enter_of (hRS : ResizeSame) {m t : Terminal} {me : DecMode} (hinv : TInv m = true)
    (hp : m.activeBufferType = .primary) (hme : isAltScreenMode me = true)
    (h : m.execute (.decset [me]) = some t) :
    freshAlternate m t = true ∧ t.otherBuffer = m.buffer
      ∧ t.alternateSavedCtx = parkedCtx m (me == .saveCursorAltScreenBuffer) ∧ t.pen = m.pen
      ∧ t.text = m.text := by
  rw [exec_decset_one] at h
  obtain ⟨e1, e2, e3⟩ := enter_spec hRS hinv hp hme h
  obtain ⟨hb, _, hpen, _⟩ := sc_buffer e3
  obtain ⟨hc, hr⟩ := geo_parts e2
  simp only [fr, Prod.mk.injEq] at e1
  obtain ⟨h1, h2, h3⟩ := e1
  refine ⟨?_, h1, h2, hpen, ?_⟩
  · simp [freshAlternate, h3, hc, hr, hb, Buffer.new, blankScreen]
  · rw [text_alt h3, text_prim hp, h1]

theorem C16_enter {m t : Terminal} {me : DecMode} (hinv : TInv m = true)
    (hp : m.activeBufferType = .primary) (hme : isAltScreenMode me = true)
    (h : m.execute (.decset [me]) = some t) :
    freshAlternate m t = true ∧ t.otherBuffer = m.buffer
      ∧ t.alternateSavedCtx = parkedCtx m (me == .saveCursorAltScreenBuffer) ∧ t.pen = m.pen
      ∧ t.text = m.text := C16_enter_of resizeSame hinv hp hme h

/-! ### the whole excursion -/

/-- what holds at every point of an excursion entered from `m` with mode `me` -/
structure During (m : Terminal) (me : DecMode) (t : Terminal) : Prop where
  inv : TInv t = true
  alt : t.activeBufferType = .alternate
  parked : t.otherBuffer = m.buffer
  ctx : t.alternateSavedCtx = parkedCtx m (me == .saveCursorAltScreenBuffer)
  size : t.cols = m.cols ∧ t.rows = m.rows

theorem during_enter {m t : Terminal} {me : DecMode} (hinv : TInv m = true)
    (hp : m.activeBufferType = .primary) (hme : isAltScreenMode me = true)
    (h : m.execute (.decset [me]) = some t) : During m me t := by
  have h' := h
  rw [exec_decset_one] at h'
  obtain ⟨e1, e2, _⟩ := enter_spec resizeSame hinv hp hme h'
  simp only [fr, Prod.mk.injEq] at e1
  obtain ⟨t', ht', hok⟩ := Terminal.execute_ok resizeOK (.decset [me]) (TOK.of_TInv hinv)
  rw [h] at ht'; cases ht'
  exact ⟨hok.TInv, e1.2.2, e1.1, e1.2.1, geo_parts e2⟩

theorem during_step {m t t' : Terminal} {me : DecMode} {f : Function} (hd : During m me t)
    (hf : endsExcursion f = false) (h : t.execute f = some t') : During m me t' := by
  obtain ⟨h1, h2, h3⟩ := C16_frame hd.alt hf h
  obtain ⟨t'', ht'', hok⟩ := Terminal.execute_ok resizeOK f (TOK.of_TInv hd.inv)
  rw [h] at ht''; cases ht''
  obtain ⟨hc, hr⟩ := geo_parts (geo_execute (tinv_parts hd.inv).2.2.2.2.2.2 h)
  exact ⟨hok.TInv, h3, h1.trans hd.parked, h2.trans hd.ctx, hc.trans hd.size.1, hr.trans hd.size.2⟩

theorem during_all {m t0 t1 : Terminal} {me : DecMode} {fs : List Function} (hd : During m me t0)
    (hfs : ∀ f ∈ fs, endsExcursion f = false) (h : Terminal.foldM' Terminal.execute fs t0 = some t1) :
    During m me t1 :=
  foldM'_inv (f := Terminal.execute) (During m me) (ms := fs)
    (fun _ f _ hmem hb hs => during_step hb (hfs f hmem) hs) hd h

/-- **C16_roundtrip.**  Enter (`?47/1047/1049h`) from any state `m` of the primary screen, execute
    any functions that neither leave nor hard-reset, leave (`?47/1047/1049l`, any of the three): the
    terminal is back on the primary screen with the size of `m`, and the primary's view, scrollback,
    geometry and limit are those of `m` (only `trim_needed` is set) — hence `text()` too. -/
theorem C16_roundtrip {m t0 t1 t2 : Terminal} {me ml : DecMode} {fs : List Function}
    (hinv : TInv m = true) (hp : m.activeBufferType = .primary)
    (hme : isAltScreenMode me = true) (hml : isAltScreenMode ml = true)
    (h0 : m.execute (.decset [me]) = some t0)
    (hfs : ∀ f ∈ fs, endsExcursion f = false)
    (h1 : Terminal.foldM' Terminal.execute fs t0 = some t1)
    (h2 : t1.execute (.decrst [ml]) = some t2) :
    t2.activeBufferType = .primary ∧ t2.buffer = { m.buffer with trimNeeded := true }
      ∧ sameBuffer t2.buffer m.buffer = true ∧ t2.cols = m.cols ∧ t2.rows = m.rows
      ∧ t2.text = m.text := by
  have hd := during_all (during_enter hinv hp hme h0) hfs h1
  rw [exec_decrst_one] at h2
  obtain ⟨hbc, hbr, _⟩ := tinv_parts hinv
  obtain ⟨a1, a2, a3, _⟩ := leave_spec resizeSame hd.inv hd.alt hml
    (by rw [hd.parked, hbc, hd.size.1]) (by rw [hd.parked, hbr, hd.size.2]) h2
  obtain ⟨hc, hr⟩ := geo_parts a2
  rw [hd.parked] at a3
  refine ⟨a1, a3, ?_, hc.trans hd.size.1, hr.trans hd.size.2, ?_⟩
  · simp [sameBuffer, a3]
  · rw [text_prim a1, text_prim hp, a3]; rfl

/-- the same seen through the API: after the `changes()` + `gc()` that end the leaving call the
    primary is `primaryRestored` — view identical, scrollback identical up to the trim `gc()` performs
    when it is longer than the hard limit (never after a `feed_str`/`resize` call) -/
theorem C16_roundtrip_api {m t0 t1 t2 : Terminal} {me ml : DecMode} {fs : List Function}
    (hinv : TInv m = true) (hp : m.activeBufferType = .primary)
    (hme : isAltScreenMode me = true) (hml : isAltScreenMode ml = true)
    (h0 : m.execute (.decset [me]) = some t0)
    (hfs : ∀ f ∈ fs, endsExcursion f = false)
    (h1 : Terminal.foldM' Terminal.execute fs t0 = some t1)
    (h2 : t1.execute (.decrst [ml]) = some t2) :
    primaryRestored m (Spec.finishT t2) = true := by
  obtain ⟨a1, a2, _⟩ := C16_roundtrip hinv hp hme hml h0 hfs h1 h2
  obtain ⟨g1, g2, g3, g4, g5⟩ := gc_trimmed t2.buffer (by rw [a2])
  have hb : (Spec.finishT t2).buffer = t2.buffer.gc.1 := by
    simp only [Spec.finishT, Terminal.changes, Terminal.gc]
  have ha : (Spec.finishT t2).activeBufferType = t2.activeBufferType := by
    simp only [Spec.finishT, Terminal.changes, Terminal.gc]
  have ht : trimmedSb t2.buffer = trimmedSb m.buffer := by rw [a2]; rfl
  have hv : t2.buffer.view = m.buffer.view := by rw [a2]
  have hc : t2.buffer.cols = m.buffer.cols := by rw [a2]
  have hr : t2.buffer.rows = m.buffer.rows := by rw [a2]
  have hl : t2.buffer.limit = m.buffer.limit := by rw [a2]
  simp only [primaryRestored, hb, ha, a1, g1, g2, g3, g4, g5, ht, hv, hc, hr, hl, beq_self_eq_true,
    Bool.and_self]

/-- **C16_1049.**  With `?1049h … ?1049l` the cursor is back at `(min col (cols-1), row)` of the mark,
    with the mark's pen, origin mode and auto-wrap mode; `pending_wrap` is off. -/
theorem C16_1049 {m t0 t1 t2 : Terminal} {fs : List Function}
    (hinv : TInv m = true) (hp : m.activeBufferType = .primary)
    (h0 : m.execute (.decset [.saveCursorAltScreenBuffer]) = some t0)
    (hfs : ∀ f ∈ fs, endsExcursion f = false)
    (h1 : Terminal.foldM' Terminal.execute fs t0 = some t1)
    (h2 : t1.execute (.decrst [.saveCursorAltScreenBuffer]) = some t2) :
    t2.cursor.col = min m.cursor.col (m.cols - 1) ∧ t2.cursor.row = m.cursor.row ∧ t2.pen = m.pen
      ∧ t2.originMode = m.originMode ∧ t2.autoWrapMode = m.autoWrapMode ∧ t2.pendingWrap = false := by
  have hd := during_all (during_enter hinv hp rfl h0) hfs h1
  rw [exec_decrst_one] at h2
  obtain ⟨hbc, hbr, _⟩ := tinv_parts hinv
  obtain ⟨_, _, _, a4⟩ := leave_spec resizeSame hd.inv hd.alt (m := .saveCursorAltScreenBuffer) rfl
    (by rw [hd.parked, hbc, hd.size.1]) (by rw [hd.parked, hbr, hd.size.2]) h2
  have := a4 rfl
  rw [hd.ctx] at this
  simpa [ctxRestored, parkedCtx, entryCtx, and_assoc] using this

/-- a leave with 1049 after an entry with 47/1047 restores whatever context the primary had saved -/
theorem C16_1049_mixed {m t0 t1 t2 : Terminal} {me : DecMode} {fs : List Function}
    (hinv : TInv m = true) (hp : m.activeBufferType = .primary) (hme : isAltScreenMode me = true)
    (h0 : m.execute (.decset [me]) = some t0)
    (hfs : ∀ f ∈ fs, endsExcursion f = false)
    (h1 : Terminal.foldM' Terminal.execute fs t0 = some t1)
    (h2 : t1.execute (.decrst [.saveCursorAltScreenBuffer]) = some t2) :
    ctxRestored (parkedCtx m (me == .saveCursorAltScreenBuffer)) t2 = true := by
  have hd := during_all (during_enter hinv hp hme h0) hfs h1
  rw [exec_decrst_one] at h2
  obtain ⟨hbc, hbr, _⟩ := tinv_parts hinv
  obtain ⟨_, _, _, a4⟩ := leave_spec resizeSame hd.inv hd.alt (m := .saveCursorAltScreenBuffer) rfl
    (by rw [hd.parked, hbc, hd.size.1]) (by rw [hd.parked, hbr, hd.size.2]) h2
  have := a4 rfl
  rw [hd.ctx] at this
  exact this

/-! ### the oracle's fast text function is `text()` -/

theorem C16_textOf (t : Terminal) : textOf t = t.text := textOf_eq t

/-! ### resized excursions (statement only — rests on C10) -/

/-- **C16_resized_full** (not proved here).  If the terminal was resized while the alternate screen
    was showing, then on return the invariant holds, the primary's logical text is that of the mark up
    to what the shrinking cut off at the end (`textRel`, before the `gc()` of the leaving call hands
    out scrollback lines), and the API-level geometry is consistent.  This is the statement of C10
    (resize keeps the logical text and the cursor's place) applied to the deferred `Buffer.resize`
    of the parked buffer, with the old-geometry cursor; the sharper clause about the cursor ("a 1049
    excursion puts the cursor back on the same character") is C10's `cursor` clause verbatim. -/
def C16_resized_full : Prop :=
  ∀ (m t1 t2 : Terminal) (ml : DecMode),
    TInv m = true → m.activeBufferType = .primary →
    TInv t1 = true → t1.activeBufferType = .alternate → t1.otherBuffer = m.buffer →
    isAltScreenMode ml = true → t1.execute (.decrst [ml]) = some t2 →
      TInv t2 = true ∧ t2.activeBufferType = .primary ∧ t2.buffer.cols = t1.cols ∧ t2.buffer.rows = t1.rows
        ∧ textRel m.text t2.text = true

/-! ### a concrete excursion -/

/-- 4×2 terminal, one line of scrollback, text on the screen, cursor at (3,1) with a bold pen:
    `?1049h`, print, erase display, scroll, `?1049l`. -/
def exM : Terminal :=
  let t := (Terminal.new 4 2 (some 10)).getD default
  let t := (Terminal.foldM' Terminal.execute
    [.print 0x61, .print 0x62, .lf, .lf, .print 0x63, .sgr [.setBold], .cup 2 4] t).getD default
  (Spec.finishT t)

def exFs : List Function := [.print 0x78, .ed .all, .lf, .lf, .print 0x79, .decset [.saveCursorAltScreenBuffer], .decaln]

example : TInv exM = true ∧ exM.activeBufferType = .primary ∧ exM.buffer.sb.length = 1
    ∧ exM.cursor.col = 3 ∧ exM.cursor.row = 1 := by decide

def exT0 : Terminal := (exM.execute (.decset [.saveCursorAltScreenBuffer])).getD default
def exT1 : Terminal := (Terminal.foldM' Terminal.execute exFs exT0).getD default
def exT2 : Terminal := (exT1.execute (.decrst [.saveCursorAltScreenBuffer])).getD default

example : exM.execute (.decset [.saveCursorAltScreenBuffer]) = some exT0
    ∧ Terminal.foldM' Terminal.execute exFs exT0 = some exT1
    ∧ exT1.execute (.decrst [.saveCursorAltScreenBuffer]) = some exT2
    ∧ exT1.buffer.view ≠ exT0.buffer.view
    ∧ sameBuffer exT2.buffer exM.buffer = true ∧ exT2.cursor.col = 3 ∧ exT2.cursor.row = 1
    ∧ exT2.text = exM.text ∧ exT2.pen.intensity = .bold := by decide +kernel

end Avt.Props.C16
