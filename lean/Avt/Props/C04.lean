/- Property theorems for C04 (placeholder until the proofs land). -/
import Avt.Spec.C04
