/-
  Avt.Props.C04 — property C04: printing, auto-wrap, insert mode and charsets put characters
  where they belong.

  All theorems are about the model (`Terminal.execute`), for every terminal satisfying the global
  invariant `TInv` (C02), every size, every character / count — no bounds.  The specification
  (`printSpec`, `repSpec`, `gfxRef`) lives in Avt/Spec/C04.lean and is the very definition the
  oracle evaluates on the implementation's states.
-/
import Avt.Lemmas.C04Term
import Avt.Lemmas.C04ModesFrame

namespace Avt.Props.C04
open Avt Avt.Spec Avt.Spec.C04 Avt.C04L

/-! ### Character sets -/

/-- **C04 (charsets).**  The DEC special graphics set translates exactly like the fixed VT100
    table (0x60..0x7E to the line-drawing glyphs, everything else to itself) and never panics;
    the ASCII set is the identity. -/
theorem C04_gfx (c : Nat) :
    Charset.translate .drawing c = some (gfxRef c) ∧ Charset.translate .ascii c = some c :=
  ⟨translate_drawing c, rfl⟩

/-! ### Print -/

/-- **C04 (Print).**  Printing a character never panics and produces exactly the terminal
    described by `printSpec`: glyph through the active character set, deferred wrap first (mark,
    scroll on the bottom margin), last-column rule, insert vs. overwrite, cursor advance / park,
    current pen, dirty row — and, because this is an equation between complete terminals,
    nothing else changes. -/
theorem C04_print (t : Terminal) (ch : Nat) (h : TInv t = true) :
    t.execute (.print ch) = some (printSpec t ch) :=
  print_spec t ch h

/-- `printSpec` keeps the global invariant (so prints can be iterated) -/
theorem C04_print_TInv (t : Terminal) (ch : Nat) (h : TInv t = true) : TInv (printSpec t ch) = true :=
  printSpec_TInv t h ch

/-! ### REP -/

/-- **C04 (REP).**  `REP n` never panics and equals `max n 1` prints (each exactly as specified by
    `printSpec`, "as if typed") of the character left of the cursor; at column 0 it is the identity. -/
theorem C04_rep (t : Terminal) (n : Nat) (h : TInv t = true) :
    t.execute (.rep n) = some (repSpec t n) := by
  have p := Pre_of_TInv t h
  show t.rep n = _
  unfold Terminal.rep repSpec
  by_cases h0 : t.cursor.col = 0
  · have : ¬ t.cursor.col > 0 := by omega
    simp only [if_neg this, if_pos h0]
  · have hpos : t.cursor.col > 0 := by omega
    have hrow : t.cursor.row < t.buffer.view.length := by rw [p.vlen]; exact p.row_lt
    have hl : t.buffer.view[t.cursor.row]? = some t.buffer.view[t.cursor.row] :=
      List.getElem?_eq_getElem hrow
    have hlen := p.clen _ _ hl
    have hcol : t.cursor.col - 1 < t.buffer.view[t.cursor.row].cells.length := by
      have := p.col; omega
    have hc : t.buffer.view[t.cursor.row].cells[t.cursor.col - 1]?
        = some t.buffer.view[t.cursor.row].cells[t.cursor.col - 1] := List.getElem?_eq_getElem hcol
    simp only [if_pos hpos, if_neg h0, hl, hc, charLeftOfCursor, asUsize_one]
    exact printN_eq _ _ t h

/-- the same statement with the iteration in the model's own terms: `REP n` is `max n 1`
    executions of `Print c`, `c` the character left of the cursor -/
theorem C04_rep_as_prints (t : Terminal) (n : Nat) (h : TInv t = true) (hc : t.cursor.col ≠ 0) :
    t.execute (.rep n) = t.printN (charLeftOfCursor t) (max n 1) := by
  rw [C04_rep t n h, printN_eq _ _ t h]
  simp only [repSpec, if_neg hc]

/-! ### Corollaries in the words of the property -/

/-- **"no mode changes"**: every field other than buffer, cursor position, pending-wrap flag and
    dirty lines is untouched by a print -/
theorem C04_print_modes (t : Terminal) (ch : Nat) :
    let t' := printSpec t ch
    t'.cols = t.cols ∧ t'.rows = t.rows ∧ t'.otherBuffer = t.otherBuffer
      ∧ t'.activeBufferType = t.activeBufferType ∧ t'.scrollbackLimit = t.scrollbackLimit
      ∧ t'.pen = t.pen ∧ t'.charsets = t.charsets ∧ t'.activeCharset = t.activeCharset
      ∧ t'.tabs = t.tabs ∧ t'.insertMode = t.insertMode ∧ t'.originMode = t.originMode
      ∧ t'.autoWrapMode = t.autoWrapMode ∧ t'.newLineMode = t.newLineMode
      ∧ t'.cursorKeysMode = t.cursorKeysMode ∧ t'.topMargin = t.topMargin
      ∧ t'.bottomMargin = t.bottomMargin ∧ t'.savedCtx = t.savedCtx
      ∧ t'.alternateSavedCtx = t.alternateSavedCtx ∧ t'.xtwinops = t.xtwinops
      ∧ t'.cursor.visible = t.cursor.visible ∧ t'.buffer.cols = t.buffer.cols
      ∧ t'.buffer.rows = t.buffer.rows ∧ t'.buffer.limit = t.buffer.limit := by
  intro t'
  simp only [t', printSpec, putStep, wrapStep]
  repeat' split
  all_goals simp [bufOnRow, scrollRegionUp1]

/-- the column a print writes to: column 0 after a deferred wrap, else the cursor column, the last
    column when the cursor is in the wrap-pending position -/
def printedCol (t : Terminal) : Nat :=
  if t.autoWrapMode && t.pendingWrap then 0 else min t.cursor.col (t.cols - 1)

/-- **the printed cell carries the glyph and the current pen**, and it is in the row the cursor
    ends up in, at `printedCol` -/
theorem C04_cell_pen (t : Terminal) (ch : Nat) (h : TInv t = true) :
    ∃ l, (printSpec t ch).buffer.view[(printSpec t ch).cursor.row]? = some l
      ∧ l.cells[printedCol t]? = some ⟨glyph t ch, t.pen⟩ := by
  unfold printSpec printedCol
  split
  · obtain ⟨l, h1, h2⟩ := putStep_cell (wrapStep t) (wrapStep_TInv t h) (glyph t ch)
    rw [(wrapStep_col t).1, Nat.zero_min, wrapStep_pen] at h2
    exact ⟨l, h1, h2⟩
  · exact putStep_cell t h (glyph t ch)

/-- **with auto-wrap off the cursor never leaves the last column**: a print in the last column
    (or in the wrap-pending position left behind by an earlier auto-wrap mode) moves nothing … -/
theorem C04_nowrap_stays (t : Terminal) (ch : Nat) (ha : t.autoWrapMode = false)
    (hc : t.cursor.col + 1 ≥ t.cols) :
    (printSpec t ch).cursor = t.cursor ∧ (printSpec t ch).pendingWrap = t.pendingWrap := by
  rw [printSpec_nowrap t ch (nowrap_of_off t ha)]
  simp only [putStep, if_pos hc, ha]
  exact ⟨rfl, rfl⟩

/-- … and a print left of the last column never reaches the wrap-pending position -/
theorem C04_nowrap_lt (t : Terminal) (ch : Nat) (ha : t.autoWrapMode = false)
    (hc : t.cursor.col < t.cols) : (printSpec t ch).cursor.col < t.cols := by
  rw [printSpec_nowrap t ch (nowrap_of_off t ha)]
  simp only [putStep, ha]
  split
  · exact hc
  · show t.cursor.col + 1 < t.cols
    omega

/-- **insert mode drops the last cell**: left of the last column and with no wrap pending, the
    cursor row becomes `take col r ++ [cell] ++ (drop col r).dropLast` (same length, wrap mark kept) -/
theorem C04_insert_row (t : Terminal) (ch : Nat) (h : TInv t = true) (hi : t.insertMode = true)
    (hw : (t.autoWrapMode && t.pendingWrap) = false) (hc : t.cursor.col + 1 < t.cols) :
    ∃ l, t.buffer.view[t.cursor.row]? = some l
      ∧ (printSpec t ch).buffer.view[t.cursor.row]?
          = some { l with cells := l.cells.take t.cursor.col ++ [⟨glyph t ch, t.pen⟩]
                                     ++ (l.cells.drop t.cursor.col).dropLast }
      ∧ (printSpec t ch).cursor.col = t.cursor.col + 1 := by
  have p := Pre_of_TInv t h
  have hrow : t.cursor.row < t.buffer.view.length := by rw [p.vlen]; exact p.row_lt
  have hl : t.buffer.view[t.cursor.row]? = some t.buffer.view[t.cursor.row] := List.getElem?_eq_getElem hrow
  have hn : ¬ (t.cursor.col + 1 ≥ t.cols) := by omega
  refine ⟨_, hl, ?_, ?_⟩
  · rw [printSpec_nowrap t ch hw]
    simp only [putStep, if_neg hn, hi, if_true, bufOnRow]
    exact onRow_get_self _ _ _ _ hl
  · rw [printSpec_nowrap t ch hw]
    simp only [putStep, if_neg hn]

/-- **nothing else changes** (no wrap pending): the scrollback, every other row, and every
    wrap mark are as before -/
theorem C04_print_frame (t : Terminal) (ch : Nat) (hw : (t.autoWrapMode && t.pendingWrap) = false) :
    (printSpec t ch).buffer.sb = t.buffer.sb
      ∧ (∀ i : Nat, i ≠ t.cursor.row → (printSpec t ch).buffer.view[i]? = t.buffer.view[i]?)
      ∧ (∀ i : Nat, ((printSpec t ch).buffer.view[i]?).map Line.wrapped = (t.buffer.view[i]?).map Line.wrapped) := by
  rw [printSpec_nowrap t ch hw]
  simp only [putStep]
  split
  · split
    all_goals
      refine ⟨rfl, ?_, ?_⟩
      · intro i hi
        simp only [bufOnRow, getElem?_onRow, if_neg hi]
      · intro i
        simp only [bufOnRow, getElem?_onRow]
        split
        · cases t.buffer.view[i]? <;> rfl
        · rfl
  · refine ⟨rfl, ?_, ?_⟩
    · intro i hi
      simp only [bufOnRow, getElem?_onRow, if_neg hi]
    · intro i
      simp only [bufOnRow, getElem?_onRow]
      split
      · cases t.buffer.view[i]? with
        | none => rfl
        | some l => simp only [Option.map_some]; split <;> rfl
      · rfl

/-- **the wrap marks the row it leaves** (not on the bottom margin, not on the last row): the row
    keeps its cells, gets the soft-wrap mark, and the character goes to column 0 of the next row -/
theorem C04_wrap_marks_row (t : Terminal) (ch : Nat) (h : TInv t = true)
    (hw : (t.autoWrapMode && t.pendingWrap) = true) (hr : t.cursor.row ≠ t.bottomMargin)
    (h2 : t.cursor.row + 1 < t.rows) :
    ∃ l, t.buffer.view[t.cursor.row]? = some l
      ∧ (printSpec t ch).buffer.view[t.cursor.row]? = some { l with wrapped := true }
      ∧ (printSpec t ch).cursor.row = t.cursor.row + 1 := by
  have p := Pre_of_TInv t h
  have hrow : t.cursor.row < t.buffer.view.length := by rw [p.vlen]; exact p.row_lt
  obtain ⟨l, hl⟩ : ∃ l, t.buffer.view[t.cursor.row]? = some l := ⟨_, List.getElem?_eq_getElem hrow⟩
  have hws : wrapStep t = { t with
      cursor := { t.cursor with col := 0, row := t.cursor.row + 1 }, pendingWrap := false,
      buffer := bufOnRow t.buffer t.cursor.row markWrapped } := by
    simp only [wrapStep, if_neg hr, if_pos h2]
  obtain ⟨_, f2, f3⟩ := putStep_frame (wrapStep t) (glyph t ch)
  refine ⟨_, hl, ?_, ?_⟩
  · rw [printSpec_wrap t ch hw, f3 t.cursor.row (by rw [hws]; show t.cursor.row ≠ t.cursor.row + 1; omega), hws]
    exact onRow_get_self _ _ _ _ hl
  · rw [printSpec_wrap t ch hw, f2, hws]

/-- **wrapping on the bottom margin**: the cursor stays on the bottom margin row, and the row it
    left — marked soft-wrapped — now sits one row higher, or, when the region is a single row
    (1-row screen), at the end of the scrollback -/
theorem C04_wrap_on_margin (t : Terminal) (ch : Nat) (h : TInv t = true)
    (hw : (t.autoWrapMode && t.pendingWrap) = true) (hr : t.cursor.row = t.bottomMargin) :
    ∃ l, t.buffer.view[t.cursor.row]? = some l
      ∧ (printSpec t ch).cursor.row = t.bottomMargin
      ∧ (if t.topMargin < t.bottomMargin
          then (printSpec t ch).buffer.view[t.bottomMargin - 1]? = some { l with wrapped := true }
          else (printSpec t ch).buffer.sb = t.buffer.sb ++ [{ l with wrapped := true }]) := by
  have p := Pre_of_TInv t h
  have hrow : t.cursor.row < t.buffer.view.length := by rw [p.vlen]; exact p.row_lt
  obtain ⟨l, hl⟩ : ∃ l, t.buffer.view[t.cursor.row]? = some l := ⟨_, List.getElem?_eq_getElem hrow⟩
  have hws : wrapStep t = { t with
      cursor := { t.cursor with col := 0 }, pendingWrap := false,
      buffer := scrollRegionUp1 (bufOnRow t.buffer t.cursor.row markWrapped) t.topMargin t.bottomMargin t.pen,
      dirtyLines := dirtyRange t.dirtyLines t.topMargin t.bottomMargin } := by
    simp only [wrapStep, if_pos hr]
  obtain ⟨f1, f2, f3⟩ := putStep_frame (wrapStep t) (glyph t ch)
  have hm := p.m3
  have hvl := p.vlen
  refine ⟨_, hl, ?_, ?_⟩
  · rw [printSpec_wrap t ch hw, f2, hws]; exact hr
  · split
    · rename_i hlt
      rw [printSpec_wrap t ch hw, f3 _ (by rw [hws]; show t.bottomMargin - 1 ≠ t.cursor.row; omega), hws]
      simp only [scrollRegionUp1, bufOnRow]
      rw [hr] at hl ⊢
      list_ix
      grind [markWrapped]
    · rename_i hlt
      have ht : t.topMargin = 0 := by omega
      have hb : t.bottomMargin = 0 := by omega
      rw [printSpec_wrap t ch hw, f1, hws]
      simp only [scrollRegionUp1, bufOnRow, ht, if_true]
      rw [hr, hb] at hl ⊢
      congr 1
      apply List.ext_getElem?
      intro i
      list_ix
      grind [markWrapped]

/-! ### The hypotheses are satisfiable: a concrete, non-trivial state -/

def exPen : Pen := { fg := some (.indexed 1), intensity := .bold }

/-- a 3×2 terminal with a scrollback limit: "xyz" on row 0 (soft-wrapped), "abc" on row 1 = bottom
    margin, cursor parked in the wrap-pending position, insert mode on, G1 = drawing set shifted
    in, bold red pen -/
def exT : Terminal :=
  { cols := 3, rows := 2,
    buffer := { sb := [], view := [⟨[⟨0x78, {}⟩, ⟨0x79, {}⟩, ⟨0x7A, {}⟩], true⟩,
                                   ⟨[⟨0x61, {}⟩, ⟨0x62, exPen⟩, ⟨0x63, exPen⟩], false⟩],
                cols := 3, rows := 2, limit := some (Buffer.mkLimit 100), trimNeeded := false },
    otherBuffer := Buffer.new 3 2 (some 0) none,
    activeBufferType := .primary, scrollbackLimit := some 100,
    cursor := { col := 3, row := 1 }, pen := exPen,
    charsets := (.ascii, .drawing), activeCharset := 1, tabs := [],
    insertMode := true, originMode := false, autoWrapMode := true, newLineMode := false,
    cursorKeysMode := .normal, pendingWrap := true, topMargin := 0, bottomMargin := 1,
    savedCtx := {}, alternateSavedCtx := {}, dirtyLines := [false, false], xtwinops := false }

example : TInv exT = true := by decide

/-- on `exT`, `Print 'q'` wraps on the bottom margin: "xyz" scrolls into the scrollback, "abc" moves
    up with the soft-wrap mark, '─' (the drawing glyph of 'q') lands at column 0 of the fresh row in
    the current pen, the cursor advances to column 1 -/
example :
    exT.execute (.print 0x71) = some (printSpec exT 0x71)
      ∧ (printSpec exT 0x71).buffer.sb = [⟨[⟨0x78, {}⟩, ⟨0x79, {}⟩, ⟨0x7A, {}⟩], true⟩]
      ∧ (printSpec exT 0x71).buffer.view
          = [⟨[⟨0x61, {}⟩, ⟨0x62, exPen⟩, ⟨0x63, exPen⟩], true⟩,
             ⟨[⟨0x2500, exPen⟩, ⟨0x20, exPen⟩, ⟨0x20, exPen⟩], false⟩]
      ∧ (printSpec exT 0x71).cursor = { col := 1, row := 1 }
      ∧ (printSpec exT 0x71).pendingWrap = false :=
  ⟨C04_print exT 0x71 (by decide), by decide, by decide, by decide, by decide⟩

/-- and `REP 2` on `exT` types 'c' (the last column's character) twice — through the drawing set,
    so it shows as '␌' —, the second one inserted (insert mode) behind the first -/
example :
    exT.execute (.rep 2) = some (repSpec exT 2)
      ∧ (repSpec exT 2).buffer.view
          = [⟨[⟨0x61, {}⟩, ⟨0x62, exPen⟩, ⟨0x63, exPen⟩], true⟩,
             ⟨[⟨0x240C, exPen⟩, ⟨0x240C, exPen⟩, ⟨0x20, exPen⟩], false⟩]
      ∧ (repSpec exT 2).cursor.col = 2 :=
  ⟨C04_rep exT 2 (by decide), by decide, by decide⟩

/-! ### the modes that steer printing are state: only their setters, the restores and the resets change them -/

/-- **Function level.**  A function for which `setsPrintModes` is false — anything but SM / RM 4,
    DECSET / DECRST ?7, DECRC / SCORC / DECRST ?1048 / ?1049 (auto-wrap is part of the saved context),
    the G0 / G1 designations, SO / SI, DECSTR and RIS — leaves auto-wrap mode, insert mode, both
    designations and the shift state exactly as they were: every terminal state, every geometry, no
    invariant needed.  In particular cursor placement, DECSTBM, scrolling, erasing, printing, every
    other mode, entering the alternate screen (?47h / ?1047h / ?1049h), leaving it with ?47l / ?1047l,
    and XTWINOPS. -/
theorem C04_print_modes_persist {t t' : Terminal} {f : Function} (hf : setsPrintModes f = false)
    (h : t.execute f = some t') :
    t'.autoWrapMode = t.autoWrapMode ∧ t'.insertMode = t.insertMode ∧ t'.charsets = t.charsets
      ∧ t'.activeCharset = t.activeCharset :=
  Avt.C04M.frame hf h

/-- **Call level.**  If none of the functions the parser emits for the input (from the parser state
    the call starts in) sets one of the four, then the fold of `execute` over them, `Vt.feedAll`,
    `Vt::feed_str` (which ends with `changes()` + `gc()`) and per-character `Vt::feed` all leave the four
    as they were — which is the oracle's clause `print-modes-persist` (`Spec.C04.checkStep`) in the
    oracle's own vocabulary, `samePrintModes` (= the four equalities: `Avt.C04M.samePrintModes_iff`). -/
theorem C04_print_modes_persist_feed {v : Vt} {xs : List Nat}
    (hf : ∀ f ∈ Frame.emitted v.parser xs, setsPrintModes f = false) :
    (∀ t', Terminal.foldM' Terminal.execute (Frame.emitted v.parser xs) v.terminal = some t' →
        samePrintModes v.terminal t' = true)
    ∧ (∀ v', v.feedAll xs = some v' → samePrintModes v.terminal v'.terminal = true)
    ∧ (∀ v' ch, v.feedStr xs = some (v', ch) → samePrintModes v.terminal v'.terminal = true)
    ∧ (∀ c v', xs = [c] → v.feed c = some v' → samePrintModes v.terminal v'.terminal = true) := by
  have key : ∀ {t t' : Terminal}, Avt.C04M.PSame t t' → samePrintModes t t' = true :=
    fun h => (Avt.C04M.samePrintModes_iff _ _).mpr h
  exact ⟨fun _ h => key (Avt.C04M.frame_many hf h),
         fun _ h => key (Avt.C04M.feedAll_pm xs hf h),
         fun _ _ h => key (Avt.C04M.feedStr_pm hf h),
         fun _ _ e h => key (Avt.C04M.feed_pm (by rw [← e]; exact hf) h)⟩

/-- **Resize.**  `Vt::resize` (and `Terminal.resize`, which XTWINOPS performs) moves tab stops, resets
    the margins on a height change and reflows; the four are as before — the oracle's clause
    `resize-keeps-print-modes`. -/
theorem C04_print_modes_persist_resize {v v' : Vt} {ch : Changes} {cols rows : Nat}
    (h : v.resize cols rows = some (v', ch)) : samePrintModes v.terminal v'.terminal = true :=
  (Avt.C04M.samePrintModes_iff _ _).mpr (Avt.C04M.vtResize_pm h)

/-! the hypotheses are satisfiable: a 6x3 terminal gets insert mode on (`CSI 4 h`), auto-wrap off
    (`CSI ?7 l`), G0 = drawing set (`ESC ( 0`) and G1 shifted in (SO) — every one of the four away from
    its power-on value; then it enters the alternate screen (`CSI ?1047 h`), scrolls (`CSI S`), places
    the cursor (`CSI 2;3 H`), erases the screen (`CSI 2 J`) and is resized (4x5): none of the emitted
    functions sets a print mode, and all four are exactly as they were -/

private def exSetup : List Nat :=
  [0x1b, 0x5b, 0x34, 0x68, 0x1b, 0x5b, 0x3f, 0x37, 0x6c, 0x1b, 0x28, 0x30, 0x0e]

private def exQuiet : List Nat :=
  [0x1b, 0x5b, 0x3f, 0x31, 0x30, 0x34, 0x37, 0x68, 0x1b, 0x5b, 0x53, 0x1b, 0x5b, 0x32, 0x3b, 0x33, 0x48,
   0x1b, 0x5b, 0x32, 0x4a]

private def exModes : Option (Vt × Vt × Vt) := do
  let v ← Vt.new 6 3 none
  let (v0, _) ← v.feedStr exSetup
  let (v1, _) ← v0.feedStr exQuiet
  let (v2, _) ← v1.resize 4 5
  pure (v0, v1, v2)

example : ∃ v0 v1 v2, exModes = some (v0, v1, v2)
    ∧ (v0.terminal.autoWrapMode, v0.terminal.insertMode, v0.terminal.charsets, v0.terminal.activeCharset)
        = (false, true, (.drawing, .ascii), 1)
    ∧ printModesNonDefault v0.terminal = true
    ∧ Frame.emitted v0.parser exQuiet = [.decset [.altScreenBuffer], .su 0, .cup 2 3, .ed .all]
    ∧ (Frame.emitted v0.parser exQuiet).all (fun f => !setsPrintModes f) = true
    ∧ v1.terminal.activeBufferType = .alternate ∧ v1.terminal.cursor = { col := 2, row := 1 }
    ∧ samePrintModes v0.terminal v1.terminal = true
    ∧ (v2.terminal.cols, v2.terminal.rows) = (4, 5)
    ∧ samePrintModes v0.terminal v2.terminal = true := by
  refine ⟨_, _, _, rfl, ?_⟩
  decide

end Avt.Props.C04
