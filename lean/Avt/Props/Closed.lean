/-
  Avt.Props.Closed — the property theorems that were proved under the explicit contracts `ResizeOK`
  (Avt/Spec/ResizeOK.lean) and `ParserOK` (Avt/Lemmas/InvVt.lean), or under "C02's theorem" (`hC02`
  in C10), restated with NO such hypothesis.  Both contracts are theorems now:

    Avt.resizeOK : ResizeOK     (Avt/Lemmas/ResizeOK.lean)
    Avt.parserOK : ParserOK     (Avt/Lemmas/ParserOK.lean; every `c : Nat`, not only Rust `char`s)

  Every theorem below is a direct application.  What remains as hypotheses is only what the property
  text itself states: `Inv v` / `TInv t` / `Reach v` of the start state, the API contract of `resize`
  (`1 ≤ cols`, `1 ≤ rows`, i.e. `PubOp.valid`), and "this call returned that value".

  Sections: C01, C02, C13, C10, the lifting lemmas of Lemmas/InvTerminal + Lemmas/InvVt, the headline
  statements over `Reach`, and a concrete reachable state.
-/
import Avt.Props.C01
import Avt.Props.C02
import Avt.Props.C10
import Avt.Props.C13
import Avt.Lemmas.ResizeOK
import Avt.Lemmas.ParserOK

namespace Avt.Props.Closed
open Avt Avt.Spec.C13

/-! ### C01 — no panic -/

/-- the four public mutators never panic in a state satisfying the invariant -/
theorem C01_total {v : Vt} (h : Inv v = true) (op : PubOp) (hv : op.valid) : (step v op).isSome = true :=
  C01.C01_total resizeOK parserOK h op hv

/-- `Vt::feed` (one character, any `c : Nat`) never panics -/
theorem C01_feed {v : Vt} (h : Inv v = true) (c : Nat) : (v.feed c).isSome = true :=
  C01.C01_feed resizeOK parserOK h c

/-- every control function is total under the terminal invariant -/
theorem C01_execute {t : Terminal} (h : TInv t = true) (f : Function) : (t.execute f).isSome = true :=
  C01.C01_execute resizeOK h f

/-- `TextCollector::{feed_str, resize}` never panic -/
theorem C01_collector (tc : TextCollector) (h : Inv tc.vt = true) :
    (∀ s, (tc.feedStr s).isSome = true) ∧ (∀ c r, 1 ≤ c → 1 ≤ r → (tc.resize c r).isSome = true) :=
  C01.C01_collector resizeOK parserOK tc h

/-- every reachable state: all public mutators and all queries return normally -/
theorem C01_reach {v : Vt} (h : Reach v) :
    (∀ op : PubOp, op.valid → (step v op).isSome = true) ∧ queriesOK v :=
  C01.C01_reach resizeOK parserOK h

/-! ### C02 — geometry invariants -/

/-- every control function succeeds under the terminal invariant and preserves it -/
theorem C02_execute {t : Terminal} (f : Function) (h : TInv t = true) :
    ∃ t', t.execute f = some t' ∧ TInv t' = true :=
  C02.C02_execute resizeOK f h

theorem C02_feed {v : Vt} (c : Nat) (h : Inv v = true) : ∃ v', v.feed c = some v' ∧ Inv v' = true :=
  C02.C02_feed resizeOK parserOK c h

theorem C02_feedAll {v : Vt} (s : List Nat) (h : Inv v = true) :
    ∃ v', v.feedAll s = some v' ∧ Inv v' = true :=
  C02.C02_feedAll resizeOK parserOK s h

theorem C02_feedStr {v : Vt} (s : List Nat) (h : Inv v = true) :
    ∃ v' ch, v.feedStr s = some (v', ch) ∧ Inv v' = true ∧ changesOK v'.terminal.rows ch.lines = true :=
  C02.C02_feedStr resizeOK parserOK s h

theorem C02_resize {v : Vt} {c r : Nat} (h : Inv v = true) (hc : 1 ≤ c) (hr : 1 ≤ r) :
    ∃ v' ch, v.resize c r = some (v', ch) ∧ Inv v' = true ∧ changesOK v'.terminal.rows ch.lines = true :=
  C02.C02_resize resizeOK h hc hr

theorem C02_step {v : Vt} (op : PubOp) (h : Inv v = true) (hv : op.valid) :
    ∃ v', step v op = some v' ∧ Inv v' = true :=
  C02.C02_step resizeOK parserOK op h hv

theorem C02_run {v : Vt} (ops : List PubOp) (h : Inv v = true) (hv : ∀ op ∈ ops, op.valid) :
    ∃ v', run v ops = some v' ∧ Inv v' = true :=
  C02.C02_run resizeOK parserOK ops h hv

/-- every reachable state satisfies the invariant -/
theorem C02_reach {v : Vt} (h : Reach v) : Inv v = true :=
  C02.C02_reach resizeOK parserOK h

/-! ### C13 — scrollback bound -/

theorem C13_feedStr {v v' : Vt} {ch : Changes} {s : List Nat} (h : Inv v = true)
    (hs : v.feedStr s = some (v', ch)) : boundOK v' = true :=
  C13.C13_feedStr resizeOK parserOK h hs

theorem C13_resize {v v' : Vt} {ch : Changes} {c r : Nat} (h : Inv v = true) (hc : 1 ≤ c) (hr : 1 ≤ r)
    (hs : v.resize c r = some (v', ch)) : boundOK v' = true :=
  C13.C13_resize resizeOK h hc hr hs

/-- after every finishing public call from every reachable state -/
theorem C13_reach {v v' : Vt} {op : PubOp} (h : Reach v) (hv : op.valid) (hf : op.finishes = true)
    (hs : step v op = some v') :
    boundOK v' = true
      ∧ (∀ L, v'.terminal.scrollbackLimit = some L →
          v'.lines.length ≤ v'.terminal.rows + L + L / 10 ∧ (L = 0 → v'.lines.length = v'.terminal.rows))
      ∧ (v'.terminal.activeBufferType = .alternate → v'.lines.length = v'.terminal.rows) :=
  C13.C13_reach resizeOK parserOK h hv hf hs

/-! ### C10 — chains of resizes -/

/-- `Vt.resize` preserves the global invariant, in the shape `C10.C10_chain` asks for -/
theorem resize_preserves_Inv (w w' : Vt) (c r : Nat) (ch : Changes) (hw : Inv w = true) (hc : 1 ≤ c)
    (hr : 1 ≤ r) (hres : w.resize c r = some (w', ch)) : Inv w' = true := by
  obtain ⟨w1, ch1, h1, h2, _⟩ := C02_resize hw hc hr
  rw [hres] at h1; cases h1
  exact h2

/-- **C10 along every chain of resizes**, no hypothesis left -/
theorem C10_chain : C10.C10_chain_full := C10.C10_chain resize_preserves_Inv

/-! ### the lifting lemmas of Lemmas/InvTerminal and Lemmas/InvVt, closed -/

theorem Terminal_reflow_ok {t : Terminal} (h : Terminal.PreReflow t) : Terminal.Pres t.reflow :=
  Terminal.reflow_ok resizeOK h

theorem Terminal_resize_ok {t : Terminal} {cols rows : Nat} (h : TOK t) (hc : 1 ≤ cols) (hr : 1 ≤ rows) :
    Terminal.Pres (t.resize cols rows) :=
  Terminal.resize_ok resizeOK h hc hr

theorem Terminal_decsetOne_ok {t : Terminal} (m : DecMode) (h : TOK t) : Terminal.Pres (t.decsetOne m) :=
  Terminal.decsetOne_ok resizeOK m h

theorem Terminal_decrstOne_ok {t : Terminal} (m : DecMode) (h : TOK t) : Terminal.Pres (t.decrstOne m) :=
  Terminal.decrstOne_ok resizeOK m h

theorem Terminal_execute_ok {t : Terminal} (f : Function) (h : TOK t) : Terminal.Pres (t.execute f) :=
  Terminal.execute_ok resizeOK f h

theorem Vt_feed_ok {v : Vt} (c : Nat) (h : Inv v = true) : ∃ v', v.feed c = some v' ∧ Inv v' = true :=
  Vt.feed_ok resizeOK parserOK c h

theorem Vt_feedAll_ok (s : List Nat) {v : Vt} (h : Inv v = true) :
    ∃ v', v.feedAll s = some v' ∧ Inv v' = true :=
  Vt.feedAll_ok resizeOK parserOK s h

/-- `feed_str`: returns, keeps the invariant, leaves the active buffer trimmed, reports well-formed
    changed-line indices -/
theorem Vt_feedStr_ok {v : Vt} (s : List Nat) (h : Inv v = true) :
    ∃ v' ch, v.feedStr s = some (v', ch) ∧ Inv v' = true
      ∧ v'.terminal.buffer.trimNeeded = false ∧ changesOK v'.terminal.rows ch.lines = true :=
  Vt.feedStr_ok resizeOK parserOK s h

/-- `resize`: the same, and `size()` is the size requested -/
theorem Vt_resize_ok {v : Vt} {c r : Nat} (h : Inv v = true) (hc : 1 ≤ c) (hr : 1 ≤ r) :
    ∃ v' ch, v.resize c r = some (v', ch) ∧ Inv v' = true
      ∧ v'.terminal.buffer.trimNeeded = false ∧ changesOK v'.terminal.rows ch.lines = true
      ∧ v'.size = (c, r) :=
  Vt.resize_ok resizeOK h hc hr

theorem step_ok {v : Vt} (op : PubOp) (h : Inv v = true) (hv : op.valid) :
    ∃ v', step v op = some v' ∧ Inv v' = true :=
  Avt.step_ok resizeOK parserOK op h hv

theorem step_trimmed {v v' : Vt} {op : PubOp} (h : Inv v = true) (hv : op.valid)
    (hf : op.finishes = true) (hs : step v op = some v') : v'.terminal.buffer.trimNeeded = false :=
  Avt.step_trimmed resizeOK parserOK h hv hf hs

theorem run_ok (ops : List PubOp) {v : Vt} (h : Inv v = true) (hv : ∀ op ∈ ops, op.valid) :
    ∃ v', run v ops = some v' ∧ Inv v' = true :=
  Avt.run_ok resizeOK parserOK ops h hv

theorem reach_inv {v : Vt} (h : Reach v) : Inv v = true :=
  Avt.reach_inv resizeOK parserOK h

/-! ### the headline statements, in the properties' own words -/

/-- `Reach` is closed under valid public calls (and they all return) -/
theorem Reach_step {v : Vt} (h : Reach v) (op : PubOp) (hv : op.valid) :
    ∃ v', step v op = some v' ∧ Reach v' := by
  obtain ⟨v', h1, _⟩ := C02_step op (C02_reach h) hv
  refine ⟨v', h1, ?_⟩
  obtain ⟨cols, rows, lim, v0, ops, hc, hr, h0, hops, hrun⟩ := h
  refine ⟨cols, rows, lim, v0, ops ++ [op], hc, hr, h0, ?_, ?_⟩
  · intro o ho
    rcases List.mem_append.1 ho with ho | ho
    · exact hops o ho
    · rw [List.mem_singleton.1 ho]; exact hv
  · have happ : ∀ (l : List PubOp) (a b : Vt), run a l = some b → run a (l ++ [op]) = step b op := by
      intro l
      induction l with
      | nil =>
        intro a b hab
        simp only [run, Option.some.injEq] at hab
        subst hab
        simp only [List.nil_append, run]
        cases step a op <;> rfl
      | cons o os ih =>
        intro a b hab
        simp only [List.cons_append, run] at hab ⊢
        cases hso : step a o with
        | none => rw [hso] at hab; cases hab
        | some a' => rw [hso] at hab; exact ih a' b hab
    rw [happ ops v0 v hrun, h1]

/-- a fresh terminal of any size ≥ 1x1 and any scrollback limit exists and is reachable -/
theorem Reach_new {cols rows : Nat} (lim : Option Nat) (hc : 1 ≤ cols) (hr : 1 ≤ rows) :
    ∃ v, Vt.new cols rows lim = some v ∧ Reach v := by
  obtain ⟨v, h1, _⟩ := C02.C02_init lim hc hr
  exact ⟨v, h1, ⟨cols, rows, lim, v, [], hc, hr, h1, (fun _ h => by cases h), rfl⟩⟩

/-- **C01**: in every state reachable through the public API, every public call allowed by the API
    contract returns normally, and so does every query -/
theorem C01_no_panic_anywhere {v : Vt} (h : Reach v) :
    ∀ op : PubOp, op.valid → (step v op).isSome = true ∧ queriesOK v :=
  fun op hv => ⟨(C01_reach h).1 op hv, (C01_reach h).2⟩

/-- **C01**, whole sessions: from a fresh terminal every finite list of valid public calls returns -/
theorem C01_session {cols rows : Nat} (lim : Option Nat) (hc : 1 ≤ cols) (hr : 1 ≤ rows)
    (ops : List PubOp) (hv : ∀ op ∈ ops, op.valid) :
    ∃ v0 v, Vt.new cols rows lim = some v0 ∧ run v0 ops = some v ∧ queriesOK v := by
  obtain ⟨v0, h0, hi⟩ := C02.C02_init lim hc hr
  obtain ⟨v, h1, h2⟩ := C02_run ops hi hv
  exact ⟨v0, v, h0, h1, C01.C01_queries h2⟩

/-- **C02**: every reachable state has a well-formed geometry: `view()` has `rows` lines and is the
    tail of `lines()`, every line has `cols` cells, the last line is not soft-wrapped, the cursor is
    inside the screen (`col = cols` only while a wrap is pending) -/
theorem C02_reachable_geometry {v : Vt} (h : Reach v) : geomOK v = true :=
  (C02.C02_geom (C02_reach h)).1

theorem C02_reachable_view {v : Vt} (h : Reach v) :
    v.view = v.lines.drop (v.lines.length - v.terminal.rows) :=
  (C02.C02_geom (C02_reach h)).2

/-- **C02**: the `Changes.lines` returned by `feed_str` / `resize` from a reachable state are strictly
    increasing and below `rows`, and the state returned is reachable geometry again -/
theorem C02_reachable_changes {v : Vt} (h : Reach v) :
    (∀ s, ∃ v' ch, v.feedStr s = some (v', ch) ∧ geomOK v' = true
        ∧ changesOK v'.terminal.rows ch.lines = true)
    ∧ (∀ c r, 1 ≤ c → 1 ≤ r → ∃ v' ch, v.resize c r = some (v', ch) ∧ geomOK v' = true
        ∧ changesOK v'.terminal.rows ch.lines = true ∧ v'.size = (c, r)) := by
  have hi := C02_reach h
  refine ⟨fun s => ?_, fun c r hc hr => ?_⟩
  · obtain ⟨v', ch, h1, h2, h3⟩ := C02_feedStr s hi
    exact ⟨v', ch, h1, (C02.C02_geom h2).1, h3⟩
  · obtain ⟨v', ch, h1, h2, h3⟩ := C02_resize hi hc hr
    exact ⟨v', ch, h1, (C02.C02_geom h2).1, h3, C02.C02_size h1⟩

/-- **C13**: after every `feed_str` / `resize` from a reachable state, `lines()` has at most
    `rows + L + ⌊L/10⌋` entries for a limit `L`, exactly `rows` for `L = 0` and on the alternate screen -/
theorem C13_reachable_bound {v v' : Vt} {op : PubOp} (h : Reach v) (hv : op.valid)
    (hf : op.finishes = true) (hs : step v op = some v') :
    (∀ L, v'.terminal.scrollbackLimit = some L →
        v'.lines.length ≤ v'.terminal.rows + L + L / 10 ∧ (L = 0 → v'.lines.length = v'.terminal.rows))
      ∧ (v'.terminal.activeBufferType = .alternate → v'.lines.length = v'.terminal.rows) :=
  (C13_reach h hv hf hs).2

/-- the same as the decidable predicate of the oracle -/
theorem C13_reachable_boundOK {v v' : Vt} {op : PubOp} (h : Reach v) (hv : op.valid)
    (hf : op.finishes = true) (hs : step v op = some v') : boundOK v' = true :=
  (C13_reach h hv hf hs).1

/-- **C10** from reachable states: a resize of the primary screen with unlimited scrollback satisfies
    the reflow relation (logical lines kept, cursor's logical position kept) -/
theorem C10_reachable_resize {v v' : Vt} {c r : Nat} {ch : Changes} (h : Reach v) (hc : 1 ≤ c)
    (hr : 1 ≤ r) (hp : v.terminal.activeBufferType = .primary) (hl : v.terminal.scrollbackLimit = none)
    (hs : v.resize c r = some (v', ch)) :
    Avt.Spec.C10.resizeRel (Avt.Spec.C10.logicalLines v.terminal.buffer.lines)
      (Avt.Spec.C10.logicalLines v'.terminal.buffer.lines)
      (C10.cursorOf v.terminal).1 (C10.cursorOf v.terminal).2
      (C10.cursorOf v'.terminal).1 (C10.cursorOf v'.terminal).2 v.terminal.pendingWrap = true :=
  C10.C10_resize v v' c r ch (C02_reach h) hc hr hp hl hs

/-- **C10, the wrap-pending cursor**, from reachable states: a wrap-pending cursor whose logical
    offset names a character of the text keeps that offset; a width change puts it on that character,
    a height-only change keeps the character unless the line was cut at the cursor -/
theorem C10_reachable_pending_place {v v' : Vt} {c r : Nat} {ch : Changes} (h : Reach v) (hc : 1 ≤ c)
    (hr : 1 ≤ r) (hp : v.terminal.activeBufferType = .primary) (hl : v.terminal.scrollbackLimit = none)
    (hs : v.resize c r = some (v', ch)) :
    Avt.Spec.C10.pendingPlaceRel (Avt.Spec.C10.logicalLines v.terminal.buffer.lines)
      (Avt.Spec.C10.logicalLines v'.terminal.buffer.lines)
      (C10.cursorOf v.terminal).1 (C10.cursorOf v.terminal).2 (C10.cursorOf v'.terminal).2
      v.terminal.pendingWrap (v'.terminal.buffer.cols != v.terminal.buffer.cols) = true :=
  C10.C10_pending_place v v' c r ch (C02_reach h) hc hr hp hl hs

/-! ### `Reach` is inhabited by a non-trivial state

  a 3x2 terminal with scrollback limit 10: `feed_str("abcd")` (wraps onto the second row), then
  `resize(2, 3)` (reflows "abcd" into "ab" / "cd").                                                   -/

def demoOps : List PubOp := [.feedStr [0x61, 0x62, 0x63, 0x64], .resize 2 3]

def demo : Option Vt := (Vt.new 3 2 (some 10)).bind fun v0 => run v0 demoOps

theorem demo_facts :
    (match demo with
     | some v => v.size == (2, 3) && v.text == [[0x61, 0x62, 0x63, 0x64], []] && Inv v && geomOK v
         && boundOK v && v.terminal.cursor.row == 1
     | none => false) = true := by decide +kernel

example : ∃ v, demo = some v ∧ Reach v ∧ v.size = (2, 3) ∧ geomOK v = true ∧ boundOK v = true := by
  have hf := demo_facts
  cases hd : demo with
  | none => rw [hd] at hf; cases hf
  | some v =>
    rw [hd] at hf
    simp only [Bool.and_eq_true, beq_iff_eq] at hf
    obtain ⟨⟨⟨⟨⟨h1, _⟩, _⟩, h4⟩, h5⟩, _⟩ := hf
    refine ⟨v, rfl, ?_, h1, h4, h5⟩
    unfold demo at hd
    cases h0 : Vt.new 3 2 (some 10) with
    | none => rw [h0] at hd; cases hd
    | some v0 =>
      rw [h0] at hd
      exact ⟨3, 2, some 10, v0, demoOps, by decide, by decide, h0, by decide, hd⟩

end Avt.Props.Closed
