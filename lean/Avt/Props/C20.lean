/- Property theorems for C20 (placeholder until the proofs land). -/
import Avt.Spec.C20
