/-
  Avt.Props.C20 — property C20: control strings and unimplemented sequences are inert.

  Parser half: for the text shapes of `Avt.Spec.C20` (complete OSC / DCS / SOS / PM / APC strings,
  CSI and ESC sequences that select nothing in the reference dispatch tables, unassigned controls)
  `Parser.feed` — the interpreter of the tables regenerated from /repo/src/parser.rs — emits no
  function and is back in Ground.  Terminal half: `Vt.feed` touches the terminal only through
  emitted functions, so the terminal is unchanged and no changed line is reported.
-/
import Avt.Lemmas.ParserSeq
import Avt.Props.C03

namespace Avt.Props.C20
open Avt Avt.Spec Avt.Spec.C03 Avt.Spec.C20 Avt.ParserTable Avt.ParserSem Avt.ParserSeq Avt.Props.C03

/-! ### parser half -/

/-- what "inert" means for the parser: nothing emitted, back in Ground (invariant kept) -/
def InertFor (p : Parser) (s : List Nat) : Prop :=
  ∃ q, run p s = some (q, []) ∧ q.state = .Ground ∧ PInv q = true

theorem inertFor_of_pre {p : Parser} (hp : PInv p = true) (hg : p.state = .Ground) {s : List Nat}
    (h : InertPre s) : InertFor p s := by
  obtain ⟨q, h1, h2, h3⟩ := run_refRun hp s h.1
  have := h.2 (abs p) hg
  rw [this.1] at h1
  refine ⟨q, h1, ?_, h3⟩
  exact (congrArg AState.state h2).trans this.2

/-- **Control strings**: all five kinds, 7- and 8-bit introducers, every payload over printable
    ASCII / DEL / code points ≥ U+00A0 / C0 other than CAN SUB ESC (and BEL for OSC), terminated by ST
    in 7- or 8-bit form or BEL for OSC — from every register file in Ground. -/
theorem C20_strings {p : Parser} (hp : PInv p = true) (hg : p.state = .Ground) (k : StrKind)
    (intro payload term : List Nat) (hi : intro ∈ k.intros) (hpay : payloadOK k payload = true)
    (ht : term ∈ k.terms) : InertFor p (intro ++ payload ++ term) :=
  inertFor_of_pre hp hg (inert_str k intro payload term hi hpay ht)

/-- **Unimplemented CSI sequences**: when (last intermediate or private marker, final, parameters as
    written) select nothing in the reference table, the whole sequence emits nothing and ends in
    Ground — from every state and every register file. -/
theorem C20_unimplemented_csi {p : Parser} (hp : PInv p = true) (intro : List Nat)
    (hi : intro = [0x1B, 0x5B] ∨ intro = [0x9B]) (t : CsiText) (ht : t.wf = true)
    (hf : refDispatchCsi t.eff t.final (parseParams t.params) = none) : InertFor p (intro ++ t.body) := by
  obtain ⟨q, h1, h2, h3⟩ := C03_csi_sequence hp intro hi t ht
  rw [hf] at h1
  exact ⟨q, h1, h2, h3⟩

/-- which CSI sequences select nothing: the private markers `<` `=` `>` with any final and any
    parameters … -/
theorem C20_markers_select_nothing (m final : Nat) (ps : List (List Nat)) (hm : m = 0x3C ∨ m = 0x3D ∨ m = 0x3E) :
    refDispatchCsi (some m) final ps = none := by
  unfold refDispatchCsi
  split
  all_goals first
    | rfl
    | (exfalso; simp only [Option.some.injEq] at *; done)
    | (exfalso; simp only [Option.some.injEq] at *; omega)
    | (exfalso; simp_all)

/-- … every intermediate except the DECSTR spelling `! p` … -/
theorem C20_intermediates_select_nothing (i final : Nat) (ps : List (List Nat)) (h1 : 0x20 ≤ i) (h2 : i ≤ 0x2F)
    (hd : ¬ (i = 0x21 ∧ final = 0x70)) : refDispatchCsi (some i) final ps = none := by
  unfold refDispatchCsi
  split
  all_goals first
    | rfl
    | (exfalso; simp only [Option.some.injEq] at *; done)
    | (exfalso; simp only [Option.some.injEq] at *; omega)
    | (exfalso; simp_all)

/-- … and, without marker or intermediate, every final outside the implemented list -/
def implementedCsiFinals : List Nat :=
  [0x40, 0x41, 0x42, 0x43, 0x44, 0x45, 0x46, 0x47, 0x48, 0x49, 0x4A, 0x4B, 0x4C, 0x4D, 0x50, 0x53, 0x54, 0x57,
   0x58, 0x5A, 0x60, 0x61, 0x62, 0x64, 0x65, 0x66, 0x67, 0x68, 0x6C, 0x6D, 0x72, 0x73, 0x74, 0x75]

theorem C20_finals_select_nothing (final : Nat) (ps : List (List Nat)) (hf : final ∉ implementedCsiFinals) :
    refDispatchCsi none final ps = none := by
  unfold refDispatchCsi
  split
  all_goals first
    | rfl
    | (exfalso; apply hf; decide)
    | (exfalso; simp_all)

/-- **Unimplemented ESC sequences** -/
theorem C20_unimplemented_esc {p : Parser} (hp : PInv p = true) (t : EscText) (ht : t.wf = true)
    (hf : refDispatchEsc t.ints.getLast? t.final = none) : InertFor p (0x1B :: t.body) := by
  obtain ⟨q, h1, h2, h3⟩ := C03_esc_sequence hp t ht
  rw [hf] at h1
  exact ⟨q, h1, h2, h3⟩

/-- **Unassigned C0 / C1 controls** in Ground: the parser does not change at all -/
theorem C20_unassigned_controls {p : Parser} (hg : p.state = .Ground) (c : Nat) (hc : unassignedControl c = true) :
    p.feed c = some (p, none) := by
  have hm : c ∈ List.range' 0 0x20 ++ List.range' 0x80 0x20 := by
    simp only [unassignedControl, Bool.and_eq_true, Bool.or_eq_true, inR_iff] at hc
    rw [List.mem_append, List.mem_range'_1, List.mem_range'_1]
    omega
  rw [feed_eq_sem, hg]
  rcases control_w c hm hc with h | ⟨h, he⟩
  · rw [h]; simp only [sem]; rw [← hg]
  · rw [h]; simp only [sem]; rw [execute_eq, he, ← hg]

/-- **The oracle's classifier is covered**: every input `Spec.C20.isInertInput` accepts (any
    concatenation of the shapes above, recognised from the text alone) is inert for the parser. -/
theorem C20_inert_input {p : Parser} (hp : PInv p = true) (hg : p.state = .Ground) {s : List Nat}
    (h : isInertInput s = true) : InertFor p s :=
  inertFor_of_pre hp hg (isInertInput_spec h)

/-! ### terminal half -/

/-- no function emitted ⇒ `Vt::feed` leaves the terminal untouched -/
theorem C20_inert_terminal {v : Vt} {c : Nat} {p' : Parser} (h : v.parser.feed c = some (p', none)) :
    v.feed c = some { v with parser := p' } := by
  unfold Vt.feed
  rw [h]

/-- a string on which the parser emits nothing leaves the terminal untouched -/
theorem C20_inert_feedAll {v : Vt} {s : List Nat} {q : Parser} (h : run v.parser s = some (q, [])) :
    v.feedAll s = some { v with parser := q } := by
  induction s generalizing v with
  | nil =>
    simp only [run, Option.some.injEq, Prod.mk.injEq, and_true] at h
    subst h
    rfl
  | cons c cs ih =>
    simp only [run] at h
    cases hf : v.parser.feed c with
    | none => rw [hf] at h; cases h
    | some r =>
      obtain ⟨p', f⟩ := r
      rw [hf] at h
      simp only at h
      cases hr : run p' cs with
      | none => rw [hr] at h; cases h
      | some r2 =>
        obtain ⟨q', fs⟩ := r2
        rw [hr] at h
        simp only [Option.some.injEq, Prod.mk.injEq, List.append_eq_nil_iff] at h
        obtain ⟨rfl, hfn, rfl⟩ := h
        have hfn' : f = none := by cases f <;> simp_all
        subst hfn'
        simp only [Vt.feedAll, C20_inert_terminal hf]
        exact ih (v := { v with parser := p' }) hr

theorem toVecGo_clean (d : List Bool) (i : Nat) (h : d.all (· == false) = true) : Dirty.toVecGo d i = [] := by
  induction d generalizing i with
  | nil => rfl
  | cons b bs ih =>
    simp only [List.all_cons, Bool.and_eq_true, beq_iff_eq] at h
    simp only [Dirty.toVecGo, h.1]
    exact ih _ h.2

/-- **`feed_str` of an inert input**: the call succeeds; the terminal afterwards is the terminal
    before, run through the `changes()`/`gc()` every `feed_str` ends with; the changed lines reported
    are exactly those already pending — none if the previous call cleared the flags; the parser is in
    Ground. -/
theorem C20_inert_feedStr {v : Vt} (hp : PInv v.parser = true) (hg : v.parser.state = .Ground) {s : List Nat}
    (h : isInertInput s = true) :
    ∃ v' ch, v.feedStr s = some (v', ch) ∧ v'.terminal = finishT v.terminal ∧ v'.parser.state = .Ground
      ∧ ch.lines = reportedOf v.terminal
      ∧ (v.terminal.dirtyLines.all (· == false) = true → ch.lines = []) := by
  obtain ⟨q, h1, h2, -⟩ := C20_inert_input hp hg h
  have hf := C20_inert_feedAll h1
  refine ⟨_, _, by unfold Vt.feedStr; rw [hf]; rfl, rfl, h2, rfl, ?_⟩
  intro hc
  exact toVecGo_clean _ 0 hc

/-- the same for per-character feeding (`Vt::feed`, which does not run `changes()`/`gc()`) -/
theorem C20_inert_feedChars {v : Vt} (hp : PInv v.parser = true) (hg : v.parser.state = .Ground) {s : List Nat}
    (h : isInertInput s = true) :
    ∃ v', v.feedAll s = some v' ∧ v'.terminal = v.terminal ∧ v'.parser.state = .Ground := by
  obtain ⟨q, h1, h2, -⟩ := C20_inert_input hp hg h
  exact ⟨_, C20_inert_feedAll h1, rfl, h2⟩

/-! ### the hypotheses are satisfiable; concrete instances -/

/-- `ESC ] 0 ; t i t l e BEL` `CSI ? 5 n`… : OSC title (BEL), DCS with ST, `CSI > c`, `ESC =`, NUL -/
example : isInertInput
    ([0x1B, 0x5D, 0x30, 0x3B, 0x74, 0xE9, 0x0A, 0x7F, 0x07] ++ [0x90, 0x31, 0x24, 0x72, 0x6D, 0x1B, 0x5C]
      ++ [0x1B, 0x5B, 0x3E, 0x63] ++ [0x9B, 0x35, 0x20, 0x71] ++ [0x1B, 0x3D] ++ [0x00] ++ [0x9F, 0x41, 0x9C]) = true := by
  decide

example : payloadOK .osc [0x38, 0x3B, 0x3B, 0x68, 0x74, 0x74, 0x70, 0x4E2D, 0x09] = true := by decide

/-- `CSI ? 25 h` (DECSET) and `CSI ! p` (DECSTR) are *not* inert -/
example : isInertInput [0x9B, 0x3F, 0x32, 0x35, 0x68] = false := by decide
example : isInertInput [0x9B, 0x21, 0x70] = false := by decide
/-- an unterminated string is not classified -/
example : isInertInput [0x1B, 0x5D, 0x30] = false := by decide

/-- from a parser in Ground with stale registers, on a concrete terminal -/
example : ∃ v : Vt, PInv v.parser = true ∧ v.parser.state = .Ground := ⟨⟨Parser.new, default⟩, by decide, rfl⟩

end Avt.Props.C20
