/-
  Avt.Props.C08 — SGR attributes and colours reach the printed cells unchanged.

  Specification: `Avt.Spec.C08` (`sgrRefOps`, `paramsOf`, `parseSgrText`, `Pen.obs`, `obsStep`,
  `obsRef`, `penRef`, `noForeignCells`, …).  Helpers: Avt/Lemmas/C08Pen.lean, C08Decode.lean,
  C08Cells.lean, C08Text.lean, C08PenFrame.lean.  All statements are unbounded.
-/
import Avt.Lemmas.C08Pen
import Avt.Lemmas.C08Decode
import Avt.Lemmas.C08Cells
import Avt.Lemmas.C08Text
import Avt.Lemmas.C08PenFrame

namespace Avt.Props.C08
open Avt Avt.Spec.C08

/-- **Decoder = reference.**  On every well-formed register file (any number of registers, any
    sub-parameter counts, any 16-bit values) the register machine `SgrOps::next` never panics and
    yields exactly the operations the reference decoder reads off the written parameters. -/
theorem C08_decode {ps : List Param} (h : ∀ q ∈ ps, Param.ok q = true) :
    Parser.sgrOps ps = some (sgrRefOps (paramsOf ps)) := sgrOps_eq_ref ps h

/-- the same, at the point where the parser dispatches `CSI … m`: the registers in use are decoded -/
theorem C08_decode_dispatch {p : Parser} (h : PInv p = true) :
    ∃ ps, p.activeParams = some ps ∧ Parser.sgrOps ps = some (sgrRefOps (paramsOf ps)) := by
  simp only [PInv, Bool.and_eq_true, beq_iff_eq, decide_eq_true_eq, List.all_eq_true] at h
  obtain ⟨⟨⟨hl, hc⟩, hok⟩, _⟩ := h
  refine ⟨p.params.take (p.curParam + 1), ?_, ?_⟩
  · simp only [Parser.activeParams]; rw [if_pos (by omega)]
  · exact C08_decode (fun q hq => hok q (List.mem_of_mem_take hq))

/-- **Text = parser = reference.**  Feeding the text of one complete SGR sequence (7-bit `ESC [` or
    8-bit `0x9b` introducer; digits, ';', ':'; final `m`; any number of parameters and sub-parameters,
    with the register caps 32 / 6 / 16 bit applied as the code applies them) from the ground state
    makes the table-driven parser (`Gen.feedArms`, `Gen.csiArms` — regenerated from `parser.rs`)
    emit exactly one function, `.sgr ops`, with `ops` the reference decoding of the parameters as
    they are written in the text; the parser is in the ground state again. -/
theorem C08_text {p : Parser} (hi : PInv p = true) (hs : p.state = .Ground) {txt : List Nat}
    {ws : List (List Nat)} (h : parseSgrText txt = some ws) :
    ∃ p', emit p txt = some (p', [.sgr (sgrRefOps ws)]) ∧ p'.state = .Ground :=
  text_spec hi hs h

/-- **The whole path for one sequence**: text → parser → decoder → pen.  `Vt::feed` over the
    characters of the sequence changes nothing but the parser registers and the pen, and the pen is
    the reference pen for the parameters as written. -/
theorem C08_sequence {v : Vt} (hi : PInv v.parser = true) (hs : v.parser.state = .Ground)
    (hp : v.terminal.pen.attrs < 32) {txt : List Nat} {ws : List (List Nat)}
    (h : parseSgrText txt = some ws) :
    ∃ p', v.feedAll txt
        = some { parser := p', terminal := { v.terminal with pen := penRef v.terminal.pen (sgrRefOps ws) } }
      ∧ p'.state = .Ground := by
  obtain ⟨p', he, hg⟩ := text_spec hi hs h
  refine ⟨p', ?_, hg⟩
  rw [feedAll_emit txt v p' _ he]
  simp only [execAll, Terminal.execute, Terminal.sgr, Option.map_some]
  rw [foldl_eq_penRef _ _ hp]

/-- **Fold.**  `Terminal::sgr` is the left fold of `applySgr` over the operations, touches nothing
    but the pen, and the resulting pen is the reference pen (the one whose nine accessors report the
    reference observations). -/
theorem C08_fold (t : Terminal) (ops : List SgrOp) :
    t.execute (.sgr ops) = some { t with pen := ops.foldl Terminal.applySgr t.pen }
    ∧ (t.sgr ops).pen = ops.foldl Terminal.applySgr t.pen
    ∧ (t.pen.attrs < 32 → (t.sgr ops).pen = penRef t.pen ops)
    ∧ (t.pen.attrs < 32 → Pen.obs (t.sgr ops).pen = obsRef (Pen.obs t.pen) ops) :=
  ⟨rfl, rfl, fun h => foldl_eq_penRef t.pen ops h, fun h => obs_foldl ops t.pen h⟩

/-- **Independence.**  For every operation and every pen (attribute byte inside the five bits in
    use), the nine accessors after `applySgr` are what `obsStep` — one line per operation, touching
    only the accessors the property names — says; the proof goes through the generated masks
    `Gen.italicMask … Gen.inverseMask` (`mask_set`, `mask_unset`). -/
theorem C08_independent (p : Pen) (op : SgrOp) (h : p.attrs < 32) :
    Pen.obs (Terminal.applySgr p op) = obsStep (Pen.obs p) op ∧ (Terminal.applySgr p op).attrs < 32 :=
  ⟨obs_applySgr p op h, attrs_applySgr p op h⟩

/-- the invariant `attrs < 32` holds for the default pen and along every fold -/
theorem C08_attrs_inv :
    Pen.default.attrs < 32 ∧ (∀ (p : Pen) (ops : List SgrOp), p.attrs < 32 → (ops.foldl Terminal.applySgr p).attrs < 32) :=
  ⟨by decide, fun p ops h => attrs_foldl ops p h⟩

/-- spelled out for two representative pairs: setting blink leaves the other eight accessors alone,
    and bold / faint exclude each other -/
theorem C08_independent_examples (p : Pen) (h : p.attrs < 32) :
    (let q := Terminal.applySgr p .setBlink
     q.isBlink = true ∧ q.isInverse = p.isInverse ∧ q.isItalic = p.isItalic ∧ q.isUnderline = p.isUnderline
       ∧ q.isStrikethrough = p.isStrikethrough ∧ q.isBold = p.isBold ∧ q.isFaint = p.isFaint
       ∧ q.fg = p.fg ∧ q.bg = p.bg)
    ∧ (let q := Terminal.applySgr p .setFaint
       q.isFaint = true ∧ q.isBold = false ∧ q.isBlink = p.isBlink ∧ q.fg = p.fg) := by
  have h1 := obs_applySgr p .setBlink h
  have h2 := obs_applySgr p .setFaint h
  simp only [Pen.obs, obsStep, Prod.mk.injEq] at h1 h2
  obtain ⟨a1, a2, a3, a4, a5, a6, a7, a8, a9⟩ := h1
  obtain ⟨b1, b2, b3, b4, b5, b6, b7, b8, b9⟩ := h2
  exact ⟨⟨a8, a9, a5, a6, a7, a3, a4, a1, a2⟩, ⟨b4, b3, b8, b1⟩⟩

/-- **The accessors determine the pen**, so "reports exactly that pen" is meaningful. -/
theorem C08_obs_injective {p q : Pen} (hp : p.attrs < 32) (hq : q.attrs < 32) (h : Pen.obs p = Pen.obs q) :
    p = q := obs_injective p q hp hq h

/-- **Cells, primitives.**  A blank carries the pen it is made with; `Line.blank` consists of such
    blanks; `Line.clear` stores them in the whole range. -/
theorem C08_cells_primitives (pen : Pen) :
    (Cell.blank pen).pen = pen
    ∧ (∀ cols, ∀ c ∈ (Line.blank cols pen).cells, c = Cell.blank pen)
    ∧ (∀ (l l' : Line) (a b : Nat), l.clear a b pen = some l' →
        ∀ i, a ≤ i → i < b → l'.cells[i]? = some (Cell.blank pen)) := by
  refine ⟨rfl, ?_, ?_⟩
  · intro cols c hc
    simp only [Line.blank, List.mem_replicate] at hc
    exact hc.2
  · intro l l' a b h i h1 h2
    exact lineClear_get h i h1 h2

/-- **Cells.**  After a printing or blanking function (`print`, `rep`, `ich`, `dch`, `ech`, `ed`,
    `el`, `il`, `dl`, `su`, `sd`, `lf`, `nel`, `ri` — every place where the model calls `Cell.blank`,
    `Line.blank`, `Line.clear`, `Line.print`, `Line.insert`, `Line.delete` from `Terminal.execute`,
    except DECALN, which fills with the default pen by definition) every cell of the view either
    carries the current pen or is a cell that was already in the view; the pen itself is unchanged.
    This is the predicate the oracle evaluates (`noForeignCells`). -/
theorem C08_cells {t t' : Terminal} {f : Function} (hw : writesWithPen f = true)
    (h : t.execute f = some t') :
    noForeignCells t.pen t.buffer.view t'.buffer.view = true ∧ t'.pen = t.pen := by
  have hs : St (fun c => c.pen = t.pen ∨ ∃ l0 ∈ t.buffer.view, c ∈ l0.cells) t.pen t :=
    ⟨rfl, fun l hl c hc => Or.inr ⟨l, hl, hc⟩⟩
  have := writes_ok hw (fun _ => Or.inl rfl) hs h
  exact ⟨(noForeignCells_iff _ _ _).mpr this.2, this.1⟩

/-- **The printed cell.**  A single `print` stores a cell carrying the current pen at the position
    the oracle inspects (`printedCell`: the column left of the new cursor, or the last column when
    auto-wrap is off and the cursor is already there), in replace and in insert mode, with or without
    a pending wrap / scroll before it. -/
theorem C08_print_cell {t t' : Terminal} {ch : Nat} (hi : TInv t = true) (h : t.execute (.print ch) = some t') :
    ∃ c, printedCell t t' = some c ∧ c.pen = t.pen :=
  print_cell (tinv_bufcols hi) h

/-- **REP.**  The repeated character is re-printed with the *current* pen, not with the pen of the
    cell it is copied from: the last copy (left of the new cursor, auto-wrap on) carries `t.pen`. -/
theorem C08_rep_cell {t t' : Terminal} {n : Nat} (hi : TInv t = true) (haw : t.autoWrapMode = true)
    (hc : t.cursor.col > 0) (h : t.execute (.rep n) = some t') :
    ∃ c, printedCell t t' = some c ∧ c.pen = t.pen :=
  rep_cell (tinv_bufcols hi) haw hc h

/-- the same for any predicate: whatever holds for every cell of the view and for every cell carrying
    the current pen still holds for every cell of the view afterwards -/
theorem C08_cells_general {Q : Cell → Prop} {t t' : Terminal} {f : Function} (hw : writesWithPen f = true)
    (hQ : ∀ c, Q ⟨c, t.pen⟩) (hv : ∀ l ∈ t.buffer.view, ∀ c ∈ l.cells, Q c) (h : t.execute f = some t') :
    ∀ l ∈ t'.buffer.view, ∀ c ∈ l.cells, Q c :=
  (writes_ok hw hQ ⟨rfl, hv⟩ h).2

/-! ### the hypotheses are satisfiable on concrete non-trivial data -/

/-- registers after `CSI 1;38;5;200;48:2::1:2:300;38;2;7 m` (the last colour is truncated) -/
def exRegs : List Param :=
  [⟨0, [1, 0, 0, 0, 0, 0]⟩, ⟨0, [38, 0, 0, 0, 0, 0]⟩, ⟨0, [5, 0, 0, 0, 0, 0]⟩, ⟨0, [200, 0, 0, 0, 0, 0]⟩,
   ⟨5, [48, 2, 0, 1, 2, 300]⟩, ⟨0, [38, 0, 0, 0, 0, 0]⟩, ⟨0, [2, 0, 0, 0, 0, 0]⟩, ⟨0, [7, 0, 0, 0, 0, 0]⟩]

example : (∀ q ∈ exRegs, Param.ok q = true)
    ∧ Parser.sgrOps exRegs
        = some [.setBold, .setFg (.indexed 200), .setBg (.rgb 1 2 44), .setInverse] := by decide

example : sgrRefOps (paramsOf exRegs)
    = [.setBold, .setFg (.indexed 200), .setBg (.rgb 1 2 44), .setInverse] := by
  have h := C08_decode (ps := exRegs) (by decide)
  have h' : Parser.sgrOps exRegs
      = some [.setBold, .setFg (.indexed 200), .setBg (.rgb 1 2 44), .setInverse] := by decide
  rw [h'] at h
  exact (Option.some.inj h).symm

/-- `CSI 1;38;5;200;48:2::1:2:300;38;2;7 m` as text -/
def exText : List Nat :=
  [0x9b, 0x31, 0x3b, 0x33, 0x38, 0x3b, 0x35, 0x3b, 0x32, 0x30, 0x30, 0x3b, 0x34, 0x38, 0x3a, 0x32, 0x3a, 0x3a,
   0x31, 0x3a, 0x32, 0x3a, 0x33, 0x30, 0x30, 0x3b, 0x33, 0x38, 0x3b, 0x32, 0x3b, 0x37, 0x6d]

example : PInv Parser.new = true ∧ Parser.new.state = .Ground
    ∧ parseSgrText exText = some [[1], [38], [5], [200], [48, 2, 0, 1, 2, 300], [38], [2], [7]] := by decide

/-- a non-default pen inside the invariant, and a terminal that prints with it -/
def exPen : Pen := { fg := some (.indexed 3), bg := none, intensity := .faint, attrs := 9 }

example : exPen.attrs < 32
    ∧ Pen.obs (Terminal.applySgr exPen .resetBlink)
        = (some (.indexed 3), none, false, true, true, false, false, false, false) := ⟨by decide, rfl⟩

example : (do
    let t ← Terminal.new 3 2 none
    let t ← t.execute (.sgr [.setUnderline])
    let t ← t.execute (.print 0x61)
    let t ← t.execute (.print 0x62)
    let t ← t.execute (.print 0x63)
    let t1 ← t.execute (.print 0x64)      -- wraps first
    pure (TInv t && t.pendingWrap
          && (match printedCell t t1 with | some c => c.pen == t.pen && c.ch == 0x64 | none => false))) = some true := by
  decide

example : (do
    let t ← Terminal.new 4 2 none
    let t ← t.execute (.print 0x61)
    let t ← t.execute (.sgr [.setFg (.rgb 1 2 3)])
    let t1 ← t.execute (.rep 2)
    pure (TInv t && t.autoWrapMode && decide (t.cursor.col > 0)
          && (match printedCell t t1 with | some c => c.pen == t.pen && c.ch == 0x61 | none => false))) = some true := by
  decide

example : (do
    let t ← Terminal.new 4 2 none
    let t ← t.execute (.sgr [.setItalic, .setBg (.indexed 9)])
    let t1 ← t.execute (.print 0x61)
    let t2 ← t1.execute (.el .toRight)
    pure (writesWithPen (.el .toRight) && noForeignCells t1.pen t1.buffer.view t2.buffer.view
          && t2.buffer.view.any fun l => l.cells.any fun c => c.pen != Pen.default)) = some true := by
  decide

/-! ### the pen is state: only SGR, the restores and the resets change it -/

/-- **Function level.**  A function other than SGR, DECRC, SCORC, DECRST 1048 / 1049, DECSTR and RIS
    (`setsPen`) leaves the pen exactly as it was — every terminal state, every geometry, no
    invariant needed.  In particular printing, erasing, scrolling, saving the cursor, setting any DEC
    mode (1049 included: it saves, it does not restore) and both directions of the plain switch of
    screens (DECSET / DECRST 47, 1047, with the reflow that follows) keep the pen, so "every cell
    printed or blanked afterwards" is printed or blanked with the fold of the SGR parameters. -/
theorem C08_pen_persists {t t' : Terminal} {f : Function} (hf : setsPen f = false)
    (h : t.execute f = some t') : t'.pen = t.pen :=
  Avt.C08P.frame hf h

/-- **Call level.**  If none of the functions the parser emits for the input (from the parser state
    the call starts in) sets the pen, then the fold of `execute` over them, per-character `Vt::feed`,
    `Vt.feedAll` and `Vt::feed_str` (which ends with `changes()` + `gc()`) all leave the pen as it
    was.  This is the clause `pen-persists` of the oracle (`Spec.C08.checkPenFrame`). -/
theorem C08_pen_persists_feed {v : Vt} {xs : List Nat}
    (hf : ∀ f ∈ Frame.emitted v.parser xs, setsPen f = false) :
    (∀ t', Terminal.foldM' Terminal.execute (Frame.emitted v.parser xs) v.terminal = some t' →
        t'.pen = v.terminal.pen)
    ∧ (∀ v', v.feedAll xs = some v' → v'.terminal.pen = v.terminal.pen)
    ∧ (∀ v' ch, v.feedStr xs = some (v', ch) → v'.terminal.pen = v.terminal.pen)
    ∧ (∀ c v', xs = [c] → v.feed c = some v' → v'.terminal.pen = v.terminal.pen) :=
  ⟨fun _ h => Avt.C08P.frame_many hf h,
   fun _ h => Avt.C08P.feedAll_pen xs hf h,
   fun _ _ h => Avt.C08P.feedStr_pen hf h,
   fun _ _ e h => Avt.C08P.feed_pen (by rw [← e]; exact hf) h⟩

/-- **Resize.**  `Terminal::resize` (any old and new geometry, either screen) and `Vt::resize` leave
    the pen as it was.  This is the clause `resize-keeps-pen` of the oracle. -/
theorem C08_pen_persists_resize :
    (∀ {t t' : Terminal} {cols rows : Nat}, t.resize cols rows = some t' → t'.pen = t.pen)
    ∧ (∀ {v v' : Vt} {cols rows : Nat} {ch : Changes}, v.resize cols rows = some (v', ch) →
        v'.terminal.pen = v.terminal.pen) :=
  ⟨fun h => Avt.C08P.resize_pen h, fun h => Avt.C08P.vtResize_pen h⟩

/-- which DEC modes count: setting never does; resetting does exactly when 1048 or 1049 is among the
    modes -/
theorem C08_setsPen_modes (ms : List DecMode) :
    setsPen (.decset ms) = false
    ∧ (setsPen (.decrst ms) = true ↔ .saveCursor ∈ ms ∨ .saveCursorAltScreenBuffer ∈ ms) := by
  refine ⟨rfl, ?_⟩
  simp only [setsPen, List.any_eq_true]
  constructor
  · rintro ⟨m, hm, hp⟩
    cases m <;> simp only [restoresPen, Bool.false_eq_true] at hp
    · exact Or.inl hm
    · exact Or.inr hm
  · rintro (h | h)
    · exact ⟨_, h, rfl⟩
    · exact ⟨_, h, rfl⟩

/-! the hypotheses are satisfiable: a 4x3 terminal with a bold red pen (`CSI 1;31 m`) enters the
    alternate screen (`CSI ?1047h`), prints, scrolls it (three LF, `CSI S`), leaves it again
    (`CSI ?1047l`) and is resized: none of the seven emitted functions sets the pen, and the pen is
    still bold red — while a `CSI ?1048l` from the same state does count (and gives back the default
    pen of the never-saved context) -/

private def exFrameIn : List Nat :=
  [0x1b, 0x5b, 0x3f, 0x31, 0x30, 0x34, 0x37, 0x68, 0x61, 0x0a, 0x0a, 0x0a, 0x1b, 0x5b, 0x53,
   0x1b, 0x5b, 0x3f, 0x31, 0x30, 0x34, 0x37, 0x6c]

example : (do
    let v ← Vt.new 4 3 none
    let (v0, _) ← v.feedStr [0x1b, 0x5b, 0x31, 0x3b, 0x33, 0x31, 0x6d]
    let (v1, _) ← v0.feedStr exFrameIn
    let (v2, _) ← v1.resize 7 2
    let (v3, _) ← v2.feedStr [0x1b, 0x5b, 0x3f, 0x31, 0x30, 0x34, 0x38, 0x6c]
    pure (Pen.obs v0.terminal.pen == (some (.indexed 1), none, true, false, false, false, false, false, false)
          && Frame.emitted v0.parser exFrameIn
               == [.decset [.altScreenBuffer], .print 0x61, .lf, .lf, .lf, .su 0, .decrst [.altScreenBuffer]]
          && (Frame.emitted v0.parser exFrameIn).all (fun f => !setsPen f)
          && v1.terminal.pen == v0.terminal.pen && v2.terminal.pen == v0.terminal.pen
          && (v2.terminal.cols, v2.terminal.rows) == (7, 2)
          && setsPen (.decrst [.saveCursor]) && Pen.obs v3.terminal.pen == Obs.default)) = some true := by
  decide

end Avt.Props.C08
