/- Property theorems for C08 (placeholder until the proofs land). -/
import Avt.Spec.C08
