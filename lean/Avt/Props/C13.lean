/- Property theorems for C13 (placeholder until the proofs land). -/
import Avt.Spec.C13
