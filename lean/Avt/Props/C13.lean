/-
  Avt.Props.C13 — scrollback retention is bounded by the configured limit.

  From the buffer-invariant clause `trim_needed ∨ scrollback ≤ hard` (`Buffer.gc` clears `trim_needed`
  and trims to `soft ≤ hard`), and the terminal-invariant clause tying the buffers' limits to
  `scrollback_limit` (primary) resp. `Some(0)` (alternate).  Hypotheses that remain: `ResizeOK`,
  `ParserOK` (see Props/C02.lean).
-/
import Avt.Lemmas.InvVt
import Avt.Spec.C13

namespace Avt.Props.C13
open Avt Avt.Spec.C13

/-- in a state satisfying the invariant whose active buffer has been trimmed (`trim_needed = false`,
    the state every `feed_str`/`resize` call returns in): `lines()` has at most `rows + L + ⌊L/10⌋`
    entries, exactly `rows` when `L = 0`, and exactly `rows` on the alternate screen -/
theorem C13_bound {v : Vt} (h : Inv v = true) (ht : v.terminal.buffer.trimNeeded = false) :
    (∀ L, v.terminal.scrollbackLimit = some L →
        v.lines.length ≤ v.terminal.rows + L + L / 10 ∧ (L = 0 → v.lines.length = v.terminal.rows))
      ∧ (v.terminal.activeBufferType = .alternate → v.lines.length = v.terminal.rows) := by
  obtain ⟨_, hk⟩ := (Vt.inv_iff v).1 h
  have hlen : v.lines.length = v.terminal.buffer.sb.length + v.terminal.rows := by
    simp [Vt.lines, Terminal.lines, Buffer.lines, hk.bok.hv, hk.brows]
  have hsb : ∀ l, v.terminal.buffer.limit = some l → v.terminal.buffer.sb.length ≤ l.hard := by
    rcases hk.bok.htrim with h1 | h1
    · rw [ht] at h1; cases h1
    · exact h1
  have hdiv : Gen.hardDiv = 10 := rfl
  have halt : v.terminal.activeBufferType = .alternate → v.lines.length = v.terminal.rows := by
    intro ha
    rcases hk.lim with ⟨h1, _⟩ | ⟨_, h2, _⟩
    · rw [ha] at h1; cases h1
    · have := hsb _ h2
      simp only [Buffer.mkLimit, hdiv] at this
      omega
  refine ⟨fun L hL => ?_, halt⟩
  rcases hk.lim with ⟨_, h2⟩ | ⟨h1, _, _⟩
  · rw [hL] at h2
    have := hsb _ h2
    simp only [Buffer.mkLimit, hdiv] at this
    omega
  · have := halt h1
    omega

/-- the same, as the decidable predicate the oracle evaluates on implementation states -/
theorem C13_boundOK {v : Vt} (h : Inv v = true) (ht : v.terminal.buffer.trimNeeded = false) :
    boundOK v = true := by
  obtain ⟨h1, h2⟩ := C13_bound h ht
  simp only [boundOK, withinLimit, exactWhenZero, exactOnAlternate, Bool.and_eq_true,
    Bool.or_eq_true, bne_iff_ne, ne_eq, beq_iff_eq]
  refine ⟨⟨?_, ?_⟩, ?_⟩
  · cases hL : v.terminal.scrollbackLimit with
    | none => rfl
    | some L => simpa using (h1 L hL).1
  · by_cases hL : v.terminal.scrollbackLimit = some 0
    · exact .inr ((h1 0 hL).2 rfl)
    · exact .inl hL
  · by_cases ha : v.terminal.activeBufferType = .alternate
    · exact .inr (h2 ha)
    · exact .inl ha

/-- after `feed_str` (its `Changes` consumed or dropped: the same state) -/
theorem C13_feedStr (hR : ResizeOK) (hP : ParserOK) {v v' : Vt} {ch : Changes} {s : List Nat}
    (h : Inv v = true) (hs : v.feedStr s = some (v', ch)) : boundOK v' = true := by
  obtain ⟨v1, ch1, h1, h2, h3, _⟩ := Vt.feedStr_ok hR hP s h
  rw [hs] at h1; cases h1
  exact C13_boundOK h2 h3

/-- after `resize` -/
theorem C13_resize (hR : ResizeOK) {v v' : Vt} {ch : Changes} {c r : Nat} (h : Inv v = true)
    (hc : 1 ≤ c) (hr : 1 ≤ r) (hs : v.resize c r = some (v', ch)) : boundOK v' = true := by
  obtain ⟨v1, ch1, h1, h2, h3, _⟩ := Vt.resize_ok hR h hc hr
  rw [hs] at h1; cases h1
  exact C13_boundOK h2 h3

/-- after every finishing public call from every reachable state -/
theorem C13_reach (hR : ResizeOK) (hP : ParserOK) {v v' : Vt} {op : PubOp} (h : Reach v)
    (hv : op.valid) (hf : op.finishes = true) (hs : step v op = some v') :
    boundOK v' = true
      ∧ (∀ L, v'.terminal.scrollbackLimit = some L →
          v'.lines.length ≤ v'.terminal.rows + L + L / 10 ∧ (L = 0 → v'.lines.length = v'.terminal.rows))
      ∧ (v'.terminal.activeBufferType = .alternate → v'.lines.length = v'.terminal.rows) := by
  have hi := reach_inv hR hP h
  obtain ⟨v1, h1, h2⟩ := step_ok hR hP op hi hv
  rw [hs] at h1; cases h1
  have h3 := step_trimmed hR hP hi hv hf hs
  exact ⟨C13_boundOK h2 h3, C13_bound h2 h3⟩

/-- a fresh terminal is within the bound -/
theorem C13_init {cols rows : Nat} (lim : Option Nat) (hc : 1 ≤ cols) (hr : 1 ≤ rows) :
    ∃ v, Vt.new cols rows lim = some v ∧ boundOK v = true := by
  obtain ⟨v, h1, h2⟩ := Vt.new_ok lim hc hr
  refine ⟨v, h1, C13_boundOK h2 ?_⟩
  simp only [Vt.new, Terminal.new] at h1
  cases hcs : csub rows 1 <;> simp [hcs] at h1
  subst h1; rfl

end Avt.Props.C13
