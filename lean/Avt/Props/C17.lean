/-
  Avt.Props.C17 — save/restore cursor round-trips the full context, per screen.

  Specification: `Avt.Spec.C17` (`ctxOf`, `defaultCtx`, `clampCtx`, `stepOK`, `touchesCtx`, …).
  Helpers: Avt/Lemmas/C17Frame.lean, Avt/Lemmas/C17Step.lean, Avt/Lemmas/C17Multi.lean.  All statements are unbounded (every
  terminal state, every size, every `Function`).
-/
import Avt.Lemmas.C17Multi

namespace Avt.Props.C17
open Avt Avt.Spec.C17

/-- the four spellings of a save that does nothing else -/
def IsPlainSave (f : Function) : Prop :=
  f = .decsc ∨ f = .scosc ∨ f = .decset [.saveCursor]

/-- the restores that do nothing else -/
def IsPlainRestore (f : Function) : Prop :=
  f = .decrc ∨ f = .scorc ∨ f = .decrst [.saveCursor]

/-- **Per-step specification** (all three clauses, every constructor of `Function`): whatever the
    model does in one function is what `stepOK` — the predicate the oracle evaluates on the
    implementation — allows. -/
theorem C17_step {t t' : Terminal} {f : Function} (hi : TInv t = true) (h : t.execute f = some t') :
    stepOK t f t' = true := step_ok hi h

/-- **Clause 1.**  A save records (min col (cols-1), row, pen, origin, auto-wrap) of the current
    state in the active context and changes nothing else. -/
theorem C17_save {t t' : Terminal} {f : Function} (hf : IsPlainSave f) (h : t.execute f = some t') :
    t' = { t with savedCtx := ctxOf t } := by
  rcases hf with rfl | rfl | rfl
  · exact saveCursor_eq h
  · exact saveCursor_eq h
  · simp only [Terminal.execute] at h
    exact saveCursor_eq (foldM_single h)

/-- the save half of `?1049h`: the context of the screen that was showing is `ctxOf t` afterwards
    (it is parked in `alternateSavedCtx` when the switch happens, clamped in place otherwise) -/
theorem C17_save_1049 {t t' : Terminal} (h : t.execute (.decset [.saveCursorAltScreenBuffer]) = some t') :
    (t'.savedCtx, t'.alternateSavedCtx)
      = (if t.activeBufferType = .alternate
         then (clampCtx t.cols t.rows (ctxOf t), t.alternateSavedCtx)
         else (clampCtx t.cols t.rows t.alternateSavedCtx, ctxOf t)) := by
  have := decset_single_ok (foldM_single (by simpa only [Terminal.execute] using h))
  simpa [stepOK, modeCtx, showScreen] using this

/-- **Clause 2.**  A restore sets column, row, pen, origin mode, auto-wrap mode from the active
    context, clears the pending wrap and leaves both contexts as they are. -/
theorem C17_restore_step {t t' : Terminal} {f : Function} (hf : IsPlainRestore f)
    (h : t.execute f = some t') :
    t'.cursor.col = t.savedCtx.cursorCol ∧ t'.cursor.row = t.savedCtx.cursorRow
      ∧ t'.pen = t.savedCtx.pen ∧ t'.originMode = t.savedCtx.originMode
      ∧ t'.autoWrapMode = t.savedCtx.autoWrapMode ∧ t'.pendingWrap = false
      ∧ t'.savedCtx = t.savedCtx ∧ t'.alternateSavedCtx = t.alternateSavedCtx := by
  have e : t' = t.restoreCursor := by
    rcases hf with rfl | rfl | rfl
    · simp only [Terminal.execute] at h; cases h; rfl
    · simp only [Terminal.execute] at h; cases h; rfl
    · simp only [Terminal.execute] at h
      have := foldM_single h
      simp only [Terminal.decrstOne] at this
      cases this; rfl
  subst e
  simp [Terminal.restoreCursor]

/-- **Restore after save.**  If the active context at restore time is still the one the save wrote
    (clause 3 says when), the restore re-establishes column (clamped to the last real column), row,
    pen, origin mode and auto-wrap mode of the save-time state `s`, and no wrap is pending. -/
theorem C17_restore {s s1 t t' : Terminal} {f g : Function} (hf : IsPlainSave f) (hg : IsPlainRestore g)
    (hs : s.execute f = some s1) (hkeep : t.savedCtx = s1.savedCtx) (h : t.execute g = some t') :
    t'.cursor.col = min s.cursor.col (s.cols - 1) ∧ t'.cursor.row = s.cursor.row ∧ t'.pen = s.pen
      ∧ t'.originMode = s.originMode ∧ t'.autoWrapMode = s.autoWrapMode ∧ t'.pendingWrap = false := by
  have e := C17_save hf hs
  have r := C17_restore_step hg h
  rw [hkeep, e] at r
  exact ⟨r.1, r.2.1, r.2.2.1, r.2.2.2.1, r.2.2.2.2.1, r.2.2.2.2.2.1⟩

/-- **Clause 3 (frame), all ~50 constructors.**  A function that is not a save, a switch of screens,
    DECSTR or RIS leaves both saved contexts unchanged — moves, prints, SGR, erases, scrolls, mode
    changes, margin changes, tab operations, the restores themselves.  (`TInv` is needed only for
    `xtwinops`, which is inert because the flag is never set.) -/
theorem C17_frame {t t' : Terminal} {f : Function} (hi : TInv t = true) (h : t.execute f = some t')
    (hf : touchesCtx f = false) :
    t'.savedCtx = t.savedCtx ∧ t'.alternateSavedCtx = t.alternateSavedCtx := frame hi hf h

/-- a run of functions through states that satisfy the invariant (C02) -/
inductive Steps : Terminal → List Function → Terminal → Prop
  | nil (t : Terminal) : Steps t [] t
  | cons {t t1 t' : Terminal} {f : Function} {fs : List Function} :
      TInv t = true → t.execute f = some t1 → Steps t1 fs t' → Steps t (f :: fs) t'

/-- clause 3 over any history -/
theorem C17_frame_many {t t' : Terminal} {fs : List Function} (h : Steps t fs t')
    (hf : ∀ f ∈ fs, touchesCtx f = false) :
    t'.savedCtx = t.savedCtx ∧ t'.alternateSavedCtx = t.alternateSavedCtx := by
  induction h with
  | nil t => exact ⟨rfl, rfl⟩
  | cons hi he _ ih =>
    have h1 := frame hi (hf _ (by simp)) he
    have h2 := ih (fun f hm => hf f (by simp [hm]))
    exact ⟨h2.1.trans h1.1, h2.2.trans h1.2⟩

/-- **Round trip, regardless of what was executed in between** (moves, prints, SGR, mode and margin
    changes, restores …; excursions to the other screen and resets are the subject of
    `C17_separate`, `C17_default`, resizes of `C17_inside_after_resize`). -/
theorem C17_roundtrip {s s1 t t' : Terminal} {f g : Function} {fs : List Function}
    (hf : IsPlainSave f) (hg : IsPlainRestore g) (hs : s.execute f = some s1) (hmid : Steps s1 fs t)
    (hfs : ∀ x ∈ fs, touchesCtx x = false) (h : t.execute g = some t') :
    t'.cursor.col = min s.cursor.col (s.cols - 1) ∧ t'.cursor.row = s.cursor.row ∧ t'.pen = s.pen
      ∧ t'.originMode = s.originMode ∧ t'.autoWrapMode = s.autoWrapMode ∧ t'.pendingWrap = false :=
  C17_restore hf hg hs (C17_frame_many hmid hfs).1 h

/-- the exceptions of clause 3: DECSTR resets the active context only, RIS resets both -/
theorem C17_resets {t t' : Terminal} :
    (t.execute .decstr = some t' → t'.savedCtx = defaultCtx ∧ t'.alternateSavedCtx = t.alternateSavedCtx)
    ∧ (t.execute .ris = some t' → t'.savedCtx = defaultCtx ∧ t'.alternateSavedCtx = defaultCtx) := by
  constructor
  · intro h
    simp only [Terminal.execute, Terminal.softReset] at h
    obtain ⟨r1, _, rfl⟩ := Option.map_eq_some_iff.mp h
    exact ⟨rfl, rfl⟩
  · intro h
    simp only [Terminal.execute, Terminal.hardReset] at h
    obtain ⟨r1, _, rfl⟩ := Option.map_eq_some_iff.mp h
    exact ⟨rfl, rfl⟩

/-- **Defaults.**  On a fresh terminal both contexts are the power-on default; after DECSTR the active
    one is; and a restore from the default context gives (0,0), default pen, origin off, auto-wrap on. -/
theorem C17_default :
    (∀ (cols rows : Nat) (lim : Option Nat) (t : Terminal), Terminal.new cols rows lim = some t →
        t.savedCtx = defaultCtx ∧ t.alternateSavedCtx = defaultCtx)
    ∧ (∀ t t' : Terminal, t.execute .decstr = some t' → t'.savedCtx = defaultCtx)
    ∧ (∀ (t t' : Terminal) (g : Function), IsPlainRestore g → t.savedCtx = defaultCtx → t.execute g = some t' →
        t'.cursor.col = 0 ∧ t'.cursor.row = 0 ∧ t'.pen = Pen.default ∧ t'.originMode = false
          ∧ t'.autoWrapMode = true ∧ t'.pendingWrap = false) := by
  refine ⟨?_, ?_, ?_⟩
  · intro cols rows lim t h
    unfold Terminal.new at h
    obtain ⟨r1, _, rfl⟩ := Option.map_eq_some_iff.mp h
    exact ⟨rfl, rfl⟩
  · intro t t' h
    exact (C17_resets.1 h).1
  · intro t t' g hg hd h
    have r := C17_restore_step hg h
    rw [hd] at r
    exact ⟨r.1, r.2.1, r.2.2.1, r.2.2.2.1, r.2.2.2.2.1, r.2.2.2.2.2.1⟩

/-- **Separate contexts.**  An excursion to the other screen with a save there does not change this
    screen's context: switch away, save, switch back — the context is what it was, and the other
    screen's context is the one saved there.  (Both directions.) -/
theorem C17_separate {t t1 t2 t3 : Terminal} :
    (t.activeBufferType = .primary → t.switchToAlternateBuffer = some t1 → t1.saveCursor = some t2 →
      t2.switchToPrimaryBuffer = some t3 →
      t3.savedCtx = t.savedCtx ∧ t3.alternateSavedCtx = ctxOf t1)
    ∧ (t.activeBufferType = .alternate → t.switchToPrimaryBuffer = some t1 → t1.saveCursor = some t2 →
      t2.switchToAlternateBuffer = some t3 →
      t3.savedCtx = t.savedCtx ∧ t3.alternateSavedCtx = ctxOf t1) := by
  constructor
  · intro hp h1 h2 h3
    obtain ⟨d, rfl⟩ := switchAlt_primary hp h1
    have e := saveCursor_eq h2
    subst e
    obtain ⟨d', rfl⟩ := switchPrim_alternate rfl h3
    exact ⟨rfl, rfl⟩
  · intro hp h1 h2 h3
    obtain ⟨d, rfl⟩ := switchPrim_alternate hp h1
    have e := saveCursor_eq h2
    subst e
    obtain ⟨d', rfl⟩ := switchAlt_primary rfl h3
    exact ⟨rfl, rfl⟩

/-- a save never writes the other screen's context (any spelling, including `?1049h` while the
    alternate screen is showing) -/
theorem C17_save_other {t t' : Terminal} {f : Function} (hf : IsPlainSave f) (h : t.execute f = some t') :
    t'.alternateSavedCtx = t.alternateSavedCtx := by
  rw [C17_save hf h]

/-- **Resize.**  After `Terminal.reflow` (the tail of every resize and of every switch of screens)
    the active context is the old one clamped into the screen, the other one is untouched, and the
    position a restore would go to lies inside the screen.  The hypothesis that `reflow` succeeds
    contains `Buffer.resize … = some …`; only the clamp matters here. -/
theorem C17_inside_after_resize {t t' : Terminal} (hc : 1 ≤ t.cols) (hr : 1 ≤ t.rows)
    (h : t.reflow = some t') :
    t'.savedCtx = clampCtx t.cols t.rows t.savedCtx ∧ t'.alternateSavedCtx = t.alternateSavedCtx
      ∧ t'.savedCtx.cursorCol < t'.cols ∧ t'.savedCtx.cursorRow < t'.rows
      ∧ t'.restoreCursor.cursor.col < t'.cols ∧ t'.restoreCursor.cursor.row < t'.rows := by
  have F := reflow_facts h
  have h1 : t'.savedCtx.cursorCol < t'.cols := by
    rw [F.saved, F.cols]; simp only [clampCtx]; omega
  have h2 : t'.savedCtx.cursorRow < t'.rows := by
    rw [F.saved, F.rows]; simp only [clampCtx]; omega
  exact ⟨F.saved, F.alt, h1, h2, h1, h2⟩

/-- the public resize: the clamp rule of the oracle (`resizeOK`) -/
theorem C17_resize {t t' : Terminal} {cols rows : Nat} (hc : 1 ≤ cols) (hr : 1 ≤ rows)
    (h : t.resize cols rows = some t') : resizeOK cols rows t t' = true := by
  have := resize_ok h
  simp only [resizeOK, this.1, this.2, beq_self_eq_true, Bool.true_and, ctxInside, clampCtx,
    Bool.and_eq_true, decide_eq_true_eq]
  omega

/-! ### lists of several DEC modes in one DECSET / DECRST -/

/-- **Lists of DEC modes act left to right**, each member exactly like the single-mode sequence
    (every list, every state): after `CSI ? ms h` the screen that is showing and the two saved
    contexts are those of the fold `afterDecset t ms` — a `?1048`/`?1049` inside the list records
    the column, row, pen, origin mode and auto-wrap mode in force at that point of the list
    (`(afterDecset t ms).cur`, which is also what the state shows at the end), in the context of the
    screen showing at that point; after `CSI ? ms l` they are those of `afterDecrst t ms`, and a
    restore at the end of the list shows the context of the screen showing at that point. -/
theorem C17_multi_mode {t t' : Terminal} {ms : List DecMode} (hi : TInv t = true) :
    (t.execute (.decset ms) = some t' →
        t'.activeBufferType = (afterDecset t ms).scr.active
        ∧ t'.savedCtx = (afterDecset t ms).scr.saved
        ∧ t'.alternateSavedCtx = (afterDecset t ms).scr.other
        ∧ ctxOf t' = (afterDecset t ms).cur)
    ∧ (t.execute (.decrst ms) = some t' →
        t'.activeBufferType = (afterDecrst t ms).active
        ∧ t'.savedCtx = (afterDecrst t ms).saved
        ∧ t'.alternateSavedCtx = (afterDecrst t ms).other
        ∧ lastRestoreOK ms t' = true) := by
  constructor
  · intro h
    simp only [Terminal.execute] at h
    have := decset_multi hi h
    simp only [Screens.holds, Bool.and_eq_true, beq_iff_eq] at this
    exact ⟨this.1.1.1, this.1.1.2, this.1.2, this.2⟩
  · intro h
    simp only [Terminal.execute] at h
    have := decrst_multi h
    simp only [Screens.holds, Bool.and_eq_true, beq_iff_eq] at this
    exact ⟨this.1.1.1, this.1.1.2, this.1.2, this.2⟩

/-- on a one-element list the fold is the single-mode rule `modeCtx` of `stepOK` -/
theorem C17_multi_single (t : Terminal) (m : DecMode) :
    ((afterDecset t [m]).scr.saved, (afterDecset t [m]).scr.other) = modeCtx t true m
    ∧ ((afterDecrst t [m]).saved, (afterDecrst t [m]).other) = modeCtx t false m :=
  ⟨afterDecset_single t m, afterDecrst_single t m⟩

/-- **`CSI ? 1047 ; 1048 h` vs `CSI ? 1048 ; 1047 h`** on the primary screen: with the switch first the
    save lands in the ALTERNATE screen's context and the primary screen's context is untouched (it is
    parked as the other one); with the save first the primary screen's context gets it and the
    alternate screen's (clamped into the screen) becomes active. -/
theorem C17_multi_order {t t' : Terminal} (hi : TInv t = true) (hp : t.activeBufferType = .primary) :
    (t.execute (.decset [.altScreenBuffer, .saveCursor]) = some t' →
        t'.activeBufferType = .alternate ∧ t'.savedCtx = ctxOf t ∧ t'.alternateSavedCtx = t.savedCtx)
    ∧ (t.execute (.decset [.saveCursor, .altScreenBuffer]) = some t' →
        t'.activeBufferType = .alternate ∧ t'.savedCtx = clampCtx t.cols t.rows t.alternateSavedCtx
        ∧ t'.alternateSavedCtx = ctxOf t) := by
  constructor
  · intro h
    obtain ⟨h1, h2, h3, _⟩ := (C17_multi_mode hi).1 h
    simpa [afterDecset, setOne, Screens.show, Screens.of, hp] using And.intro h1 (And.intro h2 h3)
  · intro h
    obtain ⟨h1, h2, h3, _⟩ := (C17_multi_mode hi).1 h
    simpa [afterDecset, setOne, Screens.show, Screens.of, hp] using And.intro h1 (And.intro h2 h3)

/-- what `stepOK` (hence `C17_step`, and the oracle on the implementation's states) says for a list of
    two or more DEC modes: exactly the fold -/
theorem C17_multi_step (t t' : Terminal) (m1 m2 : DecMode) (ms : List DecMode) :
    stepOK t (.decset (m1 :: m2 :: ms)) t' = (afterDecset t (m1 :: m2 :: ms)).scr.holds t'
    ∧ stepOK t (.decrst (m1 :: m2 :: ms)) t'
        = ((afterDecrst t (m1 :: m2 :: ms)).holds t' && lastRestoreOK (m1 :: m2 :: ms) t') :=
  ⟨rfl, rfl⟩

/-! ### the hypotheses are satisfiable on a concrete non-trivial state

  5x3 terminal, bold pen, cursor at (row 1, col 2): save, move and change the pen, go to the
  alternate screen and save there, come back, restore. -/

def exRun : Option (Terminal × Terminal × Terminal) := do
  let t ← Terminal.new 5 3 none
  let t ← t.execute (.sgr [.setBold, .setFg (.indexed 3)])
  let s ← t.execute (.cup 2 3)
  let s1 ← s.execute .decsc
  let t ← s1.execute (.cup 1 1)
  let t ← t.execute (.sgr [.reset])
  let t ← t.execute (.decset [.altScreenBuffer])
  let t ← t.execute .scosc
  let t ← t.execute (.decrst [.altScreenBuffer])
  let t' ← t.execute .decrc
  pure (s, t, t')

example : ∃ s t t', exRun = some (s, t, t') ∧ TInv s = true ∧ TInv t = true
    ∧ t.savedCtx = ctxOf s ∧ t'.cursor.col = 2 ∧ t'.cursor.row = 1 ∧ t'.pen = s.pen
    ∧ stepOK t .decrc t' = true := by
  refine ⟨_, _, _, rfl, ?_⟩
  decide

/-! 10x4 terminal, bold pen, a save on the primary screen at (col 5, row 2); then the cursor moves to
  (col 1, row 0) and the pen is reset, and one multi-mode sequence follows. -/

def exBase : Option (Terminal × Terminal) := do
  let t ← Terminal.new 10 4 none
  let t ← t.execute (.sgr [.setBold])
  let s ← t.execute (.cup 3 6)
  let t ← s.execute .decsc
  let t ← t.execute (.cup 1 2)
  let t ← t.execute (.sgr [.reset])
  pure (s, t)

/-- `?1047;1048h`: the ALTERNATE screen's context gets the save, the primary's (5,2,bold) is untouched -/
example : ∃ s t t', exBase = some (s, t) ∧ t.execute (.decset [.altScreenBuffer, .saveCursor]) = some t'
    ∧ TInv t = true ∧ t.savedCtx = ctxOf s ∧ (ctxOf s).cursorCol = 5 ∧ (ctxOf s).cursorRow = 2
    ∧ t'.activeBufferType = .alternate ∧ t'.savedCtx = ctxOf t ∧ (ctxOf t).cursorCol = 1
    ∧ t'.alternateSavedCtx = ctxOf s
    ∧ stepOK t (.decset [.altScreenBuffer, .saveCursor]) t' = true := by
  refine ⟨_, _, _, rfl, rfl, ?_⟩
  decide

/-- `?1048;1047h`: the PRIMARY screen's context gets the save, the alternate's stays the default -/
example : ∃ s t t', exBase = some (s, t) ∧ t.execute (.decset [.saveCursor, .altScreenBuffer]) = some t'
    ∧ t'.activeBufferType = .alternate ∧ t'.savedCtx = defaultCtx ∧ t'.alternateSavedCtx = ctxOf t
    ∧ t'.alternateSavedCtx ≠ ctxOf s
    ∧ stepOK t (.decset [.saveCursor, .altScreenBuffer]) t' = true
    -- the two orders are told apart: the result of one does not satisfy the specification of the other
    ∧ stepOK t (.decset [.altScreenBuffer, .saveCursor]) t' = false := by
  refine ⟨_, _, _, rfl, rfl, ?_⟩
  decide

/-- `?6;1048h` saves the homed cursor with origin mode on -/
example : ∃ s t t', exBase = some (s, t) ∧ t.execute (.decset [.origin, .saveCursor]) = some t'
    ∧ t'.savedCtx = { ctxOf t with cursorCol := 0, cursorRow := 0, originMode := true }
    ∧ stepOK t (.decset [.origin, .saveCursor]) t' = true := by
  refine ⟨_, _, _, rfl, rfl, ?_⟩
  decide

/-- `?1047;1048l` from the alternate screen (where (col 3, row 1) was saved): back on the primary
    screen, THEN the restore — from the primary screen's context (5,2,bold) -/
example : ∃ s t u t', exBase = some (s, t)
    ∧ (do let u ← t.execute (.decset [.altScreenBuffer]); let u ← u.execute (.cup 2 4); u.execute .scosc) = some u
    ∧ u.execute (.decrst [.altScreenBuffer, .saveCursor]) = some t'
    ∧ TInv u = true ∧ u.savedCtx.cursorCol = 3
    ∧ t'.activeBufferType = .primary ∧ t'.savedCtx = ctxOf s ∧ t'.alternateSavedCtx = u.savedCtx
    ∧ t'.cursor.col = 5 ∧ t'.cursor.row = 2 ∧ t'.pen = s.pen
    ∧ stepOK u (.decrst [.altScreenBuffer, .saveCursor]) t' = true
    -- the second `?47l` of `?1047;47l` is a swap that does nothing
    ∧ afterDecrst u [.altScreenBuffer, .altScreenBuffer] = afterDecrst u [.altScreenBuffer] := by
  refine ⟨_, _, _, _, rfl, rfl, rfl, ?_⟩
  decide

example : IsPlainSave .scosc ∧ IsPlainRestore (.decrst [.saveCursor]) := ⟨Or.inr (Or.inl rfl), Or.inr (Or.inr rfl)⟩

end Avt.Props.C17
