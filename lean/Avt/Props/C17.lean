/- Property theorems for C17 (placeholder until the proofs land). -/
import Avt.Spec.C17
