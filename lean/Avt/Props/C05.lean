/- Property theorems for C05 (placeholder until the proofs land). -/
import Avt.Spec.C05
