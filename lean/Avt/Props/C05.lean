/-
  Avt.Props.C05 — property theorems for C05 (cursor movement and addressing).
  Helper lemmas: Avt/Lemmas/C05.lean (and Avt/Lemmas/C18.lean for the tab searches).

  `C05_move` is unbounded: every terminal satisfying the invariant `TInv` (every size, every margin
  pair, cursor anywhere incl. the wrap-pending column, origin mode on or off, both screens), every
  covered command, every parameter value.  Because the conclusion is an equation between complete
  terminals, it contains at once: the command never panics; the cursor, pending-wrap flag, margins
  and origin mode are as `moveSpec` says; nothing else — no cell of either buffer, no wrap mark, no
  pen, mode, tab stop, saved context or dirty flag — changes.
-/
import Avt.Lemmas.C05
import Avt.Lemmas.C05OriginFrame

namespace Avt
open Avt.Spec Avt.Spec.C05 Avt.Lemmas.C05

/-- every pure cursor command does exactly what `moveSpec` says -/
theorem C05_move {t : Terminal} {f : Function} (h : TInv t = true) (hf : covered t f = true) :
    t.execute f = some (moveSpec t f) := by
  have F := facts h
  have hc := F.cols
  have hr := F.rows
  cases f <;> simp only [covered, Bool.false_eq_true] at hf
  case bs =>
    simp only [Terminal.execute, Terminal.bs, moveSpec]
    rcases F.col with ⟨hp, hcol⟩ | ⟨hp, hcol⟩
    · simp only [hp, if_true]
      apply relCol_eq hc
      simp only [left, realCol, lastCol]; omega
    · simp only [hp, Bool.false_eq_true, if_false]
      apply relCol_eq hc
      simp only [left, realCol, lastCol]; omega
  case cbt n => exact tab_bridge h (.cbt n) rfl rfl
  case cha n =>
    simp only [Terminal.execute, moveSpec, arg_eq]
    exact moveToCol_eq hc _
  case cht n => exact tab_bridge h (.cht n) rfl rfl
  case cnl n =>
    simp only [Terminal.execute, moveSpec, arg_eq, cursorDown_eq hc hr, Option.map_some]
    rfl
  case cpl n =>
    simp only [Terminal.execute, moveSpec, arg_eq, cursorUp_eq hc, Option.map_some]
    rfl
  case cr => rfl
  case cub n =>
    simp only [Terminal.execute, Terminal.cub, moveSpec, arg_eq]
    have := arg_pos n
    rcases F.col with ⟨hp, hcol⟩ | ⟨hp, hcol⟩
    · simp only [hp, if_true]
      apply relCol_eq hc
      simp only [left, realCol, lastCol]; omega
    · simp only [hp, Bool.false_eq_true, if_false]
      apply relCol_eq hc
      simp only [left, realCol, lastCol]; omega
  case cud n =>
    simp only [Terminal.execute, moveSpec, arg_eq]
    exact cursorDown_eq hc hr _
  case cuf n =>
    simp only [Terminal.execute, moveSpec, arg_eq]
    have := arg_pos n
    apply relCol_eq hc
    simp only [right, lastCol]
    rcases F.col with ⟨_, hcol⟩ | ⟨_, hcol⟩ <;> omega
  case cup r c =>
    simp only [Terminal.execute, Terminal.cup, moveSpec, arg_eq, moveToCol_eq hc]
    rw [moveToRow_eq (t := cursorAt t _ _) hc hr F.tb]
    apply some_cursorAt_congr t
    · simp only [realCol, cursorAt, lastCol, absCol]; omega
    · rfl
  case cuu n =>
    simp only [Terminal.execute, moveSpec, arg_eq]
    exact cursorUp_eq hc _
  case decrst ms =>
    simp only [Bool.and_eq_true, Bool.not_eq_true'] at hf
    simp only [Terminal.execute, moveSpec, decrst_origins ms t hc hf.2, hf.1]
    rfl
  case decset ms =>
    simp only [Bool.and_eq_true, Bool.not_eq_true'] at hf
    simp only [Terminal.execute, moveSpec, decset_origins ms t hc hf.2, hf.1]
    rfl
  case decstbm a b =>
    simp only [Terminal.execute, Terminal.decstbm, moveSpec, newMargins]
    have hb : csub (asUsize b t.rows) 1 = some ((if b = 0 then t.rows else b) - 1) := by
      unfold asUsize csub
      split <;> simp <;> omega
    simp only [hb]
    simp only [asUsize, arg]
    by_cases hcond : (if a = 0 then 1 else a) - 1 < (if b = 0 then t.rows else b) - 1
        ∧ (if b = 0 then t.rows else b) - 1 < t.rows
    · simp only [hcond.1, hcond.2, and_self, if_true]
      exact home_eq hc
    · simp only [hcond, if_false]
      exact home_eq hc
  case ht => exact tab_bridge h .ht rfl rfl
  case lf =>
    have hne : t.cursor.row ≠ t.bottomMargin := by simpa using hf
    simp only [Terminal.execute, Terminal.lf, moveSpec, downWithScroll_eq hc hr hne, Option.map_some]
    have : (oneDown t).newLineMode = t.newLineMode := by unfold oneDown; split <;> rfl
    rw [this]
    split <;> rfl
  case nel =>
    have hne : t.cursor.row ≠ t.bottomMargin := by simpa using hf
    simp only [Terminal.execute, Terminal.nel, moveSpec, downWithScroll_eq hc hr hne, Option.map_some]
    rfl
  case ri =>
    have hne : t.cursor.row ≠ t.topMargin := by simpa using hf
    simp only [Terminal.execute, Terminal.ri, moveSpec, hne, if_false]
    split
    · rw [toRow_eq hc]
    · rfl
  case vpa n =>
    simp only [Terminal.execute, moveSpec, arg_eq]
    exact moveToRow_eq hc hr F.tb _
  case vpr n =>
    simp only [Terminal.execute, moveSpec, arg_eq]
    exact cursorDown_eq hc hr _

/-! ### corollaries in the property's own words -/

/-- the same at the level of `Vt::feed`: a character that completes a pure cursor command leaves the
    terminal exactly as `moveSpec` says (and the parser as the parser says) -/
theorem C05_feed {v : Vt} {c : Nat} {p : Parser} {f : Function} (h : TInv v.terminal = true)
    (hp : v.parser.feed c = some (p, some f)) (hf : covered v.terminal f = true) :
    v.feed c = some { parser := p, terminal := moveSpec v.terminal f } := by
  simp only [Vt.feed, hp, C05_move h hf, Option.map_some]

/-- none of these commands changes any cell (of either screen), nor the scrollback -/
theorem C05_no_cell_changes {t t' : Terminal} {f : Function} (h : TInv t = true)
    (hf : covered t f = true) (he : t.execute f = some t') :
    t'.buffer = t.buffer ∧ t'.otherBuffer = t.otherBuffer := by
  rw [C05_move h hf] at he
  cases he
  cases f <;> simp only [covered, Bool.false_eq_true] at hf <;>
    first
    | exact ⟨rfl, rfl⟩
    | (simp only [moveSpec, oneDown]; split <;> (try split) <;> exact ⟨rfl, rfl⟩)

/-- the cursor stays on the screen: a row of the screen, a column of the screen or the wrap-pending
    column with the flag set -/
theorem C05_stays_on_screen {t t' : Terminal} {f : Function} (h : TInv t = true)
    (hf : covered t f = true) (he : t.execute f = some t') :
    t'.rows = t.rows ∧ t'.cols = t.cols ∧ t'.cursor.row < t'.rows
      ∧ ((t'.pendingWrap = true ∧ t'.cursor.col = t'.cols) ∨ (t'.pendingWrap = false ∧ t'.cursor.col < t'.cols)) := by
  rw [C05_move h hf] at he
  cases he
  have F := facts h
  have hc := F.cols
  have hr := F.rows
  have hrow := F.row
  have htb := F.tb
  have hbr := F.br
  have keep : t.rows = t.rows ∧ t.cols = t.cols ∧ t.cursor.row < t.rows
      ∧ ((t.pendingWrap = true ∧ t.cursor.col = t.cols) ∨ (t.pendingWrap = false ∧ t.cursor.col < t.cols)) :=
    ⟨rfl, rfl, F.row, F.col⟩
  have place : ∀ (s : Terminal) (c r : Nat), s.rows = t.rows → s.cols = t.cols → c < t.cols → r < t.rows →
      (cursorAt s c r).rows = t.rows ∧ (cursorAt s c r).cols = t.cols
        ∧ (cursorAt s c r).cursor.row < (cursorAt s c r).rows
        ∧ (((cursorAt s c r).pendingWrap = true ∧ (cursorAt s c r).cursor.col = (cursorAt s c r).cols)
            ∨ ((cursorAt s c r).pendingWrap = false ∧ (cursorAt s c r).cursor.col < (cursorAt s c r).cols)) := by
    intro s c r h1 h2 h3 h4
    refine ⟨h1, h2, ?_, Or.inr ⟨rfl, ?_⟩⟩
    · show r < s.rows; omega
    · show c < s.cols; omega
  have tabs := Avt.Lemmas.C18.moves h
  cases f <;> simp only [covered, Bool.false_eq_true] at hf
  case bs => exact place t _ _ rfl rfl (by simp only [left, realCol, lastCol]; omega) hrow
  case cbt n =>
    refine ⟨rfl, rfl, ?_, Or.inr ⟨rfl, ?_⟩⟩
    · exact (tabs (arg n)).2.2.2.2.2 ▸ hrow
    · exact (tabs (arg n)).2.2.2.1
  case cha n => exact place t _ _ rfl rfl (by simp only [absCol, lastCol]; omega) hrow
  case cht n =>
    refine ⟨rfl, rfl, ?_, Or.inr ⟨rfl, ?_⟩⟩
    · exact (tabs (arg n)).2.2.2.2.1 ▸ hrow
    · exact (tabs (arg n)).2.2.1
  case cnl n => exact place t _ _ rfl rfl (by omega) (by unfold down lastRow; split <;> omega)
  case cpl n => exact place t _ _ rfl rfl (by omega) (by unfold up; split <;> omega)
  case cr => exact place t _ _ rfl rfl (by omega) hrow
  case cub n => exact place t _ _ rfl rfl (by simp only [left, realCol, lastCol]; omega) hrow
  case cud n =>
    exact place t _ _ rfl rfl (by simp only [realCol, lastCol]; omega) (by unfold down lastRow; split <;> omega)
  case cuf n => exact place t _ _ rfl rfl (by simp only [right, lastCol]; omega) hrow
  case cup r c =>
    exact place t _ _ rfl rfl (by simp only [absCol, lastCol]; omega)
      (by unfold absRow lastRow; split <;> omega)
  case cuu n =>
    exact place t _ _ rfl rfl (by simp only [realCol, lastCol]; omega) (by unfold up; split <;> omega)
  case decrst ms => exact place _ _ _ rfl rfl (by omega) (by omega)
  case decset ms => exact place _ _ _ rfl rfl (by omega) (by omega)
  case decstbm a b =>
    refine place _ _ _ rfl rfl (by omega) ?_
    have : (newMargins t a b).1 < t.rows := by
      unfold newMargins
      simp only
      by_cases hcond : arg a - 1 < (if b = 0 then t.rows else b) - 1 ∧ (if b = 0 then t.rows else b) - 1 < t.rows
      · rw [if_pos hcond]; show arg a - 1 < t.rows; omega
      · rw [if_neg hcond]; show t.topMargin < t.rows; omega
    show (if t.originMode = true then (newMargins t a b).1 else 0) < t.rows
    split <;> omega
  case ht =>
    refine ⟨rfl, rfl, ?_, Or.inr ⟨rfl, ?_⟩⟩
    · exact (tabs 1).2.2.2.2.1 ▸ hrow
    · exact (tabs 1).2.2.1
  case lf =>
    simp only [moveSpec, oneDown, lastRow]
    by_cases hlt : t.cursor.row < t.rows - 1 <;> by_cases hnl : t.newLineMode = true <;>
      simp only [hlt, hnl, if_true, if_false]
    · exact place _ _ _ rfl rfl (by omega) (by show t.cursor.row + 1 < t.rows; omega)
    · exact place _ _ _ rfl rfl (by simp only [realCol, lastCol]; omega) (by omega)
    · exact place _ _ _ rfl rfl (by omega) hrow
    · exact keep
  case nel =>
    simp only [moveSpec, oneDown, lastRow]
    by_cases hlt : t.cursor.row < t.rows - 1 <;> simp only [hlt, if_true, if_false]
    · exact place _ _ _ rfl rfl (by omega) (by show t.cursor.row + 1 < t.rows; omega)
    · exact place _ _ _ rfl rfl (by omega) hrow
  case ri =>
    simp only [moveSpec]
    split
    · exact place _ _ _ rfl rfl (by simp only [realCol, lastCol]; omega) (by omega)
    · exact keep
  case vpa n =>
    exact place t _ _ rfl rfl (by simp only [realCol, lastCol]; omega)
      (by unfold absRow lastRow; split <;> omega)
  case vpr n =>
    exact place t _ _ rfl rfl (by simp only [realCol, lastCol]; omega) (by unfold down lastRow; split <;> omega)

/-- RI off the top margin moves the cursor up exactly one row (not past row 0) whatever the origin
    mode: the resulting position does not depend on `originMode` -/
theorem C05_ri_independent_of_origin {t : Terminal} (h : TInv t = true)
    (hne : t.cursor.row ≠ t.topMargin) (o : Bool) :
    (({ t with originMode := o } : Terminal).execute .ri).map (fun s => (s.cursor, s.pendingWrap))
      = (t.execute .ri).map (fun s => (s.cursor, s.pendingWrap))
    ∧ ∀ t', t.execute .ri = some t' → t'.cursor.row = t.cursor.row - 1 := by
  have h' : TInv ({ t with originMode := o } : Terminal) = true := h
  have c : covered t .ri = true := by simpa [covered] using hne
  have c' : covered ({ t with originMode := o } : Terminal) .ri = true := c
  rw [C05_move h c, C05_move h' c']
  refine ⟨?_, ?_⟩
  · simp only [moveSpec, Option.map_some]
    split <;> rfl
  · intro t' he
    cases he
    simp only [moveSpec]
    split
    · rfl
    · show t.cursor.row = t.cursor.row - 1; omega

/-- relative vertical moves in words: exactly `n` rows (`n` = the parameter, missing or 0 meaning 1)
    when there is room, otherwise the margin (or the screen edge when starting outside the region);
    a move that starts inside the region ends inside it -/
theorem C05_vertical {t : Terminal} (h : TInv t = true) (n : Nat) :
    (t.topMargin ≤ t.cursor.row → t.topMargin + arg n ≤ t.cursor.row → up t (arg n) = t.cursor.row - arg n)
    ∧ (t.topMargin ≤ t.cursor.row → t.cursor.row < t.topMargin + arg n → up t (arg n) = t.topMargin)
    ∧ (t.cursor.row < t.topMargin → up t (arg n) = t.cursor.row - arg n)
    ∧ (t.cursor.row ≤ t.bottomMargin → t.cursor.row + arg n ≤ t.bottomMargin → down t (arg n) = t.cursor.row + arg n)
    ∧ (t.cursor.row ≤ t.bottomMargin → t.bottomMargin < t.cursor.row + arg n → down t (arg n) = t.bottomMargin)
    ∧ (t.bottomMargin < t.cursor.row → down t (arg n) = min (t.rows - 1) (t.cursor.row + arg n))
    ∧ (t.topMargin ≤ t.cursor.row → t.cursor.row ≤ t.bottomMargin →
        t.topMargin ≤ up t (arg n) ∧ up t (arg n) ≤ t.bottomMargin
          ∧ t.topMargin ≤ down t (arg n) ∧ down t (arg n) ≤ t.bottomMargin) := by
  have F := facts h
  have := F.tb
  have := F.br
  have := arg_pos n
  unfold up down lastRow
  refine ⟨?_, ?_, ?_, ?_, ?_, ?_, ?_⟩
  all_goals intros
  all_goals repeat' apply And.intro
  all_goals repeat' split
  all_goals omega

/-- absolute addressing in words: 1-based coordinates clamped to the screen, or — in origin mode —
    relative to and clamped within the scroll region -/
theorem C05_absolute {t : Terminal} (h : TInv t = true) (r : Nat) :
    (t.originMode = false → absRow t (arg r - 1) = min (arg r - 1) (t.rows - 1))
    ∧ (t.originMode = true → absRow t (arg r - 1) = min (t.topMargin + (arg r - 1)) t.bottomMargin
        ∧ t.topMargin ≤ absRow t (arg r - 1) ∧ absRow t (arg r - 1) ≤ t.bottomMargin) := by
  have F := facts h
  have := F.tb
  unfold absRow lastRow
  refine ⟨?_, ?_⟩ <;> intro ho <;> simp only [ho, if_true, Bool.false_eq_true, if_false]
  refine ⟨trivial, ?_, ?_⟩ <;> omega

/-! ### the hypotheses are satisfiable on a non-trivial state -/

/-- 10×6, scroll region rows 1..3, origin mode on, cursor in the wrap-pending column of row 4
    (below the region), a customised stop vector -/
def C05_example : Terminal :=
  { cols := 10, rows := 6, buffer := Buffer.new 10 6 none none, otherBuffer := Buffer.new 10 6 (some 0) none,
    activeBufferType := .primary, scrollbackLimit := none, cursor := { col := 10, row := 4 }, pen := {},
    charsets := (.ascii, .ascii), activeCharset := 0, tabs := [3, 8], insertMode := false,
    originMode := true, autoWrapMode := true, newLineMode := false, cursorKeysMode := .normal,
    pendingWrap := true, topMargin := 1, bottomMargin := 3, savedCtx := {}, alternateSavedCtx := {},
    dirtyLines := Dirty.new 6, xtwinops := false }

example : TInv C05_example = true ∧ covered C05_example (.cuu 0) = true ∧ covered C05_example .ri = true
    ∧ covered C05_example (.cup 9 9) = true ∧ covered C05_example (.decrst [.origin]) = true
    ∧ (moveSpec C05_example (.cuu 9)).cursor = { col := 9, row := 1 }      -- stops at the top margin
    ∧ (moveSpec C05_example (.cud 9)).cursor = { col := 9, row := 5 }      -- starts below the region
    ∧ (moveSpec C05_example (.cub 2)).cursor = { col := 7, row := 4 }      -- counted from the last real column
    ∧ (moveSpec C05_example (.cup 9 9)).cursor = { col := 8, row := 3 }    -- clamped within the region
    ∧ (moveSpec C05_example .ri).cursor = { col := 9, row := 3 }
    ∧ (moveSpec C05_example (.cbt 1)).cursor = { col := 8, row := 4 } := by
  decide

/-! ### origin mode is state: only DECSET / DECRST ?6, the restores and the resets change it -/

/-- **Function level.**  A function for which `setsOrigin` is false — anything but DECSET / DECRST ?6,
    DECRC / SCORC / DECRST ?1048 / ?1049 (origin mode is part of the saved context), DECSTR and RIS —
    leaves origin mode exactly as it was: every terminal state, every geometry, no invariant needed.
    In particular every cursor movement and placement, DECSTBM (which homes the cursor *according to*
    origin mode but does not change it), every other mode, saving the cursor, entering the alternate
    screen (?47h / ?1047h / ?1049h), leaving it with ?47l / ?1047l, and XTWINOPS. -/
theorem C05_origin_persists {t t' : Terminal} {f : Function} (hf : setsOrigin f = false)
    (h : t.execute f = some t') : t'.originMode = t.originMode :=
  Avt.C05O.frame hf h

/-- **Call level.**  If none of the functions the parser emits for the input (from the parser state
    the call starts in) sets origin mode, then the fold of `execute` over them, `Vt.feedAll`,
    `Vt::feed_str` (which ends with `changes()` + `gc()`) and per-character `Vt::feed` all leave origin
    mode as it was.  This is the clause `origin-mode-persists` of the oracle (`Spec.C05.checkStep`). -/
theorem C05_origin_persists_feed {v : Vt} {xs : List Nat}
    (hf : ∀ f ∈ Frame.emitted v.parser xs, setsOrigin f = false) :
    (∀ t', Terminal.foldM' Terminal.execute (Frame.emitted v.parser xs) v.terminal = some t' →
        t'.originMode = v.terminal.originMode)
    ∧ (∀ v', v.feedAll xs = some v' → v'.terminal.originMode = v.terminal.originMode)
    ∧ (∀ v' ch, v.feedStr xs = some (v', ch) → v'.terminal.originMode = v.terminal.originMode)
    ∧ (∀ c v', xs = [c] → v.feed c = some v' → v'.terminal.originMode = v.terminal.originMode) :=
  ⟨fun _ h => Avt.C05O.frame_many hf h,
   fun _ h => Avt.C05O.feedAll_om xs hf h,
   fun _ _ h => Avt.C05O.feedStr_om hf h,
   fun _ _ e h => Avt.C05O.feed_om (by rw [← e]; exact hf) h⟩

/-- **Resize.**  `Vt::resize` (and `Terminal.resize`, which XTWINOPS performs) moves tab stops, resets
    the margins on a height change and reflows; origin mode is as before — the oracle's clause
    `resize-keeps-origin-mode`. -/
theorem C05_origin_persists_resize {v v' : Vt} {ch : Changes} {cols rows : Nat}
    (h : v.resize cols rows = some (v', ch)) : v'.terminal.originMode = v.terminal.originMode :=
  Avt.C05O.vtResize_om h

/-! the hypotheses are satisfiable: a 6x5 terminal gets region rows 1..3 (`CSI 2;4 r`) and origin mode
    on (`CSI ?6 h`); then it saves the cursor and enters the alternate screen (`CSI ?1049 h`), sets
    other margins (`CSI 1;2 r`), places the cursor (`CSI 9;9 H` — clamped within the region, because
    origin mode is still on), leaves the alternate screen with `CSI ?1047 l`, and is resized (4x3, a
    height change, which resets the region): none of the emitted functions sets origin mode, and it is
    still on -/

private def exSetup : List Nat := [0x1b, 0x5b, 0x32, 0x3b, 0x34, 0x72, 0x1b, 0x5b, 0x3f, 0x36, 0x68]

private def exQuiet : List Nat :=
  [0x1b, 0x5b, 0x3f, 0x31, 0x30, 0x34, 0x39, 0x68, 0x1b, 0x5b, 0x31, 0x3b, 0x32, 0x72,
   0x1b, 0x5b, 0x39, 0x3b, 0x39, 0x48, 0x1b, 0x5b, 0x3f, 0x31, 0x30, 0x34, 0x37, 0x6c]

private def exOrigin : Option (Vt × Vt × Vt) := do
  let v ← Vt.new 6 5 none
  let (v0, _) ← v.feedStr exSetup
  let (v1, _) ← v0.feedStr exQuiet
  let (v2, _) ← v1.resize 4 3
  pure (v0, v1, v2)

example : ∃ v0 v1 v2, exOrigin = some (v0, v1, v2)
    ∧ (v0.terminal.originMode, v0.terminal.topMargin, v0.terminal.bottomMargin) = (true, 1, 3)
    ∧ Frame.emitted v0.parser exQuiet
        = [.decset [.saveCursorAltScreenBuffer], .decstbm 1 2, .cup 9 9, .decrst [.altScreenBuffer]]
    ∧ (Frame.emitted v0.parser exQuiet).all (fun f => !setsOrigin f) = true
    ∧ v1.terminal.activeBufferType = .primary
    ∧ (v1.terminal.topMargin, v1.terminal.bottomMargin) = (0, 1)
    ∧ v1.terminal.cursor = { col := 5, row := 1 }
    ∧ v1.terminal.originMode = true
    ∧ (v2.terminal.cols, v2.terminal.rows, v2.terminal.topMargin, v2.terminal.bottomMargin) = (4, 3, 0, 2)
    ∧ v2.terminal.originMode = true := by
  refine ⟨_, _, _, rfl, ?_⟩
  decide

end Avt
