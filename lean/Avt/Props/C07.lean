/- Property theorems for C07 (placeholder until the proofs land). -/
import Avt.Spec.C07
