/-
  Avt.Props.C07 — property C07: erase, insert and delete touch exactly their documented extent.

  All theorems are about the model (`Avt.Model.*`), for every terminal state satisfying the global
  invariant (`TInv`, C02), every geometry, every count, every cursor column including the
  wrap-pending one — no bounds.  The vocabulary (`editSpec`, `extent`, `clearsMark`, `cellAt`,
  `markAt`, …) is defined in Avt/Spec/C07.lean and is what the oracle evaluates on implementation
  states.

  Obligations (all proved at full strength):
    C07_edit  C07_outside_extent  C07_erased_cells  C07_decaln_cells  C07_ich_shift  C07_dch_shift
    C07_wrap_marks  C07_wrap_marks_ed  C07_frame
-/
import Avt.Lemmas.C07Props

namespace Avt.Props.C07
open Avt Avt.Spec Avt.Spec.C07 Avt.C07L

/-- ED 0/1/2/3, EL 0/1/2, ECH n, ICH n, DCH n, DECALN: total, and exactly `editSpec` -/
theorem C07_edit (t : Terminal) (f : Function) (h : TInv t = true) (hf : coveredEdit f = true) :
    t.execute f = some (editSpec t f) :=
  edit_eq t f h hf

/-- every cell outside the extent — in the cursor's row and in every other row — is unchanged -/
theorem C07_outside_extent (t t' : Terminal) (f : Function) (h : TInv t = true)
    (hf : coveredEdit f = true) (he : t.execute f = some t') (r c : Nat)
    (hx : extent t f r c = false) : cellAt t' r c = cellAt t r c := by
  rw [C07_edit t f h hf] at he
  cases he
  exact outside_extent t f h hf r c hx

/-- ED / EL / ECH: every cell of the extent becomes a blank carrying the current pen -/
theorem C07_erased_cells (t t' : Terminal) (f : Function) (h : TInv t = true)
    (hf : erases f = true) (he : t.execute f = some t') (r c : Nat) (hr : r < t.rows)
    (hc : c < t.cols) (hx : extent t f r c = true) : cellAt t' r c = some (Cell.blank t.pen) := by
  have hcov : coveredEdit f = true := by cases f <;> simp_all [erases, coveredEdit]
  rw [C07_edit t f h hcov] at he
  cases he
  exact inside_extent t f h hf r c hr hc hx

/-- DECALN: 'E' (0x45) with the default pen in every cell of the view -/
theorem C07_decaln_cells (t t' : Terminal) (h : TInv t = true) (he : t.execute .decaln = some t')
    (r c : Nat) (hr : r < t.rows) (hc : c < t.cols) : cellAt t' r c = some ⟨0x45, Pen.default⟩ := by
  rw [C07_edit t .decaln h rfl] at he
  cases he
  exact decaln_cells t h r c hr hc

/-- ICH n: `k = min (as_usize n 1) (cols - col)` blanks at the cursor, the tail shifted right by `k`,
    what falls off the right edge discarded (`k = 0` in the wrap-pending column: nothing moves) -/
theorem C07_ich_shift (t t' : Terminal) (n : Nat) (h : TInv t = true)
    (he : t.execute (.ich n) = some t') (c : Nat) :
    cellAt t' t.cursor.row c =
      if c < t.cursor.col then cellAt t t.cursor.row c
      else if c < t.cursor.col + min (asUsize n 1) (t.cols - t.cursor.col) then some (Cell.blank t.pen)
      else if c < t.cols then cellAt t t.cursor.row (c - min (asUsize n 1) (t.cols - t.cursor.col))
      else none := by
  rw [C07_edit t _ h rfl] at he
  cases he
  exact ich_row t h n c

/-- DCH n: from `col' = min col (cols - 1)` (the cursor first leaves the wrap-pending column),
    `k = min (as_usize n 1) (cols - col')` cells are deleted, the tail shifted left by `k`, `k` blanks
    in the current pen appended -/
theorem C07_dch_shift (t t' : Terminal) (n : Nat) (h : TInv t = true)
    (he : t.execute (.dch n) = some t') (c : Nat) :
    let col' := min t.cursor.col (t.cols - 1)
    let k := min (asUsize n 1) (t.cols - col')
    cellAt t' t.cursor.row c =
      if c < col' then cellAt t t.cursor.row c
      else if c + k < t.cols then cellAt t t.cursor.row (c + k)
      else if c < t.cols then some (Cell.blank t.pen) else none := by
  rw [C07_edit t _ h rfl] at he
  cases he
  exact dch_row t h n c

/-- wrap marks, EL / ECH / ICH / DCH / DECALN: the cursor's row stops being soft-wrapped exactly for
    EL 0, EL 2, DCH, and ECH reaching the end of the row (`clearsMark`); EL 1, ICH, DECALN and an ECH
    that stops short leave it; no other row's mark changes -/
theorem C07_wrap_marks (t t' : Terminal) (f : Function) (h : TInv t = true)
    (hf : (∃ s, f = .el s) ∨ (∃ n, f = .ech n) ∨ (∃ n, f = .ich n) ∨ (∃ n, f = .dch n) ∨ f = .decaln)
    (he : t.execute f = some t') (r : Nat) :
    markAt t' r = if r = t.cursor.row ∧ clearsMark t f = true then some false else markAt t r := by
  have hcov : coveredEdit f = true := by
    rcases hf with ⟨s, hf⟩ | ⟨n, hf⟩ | ⟨n, hf⟩ | ⟨n, hf⟩ | hf <;> subst hf <;> rfl
  rw [C07_edit t f h hcov] at he
  cases he
  exact marks_row_edits t f h hf r

/-- wrap marks, ED: ED 0 clears the mark of the cursor's row and replaces the rows below by fresh
    unwrapped rows; ED 1 replaces the rows above by fresh rows and leaves the cursor row's mark;
    ED 2 makes every row fresh; ED 3 changes nothing -/
theorem C07_wrap_marks_ed (t : Terminal) (h : TInv t = true) (r : Nat) :
    (∀ t', t.execute (.ed .below) = some t' →
        markAt t' r = if r < t.cursor.row then markAt t r else if r < t.rows then some false else none)
    ∧ (∀ t', t.execute (.ed .above) = some t' →
        markAt t' r = if r < t.cursor.row then some false else markAt t r)
    ∧ (∀ t', t.execute (.ed .all) = some t' → markAt t' r = if r < t.rows then some false else none)
    ∧ (∀ t', t.execute (.ed .savedLines) = some t' → t' = t) := by
  obtain ⟨h1, h2, h3, _⟩ := marks_ed t h r
  refine ⟨fun t' he => ?_, fun t' he => ?_, fun t' he => ?_, fun t' he => ?_⟩
  · rw [C07_edit t _ h rfl] at he; cases he; exact h1
  · rw [C07_edit t _ h rfl] at he; cases he; exact h2
  · rw [C07_edit t _ h rfl] at he; cases he; exact h3
  · rw [C07_edit t _ h rfl] at he; cases he; rfl

/-- the cursor and all modes stay exactly as they were: after a covered function everything except
    the view, the changed-row flags, the cursor column and the wrap-pending flag equals the old
    state; the cursor row and visibility never change; and the cursor column / wrap-pending flag
    change only for DCH issued from the wrap-pending column, which first moves to the last column -/
theorem C07_frame (t t' : Terminal) (f : Function) (h : TInv t = true) (hf : coveredEdit f = true)
    (he : t.execute f = some t') :
    ({ t' with buffer := { t'.buffer with view := t.buffer.view }
               dirtyLines := t.dirtyLines, cursor := t.cursor, pendingWrap := t.pendingWrap } : Terminal) = t
    ∧ t'.cursor.row = t.cursor.row ∧ t'.cursor.visible = t.cursor.visible
    ∧ ((∃ n, f = .dch n) ∧ t.cursor.col ≥ t.cols → t'.cursor.col = t.cols - 1 ∧ t'.pendingWrap = false)
    ∧ (¬ ((∃ n, f = .dch n) ∧ t.cursor.col ≥ t.cols) →
        t'.cursor = t.cursor ∧ t'.pendingWrap = t.pendingWrap) := by
  rw [C07_edit t f h hf] at he
  cases he
  obtain ⟨h1, h2, h3, h4⟩ := edit_frame t f
  refine ⟨h1, h2, h3, fun hd => ?_, fun hd => ?_⟩
  · obtain ⟨⟨n, hn⟩, hge⟩ := hd
    subst hn
    simp [editSpec, onRow, withView, leavePending, hge]
  · rcases h4 with h4 | h4
    · exact absurd h4 hd
    · exact h4

/-! ### the hypotheses are satisfiable: a 4x2 terminal, coloured pen, soft-wrapped first row, cursor
    in the wrap-pending column -/

private def exPen : Pen := { fg := some (.indexed 1), attrs := 1 }
private def exRow (c : Nat) (w : Bool) : Line := ⟨[⟨c, {}⟩, ⟨c + 1, {}⟩, ⟨c + 2, {}⟩, ⟨c + 3, {}⟩], w⟩

private def exT : Terminal :=
  { cols := 4, rows := 2,
    buffer := { sb := [], view := [exRow 0x61 true, exRow 0x65 false],
                cols := 4, rows := 2, limit := none, trimNeeded := false },
    otherBuffer := Buffer.new 4 2 (some 0) none,
    activeBufferType := .primary, scrollbackLimit := none,
    cursor := { col := 4, row := 0 }, pen := exPen, charsets := (.ascii, .ascii), activeCharset := 0,
    tabs := [], insertMode := false, originMode := false, autoWrapMode := true, newLineMode := false,
    cursorKeysMode := .normal, pendingWrap := true, topMargin := 0, bottomMargin := 1,
    savedCtx := {}, alternateSavedCtx := {}, dirtyLines := [false, false],
    xtwinops := false }

example : TInv exT = true := by decide

/-- DCH 2 from the wrap-pending column: the cursor moves to the last column, one cell (capped) is
    deleted there, the row loses its wrap mark, row 1 is untouched -/
example : exT.execute (.dch 2) = some
    { exT with
      buffer := { exT.buffer with
        view := [⟨[⟨0x61, {}⟩, ⟨0x62, {}⟩, ⟨0x63, {}⟩, Cell.blank exPen], false⟩, exRow 0x65 false] },
      cursor := { col := 3, row := 0 }, pendingWrap := false,
      dirtyLines := [true, false] } := by
  rw [C07_edit exT _ (by decide) rfl]
  decide

/-- EL 1 from the wrap-pending column erases the whole row and keeps the wrap mark -/
example : (editSpec exT (.el .toLeft)).buffer.view
    = [⟨List.replicate 4 (Cell.blank exPen), true⟩, exRow 0x65 false] := by decide

end Avt.Props.C07
