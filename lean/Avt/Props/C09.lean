/- Property theorems for C09 (placeholder until the proofs land). -/
import Avt.Spec.C09
