/-
  Avt.Props.C09 — logical text is reproduced exactly, whatever the width.

  Vocabulary (Avt/Spec/C09.lean — the same definitions the oracle evaluates on the implementation):
  `isPrintable`/`allPrintable`, `inputOf` (lines joined by CR LF), `trimEndWs` (= the model's `trimEnd`,
  Rust's `str::trim_end`: trailing Unicode White_Space), `dropTrailingEmpty`, `textOK`, `unwrapOK`,
  `sameText`, `instOK`.

  Proved here, for every width and height ≥ 1, every list of printable lines of any lengths (no bounds),
  on a fresh terminal with unlimited scrollback:
  * `C09_text`        — `Vt.feedStr` accepts the input and `text()` is the input lines, trimmed, trailing
                        empty lines aside;
  * `C09_unwrap`      — `TextUnwrapper` over `lines()` gives the same lines up to trailing white space
                        (equal after `trimEndWs`, and each unwrapped line is a prefix of the input line);
  * `C09_width_indep` — any two geometries give the same `text()`;
  * `C09_text_full_holds` — all of it in one statement (`C09_text_full`).
  The proof is the refinement to the "typewriter" invariant `TW` (Lemmas/C09Typewriter.lean):
  `C09_print_step` (one printed character, with or without pending wrap / scrolling),
  `C09_crlf_step`, and the characterisations `C09_textGo_spec`, `C09_unwrapMany_spec`,
  `C09_unwrapMany_append`, `C09_unwrap_vs_text`, the `trimEnd` lemmas.  The parser side uses the first
  arm of the regenerated table of `Parser::feed` (`feedArms_head`) and the dispatch of CR and LF.
-/
import Avt.Lemmas.C09Vt

namespace Avt.Props.C09
open Avt Avt.Spec.C09 Avt.Lemmas

/-! ### building blocks -/

/-- `trimEnd` is idempotent -/
theorem C09_trimEnd_idem (s : List Nat) : trimEnd (trimEnd s) = trimEnd s := trimEnd_idem s

/-- a line ending in a non-white-space character is left alone -/
theorem C09_trimEnd_append_singleton {xs : List Nat} {c : Nat} (h : isWhitespace c = false) :
    trimEnd (xs ++ [c]) = xs ++ [c] := trimEnd_append_singleton h

/-- trailing white space is removed -/
theorem C09_trimEnd_append_ws {xs ws : List Nat} (h : ∀ c ∈ ws, isWhitespace c = true) :
    trimEnd (xs ++ ws) = trimEnd xs := trimEnd_append_ws h

/-- `Buffer::text` of any list of rows: for each maximal group of rows joined along wrap marks,
    `trimEnd` of the concatenated characters -/
theorem C09_textGo_spec (ls : List Line) (cur : List Nat) :
    Buffer.textGo ls cur = (joinText ls cur).map trimEnd := textGo_spec ls cur

/-- `TextUnwrapper` over any list of rows: wrapped rows are accumulated untrimmed, the closing row of
    each group is trimmed on its own -/
theorem C09_unwrapMany_spec (ls : List Line) (acc : List Nat) :
    unwrapMany acc ls = (unwrapAcc ls acc, unwrapOut ls acc) := unwrapMany_spec ls acc

/-- `TextUnwrapper` is a fold that commutes with list append -/
theorem C09_unwrapMany_append (xs ys : List Line) (acc : List Nat) :
    unwrapMany acc (xs ++ ys) =
      ((unwrapMany (unwrapMany acc xs).1 ys).1,
       (unwrapMany acc xs).2 ++ (unwrapMany (unwrapMany acc xs).1 ys).2) := unwrapMany_append xs ys acc

/-- for ANY buffer content whose last row is unwrapped, the unwrapper agrees with `text()` up to
    trailing white space (it trims the final row of each logical line only) -/
theorem C09_unwrap_vs_text (ls : List Line) (h : lastUnwrapped ls = true) :
    (unwrapAll ls).map trimEnd = Buffer.textGo ls [] := unwrapAll_trimEnd h

/-- one printed character keeps the typewriter invariant (deferred wrap, wrap mark, scrolling into
    the scrollback included) -/
theorem C09_print_step {t : Terminal} {logical : List (List Nat)} (hm : TWMode t) (hg : TWGeom t)
    (h : TW t logical) (ch : Nat) :
    ∃ t', t.execute (.print ch) = some t' ∧ TWMode t' ∧ TWGeom t' ∧ TW t' (typeChar logical ch) :=
  TW_print hm hg h ch

/-- CR LF keeps the typewriter invariant: it closes the line, never marking its last row wrapped -/
theorem C09_crlf_step {t : Terminal} {logical : List (List Nat)} (hm : TWMode t) (hg : TWGeom t)
    (h : TW t logical) :
    ∃ t', (t.execute .cr).bind (fun t1 => t1.execute .lf) = some t' ∧ TWMode t' ∧ TWGeom t'
      ∧ TW t' (typeNewline logical) :=
  TW_crlf hm hg h

/-- in the typewriter state `text()` and the unwrapper give the typed lines -/
theorem C09_TW_text {t : Terminal} {logical : List (List Nat)} (hm : TWMode t) (h : TW t logical) :
    instOK logical t.text (unwrapAll t.buffer.lines) = true := by
  simp only [instOK, Bool.and_eq_true]
  exact ⟨TW_text hm h, TW_unwrapOK h⟩

/-! ### the property -/

/-- the terminal reached by feeding the lines (joined by CR LF) to a fresh `cols × rows` terminal with
    unlimited scrollback -/
def fed (cols rows : Nat) (ls : List (List Nat)) : Option (Vt × Changes) :=
  (Vt.new cols rows none).bind fun v0 => v0.feedStr (inputOf ls)

/-- **C09, full statement** -/
def C09_text_full : Prop :=
  ∀ (ls : List (List Nat)), allPrintable ls = true →
    (∀ (c r : Nat), 1 ≤ c → 1 ≤ r →
      ∃ v ch, fed c r ls = some (v, ch) ∧ instOK ls v.text (unwrapAll v.lines) = true)
    ∧ (∀ (c0 r0 c1 r1 : Nat), 1 ≤ c0 → 1 ≤ r0 → 1 ≤ c1 → 1 ≤ r1 →
      ∀ v0 ch0 v1 ch1, fed c0 r0 ls = some (v0, ch0) → fed c1 r1 ls = some (v1, ch1) →
        sameText v0.text v1.text = true)

theorem prefixwise_nil_right (u : List (List Nat)) : prefixwise u [] = true := by
  cases u <;> rfl

/-- what `fed` reaches, in terms of the oracle's predicates -/
theorem fed_ok {c r : Nat} (hc : 1 ≤ c) (hr : 1 ≤ r) (ls : List (List Nat)) (hp : allPrintable ls = true) :
    ∃ v ch, fed c r ls = some (v, ch) ∧ textOK ls v.text = true ∧ unwrapOK ls (unwrapAll v.lines) = true := by
  obtain ⟨v, ch, t1, hfed, hm1, hw1, hl, ha⟩ := feedStr_TW hc hr ls hp
  refine ⟨v, ch, hfed, ?_, ?_⟩
  · have htext : v.text = t1.text := by
      simp only [Vt.text, Terminal.text, Terminal.primaryBuffer, ha, hm1.primary, if_true, Buffer.text, hl]
    have := TW_text hm1 hw1
    simp only [textOK, beq_iff_eq] at this ⊢
    rw [htext, this, expectedText_typeText]
  · have hlines : v.lines = t1.buffer.lines := hl
    have h1 := TW_unwrapOK hw1
    simp only [unwrapOK, Bool.and_eq_true, beq_iff_eq] at h1 ⊢
    rw [hlines]
    refine ⟨by rw [h1.1, expectedText_typeText], ?_⟩
    by_cases hls : ls = []
    · subst hls; exact prefixwise_nil_right _
    · rw [← typeText_fresh ls hls]; exact h1.2

/-- **C09, `text()`**: for every geometry, the input is accepted and `text()` returns exactly the input
    lines, trailing white space trimmed, trailing empty lines aside -/
theorem C09_text {c r : Nat} (hc : 1 ≤ c) (hr : 1 ≤ r) (ls : List (List Nat)) (hp : allPrintable ls = true) :
    ∃ v ch, fed c r ls = some (v, ch) ∧ textOK ls v.text = true := by
  obtain ⟨v, ch, h1, h2, -⟩ := fed_ok hc hr ls hp
  exact ⟨v, ch, h1, h2⟩

/-- **C09, `TextUnwrapper`**: unwrapping `lines()` gives the same lines up to trailing white space -/
theorem C09_unwrap {c r : Nat} (hc : 1 ≤ c) (hr : 1 ≤ r) (ls : List (List Nat)) (hp : allPrintable ls = true) :
    ∃ v ch, fed c r ls = some (v, ch) ∧ unwrapOK ls (unwrapAll v.lines) = true := by
  obtain ⟨v, ch, h1, -, h3⟩ := fed_ok hc hr ls hp
  exact ⟨v, ch, h1, h3⟩

/-- **C09, width independence**: the same text at two geometries gives the same `text()` -/
theorem C09_width_indep {c0 r0 c1 r1 : Nat} (h0 : 1 ≤ c0) (h0' : 1 ≤ r0) (h1 : 1 ≤ c1) (h1' : 1 ≤ r1)
    (ls : List (List Nat)) (hp : allPrintable ls = true) {v0 v1 : Vt} {ch0 ch1 : Changes}
    (e0 : fed c0 r0 ls = some (v0, ch0)) (e1 : fed c1 r1 ls = some (v1, ch1)) :
    sameText v0.text v1.text = true := by
  obtain ⟨w0, d0, f0, t0, -⟩ := fed_ok h0 h0' ls hp
  obtain ⟨w1, d1, f1, t1, -⟩ := fed_ok h1 h1' ls hp
  rw [e0] at f0; rw [e1] at f1
  cases f0; cases f1
  simp only [textOK, beq_iff_eq] at t0 t1
  simp only [sameText, beq_iff_eq, t0, t1]

/-- the full statement holds -/
theorem C09_text_full_holds : C09_text_full := by
  intro ls hp
  refine ⟨?_, ?_⟩
  · intro c r hc hr
    obtain ⟨v, ch, h1, h2, h3⟩ := fed_ok hc hr ls hp
    exact ⟨v, ch, h1, by simp [instOK, h2, h3]⟩
  · intro c0 r0 c1 r1 h0 h0' h1 h1' v0 ch0 v1 ch1 e0 e1
    exact C09_width_indep h0 h0' h1 h1' ls hp e0 e1

/-! ### a concrete instance -/

/-- "abcdef", "", "xy  " (trailing spaces), on 3x2 (wraps twice, scrolls into the scrollback) and on
    7x4: the hypotheses are satisfiable, both runs succeed, `text()` is ["abcdef", "", "xy"] on both,
    the unwrapper agrees up to trailing white space — on the 3-wide screen "xy  " wraps, its last row
    is all blank, and the unwrapper yields "xy " where `text()` yields "xy": exactly the subtlety
    `unwrapOK` accounts for — and the rows left by auto-wrap carry the wrap mark -/
example :
    let ls : List (List Nat) := [[0x61, 0x62, 0x63, 0x64, 0x65, 0x66], [], [0x78, 0x79, 0x20, 0x20]]
    allPrintable ls = true ∧
    (match fed 3 2 ls, fed 7 4 ls with
     | some (a, _), some (b, _) =>
       instOK ls a.text (unwrapAll a.lines) && instOK ls b.text (unwrapAll b.lines) && sameText a.text b.text
         && a.text == [[0x61, 0x62, 0x63, 0x64, 0x65, 0x66], [], [0x78, 0x79]]
         && (a.lines.map Line.wrapped) == [true, false, false, true, false]
         && unwrapAll a.lines == [[0x61, 0x62, 0x63, 0x64, 0x65, 0x66], [], [0x78, 0x79, 0x20]]
     | _, _ => false) = true := by
  decide

end Avt.Props.C09
