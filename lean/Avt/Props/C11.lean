/-
  Avt.Props.C11 — dump() reproduces the terminal for all future input.

  The property is decomposed as in DESIGN.md §6/C11 (all definitions are those of Avt/Spec/C11.lean,
  which the oracle evaluates on the implementation):

    Obs s                what the public API shows (view cells, pens, wrap marks, cursor, cursor-key mode)
    normD s              normal form erasing what no future input can observe
    C11_dump_full        Reach s → ¬resizedOnAlt s → cursorStepFaithful s → normD (restore s) = normD s
    C11_norm_sound       normD a = normD b → normD (feed a c) = normD (feed b c)        (for reachable a, b)
    C11_from_parts       the two together give: Obs equal after every continuation      [proved]

  STATUS: FULL up to the known findings.  `C11_holds`: every REACHABLE state that is not one of the known
  exceptions is restored by its own `dump()` up to `normD`, and original and restored show the same through
  the public API after every continuation.  Three of the first statements turned out FALSE of the model (and
  of the crate):
    * `C11_dump_full` for screens with `cols ≥ 65535` or `rows > 65535` — finding KF6 (numbers written by
      `dump()` are read back modulo 2^16; witness known/KF6.script, classifier `sizeExceedsU16`);
    * `C11_dump_full'` (= with the KF6 bound on the CURRENT size) for states whose parked ALTERNATE-screen saved
      position is `≥ 65535` while the primary screen is showing — finding KF7, same mechanism: no resize clamps
      the parked context, so the position survives a resize to any small size (witness known/KF7.script,
      classifier `parkedCtxExceedsU16`, `kf7Hist`; kernel-checked negation `C11_dump_full'_false` in
      Avt/Lemmas/C11KF7.lean, kept out of the default build because of its cost; `C11_dump_full'_false_of_witness` here);
    * `C11_norm_sound` for states resized while the alternate screen is showing (`C11_norm_sound_false`,
      kernel-checked witness): leaving the alternate screen reflows the parked primary and reads its
      scrollback.  The exception is the one the property names (KF2).
  The corrected statements are THEOREMS: `C11_dump_full''` (`C11_dump_full''_holds`) and `C11_norm_sound'`
  (`C11_norm_sound'_holds`).

  Proved, unbounded (every size within KF6's bound, every content, every pen, every parameter list):

  the property
    Avt.Props.C11.C11_holds                   for every reachable state outside KF1/KF2/KF3/KF6/KF7: `dump()` fed to a
                                              fresh terminal of the same size restores the state up to `normD`, hence
                                              (`C11_norm_obs`) the same public observation, and the same observation
                                              after EVERY continuation (incl. completing a cut escape sequence)
    Avt.Props.C11.C11_dump_full''_holds       the restore half in full (either screen, all saved contexts, both
                                              routes of step 9)
    Avt.Props.C11.C11_from_dump_full''        restore half ⇒ property (continuation half discharged)
  reachable states are well-formed
    Avt.Props.C11.C11_reach_cellsInv          every reachable state: printable characters in every cell of both
                                              buffers incl. scrollback, `u8` pens everywhere (`CellsInv`)
    Avt.Props.C11.C11_reach_viewOK            … as the decidable `viewOKb` / `penOKb`
    Avt.Props.C11.C11_cellsInv_execute, C11_parser_emits_fnOK, C11_cellsInv_resize   the steps of that invariant
    Avt.Props.C11.C11_primary_end_to_end_reach  `C11_primary_end_to_end` over `Reach`, without `viewOKb`/`penOKb`
  restore half, by restriction removed
    Avt.Props.C11.C11_alt_ctx_partial         non-default saved context of the alternate screen (steps 4–6)
    Avt.Props.C11.C11_alternate_active_partial  alternate screen active (`C11_buffer_dump` twice)
    Avt.Props.C11.C11_csi_u_partial           `CSI u` route of step 9 under `cursorStepFaithful`
    Avt.Props.C11.C11_terminal_dump_general   `Terminal.dump` replayed on the fresh terminal (`Feeds` form), all cases
    Avt.Props.C11.C11_buffer_dump             `Buffer.dump` round trip: pen runs (SGR), REP-compressed runs,
                                              CR LF after unwrapped rows only; re-creates cells, pens and
                                              wrap marks of any view on a blank screen (dump steps 1 and 4)
    Avt.Props.C11.C11_dump_primary_partial    (earlier) END TO END restore for states on the PRIMARY screen (alternate
                                              screen's saved context default, cursor inside the region)
    Avt.Props.C11.C11_dump_blank_partial      (earlier) power-on screen, any pen, any parser state
    Avt.Props.C11.C11_parser_dump(_vt), C11_csi_roundtrip, C11_pen_dump(_chars), C11_renderDec_roundtrip
    step lemmas (Avt/Lemmas/C11Steps1–6.lean): one `Feeds fragment t t'` per fragment of `Terminal.dump`
                                              (tab stops, ESC 7, origin, margins, CUP, `CSI u` + relative moves,
                                              wrap-pending re-print, pen, visibility, charsets, insert/auto-wrap/
                                              LNM/DECCKM, `?1047h/l` in closed form on the replay stages)
  continuation half
    Avt.Props.C11.C11_norm_sound_step         normal-form soundness of EVERY control function (print/REP, cursor,
                                              erase/insert/delete, scroll, SGR, modes, tabs, save/restore, the
                                              alternate-screen switches, RIS, XTWINOPS)
    Avt.Props.C11.C11_norm_sound_step_inv     its invariant (TInv, not resized on the alternate screen) is kept
    Avt.Props.C11.C11_normP_sound             … of the parser, every character
    Avt.Props.C11.C11_pregOK_stable           the parser's register-shape invariant is kept by every character
    Avt.Props.C11.C11_norm_sound_feed         one character at `Vt` level, any parser state, any function
    Avt.Props.C11.C11_norm_sound'_holds       = the corrected continuation half
    Avt.Props.C11.C11_norm_sound_feedAll      whole continuations
    Avt.Props.C11.C11_reach_inv               every reachable state satisfies `Inv` and `PRegOK`
  earlier end-to-end statements (kept)
    Avt.Props.C11.C11_primary_end_to_end, C11_from_dump_full', C11_from_parts
  and the NEGATIONS on the known-finding witnesses (kernel evaluation of the whole model):
    Avt.Props.C11.KF1_witness  KF2_witness  KF3_witness  (+ `KFn_neighbour_ok`, `KF7_neighbour_ok`),
    C11_norm_sound_false, C11_dump_full'_false_of_witness (+ Avt/Lemmas/C11KF7.lean)

  What remains outside the theorems: the four findings themselves (KF1/KF3 need a redesign of dump step 9, KF2 a
  geometry-aware dump of the parked buffer, KF6/KF7 another encoding of large positions); on those states the
  oracle classifies the difference and checks that it is confined to what the finding can disturb.
-/
import Avt.Lemmas.C11Pen
import Avt.Lemmas.C11ParserNorm
import Avt.Lemmas.C11Witness
import Avt.Lemmas.C11Blank
import Avt.Lemmas.C11Steps3
import Avt.Lemmas.C11Sound3
import Avt.Lemmas.C11SoundReg
import Avt.Lemmas.C11Full

namespace Avt.Props.C11
open Avt Avt.Spec.C11 Avt.Lemmas.C11

/-! ### the full statements -/

/-- **C11, restore half (stated, not proved).**  For every reachable state that is not one of the
    known exceptions, feeding `dump()` into a fresh terminal of the same size succeeds and yields a
    state with the same normal form. -/
def C11_dump_full : Prop :=
  ∀ s : Vt, Lemmas.C11.Reach s → resizedOnAlt s.terminal = false → cursorStepFaithful s.terminal = true →
    ∃ r, restoreOf s = some r ∧ normD r = normD s

/-- **C11, continuation half (stated, not proved in full).**  Equality of normal forms is preserved
    by every further character (and the two sides panic together). -/
def C11_norm_sound : Prop :=
  ∀ a b : Vt, Lemmas.C11.Reach a → Lemmas.C11.Reach b → normD a = normD b →
    ∀ c : Nat, (a.feed c).map normD = (b.feed c).map normD

/-! ### proved fragments -/

theorem C11_feedAll_append (v : Vt) (xs ys : List Nat) :
    v.feedAll (xs ++ ys) = (v.feedAll xs).bind (fun v' => v'.feedAll ys) :=
  Lemmas.C19.feedAll_append v xs ys

/-- what `format!("{}", n)` prints consists of digits, at least one, and reads back to `n` -/
theorem C11_renderDec_roundtrip (n : Nat) :
    parseDec (renderDec n) = n ∧ renderDec n ≠ [] ∧ ∀ d ∈ renderDec n, 0x30 ≤ d ∧ d ≤ 0x39 :=
  ⟨parseDec_renderDec n, by rw [renderDec_eq_digits]; exact digits_ne_nil n, renderDec_isDigit n⟩

/-- **`Parser.dump` round trip (all 14 states).**  `p` any parser whose registers satisfy the invariant
    and have the shape of their state; `q0` any parser resting in `Ground` (dead registers arbitrary):
    feeding `Parser.dump p` to `q0` emits no function and yields `p` up to dead registers. -/
theorem C11_parser_dump (p q0 : Parser) (hinv : PInv p = true) (hreg : PRegOK p = true)
    (hG : q0.state = .Ground) (hP : PInv q0 = true) :
    ∃ d q, p.dump = some d ∧ pfeedAll q0 d = some (q, []) ∧ normP q = normP p :=
  parser_dump p q0 hinv hreg hG hP

/-- the same at `Vt` level: the terminal is not touched at all -/
theorem C11_parser_dump_vt (p : Parser) (v : Vt) (hinv : PInv p = true) (hreg : PRegOK p = true)
    (hG : v.parser.state = .Ground) (hP : PInv v.parser = true) :
    ∃ d v', p.dump = some d ∧ v.feedAll d = some v' ∧ v'.terminal = v.terminal
      ∧ normP v'.parser = normP p := by
  obtain ⟨d, q, hd, hf, hn⟩ := parser_dump p v.parser hinv hreg hG hP
  exact ⟨d, { v with parser := q }, hd, feedAll_of_silent v d q hf, rfl, hn⟩

/-- **numeric CSI sequences.**  For every parameter list `A` (≤ 32 parameters of ≤ 6 parts `< 65536`)
    and final byte, `CSI` + `A` rendered as `p;p:q;…` + final: the registers hold exactly `A` when the
    final byte dispatches, and the parser is back in `Ground`. -/
theorem C11_csi_roundtrip (q0 : Parser) (hG : q0.state = .Ground) (hP : PInv q0 = true)
    (A : Regs) (hA : RegsOK A) (fin : Nat) (h1 : 64 ≤ fin) (h2 : fin ≤ 126) :
    pfeedAll q0 (0x9b :: renderAll A ++ [fin])
      = (Parser.csiDispatch (conc .Ground none A) fin).map fun f => (conc .Ground none A, f.toList) := by
  obtain ⟨_, hC, _⟩ := feed_clearing q0 hG hP
  rw [List.cons_append, pfeedAll_cons_silent _ _ _ _ hC]
  exact pfeed_csi_body A hA fin h1 h2

/-- **`Pen::dump`, parameter level.**  The parameter list `Pen::dump` writes decodes (`SgrOps`) to
    operations that turn ANY pen into the dumped pen. -/
theorem C11_pen_dump (p : Pen) (h : PenOK p) :
    ∃ ops, Parser.sgrOps ((penRegs p).map encParam) = some ops
      ∧ ∀ q : Pen, ops.foldl Terminal.applySgr q = p :=
  ⟨penOps p, sgrOps_penRegs p h, fun q => apply_penOps p q h⟩

/-- **`Pen::dump`, character level.**  Feeding the characters of `Pen.dump p` to a parser resting in
    `Ground` emits exactly one `Sgr` function, leaves the parser in `Ground`, and executing that
    function on a terminal with ANY pen sets the pen to `p` (and nothing else). -/
theorem C11_pen_dump_chars (p : Pen) (h : PenOK p) (q0 : Parser) (hG : q0.state = .Ground)
    (hP : PInv q0 = true) :
    ∃ d q ops, p.dump = some d ∧ pfeedAll q0 d = some (q, [Function.sgr ops]) ∧ q.state = .Ground
      ∧ ∀ t : Terminal, t.execute (.sgr ops) = some { t with pen := p } := by
  obtain ⟨d, q, hd, hf, hq, hops⟩ := pfeed_pen_dump p h q0 hG hP
  exact ⟨d, q, penOps p, hd, hf, hq, fun t => by simp [Terminal.execute, Terminal.sgr, hops]⟩

/-- **C11, restore half, proved for power-on screens** (`C11_dump_full` restricted to: both screens
    blank, cursor home, default modes, margins, tab stops, character sets and saved contexts — i.e. the
    terminal `Vt::new` builds, of ANY size `≥ 1x1` and ANY scrollback limit — but with an ARBITRARY pen and the
    parser in ANY of its 14 states with arbitrary register contents, e.g. cut inside `CSI ?25;1:2`).
    Composes `Terminal.dump`, `Pen.dump`, `Parser.dump`, the parser, `Terminal.execute`, the
    `changes()`/`gc()` tail of `feed_str`, and `normD`. -/
theorem C11_dump_blank_partial (cols rows : Nat) (lim : Option Nat) (pen : Pen) (p : Parser)
    (hc : 1 ≤ cols) (hr : 1 ≤ rows) (hpen : PenOK pen) (hinv : PInv p = true) (hreg : PRegOK p = true) :
    ∃ r, restoreOf { parser := p, terminal := blankT cols rows lim pen } = some r
      ∧ normD r = normD { parser := p, terminal := blankT cols rows lim pen } :=
  restore_blank cols rows lim pen p hc hr hpen hinv hreg

/-- `blankT` with the default pen is what `Vt::new` builds -/
theorem C11_blankT_new (cols rows : Nat) (lim : Option Nat) (hr : 1 ≤ rows) :
    Vt.new cols rows lim = some { parser := Parser.new, terminal := blankT cols rows lim {} } := by
  simp only [Vt.new, new_eq_freshT cols rows lim hr, Option.map_some]
  rfl

/-- equal normal forms show the same through the public API -/
theorem C11_norm_obs (a b : Vt) (h : normD a = normD b) : obs a = obs b := by
  have ht : normT a.terminal = normT b.terminal := congrArg Vt.terminal h
  have h1 : a.terminal.buffer.view = b.terminal.buffer.view := congrArg (fun t => t.buffer.view) ht
  have h2' := congrArg (fun t : Terminal => t.cursor) ht
  have h3' := congrArg (fun t : Terminal => t.cursorKeysMode) ht
  have h2 : a.terminal.cursor = b.terminal.cursor := h2'
  have h3 : a.terminal.cursorKeysMode = b.terminal.cursorKeysMode := h3'
  simp only [obs, Vt.view, Terminal.view, Vt.cursor, Vt.cursorKeyAppMode, h1, h2, h3]

/-- **normal-form soundness, partial**: for the functions that touch no buffer (cursor movement and
    addressing, tab stops, ANSI and non-alternate-screen DEC modes, SGR, character sets, save/restore
    cursor, margins, soft reset) terminals with equal normal forms stay so, and panic together. -/
theorem C11_norm_sound_step_partial (f : Function) (hf : simpleFn f = true) (s t : Terminal)
    (e : normT s = normT t) : (s.execute f).map normT = (t.execute f).map normT :=
  norm_sound_execute f hf s t e

/-- **normal-form soundness of the parser** (every character, every state): two parsers whose
    registers satisfy the invariant (`PInv`) and have the shape of their state (`PRegOK`) and which agree
    up to dead registers (`normP`) emit the same function — or panic together — and agree afterwards. -/
theorem C11_normP_sound (a b : Parser) (ha : PInv a = true) (hb : PInv b = true) (ra : PRegOK a = true)
    (rb : PRegOK b = true) (h : normP a = normP b) (c : Nat) :
    (a.feed c).map (fun r => (normP r.1, r.2)) = (b.feed c).map (fun r => (normP r.1, r.2)) :=
  nstep_eq ⟨ha, hb, ra, rb, h⟩ c

/-- **normal-form soundness, one character, partial**: any parser state; the character may emit
    nothing or any function that touches no buffer. -/
theorem C11_norm_sound_feed_partial (a b : Vt) (ha : PInv a.parser = true) (hb : PInv b.parser = true)
    (ra : PRegOK a.parser = true) (rb : PRegOK b.parser = true) (h : normD a = normD b) (c : Nat)
    (hsimple : ∀ p' f, a.parser.feed c = some (p', some f) → simpleFn f = true) :
    (a.feed c).map normD = (b.feed c).map normD :=
  norm_sound_feed a b ⟨ha, hb, ra, rb, congrArg Vt.parser h⟩ (congrArg Vt.terminal h) c hsimple

theorem C11_reach_feedAll {s s' : Vt} (h : Lemmas.C11.Reach s) (xs : List Nat) (hf : s.feedAll xs = some s') :
    Lemmas.C11.Reach s' := h.feedAll xs hf

/-- **the decomposition is right**: the two stated halves give the property as the text words it —
    after restoring from `dump()`, original and restored show the same through the public API now
    and after every continuation input (and panic together, i.e. never — C01). -/
theorem C11_from_parts (hd : C11_dump_full) (hs : C11_norm_sound) (s : Vt) (hr : Lemmas.C11.Reach s)
    (hcols : 1 ≤ s.terminal.cols) (hrows : 1 ≤ s.terminal.rows)
    (h2 : resizedOnAlt s.terminal = false) (h1 : cursorStepFaithful s.terminal = true) :
    ∃ r, restoreOf s = some r ∧
      ∀ xs : List Nat, (s.feedAll xs).map obs = (r.feedAll xs).map obs := by
  obtain ⟨r, hrs, hn⟩ := hd s hr h2 h1
  have hrr : Lemmas.C11.Reach r := Lemmas.C11.Reach.restore hcols hrows hrs
  refine ⟨r, hrs, fun xs => ?_⟩
  suffices H : ∀ (xs : List Nat) (a b : Vt), Lemmas.C11.Reach a → Lemmas.C11.Reach b → normD a = normD b →
      (a.feedAll xs).map normD = (b.feedAll xs).map normD by
    have := H xs s r hr hrr hn.symm
    cases ha : s.feedAll xs with
    | none =>
      cases hb : r.feedAll xs with
      | none => rfl
      | some b' => simp [ha, hb] at this
    | some a' =>
      cases hb : r.feedAll xs with
      | none => simp [ha, hb] at this
      | some b' =>
        simp only [ha, hb, Option.map_some, Option.some.injEq] at this ⊢
        exact C11_norm_obs a' b' this
  intro xs
  induction xs with
  | nil => intro a b _ _ h; simp [Vt.feedAll, h]
  | cons c cs ih =>
    intro a b ha hb h
    have step := hs a b ha hb h c
    simp only [Vt.feedAll]
    cases hfa : a.feed c with
    | none =>
      cases hfb : b.feed c with
      | none => rfl
      | some b' => simp [hfa, hfb] at step
    | some a' =>
      cases hfb : b.feed c with
      | none => simp [hfa, hfb] at step
      | some b' =>
        simp only [hfa, hfb, Option.map_some, Option.some.injEq] at step
        exact ih a' b' (ha.feedAll [c] (by simp [Vt.feedAll, hfa])) (hb.feedAll [c] (by simp [Vt.feedAll, hfb])) step

/-- dump step 9 is faithful by definition unless origin mode is on and the cursor is parked outside
    the scroll region (the only situation in which `dump()` takes the `CSI u` route) -/
theorem C11_cursorStepFaithful_inside (t : Terminal)
    (h : t.originMode = false ∨ (t.topMargin ≤ t.cursor.row ∧ t.cursor.row ≤ t.bottomMargin)) :
    cursorStepFaithful t = true := by
  simp only [cursorStepFaithful, cursorOutsideRegion, Bool.or_eq_true, Bool.not_eq_true',
    Bool.and_eq_false_iff, Bool.or_eq_false_iff, decide_eq_false_iff_not]
  left
  rcases h with h | h
  · exact Or.inl h
  · exact Or.inr ⟨by omega, by omega⟩


/-! ### the buffer part and the primary-screen end-to-end theorem -/

/-- **`Buffer::dump` round trip** (dump step 1 and, for the alternate screen, step 4): for ANY buffer `b`
    satisfying the buffer invariant whose cells hold characters the parser prints and pens `Pen::dump`
    can write, and ANY terminal `t0` of the same size that is in the modes in force while the buffer part
    of a dump is replayed (`DMode`: full-screen margins, auto-wrap on, replace mode, ASCII in G0 and G0
    active), shows a blank screen, has the cursor home and the default pen: feeding `Buffer.dump b`
    — pen runs as SGR sequences, runs of equal characters as `c ESC [ n b` (REP), CR LF after unwrapped
    rows only — from any parser resting in Ground succeeds and yields a terminal whose view IS `b.view`
    (cells, pens, soft-wrap marks; rows below the cut-off stay blank) and that differs from `t0` in nothing
    but view, cursor position, pending wrap, pen and dirty flags (`E`).  Every size with `cols ≤ 65536`. -/
theorem C11_buffer_dump (b : Buffer) (t0 : Terminal) (hb : BInv b = true) (hc : b.cols = t0.cols)
    (hr : b.rows = t0.rows) (hok : viewOKb b.view = true) (hcols : t0.cols ≤ 65536)
    (h0 : TInv t0 = true) (hm : DMode t0)
    (hblank : t0.buffer.view = List.replicate t0.rows (Line.blank t0.cols Pen.default))
    (hcur : t0.cursor.col = 0 ∧ t0.cursor.row = 0) (hpen : t0.pen = Pen.default) :
    ∃ d t1, b.dump = some d ∧ Feeds d t0 t1 ∧ t1.buffer.view = b.view ∧ E t1 = E t0
      ∧ TInv t1 = true ∧ DMode t1 :=
  buffer_dump b t0 hb hc hr (viewOK_of_b hok) hcols h0 hm hblank hcur hpen

/-- `Feeds` is what it says at `Vt` level -/
theorem C11_feeds_iff (s : List Nat) (t t' : Terminal) :
    Feeds s t t' ↔ ∀ q : Parser, q.state = .Ground → PInv q = true →
      ∃ q', Vt.feedAll ⟨q, t⟩ s = some ⟨q', t'⟩ ∧ q'.state = .Ground ∧ PInv q' = true :=
  ⟨fun h q h1 h2 => h q ⟨h1, h2⟩, fun h q hq => h q hq.1 hq.2⟩

/-- **C11, restore half, PRIMARY screen** (`C11_dump_full` restricted by decidable hypotheses; everything
    else is arbitrary): any state satisfying the global invariant whose parser registers have the shape of
    their state (both hold for every reachable state, `C11_reach_inv`), showing the primary screen, with
    the ALTERNATE screen's saved cursor context in its default state (dump steps 4–6 then emit nothing; the
    primary screen's own saved context is ARBITRARY — step 3), cells and pens well-formed (`viewOKb`, `penOKb`: printable characters, `u8` colour
    components, five attribute bits — what every history produces), `cols ≤ 65534`, `rows ≤ 65535`
    (finding KF6), and the cursor inside the scroll region when origin mode is on (so `cursorStepFaithful`
    holds trivially).  ARBITRARY: view content (any characters, pens, wrap marks, REP runs), scrollback,
    tab stops, margins, origin mode, cursor position incl. the wrap-pending column, visibility, pen,
    character sets, insert / auto-wrap / new-line / cursor-key modes, and the parser cut in any of its 14
    states.  Then `dump()` fed to a fresh terminal of the same size restores the state up to `normD`. -/
theorem C11_dump_primary_partial (s : Vt) (hinv : Inv s = true) (hreg : PRegOK s.parser = true)
    (hprim : s.terminal.activeBufferType = .primary)
    (ha : s.terminal.alternateSavedCtx.isDefault = true)
    (hcells : viewOKb s.terminal.buffer.view = true)
    (hpens : (penOKb s.terminal.pen && penOKb s.terminal.savedCtx.pen && penOKb s.terminal.alternateSavedCtx.pen) = true)
    (hcols : s.terminal.cols < 65535) (hrows : s.terminal.rows ≤ 65535)
    (hinside : s.terminal.originMode = false
      ∨ (s.terminal.topMargin ≤ s.terminal.cursor.row ∧ s.terminal.cursor.row ≤ s.terminal.bottomMargin)) :
    ∃ r, restoreOf s = some r ∧ normD r = normD s := by
  simp only [Bool.and_eq_true] at hpens
  have hi := hinv
  simp only [Inv, Bool.and_eq_true] at hi
  exact restore_of_dump s hinv hreg
    (dump_primary s.terminal
      ⟨hi.2, hprim, viewOK_of_b hcells, penOK_of_b hpens.1.1, hcols, hrows, hinside⟩
      (penOK_of_b hpens.1.2) ha (penOK_of_b hpens.2))

/-- the hypotheses of `C11_dump_primary_partial` imply the two side conditions of `C11_dump_full` -/
theorem C11_primary_not_excepted (t : Terminal) (hprim : t.activeBufferType = .primary)
    (hinside : t.originMode = false ∨ (t.topMargin ≤ t.cursor.row ∧ t.cursor.row ≤ t.bottomMargin)) :
    resizedOnAlt t = false ∧ cursorStepFaithful t = true := by
  refine ⟨by simp [resizedOnAlt, hprim], ?_⟩
  simp only [cursorStepFaithful, cursorOutsideRegion, Bool.or_eq_true, Bool.not_eq_true',
    Bool.and_eq_false_iff, Bool.or_eq_false_iff, decide_eq_false_iff_not]
  left
  rcases hinside with h | h
  · exact Or.inl h
  · exact Or.inr ⟨by omega, by omega⟩


/-! ### normal-form soundness: every function, every character, whole continuations -/

/-- **normal-form soundness, EVERY control function** (print / REP, cursor movement, erase / insert /
    delete, scrolling, SGR, modes, tab stops, save / restore, the alternate-screen switches, RIS,
    XTWINOPS): two terminals satisfying the invariant, neither resized while on the alternate screen
    (`Pre`), with equal normal forms are mapped to terminals with equal normal forms, and panic together.
    What the families read of `normT`: print / scroll / edit — view, size, cursor, pen, margins, modes
    (through the closed forms `printSpec`, `scrollCmdSpec`, `editSpec` of C04 / C06 / C07); entering the
    alternate screen — additionally the CLAMPED parked context; leaving it — the parked primary's view
    and the parked context, which under `Pre` is inside the screen.  Nothing reads scrollback, limits,
    trim flag, dirty flags (only their number), or the parked ALTERNATE buffer. -/
theorem C11_norm_sound_step (f : Function) (u v : Terminal) (hu : TInv u = true) (hv : TInv v = true)
    (gu : resizedOnAlt u = false) (gv : resizedOnAlt v = false) (e : normT u = normT v) :
    (u.execute f).map normT = (v.execute f).map normT :=
  norm_sound_execute_all f u v ⟨hu, gu⟩ ⟨hv, gv⟩ e

/-- the invariant of `C11_norm_sound_step` is kept by every function -/
theorem C11_norm_sound_step_inv {t t' : Terminal} {f : Function} (h : TInv t = true)
    (g : resizedOnAlt t = false) (hs : t.execute f = some t') :
    TInv t' = true ∧ resizedOnAlt t' = false :=
  pre_execute ⟨h, g⟩ hs

/-- **normal-form soundness, one character, every parser state and every emitted function** -/
theorem C11_norm_sound_feed (a b : Vt) (ha : Inv a = true) (hb : Inv b = true)
    (ra : PRegOK a.parser = true) (rb : PRegOK b.parser = true)
    (ga : resizedOnAlt a.terminal = false) (gb : resizedOnAlt b.terminal = false)
    (h : normD a = normD b) (c : Nat) :
    (a.feed c).map normD = (b.feed c).map normD :=
  norm_sound_feed_all a b (agree_of ⟨ha, ra, ga⟩ ⟨hb, rb, gb⟩ h) (Good.pre ⟨ha, ra, ga⟩) (Good.pre ⟨hb, rb, gb⟩)
    (congrArg Vt.terminal h) c

/-- **the parser's register-shape invariant is preserved by every character** (all 14 states, every
    `c : Nat`; the diagram is evaluated on its 160 character classes) -/
theorem C11_pregOK_stable (p p' : Parser) (c : Nat) (f : Option Function) (hi : PInv p = true)
    (hr : PRegOK p = true) (h : p.feed c = some (p', f)) : PRegOK p' = true :=
  pregOK_stable p p' c f hi hr h

/-- **normal-form soundness, whole continuations**: `Good` states (invariant, register shape, not
    resized on the alternate screen — all three kept by every character) with equal normal forms have
    equal normal forms after ANY input, and panic together. -/
theorem C11_norm_sound_feedAll (xs : List Nat) (a b : Vt) (ha : Good a) (hb : Good b)
    (h : normD a = normD b) : (a.feedAll xs).map normD = (b.feedAll xs).map normD :=
  norm_sound_feedAll pregOK_stable xs a b ha hb h

/-! ### the corrected full statements -/

/-- **C11, restore half, corrected**: `C11_dump_full` with the size bound of finding KF6 -/
def C11_dump_full' : Prop :=
  ∀ s : Vt, Lemmas.C11.Reach s → resizedOnAlt s.terminal = false → cursorStepFaithful s.terminal = true →
    sizeExceedsU16 s.terminal = false →
    ∃ r, restoreOf s = some r ∧ normD r = normD s

/-- **C11, continuation half, corrected**: `C11_norm_sound` is FALSE for states resized while on the
    alternate screen (leaving it reflows the parked primary, which reads its scrollback); with the
    exception the property names on both sides it is `C11_norm_sound_feed` -/
def C11_norm_sound' : Prop :=
  ∀ a b : Vt, Inv a = true → Inv b = true → PRegOK a.parser = true → PRegOK b.parser = true →
    resizedOnAlt a.terminal = false → resizedOnAlt b.terminal = false → normD a = normD b →
    ∀ c : Nat, (a.feed c).map normD = (b.feed c).map normD

/-- the corrected continuation half is a theorem -/
theorem C11_norm_sound'_holds : C11_norm_sound' :=
  fun a b ha hb ra rb ga gb h c => C11_norm_sound_feed a b ha hb ra rb ga gb h c

/-! ### end to end -/

theorem good_new (cols rows : Nat) (hc : 1 ≤ cols) (hr : 1 ≤ rows) :
    ∃ f, Vt.new cols rows none = some f ∧ Good f := by
  obtain ⟨v, hv, hi⟩ := Props.C02.C02_init none hc hr
  refine ⟨v, hv, hi, ?_, ?_⟩
  · simp only [Vt.new, new_eq_freshT cols rows none hr, Option.map_some, Option.some.injEq] at hv
    subst hv
    show PRegOK Parser.new = true
    decide
  · simp only [Vt.new, new_eq_freshT cols rows none hr, Option.map_some, Option.some.injEq] at hv
    subst hv; rfl

/-- the restored terminal is `Good` -/
theorem good_restore {s r : Vt} (hc : 1 ≤ s.terminal.cols) (hr : 1 ≤ s.terminal.rows)
    (h : restoreOf s = some r) : Good r := by
  unfold restoreOf at h
  cases hd : s.dump with
  | none => simp [hd] at h
  | some d =>
    obtain ⟨f, hf, gf⟩ := good_new s.terminal.cols s.terminal.rows hc hr
    simp only [hd, hf, Vt.feedStr] at h
    cases hfa : f.feedAll d with
    | none => simp [hfa] at h
    | some v =>
      simp only [hfa, Option.map_some, Option.some.injEq] at h
      subst h
      have gv := Good.feedAll pregOK_stable d gf hfa
      obtain ⟨v', ch, e1, i1, _⟩ := Props.Closed.C02_feedStr d gf.inv
      simp only [Vt.feedStr, hfa, Option.map_some, Option.some.injEq] at e1
      exact gv.finish (by rw [e1]; exact i1)

/-- **C11 END TO END for the primary screen** (alternate screen's saved context default): under the hypotheses of
    `C11_dump_primary_partial`, `dump()` fed to a fresh terminal of the
    same size yields a terminal that shows the same through the public API — view cells, pens, wrap
    marks, cursor, cursor-key mode — now and after EVERY continuation input (all control functions,
    including screen switches and RIS, completing a cut escape sequence), and the two panic together. -/
theorem C11_primary_end_to_end (s : Vt) (hinv : Inv s = true) (hreg : PRegOK s.parser = true)
    (hprim : s.terminal.activeBufferType = .primary)
    (ha : s.terminal.alternateSavedCtx.isDefault = true)
    (hcells : viewOKb s.terminal.buffer.view = true)
    (hpens : (penOKb s.terminal.pen && penOKb s.terminal.savedCtx.pen && penOKb s.terminal.alternateSavedCtx.pen) = true)
    (hcols : s.terminal.cols < 65535) (hrows : s.terminal.rows ≤ 65535)
    (hinside : s.terminal.originMode = false
      ∨ (s.terminal.topMargin ≤ s.terminal.cursor.row ∧ s.terminal.cursor.row ≤ s.terminal.bottomMargin)) :
    ∃ r, restoreOf s = some r ∧ normD r = normD s
      ∧ ∀ xs : List Nat, (s.feedAll xs).map obs = (r.feedAll xs).map obs := by
  obtain ⟨r, h1, h2⟩ := C11_dump_primary_partial s hinv hreg hprim ha hcells hpens hcols hrows hinside
  have hi := hinv
  simp only [Inv, Bool.and_eq_true] at hi
  have ht := TOK.of_TInv hi.2
  have gs : Good s := ⟨hinv, hreg, by simp [resizedOnAlt, hprim]⟩
  have gr : Good r := good_restore ht.c1 ht.r1 h1
  refine ⟨r, h1, h2, fun xs => ?_⟩
  have := C11_norm_sound_feedAll xs s r gs gr h2.symm
  cases hsa : s.feedAll xs with
  | none =>
    cases hra : r.feedAll xs with
    | none => rfl
    | some b' => simp [hsa, hra] at this
  | some a' =>
    cases hra : r.feedAll xs with
    | none => simp [hsa, hra] at this
    | some b' =>
      simp only [hsa, hra, Option.map_some, Option.some.injEq] at this ⊢
      exact C11_norm_obs a' b' this


/-! ### every reachable state is `Good` (unless resized on the alternate screen) -/

theorem preg_feedAll : ∀ (xs : List Nat) {v v' : Vt}, Inv v = true → PRegOK v.parser = true →
    v.feedAll xs = some v' → PRegOK v'.parser = true
  | [], v, v', _, hr, hf => by simp only [Vt.feedAll, Option.some.injEq] at hf; subst hf; exact hr
  | c :: cs, v, v', hi, hr, hf => by
    simp only [Vt.feedAll] at hf
    cases h1 : v.feed c with
    | none => simp [h1] at hf
    | some v1 =>
      simp only [h1] at hf
      obtain ⟨v2, e2, i2⟩ := Props.Closed.C02_feed c hi
      rw [h1] at e2; cases e2
      have hi' := hi
      simp only [Inv, Bool.and_eq_true] at hi'
      have hr1 : PRegOK v1.parser = true := by
        unfold Vt.feed at h1
        cases hp : v.parser.feed c with
        | none => simp [hp] at h1
        | some r =>
          obtain ⟨p', fo⟩ := r
          have := pregOK_stable v.parser p' c fo hi'.1 hr hp
          cases fo with
          | none => simp only [hp, Option.some.injEq] at h1; subst h1; exact this
          | some f =>
            simp only [hp, Option.map_eq_some_iff] at h1
            obtain ⟨t', _, rfl⟩ := h1
            exact this
      exact preg_feedAll cs i2 hr1 hf

theorem runHist_inv : ∀ (hist : List HOp) {v s : Vt}, Inv v = true → PRegOK v.parser = true →
    (∀ op ∈ hist, ∀ c r, op = HOp.resize c r → 1 ≤ c ∧ 1 ≤ r) → runHist v hist = some s →
    Inv s = true ∧ PRegOK s.parser = true
  | [], v, s, hi, hr, _, h => by simp only [runHist, Option.some.injEq] at h; subst h; exact ⟨hi, hr⟩
  | op :: rest, v, s, hi, hr, hv, h => by
    simp only [runHist] at h
    cases h1 : op.run v with
    | none => simp [h1] at h
    | some v1 =>
      simp only [h1] at h
      have hrest : ∀ op' ∈ rest, ∀ c r, op' = HOp.resize c r → 1 ≤ c ∧ 1 ≤ r :=
        fun op' ho => hv op' (List.mem_cons_of_mem _ ho)
      have step : Inv v1 = true ∧ PRegOK v1.parser = true := by
        cases op with
        | feedStr str =>
          simp only [HOp.run, Vt.feedStr] at h1
          cases hfa : v.feedAll str with
          | none => simp [hfa] at h1
          | some w =>
            simp only [hfa, Option.map_some, Option.some.injEq] at h1
            subst h1
            obtain ⟨v', ch, e1, i1, _⟩ := Props.Closed.C02_feedStr str hi
            simp only [Vt.feedStr, hfa, Option.map_some, Option.some.injEq] at e1
            exact ⟨by rw [e1]; exact i1, (preg_feedAll str hi hr hfa : PRegOK w.parser = true)⟩
        | feedChars str =>
          simp only [HOp.run] at h1
          obtain ⟨v', e1, i1⟩ := Props.Closed.C02_feedAll str hi
          rw [h1] at e1; cases e1
          exact ⟨i1, preg_feedAll str hi hr h1⟩
        | resize c r =>
          obtain ⟨hc, hr'⟩ := hv _ (List.mem_cons_self ..) c r rfl
          obtain ⟨v', ch, e1, i1, _⟩ := Props.Closed.C02_resize (c := c) (r := r) hi hc hr'
          simp only [HOp.run, e1, Option.map_some, Option.some.injEq] at h1
          subst h1
          refine ⟨i1, ?_⟩
          simp only [Vt.resize, Option.map_eq_some_iff] at e1
          obtain ⟨t', _, he⟩ := e1
          have : v'.parser = v.parser := by
            have := congrArg (fun x => x.1.parser) he
            simpa [Vt.finish] using this.symm
          rw [this]; exact hr
      exact runHist_inv rest step.1 step.2 hrest h

/-- every reachable state satisfies the invariant and has its parser registers in shape -/
theorem C11_reach_inv {s : Vt} (h : Lemmas.C11.Reach s) : Inv s = true ∧ PRegOK s.parser = true := by
  obtain ⟨cols, rows, lim, hist, hc, hr, hv, hrun⟩ := h
  obtain ⟨v, e, hi⟩ := Props.C02.C02_init lim hc hr
  simp only [e, Option.bind_some] at hrun
  have hp : PRegOK v.parser = true := by
    simp only [Vt.new, Option.map_eq_some_iff] at e
    obtain ⟨t, _, rfl⟩ := e
    show PRegOK Parser.new = true
    decide
  exact runHist_inv hist hi hp hv hrun

/-- **the decomposition, corrected and with the continuation half discharged**: the corrected restore
    half `C11_dump_full'` alone gives the property as the text words it — for every reachable state that is
    not one of the known exceptions (KF1/KF3 `cursorStepFaithful`, KF2 `resizedOnAlt`, KF6 size), original and
    restored show the same through the public API now and after every continuation, and panic together -/
theorem C11_from_dump_full' (hd : C11_dump_full') (s : Vt) (hr : Lemmas.C11.Reach s)
    (h2 : resizedOnAlt s.terminal = false) (h1 : cursorStepFaithful s.terminal = true)
    (h6 : sizeExceedsU16 s.terminal = false) :
    ∃ r, restoreOf s = some r ∧
      ∀ xs : List Nat, (s.feedAll xs).map obs = (r.feedAll xs).map obs := by
  obtain ⟨r, hrs, hn⟩ := hd s hr h2 h1 h6
  obtain ⟨hi, hreg⟩ := C11_reach_inv hr
  have hi' := hi
  simp only [Inv, Bool.and_eq_true] at hi'
  have ht := TOK.of_TInv hi'.2
  have gs : Good s := ⟨hi, hreg, h2⟩
  have gr : Good r := good_restore ht.c1 ht.r1 hrs
  refine ⟨r, hrs, fun xs => ?_⟩
  have := C11_norm_sound_feedAll xs s r gs gr hn.symm
  cases hsa : s.feedAll xs with
  | none =>
    cases hra : r.feedAll xs with
    | none => rfl
    | some b' => simp [hsa, hra] at this
  | some a' =>
    cases hra : r.feedAll xs with
    | none => simp [hsa, hra] at this
    | some b' =>
      simp only [hsa, hra, Option.map_some, Option.some.injEq] at this ⊢
      exact C11_norm_obs a' b' this

/-! ### the known findings: negations on the witnesses (kernel evaluation of the whole model) -/

def esc : Nat := 0x1b

/-- KF1 witness (DESIGN.md §7), 4x6: `CSI ?6h` `CSI 2;3r` `ESC 7` `CSI 4;5r` `ESC 8` `CSI ?1047h` -/
def kf1Hist : List HOp :=
  [.feedStr [esc, 0x5b, 0x3f, 0x36, 0x68], .feedStr [esc, 0x5b, 0x32, 0x3b, 0x33, 0x72], .feedStr [esc, 0x37],
   .feedStr [esc, 0x5b, 0x34, 0x3b, 0x35, 0x72], .feedStr [esc, 0x38],
   .feedStr [esc, 0x5b, 0x3f, 0x31, 0x30, 0x34, 0x37, 0x68]]

/-- on the KF1 witness the classifier says KF1, the restored state differs from the dumped one
    (the public observation still agrees), and after the probe `CSI 1;1H` the public observations
    differ (row 3 vs row 0): `C11_dump_full`'s conclusion is FALSE here, which is why
    `cursorStepFaithful` is a hypothesis -/
theorem KF1_witness :
    witness 4 6 kf1Hist [esc, 0x5b, 0x31, 0x3b, 0x31, 0x48]
      = some { findings := [.kf1], sameAtRestore := false, obsSameAtRestore := true,
               sameAfterProbe := false, obsSameAfterProbe := false } := by decide +kernel

/-- the same history without the final `CSI ?1047h` (the saved context still agrees with the modes):
    no finding, restore exact, probe agrees -/
theorem KF1_neighbour_ok :
    witness 4 6 (kf1Hist.take 5) [esc, 0x5b, 0x31, 0x3b, 0x31, 0x48]
      = some { findings := [], sameAtRestore := true, obsSameAtRestore := true,
               sameAfterProbe := true, obsSameAfterProbe := true } := by decide +kernel

/-- KF2 witness, 6x3: `abcdefgh` `CSI ?1047h`, resize 4x3 -/
def kf2Hist : List HOp :=
  [.feedStr [0x61, 0x62, 0x63, 0x64, 0x65, 0x66, 0x67, 0x68],
   .feedStr [esc, 0x5b, 0x3f, 0x31, 0x30, 0x34, 0x37, 0x68], .resize 4 3]

/-- probe `CSI ?1047l`: a different primary screen comes back -/
theorem KF2_witness :
    witness 6 3 kf2Hist [esc, 0x5b, 0x3f, 0x31, 0x30, 0x34, 0x37, 0x6c]
      = some { findings := [.kf2], sameAtRestore := false, obsSameAtRestore := true,
               sameAfterProbe := false, obsSameAfterProbe := false } := by decide +kernel

/-- without the resize: exact -/
theorem KF2_neighbour_ok :
    witness 6 3 (kf2Hist.take 2) [esc, 0x5b, 0x3f, 0x31, 0x30, 0x34, 0x37, 0x6c]
      = some { findings := [], sameAtRestore := true, obsSameAtRestore := true,
               sameAfterProbe := true, obsSameAfterProbe := true } := by decide +kernel

/-- KF3 witness, 4x8: `CSI ?6h` `CSI 5;6r` `ESC 7` `CSI ?1047h` `CSI 7;8r` `ESC 7` `CSI ?1047l` `ESC 8`
    `CSI ?1047h` -/
def kf3Hist : List HOp :=
  [.feedStr [esc, 0x5b, 0x3f, 0x36, 0x68], .feedStr [esc, 0x5b, 0x35, 0x3b, 0x36, 0x72], .feedStr [esc, 0x37],
   .feedStr [esc, 0x5b, 0x3f, 0x31, 0x30, 0x34, 0x37, 0x68], .feedStr [esc, 0x5b, 0x37, 0x3b, 0x38, 0x72],
   .feedStr [esc, 0x37], .feedStr [esc, 0x5b, 0x3f, 0x31, 0x30, 0x34, 0x37, 0x6c], .feedStr [esc, 0x38],
   .feedStr [esc, 0x5b, 0x3f, 0x31, 0x30, 0x34, 0x37, 0x68]]

/-- the modes agree, the saved position lies beyond a margin: the cursor itself is restored wrongly
    (row 6 instead of 4), visible at once -/
theorem KF3_witness :
    witness 4 8 kf3Hist [0x58]
      = some { findings := [.kf3], sameAtRestore := false, obsSameAtRestore := false,
               sameAfterProbe := false, obsSameAfterProbe := false } := by decide +kernel

/-- the same history stopped before the last `CSI ?1047h` (cursor outside the region, origin mode on,
    saved context = the cursor's own): the `CSI u` route is taken and is faithful -/
theorem KF3_neighbour_ok :
    witness 4 8 (kf3Hist.take 8) [0x58]
      = some { findings := [], sameAtRestore := true, obsSameAtRestore := true,
               sameAfterProbe := true, obsSameAfterProbe := true } := by decide +kernel


/-! ### the continuation half as first stated is false (states resized on the alternate screen) -/

/-- 4x2, unlimited scrollback: `x CR LF b CR LF c` (one line scrolls off), `CSI ?1047h`, resize to 4x3 on the
    alternate screen, then `ESC [ ? 1 0 4 7` fed character by character (cut before the final `l`) -/
def nsHist (x : Nat) : List HOp :=
  [.feedStr [x, 0x0d, 0x0a, 0x62, 0x0d, 0x0a, 0x63],
   .feedStr [esc, 0x5b, 0x3f, 0x31, 0x30, 0x34, 0x37, 0x68],
   .resize 4 3,
   .feedChars [esc, 0x5b, 0x3f, 0x31, 0x30, 0x34, 0x37]]

def nsState (x : Nat) : Option Vt := (Vt.new 4 2 none).bind fun v => runHist v (nsHist x)

/-- the histories with `x = 'a'` and `x = 'x'` end in states with EQUAL normal forms (they differ in the
    scrollback of the parked primary only) — and the next character `l` makes even the public
    observations differ: leaving the alternate screen reflows the parked primary to the new height,
    which pulls the scrolled-off line back into the view -/
def nsCheck : Bool :=
  match nsState 0x61, nsState 0x78 with
  | some a, some b => normD a == normD b && ((a.feed 0x6c).map normD != (b.feed 0x6c).map normD)
      && ((a.feed 0x6c).map obs != (b.feed 0x6c).map obs) && resizedOnAlt a.terminal
  | _, _ => false

theorem nsCheck_true : nsCheck = true := by decide +kernel

/-- **`C11_norm_sound` as first stated is FALSE** (it lacks the exception the property names: resized
    while the alternate screen is showing); `C11_norm_sound'` is the corrected statement and a theorem -/
theorem C11_norm_sound_false : ¬ C11_norm_sound := by
  intro h
  have hc := nsCheck_true
  unfold nsCheck at hc
  cases ha : nsState 0x61 with
  | none => simp [ha] at hc
  | some a =>
    cases hb : nsState 0x78 with
    | none => simp [ha, hb] at hc
    | some b =>
      simp only [ha, hb, Bool.and_eq_true, beq_iff_eq, bne_iff_ne, ne_eq] at hc
      obtain ⟨⟨⟨h1, h2⟩, _⟩, _⟩ := hc
      have valid : ∀ x, ∀ op ∈ nsHist x, ∀ c r, op = HOp.resize c r → 1 ≤ c ∧ 1 ≤ r := by
        intro x op hop c r he
        simp only [nsHist, List.mem_cons, List.not_mem_nil, or_false] at hop
        rcases hop with rfl | rfl | rfl | rfl <;> cases he
        exact ⟨by decide, by decide⟩
      have ra : Lemmas.C11.Reach a := ⟨4, 2, none, nsHist 0x61, by decide, by decide, valid _, ha⟩
      have rb : Lemmas.C11.Reach b := ⟨4, 2, none, nsHist 0x78, by decide, by decide, valid _, hb⟩
      exact h2 (h a b ra rb h1 0x6c)

/-! ### a concrete non-trivial state -/

/-- 9x4: coloured and struck-through text that wraps, a cleared tab stop, the drawing charset in G1 and
    shifted in, margins 2..3 with origin mode, insert mode, new-line mode, auto-wrap off, application
    cursor keys, a hidden cursor, a saved context with another pen, an alternate-screen saved context,
    and the input cut inside `CSI ?25;1:2` -/
def exHist : List HOp :=
  [.feedStr [esc, 0x5b, 0x33, 0x38, 0x3a, 0x32, 0x3a, 0x31, 0x3a, 0x32, 0x3a, 0x33, 0x3b, 0x39, 0x6d],   -- CSI 38:2:1:2:3;9m
   .feedStr [0x61, 0x62, 0x63, 0x64, 0x65, 0x66, 0x67, 0x68, 0x69, 0x6a, 0x6b],                             -- abcdefghijk
   .feedStr [esc, 0x5b, 0x33, 0x67, esc, 0x29, 0x30, 0x0e],                                             -- CSI 3g  ESC )0  SO
   .feedStr [esc, 0x5b, 0x34, 0x34, 0x6d, esc, 0x37],                                                  -- CSI 44m ESC 7
   .feedStr [esc, 0x5b, 0x3f, 0x31, 0x30, 0x34, 0x37, 0x68, esc, 0x5b, 0x32, 0x3b, 0x32, 0x48, esc, 0x37,
             esc, 0x5b, 0x3f, 0x31, 0x30, 0x34, 0x37, 0x6c],                                            -- ?1047h CSI 2;2H ESC 7 ?1047l
   .feedStr [esc, 0x5b, 0x32, 0x3b, 0x33, 0x72, esc, 0x5b, 0x3f, 0x36, 0x68],                           -- CSI 2;3r CSI ?6h
   .feedStr [esc, 0x5b, 0x34, 0x3b, 0x32, 0x30, 0x68, esc, 0x5b, 0x3f, 0x37, 0x6c, esc, 0x5b, 0x3f, 0x31, 0x68], -- CSI 4;20h ?7l ?1h
   .feedStr [0x71, esc, 0x5b, 0x3f, 0x32, 0x35, 0x6c],                                                  -- q CSI ?25l
   .feedStr [esc, 0x5b, 0x3f, 0x32, 0x35, 0x3b, 0x31, 0x3a, 0x32]]                                       -- CSI ?25;1:2   (cut)

/-- on that state: reachable, parser registers in shape, parser stuck in `CsiParam` with a marker and a
    sub-parameter, pens valid; the restore is exact (`normD`), and stays exact after the probe that
    completes the cut sequence and walks through both saved contexts -/
example :
    witness 9 4 exHist [0x68, esc, 0x38, 0x58, esc, 0x5b, 0x3f, 0x31, 0x30, 0x34, 0x37, 0x68, esc, 0x38, 0x59]
      = some { findings := [], sameAtRestore := true, obsSameAtRestore := true,
               sameAfterProbe := true, obsSameAfterProbe := true }
    ∧ ((Vt.new 9 4 none).bind fun v => runHist v exHist).map
        (fun s => Inv s && PRegOK s.parser && (s.parser.state == .CsiParam) && (s.parser.intermediate == some 0x3f)
          && (s.terminal.tabs != Tabs.new 9) && s.terminal.originMode && !s.terminal.cursor.visible
          && (s.terminal.cursorKeysMode == .application) && !s.terminal.savedCtx.isDefault
          && !s.terminal.alternateSavedCtx.isDefault) = some true := by
  constructor <;> decide +kernel

def exState : Option Vt := (Vt.new 9 4 none).bind fun v => runHist v exHist

theorem exState_isSome : exState.isSome = true := by decide +kernel

/-- and the fragment theorems apply to its parser: the hypotheses of `C11_parser_dump` hold -/
example : ∃ s, exState = some s ∧
    ∃ d q, s.parser.dump = some d ∧ pfeedAll Parser.new d = some (q, []) ∧ normP q = normP s.parser := by
  refine ⟨exState.get exState_isSome, (Option.some_get exState_isSome).symm, ?_⟩
  exact C11_parser_dump _ Parser.new (by decide +kernel) (by decide +kernel) rfl (by decide +kernel)


/-! ### `C11_dump_primary_partial` applies to a concrete non-trivial state -/

/-- 9x4, primary screen: red bold text with a run of 14 equal characters that
    soft-wraps (REP + wrap mark), a second pen on the next row, a saved cursor context with that pen at
    (8, 2), a cleared and an added tab stop, margins
    2..4 with origin mode, the drawing set in G1 and shifted in, insert and new-line mode, application
    cursor keys, hidden cursor, the cursor parked wrap-pending at the end of row 2 inside the region, and
    the input cut inside `CSI 12;3` -/
def exPHist : List HOp :=
  [.feedStr [esc, 0x5b, 0x33, 0x31, 0x3b, 0x31, 0x6d],                                   -- CSI 31;1m
   .feedStr [0x61, 0x61, 0x61, 0x61, 0x61, 0x61, 0x61, 0x61, 0x61, 0x61, 0x61, 0x61, 0x61, 0x61, 0x0d, 0x0a], -- a×14 CR LF
   .feedStr [esc, 0x5b, 0x34, 0x34, 0x6d, 0x78, 0x79, 0x7a, 0x7a, 0x7a, 0x7a, 0x7a, 0x7a, esc, 0x37], -- CSI 44m xyzzzzzz ESC 7
   .feedStr [esc, 0x5b, 0x33, 0x47, esc, 0x48, esc, 0x5b, 0x39, 0x47, esc, 0x5b, 0x67],        -- CSI 3G HTS CSI 9G CSI g
   .feedStr [esc, 0x29, 0x30, 0x0e, esc, 0x5b, 0x34, 0x3b, 0x32, 0x30, 0x68],                 -- ESC )0 SO CSI 4;20h
   .feedStr [esc, 0x5b, 0x3f, 0x31, 0x68, esc, 0x5b, 0x3f, 0x32, 0x35, 0x6c],                 -- CSI ?1h CSI ?25l
   .feedStr [esc, 0x5b, 0x32, 0x3b, 0x34, 0x72, esc, 0x5b, 0x3f, 0x36, 0x68],                 -- CSI 2;4r CSI ?6h
   .feedStr [esc, 0x5b, 0x32, 0x3b, 0x39, 0x48, 0x71],                                      -- CSI 2;9H q  (wrap pending)
   .feedStr [esc, 0x5b, 0x31, 0x32, 0x3b, 0x33]]                                           -- CSI 12;3  (cut)

def exPState : Option Vt := (Vt.new 9 4 (some 5)).bind fun v => runHist v exPHist

theorem exPState_isSome : exPState.isSome = true := by decide +kernel

/-- the state is as described (non-default in every component the theorem leaves arbitrary), satisfies
    every hypothesis of `C11_dump_primary_partial`, hence its dump restores it -/
example : ∃ s r, exPState = some s
    ∧ s.terminal.pendingWrap = true ∧ s.terminal.originMode = true ∧ s.terminal.topMargin = 1
    ∧ s.terminal.tabs ≠ Tabs.new 9 ∧ s.parser.state = .CsiParam ∧ s.terminal.savedCtx.isDefault = false
    ∧ restoreOf s = some r ∧ normD r = normD s := by
  have hs := Option.some_get exPState_isSome
  obtain ⟨r, h1, h2⟩ := C11_dump_primary_partial (exPState.get exPState_isSome)
    (by decide +kernel) (by decide +kernel) (by decide +kernel) (by decide +kernel) (by decide +kernel)
    (by decide +kernel) (by decide +kernel) (by decide +kernel) (by decide +kernel)
  exact ⟨_, r, hs.symm, by decide +kernel, by decide +kernel, by decide +kernel, by decide +kernel,
    by decide +kernel, by decide +kernel, h1, h2⟩

/-! ### the cell / pen invariant of reachable states (item: `viewOKb` / `penOKb` are THEOREMS) -/

/-- **every reachable state satisfies the cell / pen invariant**: every pen the terminal holds (current,
    both saved contexts) has five attribute bits and `u8` colour components, and every cell of BOTH
    buffers, scrollback included, holds a character the resting parser prints (`0x20..0x7F` or `≥ 0xA0`,
    after charset translation; the blank and DECALN's `E` are among them) and such a pen.  Established by
    `Vt::new`; preserved by every character (the parser emits `Print` only for printable characters and
    SGR colours through `as u8`; all ~50 control functions keep it), by `resize` / reflow (cells are only
    moved or filled with default blanks) and by `changes()` / `gc()`. -/
theorem C11_reach_cellsInv {s : Vt} (h : Lemmas.C11.Reach s) : CellsInv s.terminal := reach_cellsInv h

/-- the same as the decidable predicates the earlier theorems took as hypotheses -/
theorem C11_reach_viewOK {s : Vt} (h : Lemmas.C11.Reach s) :
    viewOKb s.terminal.buffer.view = true ∧ viewOKb s.terminal.otherBuffer.view = true
      ∧ viewOKb s.terminal.buffer.sb = true ∧ viewOKb s.terminal.otherBuffer.sb = true
      ∧ (penOKb s.terminal.pen && penOKb s.terminal.savedCtx.pen && penOKb s.terminal.alternateSavedCtx.pen) = true := by
  have c := reach_cellsInv h
  refine ⟨viewOKb_of c.view, viewOKb_of c.oview, viewOKb_of c.sb, viewOKb_of c.osb, ?_⟩
  simp only [Bool.and_eq_true]
  exact ⟨⟨penOKb_of c.pen, penOKb_of c.sctx⟩, penOKb_of c.actx⟩

/-- one step of the invariant, for every function the parser can emit -/
theorem C11_cellsInv_execute {t t' : Terminal} {f : Function} (hi : TInv t = true) (hc : CellsInv t) (hf : FnOK f)
    (h : t.execute f = some t') : CellsInv t' := cellsInv_execute' hi hc hf h

/-- what the parser guarantees about an emitted function -/
theorem C11_parser_emits_fnOK {p p' : Parser} {c : Nat} {f : Function} (hp : PInv p = true)
    (h : p.feed c = some (p', some f)) : FnOK f := parser_emits_fnOK hp h

/-- `resize` keeps the invariant -/
theorem C11_cellsInv_resize {v v' : Vt} {c r : Nat} {ch : Changes} (hc : CellsInv v.terminal)
    (h : v.resize c r = some (v', ch)) : CellsInv v'.terminal := vtResize_cells hc h

/-- **C11 END TO END for the primary screen, over reachable states**: `C11_primary_end_to_end` without the
    well-formedness hypotheses on cells and pens, which hold in every reachable state -/
theorem C11_primary_end_to_end_reach (s : Vt) (hr : Lemmas.C11.Reach s)
    (hprim : s.terminal.activeBufferType = .primary)
    (ha : s.terminal.alternateSavedCtx.isDefault = true)
    (hcols : s.terminal.cols < 65535) (hrows : s.terminal.rows ≤ 65535)
    (hinside : s.terminal.originMode = false
      ∨ (s.terminal.topMargin ≤ s.terminal.cursor.row ∧ s.terminal.cursor.row ≤ s.terminal.bottomMargin)) :
    ∃ r, restoreOf s = some r ∧ normD r = normD s
      ∧ ∀ xs : List Nat, (s.feedAll xs).map obs = (r.feedAll xs).map obs := by
  obtain ⟨hi, hreg⟩ := C11_reach_inv hr
  obtain ⟨h1, _, _, _, h5⟩ := C11_reach_viewOK hr
  exact C11_primary_end_to_end s hi hreg hprim ha h1 h5 hcols hrows hinside

/-! ### the general restore half: both screens, arbitrary saved contexts, both routes of step 9 -/

/-- **`Terminal.dump` replayed on a fresh terminal, in general** (`Feeds` form): for ANY terminal satisfying
    `DumpOK` — invariant, well-formed cells and pens, parked primary at the terminal's geometry (KF2), sizes and
    the parked alternate saved position inside the 16-bit parameter range (KF6 / KF7), `cursorStepFaithful`
    (KF1 / KF3) — `dump()` succeeds and replays to a terminal with the same normal form -/
theorem C11_terminal_dump_general (T : Terminal) (h : DumpOK T) :
    ∃ d t', T.dump = some d ∧ Feeds d (freshT T.cols T.rows none) t' ∧ normT t' = normT T :=
  dump_general T h

/-- **dump steps 4–6 with a NON-default saved context of the alternate screen, primary screen active**
    (restore half; everything else as in `C11_dump_primary_partial`, whose hypothesis
    `alternateSavedCtx.isDefault` is replaced by the KF7 bound on the parked position): `?1047h` presents a
    blank alternate buffer, the context block saves into the alternate screen's slot (clamped into the screen
    by CUP — as `normD` clamps it), `?1047l` swaps back; the primary buffer and its own context are untouched
    throughout and the pen bleed is prevented by the `ESC [ m` before -/
theorem C11_alt_ctx_partial (s : Vt) (hinv : Inv s = true) (hreg : PRegOK s.parser = true)
    (hprim : s.terminal.activeBufferType = .primary)
    (hparked : parkedCtxExceedsU16 s.terminal = false)
    (hcells : viewOKb s.terminal.buffer.view = true)
    (hpens : (penOKb s.terminal.pen && penOKb s.terminal.savedCtx.pen && penOKb s.terminal.alternateSavedCtx.pen) = true)
    (hcols : s.terminal.cols < 65535) (hrows : s.terminal.rows ≤ 65535)
    (hinside : s.terminal.originMode = false
      ∨ (s.terminal.topMargin ≤ s.terminal.cursor.row ∧ s.terminal.cursor.row ≤ s.terminal.bottomMargin)) :
    ∃ r, restoreOf s = some r ∧ normD r = normD s := by
  simp only [Bool.and_eq_true] at hpens
  have hi := hinv
  simp only [Inv, Bool.and_eq_true] at hi
  have hne := C11_primary_not_excepted s.terminal hprim hinside
  refine restore_of_dump s hinv hreg (dump_general s.terminal
    ⟨⟨hi.2, penOK_of_b hpens.1.1, hcols, hrows⟩, hne.1, viewOK_of_b hcells,
      (fun ha => by rw [hprim] at ha; cases ha), penOK_of_b hpens.1.2, penOK_of_b hpens.2, ?_, hne.2⟩)
  intro _
  simp only [parkedCtxExceedsU16, hprim, beq_self_eq_true, Bool.true_and, Bool.and_eq_false_iff, Bool.not_eq_false',
    Bool.or_eq_false_iff, decide_eq_false_iff_not, Nat.not_le] at hparked
  rcases hparked with h7 | h7
  · exact Or.inl h7
  · exact Or.inr h7

/-- **the ALTERNATE screen active at dump time** (restore half), under `¬resizedOnAlt` (the parked primary has
    the terminal's geometry): the primary buffer and its context are dumped first, then `?1047h`, `CSI 1;1H`,
    the alternate buffer's own dump (`C11_buffer_dump` a second time, on the blank buffer `?1047h` presents),
    its context, no switch back.  Both saved contexts arbitrary. -/
theorem C11_alternate_active_partial (s : Vt) (hinv : Inv s = true) (hreg : PRegOK s.parser = true)
    (halt : s.terminal.activeBufferType = .alternate)
    (hgeo : resizedOnAlt s.terminal = false)
    (hcells : viewOKb s.terminal.buffer.view = true) (hocells : viewOKb s.terminal.otherBuffer.view = true)
    (hpens : (penOKb s.terminal.pen && penOKb s.terminal.savedCtx.pen && penOKb s.terminal.alternateSavedCtx.pen) = true)
    (hcols : s.terminal.cols < 65535) (hrows : s.terminal.rows ≤ 65535)
    (hinside : s.terminal.originMode = false
      ∨ (s.terminal.topMargin ≤ s.terminal.cursor.row ∧ s.terminal.cursor.row ≤ s.terminal.bottomMargin)) :
    ∃ r, restoreOf s = some r ∧ normD r = normD s := by
  simp only [Bool.and_eq_true] at hpens
  have hi := hinv
  simp only [Inv, Bool.and_eq_true] at hi
  exact restore_of_dump s hinv hreg (dump_general s.terminal
    ⟨⟨hi.2, penOK_of_b hpens.1.1, hcols, hrows⟩, hgeo, viewOK_of_b hcells, fun _ => viewOK_of_b hocells,
      penOK_of_b hpens.1.2, penOK_of_b hpens.2, (fun hp => by rw [halt] at hp; cases hp),
      C11_cursorStepFaithful_inside s.terminal hinside⟩)

/-- **the `CSI u` route of step 9** (restore half): origin mode on and the cursor parked OUTSIDE the scroll
    region, under the decidable `cursorStepFaithful` — `CSI u` restores the active saved context (position,
    pen, origin mode, auto-wrap; pending wrap cleared), the emitted CUB/CUF/CUU/CUD (C05's `moveSpec`) reach
    the cursor exactly when `cursorStepFaithful` holds; pen and modes are re-established by the later steps.
    Either screen, arbitrary saved contexts. -/
theorem C11_csi_u_partial (s : Vt) (hinv : Inv s = true) (hreg : PRegOK s.parser = true)
    (hout : cursorOutsideRegion s.terminal = true)
    (hf : cursorStepFaithful s.terminal = true)
    (hgeo : resizedOnAlt s.terminal = false) (h6 : sizeExceedsU16 s.terminal = false)
    (h7 : parkedCtxExceedsU16 s.terminal = false)
    (hcells : viewOKb s.terminal.buffer.view = true) (hocells : viewOKb s.terminal.otherBuffer.view = true)
    (hpens : (penOKb s.terminal.pen && penOKb s.terminal.savedCtx.pen && penOKb s.terminal.alternateSavedCtx.pen) = true) :
    ∃ r, restoreOf s = some r ∧ normD r = normD s
      ∧ s.terminal.originMode = true
      ∧ (s.terminal.cursor.row < s.terminal.topMargin ∨ s.terminal.cursor.row > s.terminal.bottomMargin) := by
  simp only [Bool.and_eq_true] at hpens
  have hi := hinv
  simp only [Inv, Bool.and_eq_true] at hi
  simp only [sizeExceedsU16, Bool.or_eq_false_iff, decide_eq_false_iff_not, Nat.not_le, Nat.not_lt] at h6
  have hd : DumpOK s.terminal := by
    refine ⟨⟨hi.2, penOK_of_b hpens.1.1, by omega, by omega⟩, hgeo, viewOK_of_b hcells, fun _ => viewOK_of_b hocells,
      penOK_of_b hpens.1.2, penOK_of_b hpens.2, ?_, hf⟩
    intro hp
    simp only [parkedCtxExceedsU16, hp, beq_self_eq_true, Bool.true_and, Bool.and_eq_false_iff, Bool.not_eq_false',
      Bool.or_eq_false_iff, decide_eq_false_iff_not, Nat.not_le] at h7
    rcases h7 with h7 | h7
    · exact Or.inl h7
    · exact Or.inr h7
  obtain ⟨r, h1, h2⟩ := restore_of_dump s hinv hreg (dump_general s.terminal hd)
  simp only [cursorOutsideRegion, Bool.and_eq_true, Bool.or_eq_true, decide_eq_true_eq] at hout
  exact ⟨r, h1, h2, hout.1, hout.2⟩

/-! ### the full statement -/

/-- **C11, restore half, corrected a second time**: `C11_dump_full'` with the parked-position bound of finding
    KF7 (`C11_dump_full'` itself is FALSE: 70000x1, `?1047h`, CUF 65535, CUF 1, `ESC 7`, `?1047l`, resize 10x1
    is reachable, within every exception of `C11_dump_full'`, and does not restore — known/KF7.script,
    `kf7State` below) -/
def C11_dump_full'' : Prop :=
  ∀ s : Vt, Lemmas.C11.Reach s → resizedOnAlt s.terminal = false → cursorStepFaithful s.terminal = true →
    sizeExceedsU16 s.terminal = false → parkedCtxExceedsU16 s.terminal = false →
    ∃ r, restoreOf s = some r ∧ normD r = normD s

/-- **the restore half holds in full**: every reachable state that is not one of the known exceptions
    (KF2 `resizedOnAlt`, KF1/KF3 `¬cursorStepFaithful`, KF6 `sizeExceedsU16`, KF7 `parkedCtxExceedsU16`) is
    restored by its own `dump()` up to `normD` — either screen active, arbitrary contents, pens, saved
    contexts on both screens, tab stops, margins, modes, cursor anywhere incl. wrap-pending and outside the
    region under origin mode, parser cut anywhere -/
theorem C11_dump_full''_holds : C11_dump_full'' := by
  intro s hr h2 h1 h6 h7
  obtain ⟨hi, hreg⟩ := C11_reach_inv hr
  exact restore_general s hi hreg (reach_cellsInv hr) h2 h1 h6 h7

/-- `C11_dump_full'` for the states that also satisfy the KF7 bound — i.e. `C11_dump_full'` is proved up to
    finding KF7 -/
theorem C11_dump_full'_holds_up_to_KF7 (s : Vt) (hr : Lemmas.C11.Reach s)
    (h2 : resizedOnAlt s.terminal = false) (h1 : cursorStepFaithful s.terminal = true)
    (h6 : sizeExceedsU16 s.terminal = false) (h7 : parkedCtxExceedsU16 s.terminal = false) :
    ∃ r, restoreOf s = some r ∧ normD r = normD s := C11_dump_full''_holds s hr h2 h1 h6 h7

/-- **the decomposition with the continuation half discharged, for the twice-corrected restore half**:
    `C11_dump_full''` alone gives the property as the text words it -/
theorem C11_from_dump_full'' (hd : C11_dump_full'') (s : Vt) (hr : Lemmas.C11.Reach s)
    (h2 : resizedOnAlt s.terminal = false) (h1 : cursorStepFaithful s.terminal = true)
    (h6 : sizeExceedsU16 s.terminal = false) (h7 : parkedCtxExceedsU16 s.terminal = false) :
    ∃ r, restoreOf s = some r ∧ normD r = normD s ∧ obs r = obs s
      ∧ ∀ xs : List Nat, (s.feedAll xs).map obs = (r.feedAll xs).map obs := by
  obtain ⟨r, hrs, hn⟩ := hd s hr h2 h1 h6 h7
  obtain ⟨hi, hreg⟩ := C11_reach_inv hr
  have hi' := hi
  simp only [Inv, Bool.and_eq_true] at hi'
  have ht := TOK.of_TInv hi'.2
  have gs : Good s := ⟨hi, hreg, h2⟩
  have gr : Good r := good_restore ht.c1 ht.r1 hrs
  refine ⟨r, hrs, hn, C11_norm_obs r s hn, fun xs => ?_⟩
  have := C11_norm_sound_feedAll xs s r gs gr hn.symm
  cases hsa : s.feedAll xs with
  | none =>
    cases hra : r.feedAll xs with
    | none => rfl
    | some b' => simp [hsa, hra] at this
  | some a' =>
    cases hra : r.feedAll xs with
    | none => simp [hsa, hra] at this
    | some b' =>
      simp only [hsa, hra, Option.map_some, Option.some.injEq] at this ⊢
      exact C11_norm_obs a' b' this

/-- **C11, the property itself**: for every reachable state that is not one of the known exceptions (KF2
    `resizedOnAlt`, KF1/KF3 `¬cursorStepFaithful`, KF6 `sizeExceedsU16`, KF7 `parkedCtxExceedsU16`), feeding
    `dump()` into a fresh terminal of the same size succeeds and yields a terminal with the same normal form
    that shows the same through the public API — view cells, pens, wrap marks, cursor, cursor-key mode — now
    and after EVERY continuation input (including the completion of an escape sequence the original input
    was cut in), and the two panic together (i.e. never — C01) -/
theorem C11_holds (s : Vt) (hr : Lemmas.C11.Reach s)
    (h2 : resizedOnAlt s.terminal = false) (h1 : cursorStepFaithful s.terminal = true)
    (h6 : sizeExceedsU16 s.terminal = false) (h7 : parkedCtxExceedsU16 s.terminal = false) :
    ∃ r, restoreOf s = some r ∧ normD r = normD s ∧ obs r = obs s
      ∧ ∀ xs : List Nat, (s.feedAll xs).map obs = (r.feedAll xs).map obs :=
  C11_from_dump_full'' C11_dump_full''_holds s hr h2 h1 h6 h7

/-! ### finding KF7: the parked alternate-screen saved position beyond the 16-bit parameter range -/

/-- KF7 witness (known/KF7.script), 70000x1: `CSI ?1047h`, `CSI 65535 C`, `CSI 1 C` (column 65536), `ESC 7`,
    `CSI ?1047l`, resize 10x1.  The state is reachable, none of KF1/KF2/KF3/KF6 applies (`sizeExceedsU16` looks
    at the CURRENT size), `dump()` contains `CSI 1;65537 H`, and the restored parked context has column 0
    instead of the clamped 9.  Evaluated by `#eval` in Avt/Lemmas/C11KF7.lean (kernel evaluation of a 70000-cell
    row costs ~45 s / 3 GB and is kept out of the default build, as for KF6) and replayed on the crate. -/
def kf7Hist : List HOp :=
  [.feedStr [esc, 0x5b, 0x3f, 0x31, 0x30, 0x34, 0x37, 0x68], .feedStr [esc, 0x5b, 0x36, 0x35, 0x35, 0x33, 0x35, 0x43],
   .feedStr [esc, 0x5b, 0x31, 0x43], .feedStr [esc, 0x37], .feedStr [esc, 0x5b, 0x3f, 0x31, 0x30, 0x34, 0x37, 0x6c],
   .resize 10 1]

/-- a faithful neighbour of KF7, 20x1: the parked position (column 15) lies beyond the screen after the resize
    to 10x1 but inside the parameter range — CUP clamps it exactly as `normD` does, the restore is exact and
    stays so after `CSI ?1047h ESC 8 X` -/
theorem KF7_neighbour_ok :
    witness 20 1 [.feedStr [esc, 0x5b, 0x3f, 0x31, 0x30, 0x34, 0x37, 0x68], .feedStr [esc, 0x5b, 0x31, 0x35, 0x43],
        .feedStr [esc, 0x37], .feedStr [esc, 0x5b, 0x3f, 0x31, 0x30, 0x34, 0x37, 0x6c], .resize 10 1]
      [esc, 0x5b, 0x3f, 0x31, 0x30, 0x34, 0x37, 0x68, esc, 0x38, 0x58]
      = some { findings := [], sameAtRestore := true, obsSameAtRestore := true,
               sameAfterProbe := true, obsSameAfterProbe := true } := by decide +kernel

/-- `C11_dump_full'` is refuted by ANY reachable state on which the classifier finds nothing but KF7 and whose
    restore differs (the concrete one: `kf7Hist` from `Vt.new 70000 1`; `kf7_refutes` in
    Avt/Lemmas/C11KF7.lean instantiates this by kernel evaluation) -/
theorem C11_dump_full'_false_of_witness (s r : Vt) (hr : Lemmas.C11.Reach s)
    (hf : findings s.terminal = [.kf7]) (hres : restoreOf s = some r) (hne : normD r ≠ normD s) :
    ¬ C11_dump_full' := by
  intro hd
  have h2 : resizedOnAlt s.terminal = false := by
    cases h : resizedOnAlt s.terminal with
    | false => rfl
    | true => simp [findings, h] at hf
  have h1 : cursorStepFaithful s.terminal = true := by
    cases h : cursorStepFaithful s.terminal with
    | true => rfl
    | false =>
      simp only [findings, h2, h, Bool.false_eq_true, if_false, List.nil_append] at hf
      split at hf <;> simp at hf
  have h6 : sizeExceedsU16 s.terminal = false := by
    cases h : sizeExceedsU16 s.terminal with
    | false => rfl
    | true => simp [findings, h2, h1, h] at hf
  obtain ⟨r', e, hn⟩ := hd s hr h2 h1 h6
  rw [hres] at e
  cases e
  exact hne hn

/-! ### `C11_holds` applies to a concrete non-trivial state on the ALTERNATE screen, `CSI u` route -/

/-- 6x8, scrollback limit 3: red text and a saved context on the primary screen; on the alternate screen blue-
    background text that soft-wraps, origin mode, margins 5..6, a saved context at (2, 4) with origin mode on,
    then margins 7..8 and `ESC 8`: the cursor is parked OUTSIDE the region with origin mode on; it is moved
    right and up (so dump step 9 emits `CSI u` `CSI 1 C` `CSI 1 A`), and the input is cut inside `CSI 1;` -/
def exAHist : List HOp :=
  [.feedStr [esc, 0x5b, 0x33, 0x31, 0x6d, 0x61, 0x62, 0x63, esc, 0x37],                          -- CSI 31m abc ESC 7
   .feedStr [esc, 0x5b, 0x3f, 0x31, 0x30, 0x34, 0x37, 0x68],                                    -- CSI ?1047h
   .feedStr [esc, 0x5b, 0x34, 0x34, 0x6d, 0x78, 0x78, 0x78, 0x78, 0x78, 0x78, 0x78, 0x78, 0x79],  -- CSI 44m x×8 y
   .feedStr [esc, 0x5b, 0x3f, 0x36, 0x68, esc, 0x5b, 0x35, 0x3b, 0x36, 0x72],                    -- CSI ?6h CSI 5;6r
   .feedStr [esc, 0x5b, 0x31, 0x3b, 0x33, 0x48, esc, 0x37],                                    -- CSI 1;3H ESC 7
   .feedStr [esc, 0x5b, 0x37, 0x3b, 0x38, 0x72, esc, 0x38],                                    -- CSI 7;8r ESC 8
   .feedStr [esc, 0x5b, 0x43, esc, 0x5b, 0x41],                                                -- CSI C  CSI A
   .feedStr [esc, 0x5b, 0x31, 0x3b]]                                                          -- CSI 1;  (cut)

def exAState : Option Vt := (Vt.new 6 8 (some 3)).bind fun v => runHist v exAHist

theorem exAState_isSome : exAState.isSome = true := by decide +kernel

/-- the state is as described, reachable, satisfies every hypothesis of `C11_holds`; hence its dump restores
    it, for all continuations -/
example : ∃ s r, exAState = some s
    ∧ s.terminal.activeBufferType = .alternate ∧ cursorOutsideRegion s.terminal = true
    ∧ step9Moves s.terminal = [.cuf 1, .cuu 1]
    ∧ s.terminal.savedCtx.isDefault = false ∧ s.terminal.alternateSavedCtx.isDefault = false
    ∧ s.parser.state = .CsiParam
    ∧ restoreOf s = some r ∧ normD r = normD s
    ∧ ∀ xs : List Nat, (s.feedAll xs).map obs = (r.feedAll xs).map obs := by
  have hs := Option.some_get exAState_isSome
  have reach : Lemmas.C11.Reach (exAState.get exAState_isSome) := by
    refine ⟨6, 8, some 3, exAHist, by decide, by decide, ?_, hs.symm⟩
    intro op hop c r he
    simp only [exAHist, List.mem_cons, List.not_mem_nil, or_false] at hop
    rcases hop with rfl | rfl | rfl | rfl | rfl | rfl | rfl | rfl <;> cases he
  obtain ⟨r, h1, h2, _, h4⟩ := C11_holds (exAState.get exAState_isSome) reach
    (by decide +kernel) (by decide +kernel) (by decide +kernel) (by decide +kernel)
  exact ⟨_, r, hs.symm, by decide +kernel, by decide +kernel, by decide +kernel, by decide +kernel,
    by decide +kernel, by decide +kernel, h1, h2, h4⟩

end Avt.Props.C11
