/- Property theorems for C11 (placeholder until the proofs land). -/
import Avt.Spec.C11
