/-
  Avt.Props.C12 — property C12: the result of feeding a string is independent of how it is chunked.

  Technique (DESIGN.md §6 C12): lock-step relation `Frame.Rel` ("`a` is `b` with more scrollback":
  every field equal except the amount of retained scrollback, `trimNeeded`, the dirty flags) is
  preserved by `Terminal.execute f` for EVERY `Function` (`Frame.frame_execute`, all 48 constructors,
  buffer switches and RIS included), `gc` only drops a prefix of the scrollback (`Frame.gc_spec`), and
  any series of `feed_str` calls is shadowed by one `feedAll` of the concatenated input
  (`Frame.runFeeds_ghost`).  The conclusions are stated with the decidable predicates of
  `Avt.Spec.C12` — the ones the oracle evaluates on the implementation's states.

  Obligations (all kernel-checked, no extra hypotheses beyond `Inv` of the start state):
    C12_frame_execute      frame lemma, all functions (`coveredFrame f = true` for every f)
    C12_feedStrs           any series of feed_str calls vs one feed_str of the whole: `equivChunk`;
                           unlimited: same primary scrollback, same `lines()` on the primary screen
                           (and on the alternate screen given C13's `altClean` of the two end states)
    C12_feedStr            the two-piece special case, in the shape of DESIGN.md
    C12_feedStrs_total     the chunked session panics iff the whole feed panics
    C12_feedChars_partial  per-character `Vt.feed` vs `feed_str`: `equivChunk` for every limit;
                           unlimited: same primary scrollback, same `lines()` IF the primary screen is
                           active at the end (restriction = known finding KF4)
    C12_feed_full_false    the unrestricted `lines()` clause for `Vt.feed` (`C12_feed_full`) is FALSE of
                           the pinned code: witness 7x1, `CSI ?47h` + 8 letters (KF4)
-/
import Avt.Lemmas.FrameStream

namespace Avt.C12
open Avt Avt.Frame Avt.Spec.C12

/-- a series of `feed_str` calls on consecutive pieces -/
def feedStrs (v : Vt) (chunks : List (List Nat)) : Option Vt := (runFeeds v chunks).map (·.1)

/-- per-character feeding through `Vt::feed` is, by definition, the fold `Vt.feedAll` -/
def feedChars (v : Vt) (xs : List Nat) : Option Vt := v.feedAll xs

theorem feedChars_cons (v : Vt) (c : Nat) (cs : List Nat) :
    feedChars v (c :: cs) = match v.feed c with | some v' => feedChars v' cs | none => none := rfl

/-- **Frame lemma** (every `Function`): related terminals step to related terminals, or both panic. -/
theorem C12_frame_execute {P : Par} {a b a' : Terminal} {f : Function} (hg : P.g = true)
    (R : Rel P a b) (hs : P.s = true ∨ f ≠ .ris) (hc : coveredFrame f = true)
    (h : a.execute f = some a') :
    ∃ b' P', b.execute f = some b' ∧ Rel P' a' b' ∧ P'.g = true ∧ P'.s = P.s ∧ P'.L = P.L
      ∧ (f ≠ .ris → P'.prim = P.prim) ∧ (f = .ris → P'.prim = []) :=
  frame_execute hg R hs hc h

theorem C12_covered_all (f : Function) : coveredFrame f = true := rfl

private theorem prim_nil (s g : Bool) (L : Option Nat) (T : BufferType) :
    (⟨s, g, L, T, [], []⟩ : Par).prim = [] := by cases T <;> rfl

/-- the whole feed seen from the ghost: `feed_str v xs` is `finish` of the ghost -/
private theorem whole_ghost {v w : Vt} {cw : Changes} {xs : List Nat} (hI : Inv v = true)
    (hw : v.feedStr xs = some (w, cw)) :
    ∃ g Q, v.feedAll xs = some g ∧ VRel Q g w ∧ Q.s = true
      ∧ (v.terminal.scrollbackLimit = none → Q.prim = []) := by
  unfold Vt.feedStr at hw
  cases hg : v.feedAll xs with
  | none => simp [hg] at hw
  | some g =>
    simp only [hg, Option.map_some, Option.some.injEq] at hw
    have h0 := feedAll_rel (VRel.ofInv hI) rfl xs (Or.inl rfl)
    rw [hg] at h0
    obtain ⟨P1, R1, st1⟩ := h0
    obtain ⟨P2, R2, _, h2s, h2L, _, h2p⟩ := finish_rel R1
    have hwf : w = g.finish.1 := by rw [hw]
    refine ⟨g, P2, rfl, hwf ▸ R2, h2s.trans st1.s, fun hL => ?_⟩
    have hL1 : P1.L = none := st1.L.trans hL
    have p1 : P1.prim = [] := by
      rcases st1.reset with h | h
      · rw [h]; exact prim_nil _ _ _ _
      · exact h
    rw [h2p, p1, finish_unlimited R1 st1.s hL1]; rfl

/-- **C12, `feed_str`.**  Any series of `feed_str` calls on consecutive pieces (cut anywhere) and one
    `feed_str` of the whole leave the same visible screen, cursor, modes, parser and parked buffer
    (`equivChunk`), for every scrollback limit; with unlimited scrollback also the same primary
    scrollback, hence the same `lines()` while the primary screen is showing — and on the alternate
    screen too, given that `feed_str` leaves no scrollback there (`altClean`, property C13). -/
theorem C12_feedStrs {v v2 w : Vt} {cw : Changes} {chunks : List (List Nat)}
    (hI : Inv v = true) (h : feedStrs v chunks = some v2)
    (hw : v.feedStr chunks.flatten = some (w, cw)) :
    equivChunk v2 w = true
    ∧ (v.terminal.scrollbackLimit = none →
        v2.terminal.primaryBuffer.sb = w.terminal.primaryBuffer.sb
        ∧ (v2.terminal.activeBufferType = .primary → v2.lines = w.lines)
        ∧ (altClean v2 = true → altClean w = true → equivLines v2 w = true)) := by
  unfold feedStrs at h
  cases hr : runFeeds v chunks with
  | none => simp [hr] at h
  | some rd =>
    obtain ⟨v2', d⟩ := rd
    simp only [hr, Option.map_some, Option.some.injEq] at h
    subst h
    obtain ⟨g, P', hg, R', _, h3s, h3L, _, _, h3e⟩ :=
      runFeeds_ghost chunks (VRel.ofInv hI) rfl (Or.inl rfl) hr
    obtain ⟨g', Q, hg', RQ, hQs, hQp⟩ := whole_ghost hI hw
    rw [hg] at hg'; cases hg'
    have hP's : P'.s = true := h3s
    have heq : equivChunk v2' w = true := equivChunk_of R' RQ hP's hQs
    refine ⟨heq, fun hL => ?_⟩
    have p1 : P'.prim = [] := h3e rfl hL (prim_nil _ _ _ _)
    have p2 : Q.prim = [] := hQp hL
    have hsb := primarySb_of R'.term RQ.term p1 p2
    have hlines : v2'.terminal.activeBufferType = .primary → v2'.lines = w.lines :=
      fun hT => lines_of R'.term RQ.term p1 p2 hT
    refine ⟨hsb, hlines, fun c1 c2 => ?_⟩
    unfold equivLines
    have hl : v2'.lines = w.lines := by
      cases hT : v2'.terminal.activeBufferType with
      | primary => exact hlines hT
      | alternate =>
        have hTw : w.terminal.activeBufferType = .alternate := by
          rw [← RQ.term.activeBufferType, R'.term.activeBufferType]; exact hT
        simp only [altClean, hT, hTw, bne_self_eq_false, Bool.false_or, List.isEmpty_iff] at c1 c2
        show v2'.terminal.buffer.lines = w.terminal.buffer.lines
        unfold Buffer.lines
        rw [c1, c2, ← R'.term.buf.view, ← RQ.term.buf.view]
    simp [heq, hl, hsb]

/-- the two-piece form of DESIGN.md: `feedStr (feedStr v xs).1 ys` vs `feedStr v (xs ++ ys)` -/
theorem C12_feedStr {v v1 v2 w : Vt} {c1 c2 cw : Changes} {xs ys : List Nat}
    (hI : Inv v = true) (h1 : v.feedStr xs = some (v1, c1)) (h2 : v1.feedStr ys = some (v2, c2))
    (hw : v.feedStr (xs ++ ys) = some (w, cw)) :
    equivChunk v2 w = true
    ∧ (v.terminal.scrollbackLimit = none →
        v2.terminal.primaryBuffer.sb = w.terminal.primaryBuffer.sb
        ∧ (v2.terminal.activeBufferType = .primary → v2.lines = w.lines)
        ∧ (altClean v2 = true → altClean w = true → equivLines v2 w = true)) := by
  have h : feedStrs v [xs, ys] = some v2 := by
    simp [feedStrs, runFeeds, h1, h2]
  have hw' : v.feedStr [xs, ys].flatten = some (w, cw) := by simpa using hw
  exact C12_feedStrs hI h hw'

/-- chunking cannot turn a panic into a success or vice versa -/
theorem C12_feedStrs_total {v : Vt} (chunks : List (List Nat)) (hI : Inv v = true) :
    (feedStrs v chunks).isSome = (v.feedStr chunks.flatten).isSome := by
  -- both sides are decided by the ghost `v.feedAll chunks.flatten`
  have key : ∀ (ss : List (List Nat)) (P : Par) (g u : Vt), VRel P g u → P.g = true → P.s = true →
      (runFeeds u ss).isSome = (g.feedAll ss.flatten).isSome := by
    intro ss
    induction ss with
    | nil => intro P g u _ _ _; rfl
    | cons s ss ih =>
      intro P g u R hg hs
      have h1 := feedAll_rel R hg s (Or.inl hs)
      rw [List.flatten_cons, feedAll_append]
      simp only [runFeeds, Vt.feedStr]
      cases hu : u.feedAll s with
      | none =>
        cases hg1 : g.feedAll s with
        | none => rfl
        | some g1 => rw [hu, hg1] at h1; exact False.elim h1
      | some r =>
        cases hg1 : g.feedAll s with
        | none => rw [hu, hg1] at h1; exact False.elim h1
        | some g1 =>
          rw [hu, hg1] at h1
          obtain ⟨P1, R1, st1⟩ := h1
          obtain ⟨P2, R2, h2g, h2s, _, _, _⟩ := finish_rel R1
          have := ih P2 g1 r.finish.1 R2 (h2g.trans st1.g) ((h2s.trans st1.s).trans hs)
          simp only [Option.map_some]
          rw [← this]
          cases runFeeds r.finish.1 ss <;> rfl
  unfold feedStrs Vt.feedStr
  rw [Option.isSome_map, Option.isSome_map]
  exact key chunks _ v v (VRel.ofInv hI) rfl rfl

/-- **C12, `Vt::feed` per character (restricted).**  `feed_str v xs` and feeding `xs` one character at
    a time through `Vt::feed` agree on everything in `equivChunk` for every limit; with unlimited
    scrollback the primary scrollback agrees, and `lines()` agrees PROVIDED the primary screen is
    active at the end.  (On the alternate screen it does not: known finding KF4, see below.) -/
theorem C12_feedChars_partial {v g w : Vt} {cw : Changes} {xs : List Nat}
    (hI : Inv v = true) (hg : feedChars v xs = some g) (hw : v.feedStr xs = some (w, cw)) :
    equivChunk w g = true
    ∧ (v.terminal.scrollbackLimit = none →
        w.terminal.primaryBuffer.sb = g.terminal.primaryBuffer.sb
        ∧ (g.terminal.activeBufferType = .primary → w.lines = g.lines)) := by
  obtain ⟨g', Q, hg', RQ, hQs, hQp⟩ := whole_ghost hI hw
  unfold feedChars at hg
  rw [hg] at hg'; cases hg'
  have h0 := feedAll_rel (VRel.ofInv hI) rfl xs (Or.inl rfl)
  rw [hg] at h0
  obtain ⟨P1, R1, st1⟩ := h0
  refine ⟨equivChunk_of RQ R1 hQs st1.s, fun hL => ?_⟩
  have p1 : P1.prim = [] := by
    rcases st1.reset with h | h
    · rw [h]; exact prim_nil _ _ _ _
    · exact h
  refine ⟨primarySb_of RQ.term R1.term (hQp hL) p1, fun hT => ?_⟩
  have hTw : w.terminal.activeBufferType = .primary := by
    rw [← RQ.term.activeBufferType]; exact hT
  exact lines_of RQ.term R1.term (hQp hL) p1 hTw

/-- the full `lines()` clause of C12 for `Vt::feed`, as the property states it -/
def C12_feed_full : Prop :=
  ∀ (v : Vt) (xs : List Nat), Inv v = true → v.terminal.scrollbackLimit = none →
    (feedChars v xs).map Vt.lines = (v.feedStr xs).map (fun r => r.1.lines)

/-- KF4 witness: a fresh 7x1 terminal without scrollback limit, `CSI ? 47 h` followed by eight letters -/
def kf4Start : Vt := (Vt.new 7 1 none).getD default
def kf4Input : List Nat :=
  [0x1b, 0x5b, 0x3f, 0x34, 0x37, 0x68, 0x5a, 0x48, 0x44, 0x47, 0x59, 0x5a, 0x46, 0x58]

/-- **The full statement is false of the pinned code** (known finding KF4): `Vt::feed` never runs `gc`,
    so the row scrolled off the alternate screen is still in `lines()` (2 lines vs 1). -/
theorem C12_feed_full_false : ¬ C12_feed_full := by
  intro h
  have h1 := h kf4Start kf4Input (by decide +kernel) (by decide +kernel)
  have h2 : ((feedChars kf4Start kf4Input).map Vt.lines ==
             (kf4Start.feedStr kf4Input).map (fun r => r.1.lines)) = false := by decide +kernel
  rw [h1] at h2
  simp at h2

/-- … while everything C12 states apart from that clause does hold on the witness, and the oracle's
    classifier recognises it -/
example :
    (match feedChars kf4Start kf4Input, kf4Start.feedStr kf4Input with
     | some g, some (w, _) => equivChunk w g && kf4 w g && (g.lines.length == 2) && (w.lines.length == 1)
     | _, _ => false) = true := by decide +kernel

/-- the hypotheses of `C12_feedStr` are satisfiable on a non-trivial state: 4x2, limit 1, a scroll
    region, text that wraps and scrolls, cut inside an escape sequence -/
example :
    (match Vt.new 4 2 (some 1) with
     | some v =>
       Inv v &&
       (match v.feedStr [0x61, 0x62, 0x63, 0x64, 0x65, 0x0a, 0x1b, 0x5b, 0x33],
              v.feedStr [0x61, 0x62, 0x63, 0x64, 0x65, 0x0a, 0x1b, 0x5b, 0x33, 0x31, 0x6d, 0x66, 0x0a, 0x67, 0x0a, 0x68] with
        | some (v1, _), some (w, _) =>
          (match v1.feedStr [0x31, 0x6d, 0x66, 0x0a, 0x67, 0x0a, 0x68] with
           | some (v2, _) => equivChunk v2 w && (v2 != v1) && (w.terminal.buffer.sb.length == 1)
           | none => false)
        | _, _ => false)
     | none => false) = true := by decide +kernel

end Avt.C12
