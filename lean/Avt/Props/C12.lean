/- Property theorems for C12 (placeholder until the proofs land). -/
import Avt.Spec.C12
