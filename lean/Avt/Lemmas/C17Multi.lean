/-
  Avt.Lemmas.C17Multi — lists of several DEC modes in one DECSET / DECRST act left to right on the
  two saved contexts, each member exactly like the single-mode sequence
  (`Spec.C17.afterDecset`, `Spec.C17.afterDecrst`, `Spec.C17.lastRestoreOK`); and `step_ok`, the
  per-step specification for every `Function`.
-/
import Avt.Lemmas.C17Step
import Avt.Lemmas.Resize

namespace Avt.Spec.C17
open Avt

/-! ### what the primitives do, in closed form -/

theorem moveCursorHome_eq {t t' : Terminal} (h : t.moveCursorHome = some t') :
    t' = { t with cursor := { t.cursor with col := 0, row := t.actualTopMargin }, pendingWrap := false } := by
  unfold Terminal.moveCursorHome Terminal.doMoveCursorToRow at h
  obtain ⟨c1, _, rfl⟩ := Option.map_eq_some_iff.mp h
  simp [Terminal.doMoveCursorToCol, Terminal.actualTopMargin]
  rfl

theorem reflow_top {t t' : Terminal} (h : t.reflow = some t') : t'.topMargin = t.topMargin := by
  rw [reflow_eq] at h
  obtain ⟨b, col, row, d, _, rfl⟩ := reflowCore_eq h
  split <;> rfl

/-- `Buffer.resize` builds a buffer of the geometry it was asked for -/
theorem buffer_resize_geom {b b' : Buffer} {c r : Nat} {cur cur' : Nat × Nat}
    (h : b.resize c r cur = some (b', cur')) : b'.cols = c ∧ b'.rows = r := by
  rw [Buffer.resize_eq] at h
  cases h0 : Buffer.logicalPosition b.lines cur b.cols b.rows with
  | none => simp [h0] at h
  | some lp =>
    simp only [h0] at h
    cases h1 : Buffer.rsStep1 b.lines b.cols b.rows c cur lp with
    | none => simp [h1] at h
    | some s1 =>
      obtain ⟨ls1, cur1, oR⟩ := s1
      simp only [h1] at h
      cases h2 : Buffer.rsStep2 c r ls1 cur1 oR with
      | none => simp [h2] at h
      | some s2 =>
        obtain ⟨ls2, cur2⟩ := s2
        simp only [h2] at h
        cases h3 : csub ls2.length r with
        | none => simp [h3] at h
        | some k =>
          simp only [h3, Option.some.injEq, Prod.mk.injEq] at h
          rw [← h.1]
          exact ⟨rfl, rfl⟩

/-- the buffer showing has the terminal's geometry (part of `TInv`) -/
def Geom (t : Terminal) : Prop := t.buffer.cols = t.cols ∧ t.buffer.rows = t.rows

theorem reflow_geom {t t' : Terminal} (h : t.reflow = some t') : Geom t' := by
  rw [reflow_eq] at h
  by_cases hc : t.cols ≠ t.buffer.cols
  · rw [if_pos hc] at h
    obtain ⟨b, col, row, d, hres, rfl⟩ := reflowCore_eq h
    exact buffer_resize_geom hres
  · rw [if_neg hc] at h
    obtain ⟨b, col, row, d, hres, rfl⟩ := reflowCore_eq h
    exact buffer_resize_geom hres

theorem decsetOne_geom {t t' : Terminal} {m : DecMode} (hg : Geom t)
    (h : t.decsetOne m = some t') : Geom t' := by
  cases m <;> simp only [Terminal.decsetOne] at h
  case cursorKeys => cases h; exact hg
  case origin => have := moveCursorHome_eq h; subst this; exact hg
  case autoWrap => cases h; exact hg
  case textCursorEnable => cases h; exact hg
  case altScreenBuffer =>
    split at h
    · cases h
    · exact reflow_geom h
  case saveCursor => have := saveCursor_eq h; subst this; exact hg
  case saveCursorAltScreenBuffer =>
    split at h
    · cases h
    · split at h
      · cases h
      · exact reflow_geom h

/-- everything the fold over a DECSET list needs to know about `t'` relative to `t` -/
structure SetFacts (t t' : Terminal) (sc : Screens) (cur : SavedCtx) : Prop where
  cols : t'.cols = t.cols
  rows : t'.rows = t.rows
  top : t'.topMargin = t.topMargin
  scr : Screens.of t' = sc
  cur : ctxOf t' = cur

theorem ctxOf_eq {t t' : Terminal} (h1 : t'.cursor.col = t.cursor.col) (h2 : t'.cursor.row = t.cursor.row)
    (h3 : t'.pen = t.pen) (h4 : t'.originMode = t.originMode) (h5 : t'.autoWrapMode = t.autoWrapMode)
    (h6 : t'.cols = t.cols) : ctxOf t' = ctxOf t := by
  simp only [ctxOf, h1, h2, h3, h4, h5, h6]

/-- "show the alternate screen": switch (if the primary one is showing), then reflow — from a state
    whose buffer has the terminal's geometry -/
theorem showAlt_facts {t t1 t' : Terminal} (hg : t.buffer.cols = t.cols ∧ t.buffer.rows = t.rows)
    (h1 : t.switchToAlternateBuffer = some t1) (h2 : t1.reflow = some t') :
    SetFacts t t' ((Screens.of t).show t.cols t.rows .alternate) (ctxOf t) := by
  have F := reflow_facts h2
  have T := reflow_top h2
  rcases abt_cases t with hp | hp
  · obtain ⟨d, rfl⟩ := switchAlt_primary hp h1
    have C := F.cursor rfl rfl
    refine ⟨F.cols, F.rows, T, ?_, ?_⟩
    · simp only [Screens.of, Screens.show, F.abt, F.saved, F.alt, hp]
      simp
    · exact ctxOf_eq C.1 C.2 F.pen F.origin F.autoWrap F.cols
  · have := switchAlt_alternate hp h1
    subst this
    have C := F.cursor hg.1 hg.2
    refine ⟨F.cols, F.rows, T, ?_, ?_⟩
    · simp only [Screens.of, Screens.show, F.abt, F.saved, F.alt, hp]
      simp
    · exact ctxOf_eq C.1 C.2 F.pen F.origin F.autoWrap F.cols

/-- one member of a DECSET list does to (screen showing, contexts, context in force) what `setOne` says -/
theorem decsetOne_facts {t t' : Terminal} {m : DecMode} (hg : Geom t)
    (h : t.decsetOne m = some t') :
    SetFacts t t' (setOne t.cols t.rows t.topMargin ⟨Screens.of t, ctxOf t⟩ m).scr
      (setOne t.cols t.rows t.topMargin ⟨Screens.of t, ctxOf t⟩ m).cur := by
  cases m <;> simp only [Terminal.decsetOne] at h
  case cursorKeys => cases h; exact ⟨rfl, rfl, rfl, rfl, rfl⟩
  case origin =>
    have := moveCursorHome_eq h
    subst this
    refine ⟨rfl, rfl, rfl, rfl, ?_⟩
    simp [ctxOf, setOne, Terminal.actualTopMargin]
  case autoWrap => cases h; exact ⟨rfl, rfl, rfl, rfl, rfl⟩
  case textCursorEnable => cases h; exact ⟨rfl, rfl, rfl, rfl, rfl⟩
  case altScreenBuffer =>
    split at h
    · cases h
    · rename_i t1 h1
      exact showAlt_facts hg h1 h
  case saveCursor =>
    have := saveCursor_eq h
    subst this
    exact ⟨rfl, rfl, rfl, rfl, rfl⟩
  case saveCursorAltScreenBuffer =>
    split at h
    · cases h
    · rename_i t0 h0
      have e0 := saveCursor_eq h0
      subst e0
      split at h
      · cases h
      · rename_i t1 h1
        have F := showAlt_facts (t := { t with savedCtx := ctxOf t }) hg h1 h
        exact ⟨F.cols, F.rows, F.top, F.scr, F.cur⟩

/-- the fold: from any intermediate state `u` of a list started in `t0` -/
theorem decset_fold (t0 : Terminal) :
    ∀ (ms : List DecMode) {u t' : Terminal} {st : ListSt}, Geom u →
      SetFacts t0 u st.scr st.cur → Terminal.foldM' Terminal.decsetOne ms u = some t' →
      SetFacts t0 t' (ms.foldl (setOne t0.cols t0.rows t0.topMargin) st).scr
        (ms.foldl (setOne t0.cols t0.rows t0.topMargin) st).cur := by
  intro ms
  induction ms with
  | nil =>
    intro u t' st _ hs h
    unfold Terminal.foldM' at h
    cases h
    exact hs
  | cons m rest ih =>
    intro u t' st hi hs h
    unfold Terminal.foldM' at h
    split at h
    · rename_i u1 h1
      have F := decsetOne_facts hi h1
      have hst : (⟨Screens.of u, ctxOf u⟩ : ListSt) = st := by
        cases st; simp only [hs.scr, hs.cur]
      rw [hs.cols, hs.rows, hs.top, hst] at F
      exact ih (decsetOne_geom hi h1)
        ⟨F.cols.trans hs.cols, F.rows.trans hs.rows, F.top.trans hs.top, F.scr, F.cur⟩ h
    · cases h

/-- **DECSET lists.**  After `CSI ? ms h` the screen showing and both contexts are those of
    `afterDecset t ms` (and so is the context in force) -/
theorem decset_multi {t t' : Terminal} {ms : List DecMode} (hi : TInv t = true)
    (h : Terminal.foldM' Terminal.decsetOne ms t = some t') :
    (afterDecset t ms).scr.holds t' = true ∧ ctxOf t' = (afterDecset t ms).cur := by
  have := decset_fold t ms (st := ⟨Screens.of t, ctxOf t⟩) (tinv_geom hi) ⟨rfl, rfl, rfl, rfl, rfl⟩ h
  refine ⟨?_, this.cur⟩
  have e := this.scr
  unfold afterDecset
  rw [← e]
  simp [Screens.holds, Screens.of]

/-! ### DECRST lists -/

structure RstFacts (t t' : Terminal) (sc : Screens) : Prop where
  cols : t'.cols = t.cols
  rows : t'.rows = t.rows
  scr : Screens.of t' = sc

theorem showPrim_facts {t t1 t' : Terminal} (h1 : t.switchToPrimaryBuffer = some t1)
    {t2 : Terminal} (h12 : Screens.of t2 = Screens.of t1) (hc : t2.cols = t1.cols) (hr : t2.rows = t1.rows)
    (h2 : t2.reflow = some t') :
    RstFacts t t' ((Screens.of t).show t.cols t.rows .primary) := by
  have F := reflow_facts h2
  simp only [Screens.of, Screens.mk.injEq] at h12
  rcases abt_cases t with hp | hp
  · have := switchPrim_primary hp h1
    subst this
    refine ⟨F.cols.trans hc, F.rows.trans hr, ?_⟩
    simp only [Screens.of, Screens.show, F.abt, F.saved, F.alt, hp, h12.1, h12.2.1, h12.2.2, hc, hr]
    simp
  · obtain ⟨d, rfl⟩ := switchPrim_alternate hp h1
    refine ⟨F.cols.trans hc, F.rows.trans hr, ?_⟩
    simp only [Screens.of, Screens.show, F.abt, F.saved, F.alt, hp, h12.1, h12.2.1, h12.2.2, hc, hr]
    simp

theorem decrstOne_facts {t t' : Terminal} {m : DecMode} (h : t.decrstOne m = some t') :
    RstFacts t t' (rstOne t.cols t.rows (Screens.of t) m) := by
  cases m <;> simp only [Terminal.decrstOne] at h
  case cursorKeys => cases h; exact ⟨rfl, rfl, rfl⟩
  case origin =>
    have := moveCursorHome_eq h
    subst this
    exact ⟨rfl, rfl, rfl⟩
  case autoWrap => cases h; exact ⟨rfl, rfl, rfl⟩
  case textCursorEnable => cases h; exact ⟨rfl, rfl, rfl⟩
  case altScreenBuffer =>
    split at h
    · cases h
    · rename_i t1 h1
      exact showPrim_facts h1 rfl rfl rfl h
  case saveCursor => cases h; exact ⟨rfl, rfl, rfl⟩
  case saveCursorAltScreenBuffer =>
    split at h
    · cases h
    · rename_i t1 h1
      exact showPrim_facts h1 (t2 := t1.restoreCursor) rfl rfl rfl h

theorem decrst_fold (t0 : Terminal) :
    ∀ (ms : List DecMode) {u t' : Terminal} {sc : Screens},
      RstFacts t0 u sc → Terminal.foldM' Terminal.decrstOne ms u = some t' →
      RstFacts t0 t' (ms.foldl (rstOne t0.cols t0.rows) sc) := by
  intro ms
  induction ms with
  | nil =>
    intro u t' sc hs h
    unfold Terminal.foldM' at h
    cases h
    exact hs
  | cons m rest ih =>
    intro u t' sc hs h
    unfold Terminal.foldM' at h
    split at h
    · rename_i u1 h1
      have F := decrstOne_facts h1
      rw [hs.cols, hs.rows, hs.scr] at F
      exact ih ⟨F.cols.trans hs.cols, F.rows.trans hs.rows, F.scr⟩ h
    · cases h

/-- the last member of a DECRST list, when it is a restore, leaves the restored context showing -/
theorem decrst_last :
    ∀ (ms : List DecMode) {t t' : Terminal}, Terminal.foldM' Terminal.decrstOne ms t = some t' →
      lastRestoreOK ms t' = true := by
  intro ms
  induction ms with
  | nil => intro t t' _; rfl
  | cons m rest ih =>
    intro t t' h
    unfold Terminal.foldM' at h
    split at h
    · rename_i u1 h1
      cases rest with
      | cons m2 rest2 =>
        have := ih h
        simpa only [lastRestoreOK, List.getLast?_cons_cons] using this
      | nil =>
        unfold Terminal.foldM' at h
        cases h
        cases m <;> simp only [lastRestoreOK, List.getLast?_singleton]
        case saveCursor =>
          simp only [Terminal.decrstOne] at h1
          cases h1
          exact restoredFrom_restore t
        case saveCursorAltScreenBuffer =>
          simp only [Terminal.decrstOne] at h1
          split at h1
          · cases h1
          · rename_i t1 _
            have F := reflow_facts h1
            have hpw := F.pending rfl
            simp [restoredModes, F.pen, F.origin, F.autoWrap, F.saved, hpw, clampCtx,
              Terminal.restoreCursor]
    · cases h

/-- **DECRST lists.**  After `CSI ? ms l` the screen showing and both contexts are those of
    `afterDecrst t ms`, and a final restore shows the context of that screen -/
theorem decrst_multi {t t' : Terminal} {ms : List DecMode}
    (h : Terminal.foldM' Terminal.decrstOne ms t = some t') :
    (afterDecrst t ms).holds t' = true ∧ lastRestoreOK ms t' = true := by
  have := decrst_fold t ms (sc := Screens.of t) ⟨rfl, rfl, rfl⟩ h
  refine ⟨?_, decrst_last ms h⟩
  have e := this.scr
  unfold afterDecrst
  rw [← e]
  simp [Screens.holds, Screens.of]

/-! ### the list specification specialises to the single-mode one -/

theorem afterDecset_single (t : Terminal) (m : DecMode) :
    ((afterDecset t [m]).scr.saved, (afterDecset t [m]).scr.other) = modeCtx t true m := by
  rcases abt_cases t with hp | hp <;> cases m <;>
    simp [afterDecset, setOne, modeCtx, showScreen, Screens.show, Screens.of, hp]

theorem afterDecrst_single (t : Terminal) (m : DecMode) :
    ((afterDecrst t [m]).saved, (afterDecrst t [m]).other) = modeCtx t false m := by
  rcases abt_cases t with hp | hp <;> cases m <;>
    simp [afterDecrst, rstOne, modeCtx, showScreen, Screens.show, Screens.of, hp]

/-- the per-step specification holds for every function of the model -/
theorem step_ok {t t' : Terminal} {f : Function} (hi : TInv t = true) (h : t.execute f = some t') :
    stepOK t f t' = true := by
  by_cases ht : touchesCtx f = false
  · -- clause (3) (and the restores, which keep both contexts)
    have hk := ctxKept_of (frame hi ht h)
    cases f <;> simp only [touchesCtx, Bool.true_eq_false] at ht
    case decrc =>
      simp only [Terminal.execute] at h; cases h
      simp [stepOK, restoredFrom_restore, hk]
      simp [Terminal.restoreCursor]
    case scorc =>
      simp only [Terminal.execute] at h; cases h
      simp [stepOK, restoredFrom_restore, hk]
      simp [Terminal.restoreCursor]
    case decset ms =>
      simp only [Terminal.execute] at h
      cases ms with
      | nil => exact (decset_multi hi h).1
      | cons m rest =>
        cases rest with
        | nil => exact decset_single_ok (foldM_single h)
        | cons _ _ => exact (decset_multi hi h).1
    case decrst ms =>
      simp only [Terminal.execute] at h
      cases ms with
      | nil => simpa [stepOK] using decrst_multi h
      | cons m rest =>
        cases rest with
        | nil => exact decrst_single_ok hi (foldM_single h)
        | cons _ _ => simpa [stepOK] using decrst_multi h
    all_goals simp [stepOK, hk]
  · replace ht : touchesCtx f = true := by simpa using ht
    cases f <;> simp only [touchesCtx, Bool.false_eq_true] at ht
    case decsc =>
      simp only [Terminal.execute] at h
      have := saveCursor_eq h; subst this
      simp [stepOK, sameVisible]
    case scosc =>
      simp only [Terminal.execute] at h
      have := saveCursor_eq h; subst this
      simp [stepOK, sameVisible]
    case decstr =>
      simp only [Terminal.execute, Terminal.softReset] at h
      obtain ⟨r1, _, rfl⟩ := Option.map_eq_some_iff.mp h
      simp [stepOK, defaultCtx_eq]
    case ris =>
      simp only [Terminal.execute, Terminal.hardReset] at h
      obtain ⟨r1, _, rfl⟩ := Option.map_eq_some_iff.mp h
      simp [stepOK, defaultCtx_eq]
    case decset ms =>
      simp only [Terminal.execute] at h
      cases ms with
      | nil => simp at ht
      | cons m rest =>
        cases rest with
        | nil => exact decset_single_ok (foldM_single h)
        | cons _ _ => exact (decset_multi hi h).1
    case decrst ms =>
      simp only [Terminal.execute] at h
      cases ms with
      | nil => simp at ht
      | cons m rest =>
        cases rest with
        | nil => exact decrst_single_ok hi (foldM_single h)
        | cons _ _ => simpa [stepOK] using decrst_multi h

end Avt.Spec.C17
