/-
  Avt.Lemmas.C15Step — the step relation of C15 and its algebra.

  `StepD D t t'`: the number of rows, the `xtwinops` switch and the number of flags are unchanged, no
  flag was cleared, and every row whose cells differ is flagged in `t'` — or is in the *debt* `D`
  (rows changed but not yet marked; terminal.rs marks after mutating).  `StepD Never` is the step
  property itself.
-/
import Avt.Lemmas.C15Buffer
import Avt.Lemmas.C16Frame
import Avt.Lemmas.Resize
import Avt.Spec.C15

namespace Avt.C15
open Avt Avt.C16

/-- the flag of row `i` is set -/
def Flagged (d : List Bool) (i : Nat) : Prop := d[i]? = some true

/-! ### DirtyLines -/

theorem add_spec {d d' : List Bool} {n : Nat} (h : Dirty.add d n = some d') :
    d'.length = d.length ∧ (∀ i, Flagged d i → Flagged d' i) ∧ Flagged d' n := by
  unfold Dirty.add at h
  refine ⟨setAt_length h, fun i hi => ?_, ?_⟩
  · unfold Flagged at *; rw [setAt_getElem? h]; split <;> simp [hi]
  · unfold Flagged; rw [setAt_getElem? h]; simp

theorem extend_spec {d d' : List Bool} {a b : Nat} (h : Dirty.extend d a b = some d') :
    d'.length = d.length ∧ (∀ i, Flagged d i → Flagged d' i) ∧ ∀ i, a ≤ i → i < b → Flagged d' i := by
  unfold Dirty.extend at h
  refine ⟨fillRange_length h, fun i hi => ?_, fun i h1 h2 => ?_⟩
  · unfold Flagged at *; rw [fillRange_getElem? h]; split <;> simp [hi]
  · unfold Flagged; rw [fillRange_getElem? h, if_pos ⟨h1, h2⟩]

theorem resize_self {d : List Bool} {n : Nat} (h : d.length = n) : Dirty.resize d n = d := by
  unfold Dirty.resize; rw [if_pos (by omega), ← h, List.take_length]

theorem resize_len (d : List Bool) (n : Nat) : (Dirty.resize d n).length = n := by
  unfold Dirty.resize; split <;> simp <;> omega

theorem new_flagged {n i : Nat} (h : i < n) : Flagged (Dirty.new n) i := by
  simp [Flagged, Dirty.new, List.getElem?_replicate, h]

theorem flagged_lt {d : List Bool} {i : Nat} (h : Flagged d i) : i < d.length := by
  unfold Flagged at h
  rcases Nat.lt_or_ge i d.length with h1 | h1
  · exact h1
  · rw [List.getElem?_eq_none h1] at h; cases h

theorem mem_toVecGo (d : List Bool) (i x : Nat) : x ∈ Dirty.toVecGo d i ↔ i ≤ x ∧ d[x - i]? = some true := by
  induction d generalizing i with
  | nil => simp [Dirty.toVecGo]
  | cons b bs ih =>
    have hrec : x ∈ Dirty.toVecGo bs (i + 1) ↔ i + 1 ≤ x ∧ bs[x - (i + 1)]? = some true := ih (i + 1)
    rcases Nat.lt_trichotomy x i with hlt | heq | hgt
    · have h1 : ¬ (i + 1 ≤ x) := by omega
      have h2 : x ≠ i := by omega
      simp only [Dirty.toVecGo]
      split <;> simp [hrec, h1, h2] <;> omega
    · subst heq
      have h1 : ¬ (x + 1 ≤ x) := by omega
      simp only [Dirty.toVecGo]
      cases b <;> simp [hrec, h1]
    · have e : x - i = (x - (i + 1)) + 1 := by omega
      have h1 : i + 1 ≤ x := by omega
      have h2 : x ≠ i := by omega
      have h3 : i ≤ x := by omega
      simp only [Dirty.toVecGo]
      split <;> simp [hrec, e, h1, h2, h3]

/-- `to_vec` lists exactly the rows whose flag is set -/
theorem mem_toVec (d : List Bool) (x : Nat) : x ∈ Dirty.toVec d ↔ Flagged d x := by
  simp [Dirty.toVec, mem_toVecGo, Flagged]

/-! ### the step relation -/

structure StepD (D : Nat → Prop) (t t' : Terminal) : Prop where
  rows : t'.rows = t.rows
  brows : t'.buffer.rows = t.buffer.rows
  xt : t'.xtwinops = t.xtwinops
  len : t'.dirtyLines.length = t.dirtyLines.length
  keep : ∀ i, Flagged t.dirtyLines i → Flagged t'.dirtyLines i
  sound : ∀ i, i < t.buffer.rows → cellsAt t'.buffer i ≠ cellsAt t.buffer i → Flagged t'.dirtyLines i ∨ D i

/-- the facts about a state the step lemmas need (all part of `TInv`) -/
structure Pre (t : Terminal) : Prop where
  brows : t.buffer.rows = t.rows
  len : t.dirtyLines.length = t.rows
  xt : t.xtwinops = false

theorem StepD.pre {D} {t t' : Terminal} (h : StepD D t t') (p : Pre t) : Pre t' :=
  ⟨by rw [h.brows, h.rows, p.brows], by rw [h.len, h.rows, p.len], by rw [h.xt, p.xt]⟩

theorem StepD.refl (D : Nat → Prop) (t : Terminal) : StepD D t t :=
  ⟨rfl, rfl, rfl, rfl, fun _ h => h, fun _ _ h => absurd rfl h⟩

theorem StepD.mono {D D' : Nat → Prop} {t t' : Terminal} (h : StepD D t t') (hd : ∀ i, D i → D' i) :
    StepD D' t t' :=
  ⟨h.rows, h.brows, h.xt, h.len, h.keep, fun i hi hc => (h.sound i hi hc).imp id (hd i)⟩

theorem StepD.trans {D : Nat → Prop} {t t1 t2 : Terminal} (h1 : StepD D t t1) (h2 : StepD D t1 t2) :
    StepD D t t2 := by
  refine ⟨h2.rows.trans h1.rows, h2.brows.trans h1.brows, h2.xt.trans h1.xt, h2.len.trans h1.len,
    fun i hi => h2.keep i (h1.keep i hi), fun i hi hc => ?_⟩
  by_cases e : cellsAt t2.buffer i = cellsAt t1.buffer i
  · rw [e] at hc
    exact (h1.sound i hi hc).imp (h2.keep i) id
  · exact h2.sound i (h1.brows ▸ hi) e

/-- everything that is not the buffer or the flags may change freely -/
theorem StepD.of_eq {D} {t t' : Terminal} (hb : t'.buffer = t.buffer) (hd : t'.dirtyLines = t.dirtyLines)
    (hr : t'.rows = t.rows) (hx : t'.xtwinops = t.xtwinops) : StepD D t t' :=
  ⟨hr, by rw [hb], hx, by rw [hd], fun i h => by rw [hd]; exact h, fun i _ hc => absurd (by rw [hb]) hc⟩

/-- replacing the buffer: the debt is the set of rows the buffer operation may have changed -/
theorem StepD.of_buffer {S} {t t' : Terminal} (hc : BChg S t.buffer t'.buffer)
    (hd : t'.dirtyLines = t.dirtyLines) (hr : t'.rows = t.rows) (hx : t'.xtwinops = t.xtwinops) :
    StepD S t t' :=
  ⟨hr, hc.rows, hx, by rw [hd], fun i h => by rw [hd]; exact h,
   fun i hi hne => .inr (Classical.byContradiction fun hn => hne (hc.same i hi hn))⟩

theorem StepD.setBuffer {S} {t : Terminal} {b : Buffer} (hc : BChg S t.buffer b) :
    StepD S t { t with buffer := b } := StepD.of_buffer hc rfl rfl rfl

/-- marking a row pays the debt for that row -/
theorem StepD.markDirty {D} {t t1 t' : Terminal} {r : Nat} (h1 : StepD D t t1)
    (hm : t1.markDirty r = some t') (hD : ∀ i, D i → i = r) : StepD Never t t' := by
  unfold Terminal.markDirty at hm
  simp only [Option.map_eq_some_iff] at hm
  obtain ⟨d, hd, rfl⟩ := hm
  obtain ⟨l1, l2, l3⟩ := add_spec hd
  refine ⟨h1.rows, h1.brows, h1.xt, l1.trans h1.len, fun i hi => l2 i (h1.keep i hi), fun i hi hc => ?_⟩
  rcases h1.sound i hi hc with hf | hdebt
  · exact .inl (l2 i hf)
  · exact .inl (by rw [hD i hdebt]; exact l3)

/-- marking a range pays the debt for the rows in it -/
theorem StepD.markDirtyRange {D} {t t1 t' : Terminal} {a b : Nat} (h1 : StepD D t t1)
    (hm : t1.markDirtyRange a b = some t') (hD : ∀ i, D i → i < t.buffer.rows → a ≤ i ∧ i < b) :
    StepD Never t t' := by
  unfold Terminal.markDirtyRange at hm
  simp only [Option.map_eq_some_iff] at hm
  obtain ⟨d, hd, rfl⟩ := hm
  obtain ⟨l1, l2, l3⟩ := extend_spec hd
  refine ⟨h1.rows, h1.brows, h1.xt, l1.trans h1.len, fun i hi => l2 i (h1.keep i hi), fun i hi hc => ?_⟩
  rcases h1.sound i hi hc with hf | hdebt
  · exact .inl (l2 i hf)
  · exact .inl (l3 i (hD i hdebt hi).1 (hD i hdebt hi).2)

/-- a state in which every row is flagged is a sound successor of anything of the same shape -/
theorem StepD.of_all {t t' : Terminal} (p : Pre t) (hr : t'.rows = t.rows) (hb : t'.buffer.rows = t.rows)
    (hx : t'.xtwinops = t.xtwinops) (hl : t'.dirtyLines.length = t.rows)
    (hall : ∀ i, i < t.rows → Flagged t'.dirtyLines i) : StepD Never t t' :=
  ⟨hr, hb.trans p.brows.symm, hx, hl.trans p.len.symm,
   fun i hi => hall i (p.len ▸ flagged_lt hi), fun i hi _ => .inl (hall i (p.brows ▸ hi))⟩

end Avt.C15
