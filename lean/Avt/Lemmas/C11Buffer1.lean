/-
  Avt.Lemmas.C11Buffer1 — `Buffer.dump`, first half: what feeding the text of one row does, stated
  against the idealised typist `typeCells` (print every cell's character with that cell's pen).

  * `DMode`: the modes in force while `dump()`'s buffer part is replayed (full-screen margins, auto-wrap
    on, replace mode, ASCII in G0 and G0 active);
  * `feeds_repGo`: the run-length encoder (`rep_encode_cell_text`) — literal characters and
    `prev ESC [ n b` — types exactly the characters it encodes (REP re-prints the character left of the
    cursor, which is the one just printed);
  * `feeds_dumpChunks`: pen runs — an SGR in front of a chunk sets exactly that chunk's pen;
  * `chunks_spec`: `Line::chunks(|a, b| a.pen != b.pen)` splits the cells into non-empty runs of one pen.
-/
import Avt.Lemmas.C11StepsBase

namespace Avt
namespace Lemmas.C11
open Avt.Spec.C11 Avt.Spec.C04 Avt.C04L

/-! ### the modes during the replay of the buffer part -/

structure DMode (t : Terminal) : Prop where
  top : t.topMargin = 0
  bottom : t.bottomMargin + 1 = t.rows
  autoWrap : t.autoWrapMode = true
  replace : t.insertMode = false
  charset : t.activeCharset = 0 ∧ t.charsets.1 = .ascii

theorem DMode.glyph {t : Terminal} (h : DMode t) (ch : Nat) : glyph t ch = ch := by
  simp [Spec.C04.glyph, activeSet, h.charset.1, h.charset.2, translateRef]

theorem DMode.printSpec {t : Terminal} (h : DMode t) (ch : Nat) : DMode (printSpec t ch) := by
  have m := Props.C04.C04_print_modes t ch
  simp only at m
  obtain ⟨_, m2, _, _, _, _, m7, m8, _, m10, _, m12, _, _, m15, m16, _⟩ := m
  exact ⟨by rw [m15, h.top], by rw [m16, m2, h.bottom], by rw [m12, h.autoWrap], by rw [m10, h.replace],
    by rw [m8, m7]; exact h.charset⟩

theorem DMode.withPen {t : Terminal} (h : DMode t) (p : Pen) : DMode { t with pen := p } :=
  ⟨h.top, h.bottom, h.autoWrap, h.replace, h.charset⟩

theorem TInv_withPen {t : Terminal} (h : TInv t = true) (p : Pen) : TInv { t with pen := p } = true := h

theorem printSpec_pen (t : Terminal) (ch : Nat) : (printSpec t ch).pen = t.pen :=
  (Props.C04.C04_print_modes t ch).2.2.2.2.2.1

theorem putStep_col (u : Terminal) (g : Nat) (ha : u.autoWrapMode = true) :
    (putStep u g).cursor.col = if u.cursor.col + 1 ≥ u.cols then u.cols else u.cursor.col + 1 := by
  unfold putStep
  simp only [ha, if_true]
  split <;> rfl

theorem wrapStep_autoWrap (t : Terminal) : (wrapStep t).autoWrapMode = t.autoWrapMode := by
  simp only [wrapStep]; repeat' split
  all_goals rfl

/-- after a print (auto-wrap on) the cursor is right of the printed cell -/
theorem charLeft_printSpec {t : Terminal} (h : TInv t = true) (hm : DMode t) (ch : Nat) :
    charLeftOfCursor (printSpec t ch) = ch ∧ (printSpec t ch).cursor.col ≠ 0 := by
  obtain ⟨l, h1, h2⟩ := Props.C04.C04_cell_pen t ch h
  have p := Pre_of_TInv t h
  have hcol : (printSpec t ch).cursor.col = Props.C04.printedCol t + 1 := by
    unfold Props.C04.printedCol Spec.C04.printSpec
    by_cases hw : (t.autoWrapMode && t.pendingWrap) = true
    · have c0 := (wrapStep_col t).1
      have c1 := (wrapStep_col t).2
      rw [if_pos hw, if_pos hw, putStep_col _ _ (by rw [wrapStep_autoWrap]; exact hm.autoWrap), c0, c1]
      have := p.cols_pos
      split <;> omega
    · rw [if_neg hw, if_neg hw, putStep_col _ _ hm.autoWrap]
      have hpw : t.pendingWrap = false := by simpa [hm.autoWrap] using hw
      have hc : t.cursor.col < t.cols := by
        rcases p.col with ⟨h1, _⟩ | ⟨_, h2⟩
        · rw [hpw] at h1; cases h1
        · exact h2
      split <;> omega
  refine ⟨?_, by omega⟩
  unfold charLeftOfCursor
  rw [h1, hcol]
  simp only [Nat.add_sub_cancel, h2, hm.glyph]

/-! ### typing characters -/

/-- type the characters one after the other, as `Print` does -/
def typeChars (cs : List Nat) (t : Terminal) : Terminal := cs.foldl printSpec t

theorem typeChars_append (a b : List Nat) (t : Terminal) :
    typeChars (a ++ b) t = typeChars b (typeChars a t) := by simp [typeChars, List.foldl_append]

theorem typeChars_TInv : ∀ (cs : List Nat) (t : Terminal), TInv t = true → TInv (typeChars cs t) = true
  | [], _, h => h
  | c :: cs, t, h => typeChars_TInv cs _ (Props.C04.C04_print_TInv t c h)

theorem typeChars_DMode : ∀ (cs : List Nat) (t : Terminal), DMode t → DMode (typeChars cs t)
  | [], _, h => h
  | c :: cs, t, h => typeChars_DMode cs _ (h.printSpec c)

theorem typeChars_pen : ∀ (cs : List Nat) (t : Terminal), (typeChars cs t).pen = t.pen
  | [], _ => rfl
  | c :: cs, t => by
    show (typeChars cs (printSpec t c)).pen = t.pen
    rw [typeChars_pen cs, printSpec_pen]

theorem printTimes_eq_typeChars (ch : Nat) : ∀ (k : Nat) (t : Terminal),
    printTimes ch k t = typeChars (List.replicate k ch) t
  | 0, _ => rfl
  | k + 1, t => by
    simp only [printTimes, List.replicate_succ]
    exact printTimes_eq_typeChars ch k _

theorem feeds_typeChars : ∀ (cs : List Nat) (t : Terminal), (∀ c ∈ cs, printableCh c = true) →
    TInv t = true → Feeds cs t (typeChars cs t)
  | [], t, _, _ => Feeds.nil t
  | c :: cs, t, hc, h => by
    have h1 := feeds_print (hc c (List.mem_cons_self ..)) t h
    have h2 := feeds_typeChars cs (printSpec t c) (fun x hx => hc x (List.mem_cons_of_mem _ hx))
      (Props.C04.C04_print_TInv t c h)
    exact Feeds.append h1 h2

/-! ### the run-length encoder -/

theorem feeds_repFlush (prev count : Nat) (hp : printableCh prev = true) (h1 : 1 ≤ count) (h2 : count ≤ 65536)
    (t : Terminal) (h : TInv t = true) (hm : DMode t) :
    Feeds (Buffer.repFlush prev count) t (typeChars (List.replicate count prev) t) := by
  unfold Buffer.repFlush
  split
  · -- prev, then REP (count - 1)
    have f1 := feeds_print hp t h
    have ht1 := Props.C04.C04_print_TInv t prev h
    obtain ⟨hcl, hcol⟩ := charLeft_printSpec h hm prev
    have f2 := feeds_rep (count - 1) (by omega) (printSpec t prev) ht1
    have e : repSpec (printSpec t prev) (count - 1) = typeChars (List.replicate count prev) t := by
      simp only [repSpec, if_neg hcol, hcl]
      have : max (count - 1) 1 = count - 1 := by omega
      rw [this, printTimes_eq_typeChars]
      obtain ⟨k, rfl⟩ : ∃ k, count = k + 1 := ⟨count - 1, by omega⟩
      simp [List.replicate_succ, typeChars]
    rw [e] at f2
    exact Feeds.cast (Feeds.append f1 f2) (by simp)
  · exact feeds_typeChars _ t (fun c hc => by rw [(List.mem_replicate.1 hc).2]; exact hp) h

theorem feeds_repGo : ∀ (cs : List Nat) (prev count : Nat) (t : Terminal),
    printableCh prev = true → (∀ c ∈ cs, printableCh c = true) → 1 ≤ count → count + cs.length ≤ 65536 →
    TInv t = true → DMode t →
    Feeds (Buffer.repGo cs prev count) t (typeChars (List.replicate count prev ++ cs) t)
  | [], prev, count, t, hp, _, h1, h2, h, hm => by
    simp only [Buffer.repGo, List.append_nil]
    exact feeds_repFlush prev count hp h1 (by simpa using h2) t h hm
  | c :: cs, prev, count, t, hp, hcs, h1, h2, h, hm => by
    simp only [Buffer.repGo]
    have hc := hcs c (List.mem_cons_self ..)
    have hcs' : ∀ x ∈ cs, printableCh x = true := fun x hx => hcs x (List.mem_cons_of_mem _ hx)
    simp only [List.length_cons] at h2
    split
    · rename_i heq
      subst heq
      have := feeds_repGo cs c (count + 1) t hp hcs' (by omega) (by omega) h hm
      have e : List.replicate (count + 1) c ++ cs = List.replicate count c ++ c :: cs := by
        rw [List.replicate_succ', List.append_assoc]; rfl
      rwa [e] at this
    · have f1 := feeds_repFlush prev count hp h1 (by omega) t h hm
      have f2 := feeds_repGo cs c 1 (typeChars (List.replicate count prev) t) hc hcs' (by omega) (by omega)
        (typeChars_TInv _ t h) (typeChars_DMode _ t hm)
      rw [typeChars_append]
      exact Feeds.append f1 f2

/-! ### typing cells (character and pen) -/

/-- the idealised typist: print the cell's character with the cell's pen -/
def typeCell (t : Terminal) (c : Cell) : Terminal := printSpec { t with pen := c.pen } c.ch

def typeCells (cs : List Cell) (t : Terminal) : Terminal := cs.foldl typeCell t

theorem typeCells_append (a b : List Cell) (t : Terminal) :
    typeCells (a ++ b) t = typeCells b (typeCells a t) := by simp [typeCells, List.foldl_append]

theorem typeCell_TInv {t : Terminal} (h : TInv t = true) (c : Cell) : TInv (typeCell t c) = true :=
  Props.C04.C04_print_TInv _ _ (TInv_withPen h c.pen)

theorem typeCell_DMode {t : Terminal} (h : DMode t) (c : Cell) : DMode (typeCell t c) :=
  (h.withPen c.pen).printSpec c.ch

theorem typeCells_TInv : ∀ (cs : List Cell) (t : Terminal), TInv t = true → TInv (typeCells cs t) = true
  | [], _, h => h
  | c :: cs, t, h => typeCells_TInv cs _ (typeCell_TInv h c)

theorem typeCells_DMode : ∀ (cs : List Cell) (t : Terminal), DMode t → DMode (typeCells cs t)
  | [], _, h => h
  | c :: cs, t, h => typeCells_DMode cs _ (typeCell_DMode h c)

/-- cells of one pen, typed with that pen already set: only the characters matter -/
theorem typeCells_uniform : ∀ (cs : List Cell) (t : Terminal), (∀ c ∈ cs, c.pen = t.pen) →
    typeCells cs t = typeChars (cs.map Cell.ch) t
  | [], _, _ => rfl
  | c :: cs, t, hu => by
    have hc : c.pen = t.pen := hu c (List.mem_cons_self ..)
    have e : typeCell t c = printSpec t c.ch := by
      unfold typeCell; rw [hc]
    show typeCells cs (typeCell t c) = typeChars (cs.map Cell.ch) (printSpec t c.ch)
    rw [e]
    exact typeCells_uniform cs _ (fun x hx => by rw [printSpec_pen]; exact hu x (List.mem_cons_of_mem _ hx))

theorem typeCells_pen : ∀ (cs : List Cell) (t : Terminal) (p : Pen), (∀ x ∈ cs, x.pen = p) → t.pen = p →
    (typeCells cs t).pen = p
  | [], _, _, _, h => h
  | c :: cs, t, p, hu, _ =>
    typeCells_pen cs (typeCell t c) p (fun x hx => hu x (List.mem_cons_of_mem _ hx))
      (by show (printSpec _ c.ch).pen = p; rw [printSpec_pen]; exact hu c (List.mem_cons_self ..))

/-- the cells the dump can reproduce: a character the resting parser prints, a pen `Pen::dump` can
    write -/
def CellOK (c : Cell) : Prop := printableCh c.ch = true ∧ PenOK c.pen

/-- one chunk (cells of one pen): optional SGR, then the run-length encoded characters -/
theorem feeds_chunk (c : Cell) (cs : List Cell) (pen : Pen) (t : Terminal)
    (hu : ∀ x ∈ cs, x.pen = c.pen) (hok : ∀ x ∈ c :: cs, CellOK x) (hlen : (c :: cs).length ≤ 65536)
    (h : TInv t = true) (hm : DMode t) (hpen : t.pen = pen) :
    ∃ d txt, (if c.pen ≠ pen then (c.pen.dump).map fun d => (d, c.pen) else some ([], pen)) = some (d, c.pen)
      ∧ Buffer.repEncode (c :: cs) = some txt
      ∧ Feeds (d ++ txt) t (typeCells (c :: cs) t) := by
  have hcok := hok c (List.mem_cons_self ..)
  -- the pen
  obtain ⟨d, hd, fd⟩ : ∃ d, (if c.pen ≠ pen then (c.pen.dump).map fun d => (d, c.pen) else some ([], pen))
      = some (d, c.pen) ∧ Feeds d t { t with pen := c.pen } := by
    by_cases hne : c.pen ≠ pen
    · obtain ⟨d, hd, f⟩ := feeds_pen c.pen hcok.2 t
      exact ⟨d, by simp [hne, hd], f⟩
    · have he : c.pen = pen := by simpa using hne
      refine ⟨[], by simp [he], ?_⟩
      have : ({ t with pen := c.pen } : Terminal) = t := by rw [he, ← hpen]
      rw [this]; exact Feeds.nil t
  refine ⟨d, _, hd, rfl, Feeds.append fd ?_⟩
  have hu' : ∀ x ∈ c :: cs, x.pen = ({ t with pen := c.pen } : Terminal).pen := by
    intro x hx
    rcases List.mem_cons.1 hx with rfl | hx
    · rfl
    · exact hu x hx
  have e : typeCells (c :: cs) t = typeCells (c :: cs) { t with pen := c.pen } := rfl
  rw [e, typeCells_uniform _ _ hu']
  have := feeds_repGo (cs.map Cell.ch) c.ch 1 { t with pen := c.pen } hcok.1
    (fun x hx => by
      obtain ⟨y, hy, rfl⟩ := List.mem_map.1 hx
      exact (hok y (List.mem_cons_of_mem _ hy)).1)
    (by omega) (by simpa [Nat.add_comm] using hlen) (TInv_withPen h _) (hm.withPen _)
  simpa using this

/-- all chunks of a row -/
theorem feeds_dumpChunks : ∀ (chunks : List (List Cell)) (pen : Pen) (t : Terminal),
    (∀ ch ∈ chunks, ∃ c cs, ch = c :: cs ∧ ∀ x ∈ cs, x.pen = c.pen) →
    (∀ ch ∈ chunks, ∀ x ∈ ch, CellOK x) → (∀ ch ∈ chunks, ch.length ≤ 65536) →
    TInv t = true → DMode t → t.pen = pen →
    ∃ s pen', Buffer.dumpChunks chunks pen = some (s, pen') ∧ Feeds s t (typeCells chunks.flatten t)
      ∧ (typeCells chunks.flatten t).pen = pen'
  | [], pen, t, _, _, _, _, _, hpen => ⟨[], pen, rfl, Feeds.nil t, hpen⟩
  | ch :: rest, pen, t, hsh, hok, hlen, h, hm, hpen => by
    obtain ⟨c, cs, rfl, hu⟩ := hsh ch (List.mem_cons_self ..)
    obtain ⟨d, txt, hd, htxt, f1⟩ := feeds_chunk c cs pen t hu (hok _ (List.mem_cons_self ..))
      (hlen _ (List.mem_cons_self ..)) h hm hpen
    have hpen1 : (typeCells (c :: cs) t).pen = c.pen :=
      typeCells_pen cs (typeCell t c) c.pen hu (printSpec_pen _ _)
    obtain ⟨more, pen'', hmore, f2, hp2⟩ := feeds_dumpChunks rest c.pen (typeCells (c :: cs) t)
      (fun x hx => hsh x (List.mem_cons_of_mem _ hx)) (fun x hx => hok x (List.mem_cons_of_mem _ hx))
      (fun x hx => hlen x (List.mem_cons_of_mem _ hx)) (typeCells_TInv _ t h) (typeCells_DMode _ t hm) hpen1
    refine ⟨d ++ txt ++ more, pen'', ?_, ?_, ?_⟩
    · simp only [Buffer.dumpChunks, hd, htxt, hmore]
    · rw [List.flatten_cons, typeCells_append]
      exact Feeds.append f1 f2
    · rw [List.flatten_cons, typeCells_append]
      exact hp2

/-! ### `Line::chunks` on the pen -/

def penPred : Cell → Cell → Bool := fun c1 c2 => c1.pen ≠ c2.pen

theorem chunksGo_spec : ∀ (cs cur : List Cell), (∀ x ∈ cur, ∀ y ∈ cur, x.pen = y.pen) →
    (∀ ch ∈ Line.chunksGo penPred cs cur, ch ≠ [] ∧ ∀ x ∈ ch, ∀ y ∈ ch, x.pen = y.pen)
      ∧ (Line.chunksGo penPred cs cur).flatten = cur.reverse ++ cs
  | [], cur, hu => by
    simp only [Line.chunksGo]
    split
    · rename_i he
      have : cur = [] := by simpa using he
      subst this
      simp
    · rename_i he
      refine ⟨?_, by simp⟩
      intro ch hch
      simp only [List.mem_singleton] at hch
      subst hch
      refine ⟨by simpa using he, ?_⟩
      intro x hx y hy
      exact hu x (by simpa using hx) y (by simpa using hy)
  | c :: cs, [], _ => by
    simp only [Line.chunksGo]
    have := chunksGo_spec cs [c] (by
      intro x hx y hy
      simp only [List.mem_singleton] at hx hy
      rw [hx, hy])
    simpa using this
  | c :: cs, last :: cur, hu => by
    simp only [Line.chunksGo]
    split
    · have ih := chunksGo_spec cs [c] (by
        intro x hx y hy
        simp only [List.mem_singleton] at hx hy
        rw [hx, hy])
      refine ⟨?_, ?_⟩
      · intro ch hch
        rcases List.mem_cons.1 hch with rfl | hch
        · refine ⟨by simp, ?_⟩
          intro x hx y hy
          exact hu x (List.mem_reverse.1 hx) y (List.mem_reverse.1 hy)
        · exact ih.1 ch hch
      · rw [List.flatten_cons, ih.2]
        simp
    · rename_i hp
      have hlc : last.pen = c.pen := by simpa [penPred] using hp
      have ih := chunksGo_spec cs (c :: last :: cur) (by
        intro x hx y hy
        have hx' : x.pen = last.pen := by
          rcases List.mem_cons.1 hx with rfl | hx
          · exact hlc.symm
          · exact hu x hx last (List.mem_cons_self ..)
        have hy' : y.pen = last.pen := by
          rcases List.mem_cons.1 hy with rfl | hy
          · exact hlc.symm
          · exact hu y hy last (List.mem_cons_self ..)
        rw [hx', hy'])
      refine ⟨ih.1, ?_⟩
      rw [ih.2]
      simp

theorem chunks_spec (l : Line) :
    (∀ ch ∈ l.chunks penPred, ∃ c cs, ch = c :: cs ∧ ∀ x ∈ cs, x.pen = c.pen)
      ∧ (l.chunks penPred).flatten = l.cells := by
  have := chunksGo_spec l.cells [] (by intro x hx; cases hx)
  refine ⟨?_, by simpa [Line.chunks] using this.2⟩
  intro ch hch
  obtain ⟨hne, hu⟩ := this.1 ch hch
  cases ch with
  | nil => exact absurd rfl hne
  | cons c cs => exact ⟨c, cs, rfl, fun x hx => hu x (List.mem_cons_of_mem _ hx) c (List.mem_cons_self ..)⟩

theorem mem_flatten_of_mem {α} {ch : List α} {L : List (List α)} {x : α} (h1 : ch ∈ L) (h2 : x ∈ ch) :
    x ∈ L.flatten := List.mem_flatten.2 ⟨ch, h1, h2⟩

theorem length_le_flatten {α} {ch : List α} {L : List (List α)} (h : ch ∈ L) : ch.length ≤ L.flatten.length := by
  induction L with
  | nil => cases h
  | cons a L ih =>
    rw [List.flatten_cons, List.length_append]
    rcases List.mem_cons.1 h with rfl | h
    · omega
    · have := ih h; omega

/-- **one row**: the text `Buffer::dump` writes for a row types the cells of that row -/
theorem feeds_row (l : Line) (pen : Pen) (t : Terminal) (hok : ∀ x ∈ l.cells, CellOK x)
    (hlen : l.cells.length ≤ 65536) (h : TInv t = true) (hm : DMode t) (hpen : t.pen = pen) :
    ∃ s pen', Buffer.dumpChunks (l.chunks fun c1 c2 => c1.pen ≠ c2.pen) pen = some (s, pen')
      ∧ Feeds s t (typeCells l.cells t) ∧ (typeCells l.cells t).pen = pen' := by
  obtain ⟨h1, h2⟩ := chunks_spec l
  have := feeds_dumpChunks (l.chunks penPred) pen t h1
    (fun ch hch x hx => hok x (by rw [← h2]; exact mem_flatten_of_mem hch hx))
    (fun ch hch => by have := length_le_flatten hch; rw [h2] at this; omega) h hm hpen
  rw [h2] at this
  exact this

end Lemmas.C11
end Avt
