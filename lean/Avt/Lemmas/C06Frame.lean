/-
  Avt.Lemmas.C06Frame — which functions can change the lines above the view.
-/
import Avt.Lemmas.C06Cmd

namespace Avt.C06L
open Avt.PrimL
open Avt.Spec.C06

/-- both buffers unchanged -/
def SameBufs (t t' : Terminal) : Prop := t'.buffer = t.buffer ∧ t'.otherBuffer = t.otherBuffer

/-- scrollback of the active buffer and the whole parked buffer unchanged -/
def SameSb (t t' : Terminal) : Prop := t'.buffer.sb = t.buffer.sb ∧ t'.otherBuffer = t.otherBuffer

theorem SameBufs.toSb {t t' : Terminal} (h : SameBufs t t') : SameSb t t' := ⟨by rw [h.1], h.2⟩

theorem SameBufs.refl (t : Terminal) : SameBufs t t := ⟨rfl, rfl⟩
theorem SameBufs.trans {a b c : Terminal} (h1 : SameBufs a b) (h2 : SameBufs b c) : SameBufs a c :=
  ⟨h2.1.trans h1.1, h2.2.trans h1.2⟩
theorem SameSb.trans {a b c : Terminal} (h1 : SameSb a b) (h2 : SameSb b c) : SameSb a c :=
  ⟨h2.1.trans h1.1, h2.2.trans h1.2⟩

theorem doMoveCursorToCol_same (t : Terminal) (c : Nat) : SameBufs t (t.doMoveCursorToCol c) := ⟨rfl, rfl⟩

theorem moveCursorToCol_same {t t' : Terminal} {c : Nat} (h : t.moveCursorToCol c = some t') : SameBufs t t' := by
  unfold Terminal.moveCursorToCol csub at h
  split at h
  · split at h <;> simp at h
    subst h; exact ⟨rfl, rfl⟩
  · simp at h; subst h; exact ⟨rfl, rfl⟩

theorem doMoveCursorToRow_same {t t' : Terminal} {r : Nat} (h : t.doMoveCursorToRow r = some t') : SameBufs t t' := by
  unfold Terminal.doMoveCursorToRow csub at h
  split at h <;> simp at h
  subst h; exact ⟨rfl, rfl⟩

theorem moveCursorToRow_same {t t' : Terminal} {r : Nat} (h : t.moveCursorToRow r = some t') : SameBufs t t' := by
  unfold Terminal.moveCursorToRow at h
  split at h
  · simp at h
  · exact doMoveCursorToRow_same h

theorem moveCursorToRelCol_same {t t' : Terminal} {r : Int} (h : t.moveCursorToRelCol r = some t') : SameBufs t t' := by
  unfold Terminal.moveCursorToRelCol csub at h
  simp only at h
  split at h
  · simp at h; subst h; exact ⟨rfl, rfl⟩
  · split at h
    · split at h <;> simp at h
      subst h; exact ⟨rfl, rfl⟩
    · simp at h; subst h; exact ⟨rfl, rfl⟩

theorem moveCursorHome_same {t t' : Terminal} (h : t.moveCursorHome = some t') : SameBufs t t' := by
  unfold Terminal.moveCursorHome at h
  exact (doMoveCursorToCol_same t 0).trans (doMoveCursorToRow_same h)

theorem moveCursorToNextTab_same {t t' : Terminal} {n : Nat} (h : t.moveCursorToNextTab n = some t') : SameBufs t t' := by
  unfold Terminal.moveCursorToNextTab at h
  split at h
  · exact moveCursorToCol_same h
  · simp at h

theorem moveCursorToPrevTab_same {t t' : Terminal} {n : Nat} (h : t.moveCursorToPrevTab n = some t') : SameBufs t t' := by
  unfold Terminal.moveCursorToPrevTab at h
  split at h
  · exact moveCursorToCol_same h
  · simp at h

theorem cursorDown_same {t t' : Terminal} {n : Nat} (h : t.cursorDown n = some t') : SameBufs t t' := by
  unfold Terminal.cursorDown at h
  split at h
  · split at h
    · simp at h
    · exact doMoveCursorToRow_same h
  · exact doMoveCursorToRow_same h

theorem cursorUp_same {t t' : Terminal} {n : Nat} (h : t.cursorUp n = some t') : SameBufs t t' := by
  unfold Terminal.cursorUp at h
  exact doMoveCursorToRow_same h

theorem saveCursor_same {t t' : Terminal} (h : t.saveCursor = some t') : SameBufs t t' := by
  unfold Terminal.saveCursor csub at h
  split at h <;> simp at h
  subst h; exact ⟨rfl, rfl⟩

theorem softReset_same {t t' : Terminal} (h : t.softReset = some t') : SameBufs t t' := by
  unfold Terminal.softReset csub at h
  split at h <;> simp at h
  subst h; exact ⟨rfl, rfl⟩

theorem setTab_same (t : Terminal) : SameBufs t t.setTab := by
  unfold Terminal.setTab; split <;> exact ⟨rfl, rfl⟩

theorem ctc_same (t : Terminal) (op : CtcOp) : SameBufs t (t.ctc op) := by
  cases op
  · exact setTab_same t
  · exact ⟨rfl, rfl⟩
  · exact ⟨rfl, rfl⟩

theorem tbc_same (t : Terminal) (s : TbcScope) : SameBufs t (t.tbc s) := by
  cases s <;> exact ⟨rfl, rfl⟩

theorem sm_same (t : Terminal) (ms : List AnsiMode) : SameBufs t (t.sm ms) := by
  unfold Terminal.sm
  induction ms generalizing t with
  | nil => exact ⟨rfl, rfl⟩
  | cons m ms ih =>
    simp only [List.foldl_cons]
    refine SameBufs.trans ?_ (ih _)
    cases m <;> exact ⟨rfl, rfl⟩

theorem rm_same (t : Terminal) (ms : List AnsiMode) : SameBufs t (t.rm ms) := by
  unfold Terminal.rm
  induction ms generalizing t with
  | nil => exact ⟨rfl, rfl⟩
  | cons m ms ih =>
    simp only [List.foldl_cons]
    refine SameBufs.trans ?_ (ih _)
    cases m <;> exact ⟨rfl, rfl⟩

theorem bs_same {t t' : Terminal} (h : t.bs = some t') : SameBufs t t' := by
  unfold Terminal.bs at h
  split at h <;> exact moveCursorToRelCol_same h

theorem cub_same {t t' : Terminal} {n : Nat} (h : t.cub n = some t') : SameBufs t t' := by
  unfold Terminal.cub at h
  exact moveCursorToRelCol_same h

theorem cup_same {t t' : Terminal} {r c : Nat} (h : t.cup r c = some t') : SameBufs t t' := by
  unfold Terminal.cup at h
  split at h
  · simp at h
  · rename_i t1 h1
    exact (moveCursorToCol_same h1).trans (moveCursorToRow_same h)

theorem map_toCol0_same {t t' : Terminal} {o : Option Terminal} (ho : ∀ t1, o = some t1 → SameBufs t t1)
    (h : o.map (fun t => t.doMoveCursorToCol 0) = some t') : SameBufs t t' := by
  cases o with
  | none => simp at h
  | some t1 =>
    simp at h; subst h
    exact (ho t1 rfl).trans (doMoveCursorToCol_same _ _)

end Avt.C06L
