/-
  Avt.Lemmas.GenEq — the generated translation of the Rust function bodies (Avt/Gen/TerminalGen.lean,
  regenerated from /repo/src by translate/rs2lean.py on every run) EQUALS the hand-written model,
  for all inputs.  One theorem `<name>_eq` per generated function.  A change in the Rust body of a
  translated function changes the generated definition and the corresponding theorem stops checking.
-/
import Avt.Gen.TerminalGen

set_option linter.unusedSimpArgs false
set_option linter.unusedVariables false

namespace Avt.GenEq
open Avt

/-! ### small helpers -/

theorem dec_beq (a b : Nat) : decide (a = b) = (a == b) := by
  cases h : a == b <;> simp_all

/-! ### pen.rs, cell.rs, cursor.rs, defaults -/

theorem Pen.default_eq : GenT.Pen.default = ({} : Pen) := rfl
theorem SavedCtx.default_eq : GenT.SavedCtx.default = ({} : SavedCtx) := rfl
theorem Cursor.default_eq : GenT.Cursor.default = ({} : Cursor) := rfl

theorem Pen.foreground_eq (p : Pen) : GenT.Pen.foreground p = p.fg := rfl
theorem Pen.background_eq (p : Pen) : GenT.Pen.background p = p.bg := rfl
theorem Pen.isBold_eq (p : Pen) : GenT.Pen.isBold p = p.isBold := by
  cases p with | mk fg bg i a => cases i <;> rfl
theorem Pen.isFaint_eq (p : Pen) : GenT.Pen.isFaint p = p.isFaint := by
  cases p with | mk fg bg i a => cases i <;> rfl

theorem Pen.isItalic_eq (p : Pen) : GenT.Pen.isItalic p = p.isItalic := by
  simp [GenT.Pen.isItalic, Avt.Pen.isItalic, bne, dec_beq]
theorem Pen.isUnderline_eq (p : Pen) : GenT.Pen.isUnderline p = p.isUnderline := by
  simp [GenT.Pen.isUnderline, Avt.Pen.isUnderline, bne, dec_beq]
theorem Pen.isStrikethrough_eq (p : Pen) : GenT.Pen.isStrikethrough p = p.isStrikethrough := by
  simp [GenT.Pen.isStrikethrough, Avt.Pen.isStrikethrough, bne, dec_beq]
theorem Pen.isBlink_eq (p : Pen) : GenT.Pen.isBlink p = p.isBlink := by
  simp [GenT.Pen.isBlink, Avt.Pen.isBlink, bne, dec_beq]
theorem Pen.isInverse_eq (p : Pen) : GenT.Pen.isInverse p = p.isInverse := by
  simp [GenT.Pen.isInverse, Avt.Pen.isInverse, bne, dec_beq]

theorem Pen.isDefault_eq (p : Pen) : GenT.Pen.isDefault p = p.isDefault := by
  simp only [GenT.Pen.isDefault, Avt.Pen.isDefault, Pen.isItalic_eq, Pen.isUnderline_eq,
    Pen.isStrikethrough_eq, Pen.isBlink_eq, Pen.isInverse_eq]
  cases p with | mk fg bg i a => cases i <;> cases fg <;> cases bg <;> simp [Bool.and_assoc]

theorem Pen.setItalic_eq (p : Pen) : GenT.Pen.setItalic p = p.setBit Gen.italicMask := rfl
theorem Pen.setUnderline_eq (p : Pen) : GenT.Pen.setUnderline p = p.setBit Gen.underlineMask := rfl
theorem Pen.setBlink_eq (p : Pen) : GenT.Pen.setBlink p = p.setBit Gen.blinkMask := rfl
theorem Pen.setInverse_eq (p : Pen) : GenT.Pen.setInverse p = p.setBit Gen.inverseMask := rfl
theorem Pen.setStrikethrough_eq (p : Pen) : GenT.Pen.setStrikethrough p = p.setBit Gen.strikethroughMask := rfl
theorem Pen.unsetItalic_eq (p : Pen) : GenT.Pen.unsetItalic p = p.unsetBit Gen.italicMask := rfl
theorem Pen.unsetUnderline_eq (p : Pen) : GenT.Pen.unsetUnderline p = p.unsetBit Gen.underlineMask := rfl
theorem Pen.unsetBlink_eq (p : Pen) : GenT.Pen.unsetBlink p = p.unsetBit Gen.blinkMask := rfl
theorem Pen.unsetInverse_eq (p : Pen) : GenT.Pen.unsetInverse p = p.unsetBit Gen.inverseMask := rfl
theorem Pen.unsetStrikethrough_eq (p : Pen) : GenT.Pen.unsetStrikethrough p = p.unsetBit Gen.strikethroughMask := rfl

theorem Cell.new_eq (ch : Nat) (pen : Pen) : GenT.Cell.new ch pen = ⟨ch, pen⟩ := rfl
theorem Cell.blank_eq (pen : Pen) : GenT.Cell.blank pen = Avt.Cell.blank pen := rfl
theorem Cell.fromChar_eq (ch : Nat) : GenT.Cell.fromChar ch = ⟨ch, Avt.Pen.default⟩ := rfl
theorem Cell.char_eq (c : Cell) : GenT.Cell.char c = c.ch := rfl
theorem Cell.pen_eq (c : Cell) : GenT.Cell.pen c = c.pen := rfl
theorem Cell.default_eq : GenT.Cell.default = Avt.Cell.blank Avt.Pen.default := rfl
theorem Cell.isDefault_eq (c : Cell) : GenT.Cell.isDefault c = c.isDefault := by
  simp [GenT.Cell.isDefault, Avt.Cell.isDefault, Pen.isDefault_eq, dec_beq]

theorem SavedCtx.isDefault_eq (c : SavedCtx) : GenT.SavedCtx.isDefault c = c.isDefault := by
  simp [GenT.SavedCtx.isDefault, Avt.SavedCtx.isDefault, Pen.isDefault_eq, Bool.and_assoc, dec_beq]

/-! ### dirty_lines.rs -/

theorem DirtyLines.new_eq (len : Nat) : GenT.DirtyLines.new len = Dirty.new len := rfl
theorem DirtyLines.add_eq (d : List Bool) (n : Nat) : GenT.DirtyLines.add d n = Dirty.add d n := rfl
theorem DirtyLines.extend_eq (d : List Bool) (r : Nat × Nat) :
    GenT.DirtyLines.extend d r = Dirty.extend d r.1 r.2 := rfl
theorem DirtyLines.resize_eq (d : List Bool) (len : Nat) : GenT.DirtyLines.resize d len = Dirty.resize d len := rfl
theorem DirtyLines.clear_eq (d : List Bool) : GenT.DirtyLines.clear d = Dirty.clear d := rfl

theorem toVec_aux (d : List Bool) : ∀ k,
    List.filterMap (fun (x : Bool × Nat) => if x.1 then some x.2 else none) (List.zipIdx d k) = Dirty.toVecGo d k := by
  induction d with
  | nil => intro k; rfl
  | cons b bs ih =>
    intro k
    cases b <;> simp [List.zipIdx_cons, Dirty.toVecGo, ih]

theorem DirtyLines.toVec_eq (d : List Bool) : GenT.DirtyLines.toVec d = Dirty.toVec d := by
  unfold GenT.DirtyLines.toVec Dirty.toVec
  exact toVec_aux d 0

/-! ### tabs.rs -/

theorem foldl_push {α} (l acc : List α) : List.foldl (fun acc x => acc ++ [x]) acc l = acc ++ l := by
  induction l generalizing acc with
  | nil => simp
  | cons x xs ih => simp [ih]

theorem flatten_singletons {α} (l : List α) : (List.map (fun x => [x]) l).flatten = l := by
  induction l with
  | nil => rfl
  | cons x xs ih => simpa using ih

theorem take_takeWhile_length {α} (p : α → Bool) (l : List α) :
    List.take (List.takeWhile p l).length l = List.takeWhile p l := by
  induction l with
  | nil => rfl
  | cons x xs ih =>
    by_cases h : p x <;> simp [h, ih]

theorem Tabs.new_eq (cols : Nat) : GenT.Tabs.new cols = Avt.Tabs.new cols := by
  unfold GenT.Tabs.new Avt.Tabs.new
  exact foldl_push _ []

/-- idiom-defined: `if let Err(i) = v.binary_search(&pos) { v.insert(i, pos) }` is given the meaning `Tabs.set` -/
theorem Tabs.set_eq (l : List Nat) (pos : Nat) : GenT.Tabs.set l pos = Avt.Tabs.set l pos := rfl
/-- idiom-defined: `if let Ok(i) = v.binary_search(&pos) { v.remove(i) }` is given the meaning `Tabs.unset` -/
theorem Tabs.unset_eq (l : List Nat) (pos : Nat) : GenT.Tabs.unset l pos = Avt.Tabs.unset l pos := rfl

theorem Tabs.expand_eq (l : List Nat) (s e : Nat) : GenT.Tabs.expand l s e = some (Avt.Tabs.expand l s e) := by
  have h : s % 8 ≤ 8 := by omega
  unfold GenT.Tabs.expand Avt.Tabs.expand
  by_cases h0 : s % 8 = 0 <;> simp [csub, h, h0, flatten_singletons]

theorem Tabs.contract_eq (l : List Nat) (pos : Nat) : GenT.Tabs.contract l pos = Avt.Tabs.contract l pos := by
  simp only [GenT.Tabs.contract, Avt.Tabs.contract]
  exact take_takeWhile_length _ l

theorem Tabs.clear_eq (l : List Nat) : GenT.Tabs.clear l = [] := rfl

theorem Tabs.before_eq (l : List Nat) (pos n : Nat) : GenT.Tabs.before l pos n = Avt.Tabs.before l pos n := by
  unfold GenT.Tabs.before Avt.Tabs.before
  cases csub n 1 <;> rfl

theorem Tabs.after_eq (l : List Nat) (pos n : Nat) : GenT.Tabs.after l pos n = Avt.Tabs.after l pos n := by
  unfold GenT.Tabs.after Avt.Tabs.after
  cases csub n 1 <;> rfl

/-! ### terminal.rs -/

open Avt.Terminal

theorem csub_asUsize_one (n : Nat) : csub (Avt.asUsize n 1) 1 = some (Avt.asUsize n 1 - 1) := by
  unfold csub Avt.asUsize; split <;> simp <;> omega

theorem asUsize_eq (v d : Nat) : GenT.asUsize v d = Avt.asUsize v d := rfl

theorem new_eq (cols rows : Nat) (limit : Option Nat) : GenT.new cols rows limit = Terminal.new cols rows limit := by
  unfold GenT.new Terminal.new
  cases csub rows 1 <;> rfl

theorem default_eq : GenT.default = Terminal.new 80 24 none := by
  unfold GenT.default; exact new_eq _ _ _

theorem cursor_eq (t : Terminal) : GenT.cursor t = t.cursor := rfl

theorem doMoveCursorToCol_eq (t : Terminal) (col : Nat) :
    GenT.doMoveCursorToCol t col = t.doMoveCursorToCol col := rfl

theorem moveCursorToCol_eq (t : Terminal) (col : Nat) :
    GenT.moveCursorToCol t col = t.moveCursorToCol col := by
  unfold GenT.moveCursorToCol Terminal.moveCursorToCol
  simp only [doMoveCursorToCol_eq]
  split
  · cases csub t.cols 1 <;> rfl
  · rfl

theorem moveCursorToRelCol_eq (t : Terminal) (rel : Int) :
    GenT.moveCursorToRelCol t rel = t.moveCursorToRelCol rel := by
  unfold GenT.moveCursorToRelCol Terminal.moveCursorToRelCol
  simp only [doMoveCursorToCol_eq]
  split
  · rfl
  · split
    · cases csub t.cols 1 <;> rfl
    · rfl

theorem bs_eq (t : Terminal) : GenT.bs t = t.bs := by
  unfold GenT.bs Terminal.bs
  simp only [moveCursorToRelCol_eq]

theorem doMoveCursorToRow_eq (t : Terminal) (row : Nat) :
    GenT.doMoveCursorToRow t row = t.doMoveCursorToRow row := by
  unfold GenT.doMoveCursorToRow Terminal.doMoveCursorToRow
  cases csub t.cols 1 <;> rfl

theorem actualTopMargin_eq (t : Terminal) : GenT.actualTopMargin t = t.actualTopMargin := by
  unfold GenT.actualTopMargin Terminal.actualTopMargin
  cases t.originMode <;> rfl

theorem actualBottomMargin_eq (t : Terminal) : GenT.actualBottomMargin t = t.actualBottomMargin := by
  unfold GenT.actualBottomMargin Terminal.actualBottomMargin
  cases t.originMode <;> rfl

theorem moveCursorToRow_eq (t : Terminal) (row : Nat) :
    GenT.moveCursorToRow t row = t.moveCursorToRow row := by
  unfold GenT.moveCursorToRow Terminal.moveCursorToRow
  simp only [actualTopMargin_eq, actualBottomMargin_eq, doMoveCursorToRow_eq]
  cases t.actualBottomMargin <;> rfl

theorem moveCursorHome_eq (t : Terminal) : GenT.moveCursorHome t = t.moveCursorHome := by
  unfold GenT.moveCursorHome Terminal.moveCursorHome
  simp only [actualTopMargin_eq, doMoveCursorToCol_eq, doMoveCursorToRow_eq]

theorem moveCursorToNextTab_eq (t : Terminal) (n : Nat) :
    GenT.moveCursorToNextTab t n = t.moveCursorToNextTab n := by
  unfold GenT.moveCursorToNextTab Terminal.moveCursorToNextTab
  simp only [moveCursorToCol_eq]
  cases Tabs.after t.tabs t.cursor.col n <;> cases csub t.cols 1 <;> rfl

theorem moveCursorToPrevTab_eq (t : Terminal) (n : Nat) :
    GenT.moveCursorToPrevTab t n = t.moveCursorToPrevTab n := by
  unfold GenT.moveCursorToPrevTab Terminal.moveCursorToPrevTab
  simp only [moveCursorToCol_eq]
  cases Tabs.before t.tabs t.cursor.col n <;> rfl

theorem scrollUpInRegion_eq (t : Terminal) (n : Nat) :
    GenT.scrollUpInRegion t n = t.scrollUpInRegion n := by
  unfold GenT.scrollUpInRegion Terminal.scrollUpInRegion
  cases h : t.buffer.scrollUp t.topMargin (t.bottomMargin + 1) n t.pen with
  | none => simp [h]
  | some b => simp only [h]; cases Dirty.extend t.dirtyLines t.topMargin (t.bottomMargin + 1) <;> rfl

theorem scrollDownInRegion_eq (t : Terminal) (n : Nat) :
    GenT.scrollDownInRegion t n = t.scrollDownInRegion n := by
  unfold GenT.scrollDownInRegion Terminal.scrollDownInRegion
  cases h : t.buffer.scrollDown t.topMargin (t.bottomMargin + 1) n t.pen with
  | none => simp [h]
  | some b => simp only [h]; cases Dirty.extend t.dirtyLines t.topMargin (t.bottomMargin + 1) <;> rfl

theorem moveCursorDownWithScroll_eq (t : Terminal) :
    GenT.moveCursorDownWithScroll t = t.moveCursorDownWithScroll := by
  unfold GenT.moveCursorDownWithScroll Terminal.moveCursorDownWithScroll
  simp only [scrollUpInRegion_eq, doMoveCursorToRow_eq]
  rfl

theorem cursorDown_eq (t : Terminal) (n : Nat) : GenT.cursorDown t n = t.cursorDown n := by
  unfold GenT.cursorDown Terminal.cursorDown
  simp only [doMoveCursorToRow_eq]
  by_cases h : t.cursor.row > t.bottomMargin
  · simp only [h, ↓reduceIte]; cases csub t.rows 1 <;> rfl
  · simp only [h, ↓reduceIte]

theorem cursorUp_eq (t : Terminal) (n : Nat) : GenT.cursorUp t n = t.cursorUp n := by
  unfold GenT.cursorUp Terminal.cursorUp
  simp only [doMoveCursorToRow_eq]

theorem saveCursor_eq (t : Terminal) : GenT.saveCursor t = t.saveCursor := by
  unfold GenT.saveCursor Terminal.saveCursor
  cases csub t.cols 1 <;> rfl

theorem restoreCursor_eq (t : Terminal) : GenT.restoreCursor t = t.restoreCursor := rfl

theorem setTab_eq (t : Terminal) : GenT.setTab t = t.setTab := by
  unfold GenT.setTab Terminal.setTab
  split <;> rfl

theorem clearTab_eq (t : Terminal) : GenT.clearTab t = t.clearTab := rfl
theorem clearAllTabs_eq (t : Terminal) : GenT.clearAllTabs t = t.clearAllTabs := rfl

theorem switchToAlternateBuffer_eq (t : Terminal) :
    GenT.switchToAlternateBuffer t = t.switchToAlternateBuffer := by
  unfold GenT.switchToAlternateBuffer Terminal.switchToAlternateBuffer Terminal.markDirtyRange
  cases h : t.activeBufferType
  · simp only []
    cases Dirty.extend t.dirtyLines 0 t.rows <;> rfl
  · rfl

theorem switchToPrimaryBuffer_eq (t : Terminal) :
    GenT.switchToPrimaryBuffer t = t.switchToPrimaryBuffer := by
  unfold GenT.switchToPrimaryBuffer Terminal.switchToPrimaryBuffer Terminal.markDirtyRange
  cases h : t.activeBufferType
  · rfl
  · simp only []
    cases Dirty.extend t.dirtyLines 0 t.rows <;> rfl

theorem reflow_eq (t : Terminal) : GenT.reflow t = t.reflow := by
  unfold GenT.reflow Terminal.reflow Terminal.markDirtyRange
  simp only []
  generalize (if t.cols ≠ t.buffer.cols then { t with pendingWrap := false } else t) = t1
  cases h : t1.buffer.resize t1.cols t1.rows (t1.cursor.col, t1.cursor.row) with
  | none => simp only []
  | some r =>
    obtain ⟨b, col, row⟩ := r
    dsimp only
    cases h2 : Dirty.extend (Dirty.resize t1.dirtyLines t1.rows) 0 t1.rows with
    | none => simp only [Option.map]
    | some d =>
      dsimp only [Option.map]
      by_cases hc : t1.savedCtx.cursorCol ≥ t1.cols <;> by_cases hr : t1.savedCtx.cursorRow ≥ t1.rows <;>
        cases h3 : csub t1.cols 1 <;> cases h4 : csub t1.rows 1 <;> simp only [hc, hr, h3, h4, ↓reduceIte]

theorem map_fst_tail {α β} (o : Option α) (b : β) :
    Option.map Prod.fst (match o with | none => none | some t => some (t, b)) = o := by
  cases o <;> rfl

theorem resize_eq (t : Terminal) (cols rows : Nat) :
    (GenT.resize t cols rows).map Prod.fst = t.resize cols rows := by
  unfold GenT.resize Terminal.resize
  simp only [reflow_eq]
  by_cases h1 : cols < t.cols <;> by_cases h2 : cols = t.cols <;> by_cases h3 : cols > t.cols <;>
    by_cases h4 : rows < t.rows <;> by_cases h5 : rows = t.rows <;>
    cases h6 : csub rows 1 <;>
    simp only [h1, h2, h3, h4, h5, h6, ↓reduceIte, ne_eq, not_true_eq_false, not_false_eq_true,
      Option.map_none, Option.map_some, Nat.lt_irrefl] <;>
    first | rfl | omega | (split <;> simp_all)

/-- the flag returned by `Terminal::resize` -/
theorem resize_flag (t : Terminal) (cols rows : Nat) (t' : Terminal) (b : Bool)
    (h : GenT.resize t cols rows = some (t', b)) : b = decide (cols ≠ t.cols ∨ rows ≠ t.rows) := by
  unfold GenT.resize at h
  by_cases h1 : cols < t.cols <;> by_cases h2 : cols = t.cols <;>
    by_cases h4 : rows < t.rows <;> by_cases h5 : rows = t.rows <;>
    cases h6 : csub rows 1 <;>
    simp only [h1, h2, h4, h5, h6, ↓reduceIte, Nat.lt_irrefl] at h <;>
    first | omega | (exact absurd h (by simp)) | (split at h <;> simp_all <;> omega)

theorem softReset_eq (t : Terminal) : GenT.softReset t = t.softReset := by
  unfold GenT.softReset Terminal.softReset
  simp only []
  cases csub t.rows 1 <;> rfl

theorem hardReset_eq (t : Terminal) : GenT.hardReset t = t.hardReset := by
  unfold GenT.hardReset Terminal.hardReset
  simp only []
  cases csub t.rows 1 <;> rfl

theorem primaryBuffer_eq (t : Terminal) : GenT.primaryBuffer t = t.primaryBuffer := rfl
theorem alternateBuffer_eq (t : Terminal) : GenT.alternateBuffer t = t.alternateBuffer := rfl
theorem view_eq (t : Terminal) : GenT.view t = t.view := rfl
theorem lines_eq (t : Terminal) : GenT.lines t = t.lines := rfl
theorem line_eq (t : Terminal) (n : Nat) : GenT.line t n = t.buffer.view[n]? := rfl
theorem text_eq (t : Terminal) : GenT.text t = t.text := rfl
theorem cursorKeysAppMode_eq (t : Terminal) :
    GenT.cursorKeysAppMode t = decide (t.cursorKeysMode = .application) := rfl

theorem gc_eq (t : Terminal) : GenT.gc t = t.gc := by
  unfold GenT.gc Terminal.gc
  cases h : t.activeBufferType <;> rfl

theorem changes_eq (t : Terminal) : GenT.changes t = t.changes := rfl

/-! #### control functions (the right-hand sides are the arms of the model's `execute`) -/

theorem ht_eq (t : Terminal) : GenT.ht t = t.moveCursorToNextTab 1 := by
  unfold GenT.ht; exact moveCursorToNextTab_eq t 1

theorem lf_eq (t : Terminal) : GenT.lf t = t.lf := by
  unfold GenT.lf Terminal.lf
  simp only [moveCursorDownWithScroll_eq, doMoveCursorToCol_eq]
  cases t.moveCursorDownWithScroll with
  | none => rfl
  | some t1 => simp only [Option.map]; split <;> rfl

theorem cr_eq (t : Terminal) : GenT.cr t = t.doMoveCursorToCol 0 := rfl
theorem so_eq (t : Terminal) : GenT.so t = { t with activeCharset := 1 } := rfl
theorem si_eq (t : Terminal) : GenT.si t = { t with activeCharset := 0 } := rfl

theorem nel_eq (t : Terminal) : GenT.nel t = t.nel := by
  unfold GenT.nel Terminal.nel
  simp only [moveCursorDownWithScroll_eq, doMoveCursorToCol_eq]
  cases t.moveCursorDownWithScroll <;> rfl

theorem hts_eq (t : Terminal) : GenT.hts t = t.setTab := by
  unfold GenT.hts; exact setTab_eq t

theorem ri_eq (t : Terminal) : GenT.ri t = t.ri := by
  unfold GenT.ri Terminal.ri
  simp only [scrollDownInRegion_eq, doMoveCursorToRow_eq]
  by_cases h1 : t.cursor.row = t.topMargin <;> by_cases h2 : t.cursor.row > 0 <;>
    simp only [h1, h2, ↓reduceIte]
  all_goals (try rfl)
  all_goals
    have h3 : csub t.cursor.row 1 = some (t.cursor.row - 1) := by unfold csub; simp; omega
    simp only [h3]

theorem sc_eq (t : Terminal) : GenT.sc t = t.saveCursor := by
  unfold GenT.sc; exact saveCursor_eq t
theorem rc_eq (t : Terminal) : GenT.rc t = t.restoreCursor := rfl
theorem ris_eq (t : Terminal) : GenT.ris t = t.hardReset := by
  unfold GenT.ris; exact hardReset_eq t
theorem gzd4_eq (t : Terminal) (c : Charset) : GenT.gzd4 t c = { t with charsets := (c, t.charsets.2) } := rfl
theorem g1d4_eq (t : Terminal) (c : Charset) : GenT.g1d4 t c = { t with charsets := (t.charsets.1, c) } := rfl

theorem ich_eq (t : Terminal) (n : Nat) : GenT.ich t n = t.ich n := by
  unfold GenT.ich Terminal.ich Terminal.markDirty
  simp only [asUsize_eq, Cell.blank_eq]
  cases h : t.buffer.insert t.cursor.col t.cursor.row (Avt.asUsize n 1) (Avt.Cell.blank t.pen) with
  | none => rfl
  | some b => simp only []; cases Dirty.add t.dirtyLines t.cursor.row <;> rfl

theorem cuu_eq (t : Terminal) (n : Nat) : GenT.cuu t n = t.cursorUp (Avt.asUsize n 1) := by
  unfold GenT.cuu; exact cursorUp_eq t _
theorem cud_eq (t : Terminal) (n : Nat) : GenT.cud t n = t.cursorDown (Avt.asUsize n 1) := by
  unfold GenT.cud; exact cursorDown_eq t _
theorem cuf_eq (t : Terminal) (n : Nat) : GenT.cuf t n = t.moveCursorToRelCol ((Avt.asUsize n 1 : Nat) : Int) := by
  unfold GenT.cuf; exact moveCursorToRelCol_eq t _
theorem cub_eq (t : Terminal) (n : Nat) : GenT.cub t n = t.cub n := by
  unfold GenT.cub Terminal.cub
  simp only [moveCursorToRelCol_eq, asUsize_eq]
theorem cnl_eq (t : Terminal) (n : Nat) :
    GenT.cnl t n = (t.cursorDown (Avt.asUsize n 1)).map fun t => t.doMoveCursorToCol 0 := by
  unfold GenT.cnl
  simp only [cursorDown_eq, asUsize_eq, doMoveCursorToCol_eq]
  cases t.cursorDown (Avt.asUsize n 1) <;> rfl
theorem cpl_eq (t : Terminal) (n : Nat) :
    GenT.cpl t n = (t.cursorUp (Avt.asUsize n 1)).map fun t => t.doMoveCursorToCol 0 := by
  unfold GenT.cpl
  simp only [cursorUp_eq, asUsize_eq, doMoveCursorToCol_eq]
  cases t.cursorUp (Avt.asUsize n 1) <;> rfl
theorem cha_eq (t : Terminal) (n : Nat) : GenT.cha t n = t.moveCursorToCol (Avt.asUsize n 1 - 1) := by
  unfold GenT.cha
  simp only [asUsize_eq, csub_asUsize_one, moveCursorToCol_eq]
theorem cup_eq (t : Terminal) (row col : Nat) : GenT.cup t row col = t.cup row col := by
  unfold GenT.cup Terminal.cup
  simp only [asUsize_eq, csub_asUsize_one, moveCursorToCol_eq, moveCursorToRow_eq]
  rfl
theorem cht_eq (t : Terminal) (n : Nat) : GenT.cht t n = t.moveCursorToNextTab (Avt.asUsize n 1) := by
  unfold GenT.cht; exact moveCursorToNextTab_eq t _
theorem cbt_eq (t : Terminal) (n : Nat) : GenT.cbt t n = t.moveCursorToPrevTab (Avt.asUsize n 1) := by
  unfold GenT.cbt; exact moveCursorToPrevTab_eq t _
theorem vpa_eq (t : Terminal) (n : Nat) : GenT.vpa t n = t.moveCursorToRow (Avt.asUsize n 1 - 1) := by
  unfold GenT.vpa
  simp only [asUsize_eq, csub_asUsize_one, moveCursorToRow_eq]
theorem vpr_eq (t : Terminal) (n : Nat) : GenT.vpr t n = t.cursorDown (Avt.asUsize n 1) := by
  unfold GenT.vpr; exact cursorDown_eq t _
theorem su_eq (t : Terminal) (n : Nat) : GenT.su t n = t.scrollUpInRegion (Avt.asUsize n 1) := by
  unfold GenT.su; exact scrollUpInRegion_eq t _
theorem sd_eq (t : Terminal) (n : Nat) : GenT.sd t n = t.scrollDownInRegion (Avt.asUsize n 1) := by
  unfold GenT.sd; exact scrollDownInRegion_eq t _

theorem ctc_eq (t : Terminal) (op : CtcOp) : GenT.ctc t op = t.ctc op := by
  cases op <;> rfl
theorem tbc_eq (t : Terminal) (s : TbcScope) : GenT.tbc t s = t.tbc s := by
  cases s <;> rfl
theorem decstr_eq (t : Terminal) : GenT.decstr t = t.softReset := by
  unfold GenT.decstr; exact softReset_eq t

theorem ed_eq (t : Terminal) (s : EdScope) : GenT.ed t s = t.ed s := by
  unfold GenT.ed Terminal.ed Terminal.eraseWith Terminal.markDirtyRange
  cases s <;> simp only []
  · cases h : t.buffer.erase t.cursor.col t.cursor.row .fromCursorToEndOfView t.pen with
    | none => rfl
    | some b => simp only [Option.map]; cases Dirty.extend t.dirtyLines t.cursor.row t.rows <;> rfl
  · cases h : t.buffer.erase t.cursor.col t.cursor.row .fromStartOfViewToCursor t.pen with
    | none => rfl
    | some b => simp only [Option.map]; cases Dirty.extend t.dirtyLines 0 (t.cursor.row + 1) <;> rfl
  · cases h : t.buffer.erase t.cursor.col t.cursor.row .wholeView t.pen with
    | none => rfl
    | some b => simp only [Option.map]; cases Dirty.extend t.dirtyLines 0 t.rows <;> rfl

theorem el_eq (t : Terminal) (s : ElScope) : GenT.el t s = t.el s := by
  unfold GenT.el Terminal.el Terminal.eraseWith Terminal.markDirty
  cases s <;> simp only []
  · cases h : t.buffer.erase t.cursor.col t.cursor.row .fromCursorToEndOfLine t.pen with
    | none => rfl
    | some b => simp only [Option.map]; cases Dirty.add t.dirtyLines t.cursor.row <;> rfl
  · cases h : t.buffer.erase t.cursor.col t.cursor.row .fromStartOfLineToCursor t.pen with
    | none => rfl
    | some b => simp only [Option.map]; cases Dirty.add t.dirtyLines t.cursor.row <;> rfl
  · cases h : t.buffer.erase t.cursor.col t.cursor.row .wholeLine t.pen with
    | none => rfl
    | some b => simp only [Option.map]; cases Dirty.add t.dirtyLines t.cursor.row <;> rfl

theorem il_eq (t : Terminal) (n : Nat) : GenT.il t n = t.il n := by
  unfold GenT.il Terminal.il Terminal.ilRange Terminal.markDirtyRange
  simp only [asUsize_eq]
  by_cases hc : t.cursor.row ≤ t.bottomMargin <;> simp only [hc, ↓reduceIte]
  · cases h : t.buffer.scrollDown t.cursor.row (t.bottomMargin + 1) (Avt.asUsize n 1) t.pen with
    | none => rfl
    | some b => simp only [Option.map]; cases Dirty.extend t.dirtyLines t.cursor.row (t.bottomMargin + 1) <;> rfl
  · cases h : t.buffer.scrollDown t.cursor.row t.rows (Avt.asUsize n 1) t.pen with
    | none => rfl
    | some b => simp only [Option.map]; cases Dirty.extend t.dirtyLines t.cursor.row t.rows <;> rfl

theorem dl_eq (t : Terminal) (n : Nat) : GenT.dl t n = t.dl n := by
  unfold GenT.dl Terminal.dl Terminal.ilRange Terminal.markDirtyRange
  simp only [asUsize_eq]
  by_cases hc : t.cursor.row ≤ t.bottomMargin <;> simp only [hc, ↓reduceIte]
  · cases h : t.buffer.scrollUp t.cursor.row (t.bottomMargin + 1) (Avt.asUsize n 1) t.pen with
    | none => rfl
    | some b => simp only [Option.map]; cases Dirty.extend t.dirtyLines t.cursor.row (t.bottomMargin + 1) <;> rfl
  · cases h : t.buffer.scrollUp t.cursor.row t.rows (Avt.asUsize n 1) t.pen with
    | none => rfl
    | some b => simp only [Option.map]; cases Dirty.extend t.dirtyLines t.cursor.row t.rows <;> rfl

theorem dch_eq (t : Terminal) (n : Nat) : GenT.dch t n = t.dch n := by
  unfold GenT.dch Terminal.dch Terminal.markDirty
  simp only [asUsize_eq, moveCursorToCol_eq]
  by_cases hc : t.cursor.col ≥ t.cols <;> simp only [hc, ↓reduceIte]
  · cases h1 : csub t.cols 1 with
    | none => rfl
    | some c1 =>
      simp only []
      cases h2 : t.moveCursorToCol c1 with
      | none => rfl
      | some t1 =>
        simp only []
        cases h3 : t1.buffer.delete t1.cursor.col t1.cursor.row (Avt.asUsize n 1) t1.pen with
        | none => rfl
        | some b => simp only [Option.map]; cases Dirty.add t1.dirtyLines t1.cursor.row <;> rfl
  · cases h3 : t.buffer.delete t.cursor.col t.cursor.row (Avt.asUsize n 1) t.pen with
    | none => rfl
    | some b => simp only [Option.map]; cases Dirty.add t.dirtyLines t.cursor.row <;> rfl

theorem ech_eq (t : Terminal) (n : Nat) : GenT.ech t n = t.ech n := by
  unfold GenT.ech Terminal.ech Terminal.eraseWith Terminal.markDirty
  simp only [asUsize_eq]
  cases h : t.buffer.erase t.cursor.col t.cursor.row (.nextChars (Avt.asUsize n 1)) t.pen with
  | none => rfl
  | some b => simp only [Option.map]; cases Dirty.add t.dirtyLines t.cursor.row <;> rfl

theorem sm_eq (t : Terminal) (ms : List AnsiMode) : GenT.sm t ms = t.sm ms := rfl
theorem rm_eq (t : Terminal) (ms : List AnsiMode) : GenT.rm t ms = t.rm ms := rfl

theorem decstbm_eq (t : Terminal) (top bottom : Nat) : GenT.decstbm t top bottom = t.decstbm top bottom := by
  unfold GenT.decstbm Terminal.decstbm
  simp only [asUsize_eq, csub_asUsize_one, moveCursorHome_eq]
  cases csub (Avt.asUsize bottom t.rows) 1 <;> rfl

theorem xtwinops_eq (t : Terminal) (c r : Nat) : GenT.xtwinops t (c, r) = t.xtwinopsF c r := by
  unfold GenT.xtwinops Terminal.xtwinopsF
  simp only [asUsize_eq, ← resize_eq]
  split
  · cases GenT.resize t (Avt.asUsize c t.cols) (Avt.asUsize r t.rows) <;> rfl
  · rfl

theorem sgr_eq (t : Terminal) (ops : List SgrOp) : GenT.sgr t ops = t.sgr ops := by
  unfold GenT.sgr Terminal.sgr
  induction ops generalizing t with
  | nil => rfl
  | cons op ops ih =>
    simp only [List.foldl_cons]
    rw [ih]
    cases op <;> rfl

theorem decset_eq (t : Terminal) (ms : List DecMode) :
    GenT.decset t ms = Terminal.foldM' Terminal.decsetOne ms t := by
  unfold GenT.decset
  congr 1
  funext t m
  cases m <;>
    simp only [moveCursorHome_eq, switchToAlternateBuffer_eq, reflow_eq, saveCursor_eq, Terminal.decsetOne] <;>
    rfl

theorem decrst_eq (t : Terminal) (ms : List DecMode) :
    GenT.decrst t ms = Terminal.foldM' Terminal.decrstOne ms t := by
  unfold GenT.decrst
  congr 1
  funext t m
  cases m <;>
    simp only [moveCursorHome_eq, switchToPrimaryBuffer_eq, reflow_eq, restoreCursor_eq, Terminal.decrstOne] <;>
    rfl

/-! #### `print`: the generated body is cut into its three phases (the `G` definitions are verbatim
copies of the generated text, tied to it by `rfl`; the `M` definitions are verbatim copies of the model) -/

/-- wrap phase of `print`, text of the generated definition -/
def printWrapG (t : Terminal) : Option Terminal :=
  if t.autoWrapMode && t.pendingWrap then
    let t := Avt.GenT.doMoveCursorToCol t 0
    if t.cursor.row = t.bottomMargin then
      match Avt.Buffer.wrap t.buffer t.cursor.row with
      | none => none
      | some b3 =>
        let t := { t with buffer := b3 }
        match Avt.GenT.scrollUpInRegion t 1 with
        | none => none
        | some t =>
          match Avt.csub t.rows 1 with
          | none => none
          | some x4 =>
            if t.bottomMargin < x4 then
              match Avt.csub t.bottomMargin 1 with
              | none => none
              | some x5 =>
                match Avt.Buffer.wrap t.buffer x5 with
                | none => none
                | some b6 =>
                  some { t with buffer := b6 }
            else
              some t
    else
      match Avt.csub t.rows 1 with
      | none => none
      | some x7 =>
        if t.cursor.row < x7 then
          match Avt.Buffer.wrap t.buffer t.cursor.row with
          | none => none
          | some b8 =>
            let t := { t with buffer := b8 }
            Avt.GenT.doMoveCursorToRow t (t.cursor.row + 1)
        else
          some t
  else
    some t

def printPutG (t : Terminal) (cell : Cell) : Option Terminal :=
  let nextCol := t.cursor.col + 1
  if nextCol ≥ t.cols then
    match Avt.csub t.cols 1 with
    | none => none
    | some x9 =>
      match Avt.Buffer.print t.buffer x9 t.cursor.row cell with
      | none => none
      | some b10 =>
        let t := { t with buffer := b10 }
        if t.autoWrapMode then
          let t := Avt.GenT.doMoveCursorToCol t t.cols
          some { t with pendingWrap := true }
        else
          some t
  else
    let r3 :=
      if t.insertMode then
        match Avt.Buffer.insert t.buffer t.cursor.col t.cursor.row 1 cell with
        | none => none
        | some b11 =>
          some { t with buffer := b11 }
      else
        match Avt.Buffer.print t.buffer t.cursor.col t.cursor.row cell with
        | none => none
        | some b12 =>
          some { t with buffer := b12 }
    match r3 with
    | none => none
    | some t =>
      some (Avt.GenT.doMoveCursorToCol t nextCol)

def printDirtyG (t : Terminal) : Option Terminal :=
  match Avt.Dirty.add t.dirtyLines t.cursor.row with
  | none => none
  | some d13 =>
    some { t with dirtyLines := d13 }

theorem printDirty_eq (t : Terminal) : printDirtyG t = t.markDirty t.cursor.row := by
  unfold printDirtyG Terminal.markDirty
  cases Dirty.add t.dirtyLines t.cursor.row <;> rfl

theorem print_gen_shape (t : Terminal) (ch : Nat) : GenT.print t ch =
    match (match t.activeCharset with | 0 => some t.charsets.1 | 1 => some t.charsets.2 | _ => none) with
    | none => none
    | some cs =>
      match cs.translate ch with
      | none => none
      | some c =>
        match printWrapG t with
        | none => none
        | some t1 =>
          match printPutG t1 (GenT.Cell.new c t.pen) with
          | none => none
          | some t2 => printDirtyG t2 := by
  rfl

/-- wrap phase of `print`, text of the model -/
def printWrapM (t : Terminal) : Option Terminal :=
        if t.autoWrapMode && t.pendingWrap then
          let t := t.doMoveCursorToCol 0
          if t.cursor.row = t.bottomMargin then
            match t.buffer.wrap t.cursor.row with
            | none => none
            | some b =>
              match ({ t with buffer := b } : Terminal).scrollUpInRegion 1 with
              | none => none
              | some t =>
                match csub t.rows 1 with
                | none => none
                | some r1 =>
                  if t.bottomMargin < r1 then
                    match csub t.bottomMargin 1 with
                    | none => none
                    | some bm1 => (t.buffer.wrap bm1).map fun b => { t with buffer := b }
                  else some t
          else
            match csub t.rows 1 with
            | none => none
            | some r1 =>
              if t.cursor.row < r1 then
                match t.buffer.wrap t.cursor.row with
                | none => none
                | some b => ({ t with buffer := b } : Terminal).doMoveCursorToRow (t.cursor.row + 1)
              else some t
        else some t

def printPutM (t : Terminal) (cell : Cell) : Option Terminal :=
        let nextCol := t.cursor.col + 1
          if nextCol ≥ t.cols then
            match csub t.cols 1 with
            | none => none
            | some c1 =>
              match t.buffer.print c1 t.cursor.row cell with
              | none => none
              | some b =>
                let t := { t with buffer := b }
                if t.autoWrapMode then some { t.doMoveCursorToCol t.cols with pendingWrap := true }
                else some t
          else
            let b := if t.insertMode then t.buffer.insert t.cursor.col t.cursor.row 1 cell
                     else t.buffer.print t.cursor.col t.cursor.row cell
            match b with
            | none => none
            | some b => some (({ t with buffer := b } : Terminal).doMoveCursorToCol nextCol)

theorem print_model_shape (t : Terminal) (ch : Nat) : t.print ch =
    match t.activeCharsetValue with
    | none => none
    | some cs =>
      match cs.translate ch with
      | none => none
      | some c =>
        match printWrapM t with
        | none => none
        | some t1 =>
          match printPutM t1 ⟨c, t.pen⟩ with
          | none => none
          | some t2 => t2.markDirty t2.cursor.row := by
  rfl

theorem printWrap_eq (t : Terminal) : printWrapG t = printWrapM t := by
  unfold printWrapG printWrapM
  simp only [doMoveCursorToCol_eq, doMoveCursorToRow_eq, scrollUpInRegion_eq]
  by_cases hw : (t.autoWrapMode && t.pendingWrap) = true <;> simp only [hw, ↓reduceIte]
  by_cases hr : (t.doMoveCursorToCol 0).cursor.row = (t.doMoveCursorToCol 0).bottomMargin <;>
    simp only [hr, ↓reduceIte]
  · cases (t.doMoveCursorToCol 0).buffer.wrap (t.doMoveCursorToCol 0).bottomMargin with
    | none => rfl
    | some b =>
      simp only []
      cases Terminal.scrollUpInRegion _ 1 with
      | none => rfl
      | some t1 =>
        simp only []
        cases csub t1.rows 1 with
        | none => rfl
        | some r1 =>
          simp only []
          split
          · cases csub t1.bottomMargin 1 with
            | none => rfl
            | some bm1 => simp only []; cases t1.buffer.wrap bm1 <;> rfl
          · rfl
  · rfl

theorem printPut_eq (t : Terminal) (cell : Cell) : printPutG t cell = printPutM t cell := by
  unfold printPutG printPutM
  simp only [doMoveCursorToCol_eq]
  by_cases hc : t.cursor.col + 1 ≥ t.cols
  · simp only [hc, ↓reduceIte] <;> rfl
  · simp only [hc, ↓reduceIte]
    by_cases hi : t.insertMode = true <;> simp only [hi, ↓reduceIte]
    · cases t.buffer.insert t.cursor.col t.cursor.row 1 cell <;> rfl
    · cases t.buffer.print t.cursor.col t.cursor.row cell <;> rfl

theorem print_eq (t : Terminal) (ch : Nat) : GenT.print t ch = t.print ch := by
  rw [print_gen_shape, print_model_shape]
  unfold Terminal.activeCharsetValue
  simp only [printWrap_eq, printPut_eq, printDirty_eq, Cell.new_eq]
  rfl

/-! #### `rep`, `decaln`: loops -/

theorem printN_fold (c : Nat) : ∀ (n s : Nat) (t : Terminal),
    Terminal.foldM' (fun t _n => t.print c) (List.range' s n) t = t.printN c n := by
  intro n
  induction n with
  | zero => intro s t; rfl
  | succ k ih =>
    intro s t
    simp only [List.range'_succ, Terminal.foldM', Terminal.printN]
    cases t.print c with
    | none => rfl
    | some t1 => simp only []; exact ih (s + 1) t1

theorem rep_eq (t : Terminal) (n : Nat) : GenT.rep t n = t.rep n := by
  unfold GenT.rep Terminal.rep
  simp only [asUsize_eq, Cell.char_eq, print_eq, printN_fold]
  by_cases h : t.cursor.col > 0
  · have h3 : csub t.cursor.col 1 = some (t.cursor.col - 1) := by unfold csub; simp; omega
    simp only [h, ↓reduceIte, h3]
    rfl
  · simp only [h, ↓reduceIte]

def decalnInnerG (row : Nat) (t : Terminal) (col : Nat) : Option Terminal :=
  match Avt.Buffer.print t.buffer col row (Avt.GenT.Cell.fromChar 0x45) with
  | none => none
  | some b1 =>
    some { t with buffer := b1 }

def decalnStepG (t : Terminal) (row : Nat) : Option Terminal :=
  match Avt.Terminal.foldM' (decalnInnerG row) (List.range' 0 t.cols) t with
  | none => none
  | some t =>
    match Avt.Dirty.add t.dirtyLines row with
    | none => none
    | some d2 =>
      some { t with dirtyLines := d2 }

theorem decaln_gen_shape (t : Terminal) :
    GenT.decaln t = Terminal.foldM' decalnStepG (List.range' 0 t.rows) t := rfl

theorem decalnInner_fold (row : Nat) : ∀ (n col : Nat) (t : Terminal),
    Terminal.foldM' (decalnInnerG row) (List.range' col n) t
      = (Terminal.decalnCols t.buffer row col n).map fun b => { t with buffer := b } := by
  intro n
  induction n with
  | zero => intro col t; rfl
  | succ k ih =>
    intro col t
    simp only [List.range'_succ, Terminal.foldM', Terminal.decalnCols, decalnInnerG, Cell.fromChar_eq]
    cases h : t.buffer.print col row ⟨0x45, Avt.Pen.default⟩ with
    | none => rfl
    | some b => simp only []; exact ih (col + 1) _

theorem decalnStep_fold : ∀ (k row : Nat) (t : Terminal),
    Terminal.foldM' decalnStepG (List.range' row k) t = Terminal.decalnRows t row k := by
  intro k
  induction k with
  | zero => intro row t; rfl
  | succ k ih =>
    intro row t
    simp only [List.range'_succ, Terminal.foldM', Terminal.decalnRows, decalnStepG, decalnInner_fold,
      Terminal.markDirty]
    cases Terminal.decalnCols t.buffer row 0 t.cols with
    | none => rfl
    | some b =>
      simp only [Option.map]
      cases Dirty.add t.dirtyLines row with
      | none => rfl
      | some d => simp only []; exact ih (row + 1) _

theorem decaln_eq (t : Terminal) : GenT.decaln t = t.decaln := by
  rw [decaln_gen_shape]; exact decalnStep_fold t.rows 0 t

/-! #### the dispatch -/

theorem execute_eq (t : Terminal) (f : Function) : GenT.execute t f = t.execute f := by
  cases f <;>
    simp only [GenT.execute, Terminal.execute, bs_eq, cbt_eq, cha_eq, cht_eq, cnl_eq, cpl_eq, cr_eq, ctc_eq,
      cub_eq, cud_eq, cuf_eq, cup_eq, cuu_eq, dch_eq, decaln_eq, rc_eq, decrst_eq, sc_eq, decset_eq,
      decstbm_eq, decstr_eq, dl_eq, ech_eq, ed_eq, el_eq, g1d4_eq, gzd4_eq, ht_eq, hts_eq, ich_eq, il_eq,
      lf_eq, nel_eq, print_eq, rep_eq, ri_eq, ris_eq, rm_eq, sd_eq, sgr_eq, si_eq, sm_eq, so_eq, su_eq,
      tbc_eq, vpa_eq, vpr_eq, xtwinops_eq]

/-! ### coverage -/

/-- Rust functions whose generated translation is covered by an equality theorem above -/
def translatedFunctions : List String := [
  "SavedCtx::default", "SavedCtx::is_default", "Terminal::new", "Terminal::execute",
  "Terminal::cursor", "Terminal::gc", "Terminal::changes", "Terminal::save_cursor",
  "Terminal::restore_cursor", "Terminal::move_cursor_to_col", "Terminal::do_move_cursor_to_col",
  "Terminal::move_cursor_to_row", "Terminal::do_move_cursor_to_row",
  "Terminal::move_cursor_to_rel_col", "Terminal::move_cursor_home",
  "Terminal::move_cursor_to_next_tab", "Terminal::move_cursor_to_prev_tab",
  "Terminal::move_cursor_down_with_scroll", "Terminal::cursor_down", "Terminal::cursor_up",
  "Terminal::actual_top_margin", "Terminal::actual_bottom_margin", "Terminal::scroll_up_in_region",
  "Terminal::scroll_down_in_region", "Terminal::set_tab", "Terminal::clear_tab",
  "Terminal::clear_all_tabs", "Terminal::switch_to_alternate_buffer",
  "Terminal::switch_to_primary_buffer", "Terminal::resize", "Terminal::reflow",
  "Terminal::soft_reset", "Terminal::hard_reset", "Terminal::primary_buffer",
  "Terminal::alternate_buffer", "Terminal::view", "Terminal::lines", "Terminal::line",
  "Terminal::text", "Terminal::cursor_keys_app_mode", "Terminal::print", "Terminal::bs",
  "Terminal::ht", "Terminal::lf", "Terminal::cr", "Terminal::so", "Terminal::si", "Terminal::nel",
  "Terminal::hts", "Terminal::ri", "Terminal::sc", "Terminal::rc", "Terminal::ris",
  "Terminal::decaln", "Terminal::gzd4", "Terminal::g1d4", "Terminal::ich", "Terminal::cuu",
  "Terminal::cud", "Terminal::cuf", "Terminal::cub", "Terminal::cnl", "Terminal::cpl",
  "Terminal::cha", "Terminal::cup", "Terminal::cht", "Terminal::ed", "Terminal::el",
  "Terminal::il", "Terminal::dl", "Terminal::dch", "Terminal::su", "Terminal::sd", "Terminal::ctc",
  "Terminal::ech", "Terminal::cbt", "Terminal::rep", "Terminal::vpa", "Terminal::vpr",
  "Terminal::tbc", "Terminal::sm", "Terminal::rm", "Terminal::sgr", "Terminal::decstbm",
  "Terminal::xtwinops", "Terminal::decstr", "Terminal::decset", "Terminal::decrst", "as_usize",
  "Terminal::default", "Cursor::default", "DirtyLines::new", "DirtyLines::add",
  "DirtyLines::extend", "DirtyLines::resize", "DirtyLines::clear", "DirtyLines::to_vec",
  "Tabs::new", "Tabs::set", "Tabs::unset", "Tabs::expand", "Tabs::contract", "Tabs::clear",
  "Tabs::before", "Tabs::after", "Pen::foreground", "Pen::background", "Pen::is_bold",
  "Pen::is_faint", "Pen::is_italic", "Pen::is_underline", "Pen::is_strikethrough", "Pen::is_blink",
  "Pen::is_inverse", "Pen::set_italic", "Pen::set_underline", "Pen::set_blink",
  "Pen::set_strikethrough", "Pen::set_inverse", "Pen::unset_italic", "Pen::unset_underline",
  "Pen::unset_blink", "Pen::unset_strikethrough", "Pen::unset_inverse", "Pen::is_default",
  "Pen::default", "Cell::new", "Cell::blank", "Cell::is_default", "Cell::char", "Cell::pen",
  "Cell::default", "Cell::from"
]

/-- Rust functions of the scanned `impl` blocks without translation (and hence without theorem):
    string formatting (`dump`) and the `unicode-width` call are outside the translated subset -/
def untranslatedFunctions : List String := ["Terminal::dump", "Pen::dump", "Cell::width"]

/-- every function the translator emitted has its theorem here (a new Rust function shows up as a failure) -/
theorem coverage_complete : GenT.translated = translatedFunctions := by decide

theorem untranslated_as_expected : GenT.untranslated.length = untranslatedFunctions.length := by decide

end Avt.GenEq
