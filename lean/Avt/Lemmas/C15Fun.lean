/-
  Avt.Lemmas.C15Fun — the step property, function by function.
  (1) functions that touch neither the buffer nor the flags (`bd` frame, same scheme as C16Frame);
  (2) functions that mutate the buffer and then mark what they mutated;
  (3) functions that flag every row (buffer switches + reflow, hard reset).
-/
import Avt.Lemmas.C15Step
import Avt.Lemmas.C16Geo

namespace Avt.C15
open Avt Avt.C16

/-! ### (1) cursor, modes, tabs -/

def bd (t : Terminal) : Buffer × List Bool × Nat × Bool := (t.buffer, t.dirtyLines, t.rows, t.xtwinops)

theorem StepD.of_bd {D} {t t' : Terminal} (h : bd t' = bd t) : StepD D t t' := by
  simp only [bd, Prod.mk.injEq] at h
  exact StepD.of_eq h.1 h.2.1 h.2.2.1 h.2.2.2

set_option hygiene false in
macro "bd_auto" : tactic => `(tactic| (
  fr_split
  all_goals (try (obtain ⟨_, _, rfl⟩ := h))
  all_goals (try subst h)
  all_goals grind [bd, Terminal.doMoveCursorToCol, Terminal.restoreCursor, Terminal.setTab, Terminal.clearTab,
    Terminal.clearAllTabs]))

theorem bd_saveCursor {t t' : Terminal} (h : t.saveCursor = some t') : bd t' = bd t := by
  unfold Terminal.saveCursor at h; bd_auto
grind_pattern bd_saveCursor => t.saveCursor, some t'

theorem bd_moveCursorToCol {t t' : Terminal} {k} (h : t.moveCursorToCol k = some t') : bd t' = bd t := by
  unfold Terminal.moveCursorToCol at h; bd_auto
grind_pattern bd_moveCursorToCol => t.moveCursorToCol k, some t'

theorem bd_doMoveCursorToRow {t t' : Terminal} {k} (h : t.doMoveCursorToRow k = some t') : bd t' = bd t := by
  unfold Terminal.doMoveCursorToRow at h; bd_auto
grind_pattern bd_doMoveCursorToRow => t.doMoveCursorToRow k, some t'

theorem bd_moveCursorToRelCol {t t' : Terminal} {k} (h : t.moveCursorToRelCol k = some t') : bd t' = bd t := by
  unfold Terminal.moveCursorToRelCol at h; bd_auto
grind_pattern bd_moveCursorToRelCol => t.moveCursorToRelCol k, some t'

theorem bd_softReset {t t' : Terminal} (h : t.softReset = some t') : bd t' = bd t := by
  unfold Terminal.softReset at h; bd_auto
grind_pattern bd_softReset => t.softReset, some t'

theorem bd_moveCursorToRow {t t' : Terminal} {k} (h : t.moveCursorToRow k = some t') : bd t' = bd t := by
  unfold Terminal.moveCursorToRow at h; bd_auto
grind_pattern bd_moveCursorToRow => t.moveCursorToRow k, some t'

theorem bd_moveCursorHome {t t' : Terminal} (h : t.moveCursorHome = some t') : bd t' = bd t := by
  unfold Terminal.moveCursorHome at h; bd_auto
grind_pattern bd_moveCursorHome => t.moveCursorHome, some t'

theorem bd_moveCursorToNextTab {t t' : Terminal} {n} (h : t.moveCursorToNextTab n = some t') : bd t' = bd t := by
  unfold Terminal.moveCursorToNextTab at h; bd_auto
grind_pattern bd_moveCursorToNextTab => t.moveCursorToNextTab n, some t'

theorem bd_moveCursorToPrevTab {t t' : Terminal} {n} (h : t.moveCursorToPrevTab n = some t') : bd t' = bd t := by
  unfold Terminal.moveCursorToPrevTab at h; bd_auto
grind_pattern bd_moveCursorToPrevTab => t.moveCursorToPrevTab n, some t'

theorem bd_cursorDown {t t' : Terminal} {n} (h : t.cursorDown n = some t') : bd t' = bd t := by
  unfold Terminal.cursorDown at h; bd_auto
grind_pattern bd_cursorDown => t.cursorDown n, some t'

theorem bd_cursorUp {t t' : Terminal} {n} (h : t.cursorUp n = some t') : bd t' = bd t := by
  unfold Terminal.cursorUp at h; bd_auto
grind_pattern bd_cursorUp => t.cursorUp n, some t'

theorem bd_bs {t t' : Terminal} (h : t.bs = some t') : bd t' = bd t := by
  unfold Terminal.bs at h; bd_auto
grind_pattern bd_bs => t.bs, some t'

theorem bd_cub {t t' : Terminal} {n} (h : t.cub n = some t') : bd t' = bd t := by
  unfold Terminal.cub at h; bd_auto
grind_pattern bd_cub => t.cub n, some t'

theorem bd_cup {t t' : Terminal} {a b} (h : t.cup a b = some t') : bd t' = bd t := by
  unfold Terminal.cup at h; bd_auto
grind_pattern bd_cup => t.cup a b, some t'

theorem bd_decstbm {t t' : Terminal} {a b} (h : t.decstbm a b = some t') : bd t' = bd t := by
  unfold Terminal.decstbm at h; bd_auto
grind_pattern bd_decstbm => t.decstbm a b, some t'

theorem bd_ctc {t : Terminal} {op} : bd (t.ctc op) = bd t := by
  cases op <;> simp only [Terminal.ctc, Terminal.setTab, Terminal.clearTab, Terminal.clearAllTabs] <;> (try split) <;> rfl

theorem bd_tbc {t : Terminal} {s} : bd (t.tbc s) = bd t := by
  cases s <;> rfl

theorem bd_sm {ms : List AnsiMode} {t : Terminal} : bd (t.sm ms) = bd t := by
  unfold Terminal.sm
  induction ms generalizing t with
  | nil => rfl
  | cons m ms ih => cases m <;> exact ih

theorem bd_rm {ms : List AnsiMode} {t : Terminal} : bd (t.rm ms) = bd t := by
  unfold Terminal.rm
  induction ms generalizing t with
  | nil => rfl
  | cons m ms ih => cases m <;> exact ih

/-! ### (2) mutate, then mark -/

theorem step_scrollUpInRegion {t t' : Terminal} {n} (h : t.scrollUpInRegion n = some t') : StepD Never t t' := by
  unfold Terminal.scrollUpInRegion at h
  split at h
  · simp at h
  · rename_i b hb
    exact (StepD.setBuffer (scrollUp_chg hb)).markDirtyRange (t1 := { t with buffer := b }) h (fun i hi _ => hi)

theorem step_scrollDownInRegion {t t' : Terminal} {n} (h : t.scrollDownInRegion n = some t') : StepD Never t t' := by
  unfold Terminal.scrollDownInRegion at h
  split at h
  · simp at h
  · rename_i b hb
    exact (StepD.setBuffer (scrollDown_chg hb)).markDirtyRange (t1 := { t with buffer := b }) h (fun i hi _ => hi)

theorem step_moveCursorDownWithScroll {t t' : Terminal} (h : t.moveCursorDownWithScroll = some t') :
    StepD Never t t' := by
  unfold Terminal.moveCursorDownWithScroll at h
  split at h
  · exact step_scrollUpInRegion h
  · split at h
    · simp at h
    · split at h
      · exact StepD.of_bd (bd_doMoveCursorToRow h)
      · simp only [Option.some.injEq] at h; subst h; exact StepD.refl _ _

theorem step_lf {t t' : Terminal} (h : t.lf = some t') : StepD Never t t' := by
  unfold Terminal.lf at h
  simp only [Option.map_eq_some_iff] at h
  obtain ⟨t1, h1, rfl⟩ := h
  refine (step_moveCursorDownWithScroll h1).trans ?_
  split
  · exact StepD.of_eq rfl rfl rfl rfl
  · exact StepD.refl _ _

theorem step_nel {t t' : Terminal} (h : t.nel = some t') : StepD Never t t' := by
  unfold Terminal.nel at h
  simp only [Option.map_eq_some_iff] at h
  obtain ⟨t1, h1, rfl⟩ := h
  exact (step_moveCursorDownWithScroll h1).trans (StepD.of_eq rfl rfl rfl rfl)

theorem step_ri {t t' : Terminal} (h : t.ri = some t') : StepD Never t t' := by
  unfold Terminal.ri at h
  split at h
  · exact step_scrollDownInRegion h
  · split at h
    · exact StepD.of_bd (bd_doMoveCursorToRow h)
    · simp only [Option.some.injEq] at h; subst h; exact StepD.refl _ _

theorem step_ich {t t' : Terminal} {n} (h : t.ich n = some t') : StepD Never t t' := by
  unfold Terminal.ich at h
  split at h
  · simp at h
  · rename_i b hb
    exact (StepD.setBuffer (insert_chg hb)).markDirty (t1 := { t with buffer := b }) h (fun _ e => e)

theorem step_dch {t t' : Terminal} {n} (h : t.dch n = some t') : StepD Never t t' := by
  unfold Terminal.dch at h
  dsimp only at h
  split at h
  · simp at h
  · rename_i t1 h1
    have s1 : StepD Never t t1 := by
      split at h1
      · split at h1
        · simp at h1
        · exact StepD.of_bd (bd_moveCursorToCol h1)
      · simp only [Option.some.injEq] at h1; subst h1; exact StepD.refl _ _
    split at h
    · simp at h
    · rename_i b hb
      exact s1.trans ((StepD.setBuffer (delete_chg hb)).markDirty (t1 := { t1 with buffer := b }) h (fun _ e => e))

/-- the rows an erase mode may change, as `eraseWith` sees them -/
theorem eraseWith_spec {t t1 : Terminal} {mode : Buffer.EraseMode} (h : t.eraseWith mode = some t1) :
    ∃ b, t1 = { t with buffer := b } ∧ BChg (eraseRows mode t.cursor.row) t.buffer b := by
  unfold Terminal.eraseWith at h
  simp only [Option.map_eq_some_iff] at h
  obtain ⟨b, hb, rfl⟩ := h
  exact ⟨b, rfl, erase_chg hb⟩

theorem step_ech {t t' : Terminal} {n} (h : t.ech n = some t') : StepD Never t t' := by
  unfold Terminal.ech at h
  split at h
  · simp at h
  · rename_i t1 h1
    obtain ⟨b, rfl, c⟩ := eraseWith_spec h1
    exact (StepD.setBuffer c).markDirty h (fun _ e => e)

theorem step_el {t t' : Terminal} {s} (h : t.el s = some t') : StepD Never t t' := by
  unfold Terminal.el at h
  dsimp only at h
  split at h
  · simp at h
  · rename_i t1 h1
    obtain ⟨b, rfl, c⟩ := eraseWith_spec h1
    cases s <;> exact (StepD.setBuffer c).markDirty h (fun _ e => e)

theorem step_ed {t t' : Terminal} {s} (p : Pre t) (h : t.ed s = some t') : StepD Never t t' := by
  cases s <;> simp only [Terminal.ed] at h
  · split at h
    · simp at h
    · rename_i t1 h1
      obtain ⟨b, rfl, c⟩ := eraseWith_spec h1
      exact (StepD.setBuffer c).markDirtyRange h (fun i hi hlt => ⟨hi, p.brows ▸ hlt⟩)
  · split at h
    · simp at h
    · rename_i t1 h1
      obtain ⟨b, rfl, c⟩ := eraseWith_spec h1
      exact (StepD.setBuffer c).markDirtyRange h (fun i (hi : i ≤ t.cursor.row) _ => ⟨Nat.zero_le _, Nat.lt_succ_of_le hi⟩)
  · split at h
    · simp at h
    · rename_i t1 h1
      obtain ⟨b, rfl, c⟩ := eraseWith_spec h1
      exact (StepD.setBuffer c).markDirtyRange h (fun i _ hlt => ⟨Nat.zero_le _, p.brows ▸ hlt⟩)
  · simp only [Option.some.injEq] at h; subst h; exact StepD.refl _ _

theorem step_il {t t' : Terminal} {n} (h : t.il n = some t') : StepD Never t t' := by
  unfold Terminal.il at h
  generalize t.ilRange = r at h
  obtain ⟨a, b⟩ := r
  dsimp only at h
  split at h
  · simp at h
  · rename_i buf hb
    exact (StepD.setBuffer (scrollDown_chg hb)).markDirtyRange (t1 := { t with buffer := buf }) h (fun i hi _ => hi)

theorem step_dl {t t' : Terminal} {n} (h : t.dl n = some t') : StepD Never t t' := by
  unfold Terminal.dl at h
  generalize t.ilRange = r at h
  obtain ⟨a, b⟩ := r
  dsimp only at h
  split at h
  · simp at h
  · rename_i buf hb
    exact (StepD.setBuffer (scrollUp_chg hb)).markDirtyRange (t1 := { t with buffer := buf }) h (fun i hi _ => hi)

theorem step_decalnRows {k : Nat} {t t' : Terminal} {row} (h : Terminal.decalnRows t row k = some t') :
    StepD Never t t' := by
  induction k generalizing t row with
  | zero => simp only [Terminal.decalnRows, Option.some.injEq] at h; subst h; exact StepD.refl _ _
  | succ k ih =>
    unfold Terminal.decalnRows at h
    split at h
    · simp at h
    · rename_i b hb
      split at h
      · simp at h
      · rename_i t1 hm
        exact ((StepD.setBuffer (decalnCols_chg hb)).markDirty (t1 := { t with buffer := b }) hm
          (fun _ e => e)).trans (ih h)

theorem step_decaln {t t' : Terminal} (h : t.decaln = some t') : StepD Never t t' := step_decalnRows h

/-! #### print -/

theorem step_c15Wrap {t t' : Terminal} (h : t.c15Wrap = some t') : StepD Never t t' := by
  unfold Terminal.c15Wrap at h
  split at h
  · dsimp only at h
    have s0 : StepD Never t (t.doMoveCursorToCol 0) := StepD.of_eq rfl rfl rfl rfl
    refine s0.trans ?_
    generalize t.doMoveCursorToCol 0 = t0 at h
    split at h
    · split at h
      · simp at h
      · rename_i b hb
        have s1 : StepD Never t0 { t0 with buffer := b } := StepD.setBuffer (wrap_chg hb)
        split at h
        · simp at h
        · rename_i t2 h2
          have s2 := s1.trans (step_scrollUpInRegion h2)
          split at h
          · simp at h
          · split at h
            · split at h
              · simp at h
              · simp only [Option.map_eq_some_iff] at h
                obtain ⟨b3, hb3, rfl⟩ := h
                exact s2.trans (StepD.setBuffer (wrap_chg hb3))
            · simp only [Option.some.injEq] at h; subst h; exact s2
    · split at h
      · simp at h
      · split at h
        · split at h
          · simp at h
          · rename_i b hb
            exact (StepD.setBuffer (wrap_chg hb)).trans (StepD.of_bd (bd_doMoveCursorToRow h))
        · simp only [Option.some.injEq] at h; subst h; exact StepD.refl _ _
  · simp only [Option.some.injEq] at h; subst h; exact StepD.refl _ _

theorem step_c15Put {t t' : Terminal} {cell} (h : t.c15Put cell = some t') :
    StepD (· = t.cursor.row) t t' ∧ t'.cursor.row = t.cursor.row := by
  unfold Terminal.c15Put at h
  dsimp only at h
  split at h
  · split at h
    · simp at h
    · split at h
      · simp at h
      · rename_i b hb
        have s1 : StepD (· = t.cursor.row) t { t with buffer := b } := StepD.setBuffer (print_chg hb)
        split at h
        · simp only [Option.some.injEq] at h; subst h
          exact ⟨s1.trans (StepD.of_eq rfl rfl rfl rfl), rfl⟩
        · simp only [Option.some.injEq] at h; subst h
          exact ⟨s1, rfl⟩
  · split at h
    · simp at h
    · rename_i b hb
      simp only [Option.some.injEq] at h; subst h
      have c : BChg (· = t.cursor.row) t.buffer b := by
        split at hb
        · exact insert_chg hb
        · exact print_chg hb
      exact ⟨(StepD.setBuffer c).trans (StepD.of_eq rfl rfl rfl rfl), rfl⟩

theorem step_print {t t' : Terminal} {ch} (h : t.print ch = some t') : StepD Never t t' := by
  rw [Terminal.c15_print_eq] at h
  split at h
  · simp at h
  · split at h
    · simp at h
    · split at h
      · simp at h
      · rename_i t1 h1
        split at h
        · simp at h
        · rename_i t2 h2
          obtain ⟨s2, hrow⟩ := step_c15Put h2
          have sw : StepD (· = t1.cursor.row) t t1 := (step_c15Wrap h1).mono (fun _ f => False.elim f)
          exact (sw.trans s2).markDirty h (fun i e => by rw [hrow]; exact e)

theorem step_printN {k : Nat} {t t' : Terminal} {ch} (h : t.printN ch k = some t') : StepD Never t t' := by
  induction k generalizing t with
  | zero => simp only [Terminal.printN, Option.some.injEq] at h; subst h; exact StepD.refl _ _
  | succ k ih =>
    unfold Terminal.printN at h
    split at h
    · simp at h
    · rename_i hp
      exact (step_print hp).trans (ih h)

theorem step_rep {t t' : Terminal} {n} (h : t.rep n = some t') : StepD Never t t' := by
  unfold Terminal.rep at h
  fr_split
  · exact step_printN h
  · subst h; exact StepD.refl _ _

/-! ### (3) everything flagged: reflow, buffer switches, hard reset -/

theorem resize_rows {b b' : Buffer} {c r : Nat} {cur cur' : Nat × Nat}
    (h : b.resize c r cur = some (b', cur')) : b'.rows = r := by
  rw [Buffer.resize_eq] at h
  repeat' (split at h)
  all_goals (try simp at h)
  obtain ⟨rfl, _⟩ := h
  rfl

theorem bd_clampCol {t2 t3 : Terminal}
    (h3 : (if t2.savedCtx.cursorCol ≥ t2.cols
             then (csub t2.cols 1).map fun c1 => { t2 with savedCtx := { t2.savedCtx with cursorCol := c1 } }
             else some t2) = some t3) : bd t3 = bd t2 := by
  split at h3
  · simp only [Option.map_eq_some_iff] at h3; obtain ⟨_, _, rfl⟩ := h3; rfl
  · simp only [Option.some.injEq] at h3; subst h3; rfl

theorem bd_clampRow {t2 t3 : Terminal}
    (h3 : (if t2.savedCtx.cursorRow ≥ t2.rows
             then (csub t2.rows 1).map fun c1 => { t2 with savedCtx := { t2.savedCtx with cursorRow := c1 } }
             else some t2) = some t3) : bd t3 = bd t2 := by
  split at h3
  · simp only [Option.map_eq_some_iff] at h3; obtain ⟨_, _, rfl⟩ := h3; rfl
  · simp only [Option.some.injEq] at h3; subst h3; rfl

/-- `reflow` flags every row (`dirty_lines.resize(rows); dirty_lines.extend(0..rows)`) -/
theorem reflow_all {t t' : Terminal} (h : t.reflow = some t') :
    t'.rows = t.rows ∧ t'.xtwinops = t.xtwinops ∧ t'.buffer.rows = t.rows ∧ t'.dirtyLines.length = t.rows
      ∧ ∀ i, i < t.rows → Flagged t'.dirtyLines i := by
  unfold Terminal.reflow at h
  dsimp only at h
  split at h
  · simp at h
  · rename_i b col row hr
    have hbr : b.rows = t.rows := by
      have := resize_rows hr
      rw [this]; split <;> rfl
    split at h
    · simp at h
    · rename_i t2 h2
      split at h
      · simp at h
      · rename_i t3 h3
        have e : bd t' = bd t2 := (bd_clampRow h).trans (bd_clampCol h3)
        simp only [bd, Prod.mk.injEq] at e
        obtain ⟨e1, e2, e3, e4⟩ := e
        unfold Terminal.markDirtyRange at h2
        simp only [Option.map_eq_some_iff] at h2
        obtain ⟨d, hd, rfl⟩ := h2
        obtain ⟨l1, _, l3⟩ := extend_spec hd
        rw [e1, e2, e3, e4]
        refine ⟨?_, ?_, hbr, ?_, fun i hi => l3 i (Nat.zero_le _) ?_⟩
        · split <;> rfl
        · split <;> rfl
        · rw [l1, resize_len]; split <;> rfl
        · show i < _
          split <;> exact hi

theorem geo_rows {t1 t : Terminal} (h : geo t1 = geo t) : t1.rows = t.rows ∧ t1.xtwinops = t.xtwinops := by
  simp only [geo, Prod.mk.injEq] at h; exact ⟨h.2.1, h.2.2.1⟩

/-- anything that ends with `reflow` of a state of the same size is a sound step -/
theorem step_via_reflow {t t1 t' : Terminal} (p : Pre t) (hg : geo t1 = geo t) (h : t1.reflow = some t') :
    StepD Never t t' := by
  obtain ⟨r1, x1⟩ := geo_rows hg
  obtain ⟨a1, a2, a3, a4, a5⟩ := reflow_all h
  exact StepD.of_all p (a1.trans r1) (a3.trans r1) (a2.trans x1) (a4.trans r1) (fun i hi => a5 i (r1 ▸ hi))

theorem step_hardReset {t t' : Terminal} (p : Pre t) (h : t.hardReset = some t') : StepD Never t t' := by
  unfold Terminal.hardReset at h
  simp only [Option.map_eq_some_iff] at h
  obtain ⟨_, _, rfl⟩ := h
  exact StepD.of_all p rfl rfl rfl (by simp [Dirty.new]) (fun i hi => new_flagged hi)

theorem step_decsetOne {t t' : Terminal} {m} (p : Pre t) (h : t.decsetOne m = some t') : StepD Never t t' := by
  cases m <;> simp only [Terminal.decsetOne] at h
  · simp only [Option.some.injEq] at h; subst h; exact StepD.of_eq rfl rfl rfl rfl
  · have := bd_moveCursorHome h; exact StepD.of_bd this
  · simp only [Option.some.injEq] at h; subst h; exact StepD.of_eq rfl rfl rfl rfl
  · simp only [Option.some.injEq] at h; subst h; exact StepD.of_eq rfl rfl rfl rfl
  · split at h
    · simp at h
    · rename_i t1 h1
      exact step_via_reflow p (geo_switchToAlternateBuffer h1) h
  · exact StepD.of_bd (bd_saveCursor h)
  · split at h
    · simp at h
    · rename_i t0 h0
      split at h
      · simp at h
      · rename_i t1 h1
        exact step_via_reflow p ((geo_switchToAlternateBuffer h1).trans (geo_saveCursor h0)) h

theorem step_decrstOne {t t' : Terminal} {m} (p : Pre t) (h : t.decrstOne m = some t') : StepD Never t t' := by
  cases m <;> simp only [Terminal.decrstOne] at h
  · simp only [Option.some.injEq] at h; subst h; exact StepD.of_eq rfl rfl rfl rfl
  · have := bd_moveCursorHome h; exact StepD.of_bd this
  · simp only [Option.some.injEq] at h; subst h; exact StepD.of_eq rfl rfl rfl rfl
  · simp only [Option.some.injEq] at h; subst h; exact StepD.of_eq rfl rfl rfl rfl
  · split at h
    · simp at h
    · rename_i t1 h1
      exact step_via_reflow p (geo_switchToPrimaryBuffer h1) h
  · simp only [Option.some.injEq] at h; subst h; exact StepD.of_eq rfl rfl rfl rfl
  · split at h
    · simp at h
    · rename_i t1 h1
      have hg0 : geo t1 = geo t := geo_switchToPrimaryBuffer h1
      have hg : geo t1.restoreCursor = geo t := hg0
      exact step_via_reflow (t1 := t1.restoreCursor) p hg h

/-- **the step lemma**: every function keeps the flags set and flags every row whose cells it changes -/
theorem step_execute {t t' : Terminal} {f : Function} (p : Pre t) (h : t.execute f = some t') :
    StepD Never t t' := by
  cases f <;> simp only [Terminal.execute] at h
  case decset ms =>
    exact foldM'_inv (f := Terminal.decsetOne) (fun x => StepD Never t x) (ms := ms)
      (fun b a b' _ hb hs => hb.trans (step_decsetOne (hb.pre p) hs)) (StepD.refl _ _) h
  case decrst ms =>
    exact foldM'_inv (f := Terminal.decrstOne) (fun x => StepD Never t x) (ms := ms)
      (fun b a b' _ hb hs => hb.trans (step_decrstOne (hb.pre p) hs)) (StepD.refl _ _) h
  case ris => exact step_hardReset p h
  case xtwinops a b =>
    unfold Terminal.xtwinopsF at h
    rw [p.xt] at h
    simp only [Bool.false_eq_true, ↓reduceIte, Option.some.injEq] at h
    subst h; exact StepD.refl _ _
  case dch n => exact step_dch h
  case decaln => exact step_decaln h
  case dl n => exact step_dl h
  case ech n => exact step_ech h
  case ed s => exact step_ed p h
  case el s => exact step_el h
  case ich n => exact step_ich h
  case il n => exact step_il h
  case lf => exact step_lf h
  case nel => exact step_nel h
  case print ch => exact step_print h
  case rep n => exact step_rep h
  case ri => exact step_ri h
  case sd n => exact step_scrollDownInRegion h
  case su n => exact step_scrollUpInRegion h
  all_goals (apply StepD.of_bd)
  all_goals grind [bd, bd_ctc, bd_tbc, bd_sm, bd_rm, Terminal.setTab, Terminal.restoreCursor,
    Terminal.doMoveCursorToCol, Terminal.sgr]

end Avt.C15
