/-
  Avt.Lemmas.C16Text — the linear-time text function of the C16 oracle is `Buffer.text`; `gc()`;
  lifting the frame property through `Vt.feed`, `Vt.feedAll`, `Vt.feedStr`, `Vt.resize`.
-/
import Avt.Lemmas.C16Switch

namespace Avt.C16
open Avt Avt.Spec.C16

theorem fastTextGo_eq (ls : List Line) (acc : List (List Nat)) :
    fastTextGo ls acc = Buffer.textGo ls acc.reverse.flatten := by
  induction ls generalizing acc with
  | nil => simp [fastTextGo, Buffer.textGo]
  | cons l ls ih =>
    simp only [fastTextGo, Buffer.textGo, List.reverse_cons, List.flatten_append, List.flatten_cons,
      List.flatten_nil, List.append_nil]
    split
    · rw [ih]; rfl
    · rw [ih]; simp

/-- the oracle's `textOf` is `Terminal.text` -/
theorem textOf_eq (t : Terminal) : textOf t = t.text := by
  simp [textOf, Terminal.text, Buffer.text, fastTextGo_eq]

/-- `text()` reads the parked buffer while the alternate screen is showing -/
theorem text_alt {t : Terminal} (ha : t.activeBufferType = .alternate) : t.text = t.otherBuffer.text := by
  simp [Terminal.text, Terminal.primaryBuffer, ha]

theorem text_prim {t : Terminal} (hp : t.activeBufferType = .primary) : t.text = t.buffer.text := by
  simp [Terminal.text, Terminal.primaryBuffer, hp]

theorem fr_parts {t t' : Terminal} (h : fr t' = fr t) :
    t'.otherBuffer = t.otherBuffer ∧ t'.alternateSavedCtx = t.alternateSavedCtx
      ∧ t'.activeBufferType = t.activeBufferType := by
  simp only [fr, Prod.mk.injEq] at h; exact h

/-- `gc()` once `trim_needed` is set -/
theorem gc_trimmed (b : Buffer) (h : b.trimNeeded = true) :
    b.gc.1.view = b.view ∧ b.gc.1.sb = trimmedSb b ∧ b.gc.1.cols = b.cols ∧ b.gc.1.rows = b.rows
      ∧ b.gc.1.limit = b.limit := by
  unfold Buffer.gc trimmedSb
  rw [h]
  simp only [↓reduceIte]
  split
  · rename_i lim hl
    simp only [hl]
    split <;> simp
  · rename_i hl
    simp [hl]

/-! ### Vt level -/

theorem fr_finish (v : Vt) : fr v.finish.1.terminal = fr v.terminal := by
  simp only [Vt.finish, Terminal.changes, Terminal.gc]
  rfl

theorem fr_feedAll {s : List Nat} {v v' : Vt} (ha : v.terminal.activeBufferType = .alternate)
    (hf : ∀ f ∈ emitted v.parser s, endsExcursion f = false) (h : v.feedAll s = some v') :
    fr v'.terminal = fr v.terminal := by
  induction s generalizing v with
  | nil => simp only [Vt.feedAll, Option.some.injEq] at h; subst h; rfl
  | cons c cs ih =>
    unfold Vt.feedAll at h
    split at h
    · rename_i v1 h1
      unfold Vt.feed at h1
      cases hp : v.parser.feed c with
      | none => simp [hp] at h1
      | some pf =>
        obtain ⟨p, fo⟩ := pf
        cases fo with
        | none =>
          simp only [hp, Option.some.injEq] at h1
          subst h1
          exact ih (v := { v with parser := p }) ha (by simpa [emitted, hp] using hf) h
        | some f =>
          simp only [hp, Option.map_eq_some_iff] at h1
          obtain ⟨t1, ht1, rfl⟩ := h1
          have hf' : endsExcursion f = false ∧ ∀ g ∈ emitted p cs, endsExcursion g = false := by
            simpa [emitted, hp] using hf
          have e1 := fr_execute ha hf'.1 ht1
          have ha1 : t1.activeBufferType = .alternate := by rw [(fr_parts e1).2.2]; exact ha
          rw [ih (v := { parser := p, terminal := t1 }) ha1 hf'.2 h]
          exact e1
    · simp at h

theorem fr_feedStr {s : List Nat} {v v' : Vt} {ch : Changes} (ha : v.terminal.activeBufferType = .alternate)
    (hf : ∀ f ∈ emitted v.parser s, endsExcursion f = false) (h : v.feedStr s = some (v', ch)) :
    fr v'.terminal = fr v.terminal := by
  unfold Vt.feedStr at h
  simp only [Option.map_eq_some_iff] at h
  obtain ⟨v1, h1, e⟩ := h
  have : v' = v1.finish.1 := by rw [e]
  rw [this, fr_finish, fr_feedAll ha hf h1]

theorem fr_vtResize {v v' : Vt} {c r : Nat} {ch : Changes} (h : v.resize c r = some (v', ch)) :
    fr v'.terminal = fr v.terminal := by
  unfold Vt.resize at h
  simp only [Option.map_eq_some_iff] at h
  obtain ⟨t1, h1, e⟩ := h
  have : v' = (Vt.finish { v with terminal := t1 }).1 := by rw [e]
  rw [this, fr_finish]
  exact fr_resize h1

end Avt.C16
